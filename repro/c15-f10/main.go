// Reproducer for C15 / N.sorted.codec observation: rNode.valid accepts a 0xFD
// "Codec Element" whose DRange is NOT empty (the emptiness test looks at the
// TTag of the NEXT element), and 0xFD elements are exempt from CPtr <= CPtrMax,
// so ChunkReader.NextChunk yields, with err == nil, a chunk whose primary
// compressed range has low > high and lies outside the file.
package main

import (
	"bytes"
	"fmt"
	"hash/crc32"

	"github.com/google/wuffs/lib/rac"
)

func main() {
	b := make([]byte, 48)
	b[0], b[1], b[2], b[3] = 0x72, 0xC3, 0x63, 2 // magic, arity 2
	b[7] = 0xFD                                 // TTag[0]: Codec Element (no child)
	b[8] = 5                                    // DPtr[1] = 5  => element 0 has DRange [0,5): not empty
	b[15] = 0xFF                                // TTag[1]: leaf
	b[16] = 10                                  // DPtrMax = 10
	b[23] = 0x01                                // codec byte: short codec 1 (zlib)
	for i := 24; i < 30; i++ {
		b[i] = 0xFF // CPtr[0] = 0xFFFFFFFFFFFF  (> CPtrMax, allowed for 0xFD elements)
	}
	b[31] = 0xFF // STag[0]
	b[32] = 48   // CPtr[1] = 48
	b[39] = 0xFF // STag[1]
	b[40] = 48   // CPtrMax = 48 = CFileSize
	b[46] = 1    // version
	b[47] = 2    // arity, again
	c := crc32.ChecksumIEEE(b[6:48])
	c ^= c >> 16
	b[4], b[5] = uint8(c), uint8(c>>8)
	fmt.Printf("file (%d bytes): % X\n", len(b), b)
	r := &rac.ChunkReader{ReadSeeker: bytes.NewReader(b), CompressedSize: int64(len(b))}
	for i := 0; i < 3; i++ {
		ch, err := r.NextChunk()
		fmt.Printf("NextChunk #%d: %+v err=%v\n", i, ch, err)
		if err == nil && (ch.CPrimary[0] > ch.CPrimary[1] || ch.CPrimary[1] > int64(len(b))) {
			fmt.Println("  ^^ malformed primary range yielded without error")
		}
	}
}
