module c15repro3

go 1.23

require github.com/google/wuffs v0.0.0

replace github.com/google/wuffs => /repo
