package main

import (
	"bytes"
	"fmt"

	"github.com/google/wuffs/lib/rac"
)

func main() {
	// 48 bytes: magic at the start, arity byte 0 at the start (=> look at the
	// end), last byte says arity 2; the 48-byte "node" at the end is garbage
	// (bad checksum), so there is no root node.
	b := make([]byte, 64)
	b[0], b[1], b[2], b[3] = 0x72, 0xC3, 0x63, 0x00 // magic, arity 0 => root is not at the start
	n := b[32:]                                     // "node" at the end: arity 1, but no magic / bad checksum => invalid
	n[3] = 1
	n[8] = 5     // "DPtrMax" = 5
	n[16] = 0xEE // "CPtr[0]" = 0xEEEE_EEEE_EEEE: far outside the 64-byte file
	n[17], n[18], n[19], n[20], n[21] = 0xEE, 0xEE, 0xEE, 0xEE, 0xEE
	n[24] = 0x10 // "CPtrMax" = 16 < CPtr[0]
	n[31] = 1
	r := &rac.ChunkReader{ReadSeeker: bytes.NewReader(b), CompressedSize: int64(len(b))}
	for i := 0; i < 4; i++ {
		c, err := r.NextChunk()
		fmt.Printf("call %d: chunk=%+v err=%v\n", i, c, err)
	}
}
