// Reproducer for C11 / F2: lang/parse has no nesting limit.
//
// usage: go run . [-shape paren|unary|list|elseif|block|type|chain|call|index] [-n N] [-check]
//
// Builds a Wuffs source with N levels of nesting of the given shape, then runs
// token.Tokenize and parse.Parse (and check.Check with -check) under recover().
// On the unchanged /repo tree shape=paren with N=3000000 ends in
// "fatal error: stack overflow" (exit status 2, not recoverable); with
// fix-c11.patch applied it prints an ordinary parse error and exits 0.
package main

import (
	"flag"
	"fmt"
	"os"
	"runtime/debug"
	"strings"

	"github.com/google/wuffs/lang/check"
	"github.com/google/wuffs/lang/parse"
	"github.com/google/wuffs/lang/token"

	a "github.com/google/wuffs/lang/ast"
)

func source(shape string, n int) string {
	rep := strings.Repeat
	head := "pub struct foo?(a: base.u32)\npub func foo.bar!(x: base.u32) base.u32 {\n"
	switch shape {
	case "paren":
		return head + "return " + rep("(", n) + "args.x" + rep(")", n) + "\n}\n"
	case "unary":
		return head + "return " + rep("- ", n) + "args.x\n}\n"
	case "call":
		return head + "return " + rep("f(a: ", n) + "args.x" + rep(")", n) + "\n}\n"
	case "index":
		return head + "return " + rep("a[", n) + "args.x" + rep("]", n) + "\n}\n"
	case "chain":
		return head + "return args" + rep(".x", n) + "\n}\n"
	case "elseif":
		return head + "if true {\n}" + rep(" else if true {\n}", n) + "\nreturn 0\n}\n"
	case "block":
		return head + rep("if true {\n", n) + rep("}\n", n) + "return 0\n}\n"
	case "iterelse":
		return "pub struct foo?(a: base.u32)\npub func foo.bar!(x: slice base.u8) {\n" +
			"iterate (s = args.x)(length: 1, advance: 1, unroll: 1) {\n}" +
			rep(" else (length: 1, advance: 1, unroll: 1) {\n}", n) + "\n}\n"
	case "type":
		return "pub struct foo?(a: " + rep("ptr ", n) + "base.u32)\n"
	case "list":
		return "pri const X : roarray[1] base.u8 = " + rep("[", n) + "0" + rep("]", n) + "\n"
	case "structchain":
		// s0 has a field of type s1, s1 of s2, …: ast.tssVisit recurses once per struct.
		var b strings.Builder
		for i := 0; i < n; i++ {
			fmt.Fprintf(&b, "pri struct s%d(f: s%d)\n", i, i+1)
		}
		fmt.Fprintf(&b, "pri struct s%d(f: base.u8)\n", n)
		return b.String()
	case "funcchain":
		// f0 calls f1 calls f2 …: check.checkNoRecursiveFuncs1 recurses once per function.
		var b strings.Builder
		b.WriteString("pub struct foo?(a: base.u32)\n")
		for i := 0; i < n; i++ {
			fmt.Fprintf(&b, "pri func foo.f%d!() {this.f%d!();};", i, i+1)
		}
		fmt.Fprintf(&b, "pri func foo.f%d!() {\n}\n", n)
		return b.String()
	case "bigand":
		// x & (huge ideal constant): lib/interval bitFillRight / bitMask panic on > 0xFFFF bits?
		big := "0x" + rep("F", 1000)
		e := big
		for i := 0; i < n; i++ {
			e = "(" + e + " * " + big + ")"
		}
		return head + "return args.x & (" + e + ")\n}\n"
	case "bigor":
		big := "0x" + rep("F", 1000)
		e := big
		for i := 0; i < n; i++ {
			e = "(" + e + " * " + big + ")"
		}
		return head + "return args.x | (" + e + ")\n}\n"
	case "refine":
		// type refinement inside an `as` inside an array length, …
		return head + "return " + rep("(0 as base.u32[..= ", n) + "1" + rep("])", n) + "\n}\n"
	}
	fmt.Fprintf(os.Stderr, "unknown shape %q\n", shape)
	os.Exit(3)
	return ""
}

func main() {
	shape := flag.String("shape", "paren", "nesting shape")
	n := flag.Int("n", 3000000, "nesting depth")
	doCheck := flag.Bool("check", false, "also run check.Check")
	file := flag.String("file", "", "read the Wuffs source from this file instead of generating it")
	maxStack := flag.Int("maxstack", 0, "debug.SetMaxStack bytes (0: default 1 GB)")
	flag.Parse()
	if *maxStack > 0 {
		debug.SetMaxStack(*maxStack)
	}
	src := ""
	if *file != "" {
		b, err := os.ReadFile(*file)
		if err != nil {
			fmt.Fprintln(os.Stderr, err)
			os.Exit(3)
		}
		src, *shape, *n = string(b), "file:"+*file, 0
	} else {
		src = source(*shape, *n)
	}
	fmt.Printf("shape=%s n=%d source=%d bytes (MaxExprDepth=%d MaxTypeExprDepth=%d MaxBodyDepth=%d)\n",
		*shape, *n, len(src), a.MaxExprDepth, a.MaxTypeExprDepth, a.MaxBodyDepth)
	defer func() {
		if r := recover(); r != nil {
			fmt.Printf("RECOVERED PANIC: %v\n", r)
			os.Exit(4)
		}
	}()
	tm := &token.Map{}
	toks, _, err := token.Tokenize(tm, "deep.wuffs", []byte(src))
	if err != nil {
		fmt.Printf("tokenize: ordinary error: %v\n", err)
		return
	}
	fmt.Printf("tokenize: ok, %d tokens\n", len(toks))
	f, err := parse.Parse(tm, "deep.wuffs", toks, nil)
	if err != nil {
		fmt.Printf("parse: ordinary error: %v\n", err)
		return
	}
	fmt.Printf("parse: ok\n")
	if *doCheck {
		_, err := check.Check(tm, []*a.File{f}, nil)
		if err != nil {
			s := err.Error()
			if len(s) > 300 {
				s = s[:300] + "…"
			}
			fmt.Printf("check: ordinary error: %s\n", s)
			return
		}
		fmt.Printf("check: ok\n")
	}
}
