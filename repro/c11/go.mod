module c11repro

go 1.16

require github.com/google/wuffs v0.0.0

replace github.com/google/wuffs => /repo
