#!/bin/bash
# usage: ./run.sh [repo|patched] [repro flags…]
#   repo    : build the reproducer against the unchanged /repo (default)
#   patched : copy /repo's Go sources to a temp dir, apply ../fix-c11.patch and
#             ../fix-c11-slicelen.patch and ../fix-c11-callchain.patch, build against that copy
# Examples:
#   ./run.sh repo                      # 3,000,000 nested parentheses: fatal error: stack overflow (exit 2)
#   ./run.sh patched                   # parse: ordinary error: … expression recursion depth too large
#   ./run.sh repo -file slicelen.wuffs -check     # RECOVERED PANIC (exit 4)
#   ./run.sh patched -file slicelen.wuffs -check  # check: ok
set -eu
here="$(cd "$(dirname "$0")" && pwd)"
export GOFLAGS=-mod=mod GOPROXY=off GOSUMDB=off GOTOOLCHAIN=local GOWORK=off
mode="${1:-repo}"; shift || true
tmp="$(mktemp -d)"; trap 'rm -rf "$tmp"' EXIT
root=/repo
if [ "$mode" = patched ]; then
  root="$tmp/root"; mkdir -p "$root"
  cp -r /repo/lang /repo/lib /repo/internal /repo/go.mod /repo/go.sum "$root/"
  for p in "$here/../fix-c11.patch" "$here/../fix-c11-slicelen.patch" "$here/../fix-c11-callchain.patch"; do
    [ -f "$p" ] && patch -s -p1 -d "$root" < "$p"
  done
fi
mkdir -p "$tmp/h"; cp "$here/main.go" "$tmp/h/"; cp /repo/go.sum "$tmp/h/"
cat > "$tmp/h/go.mod" <<EOM
module c11repro

go 1.16

require github.com/google/wuffs v0.0.0

replace github.com/google/wuffs => $root
EOM
(cd "$tmp/h" && go build -o "$tmp/repro" .)
cd "$here"
set +e
"$tmp/repro" "$@" 2>&1 | grep -E "^(shape|tokenize|parse|check|fatal error|RECOVERED|panic|runtime: goroutine stack)" | cut -c1-240
echo "exit status: ${PIPESTATUS[0]}"
