// Reproducer for C13 rule S1 finding: rac.ChunkWriter.Close does not store the
// I/O error of its empty-file write (`w.Writer.Write(emptyRACFile[:])`) in
// ChunkWriter.err, so the failure does not stay reported: a second Close
// returns nil although the output is not a valid RAC file.
package main

import (
	"bytes"
	"errors"
	"fmt"
	"os"

	"github.com/google/wuffs/lib/rac"
)

// flaky fails its first Write after accepting 10 bytes (a short write, as a
// full disk or a broken pipe produces), and succeeds afterwards.
type flaky struct {
	buf   bytes.Buffer
	calls int
}

func (f *flaky) Write(p []byte) (int, error) {
	f.calls++
	if f.calls == 1 {
		f.buf.Write(p[:10])
		return 10, errors.New("disk full")
	}
	return f.buf.Write(p)
}

func main() {
	f := &flaky{}
	w := &rac.ChunkWriter{Writer: f}
	err1 := w.Close()
	err2 := w.Close()
	fmt.Printf("first  Close: %v\nsecond Close: %v\noutput: %d bytes\n", err1, err2, f.buf.Len())
	r := &rac.ChunkReader{ReadSeeker: bytes.NewReader(f.buf.Bytes()), CompressedSize: int64(f.buf.Len())}
	_, rerr := r.DecompressedSize()
	fmt.Printf("reading the output back: %v\n", rerr)
	if err1 != nil && err2 == nil {
		fmt.Println("DEFECT: the underlying writer failed, the failure was reported once and then forgotten; Close returned nil for a file that is not a valid RAC file")
		os.Exit(1)
	}
	fmt.Println("ok: failure stayed reported")
}
