// Side observation (not claimed by any C13 rule): rac.Writer.Close calls
// w.CodecWriter.Close() unconditionally, so a Writer with a nil CodecWriter
// (reported by initialize as errInvalidCodecWriter) panics in Close.
package main

import (
	"bytes"
	"fmt"

	"github.com/google/wuffs/lib/rac"
)

func main() {
	defer func() { fmt.Println("recovered:", recover()) }()
	w := &rac.Writer{Writer: &bytes.Buffer{}}
	_, err := w.Write([]byte("x"))
	fmt.Println("Write:", err)
	fmt.Println("Close:", w.Close())
}
