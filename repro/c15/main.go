// Reproducer for C15 / F3: rac.ChunkReader does not implement the RAC
// specification's anti-loop rule ("Search Within a Branch Node": a child branch
// node must have a smaller Branch COffset or a smaller DPtrMax than its
// parent). A 32-byte file whose root node lists itself as its only branch
// child makes ChunkReader.NextChunk spin forever in resolveSeekPosition.
//
//	go run .          # against the tree named by the replace directive in go.mod
//
// Exit status: 0 = NextChunk returned (with an error, as it must for this
// file), 3 = NextChunk did not return within the timeout (the defect).
package main

import (
	"bytes"
	"fmt"
	"hash/crc32"
	"os"
	"time"

	"github.com/google/wuffs/lib/rac"
)

func hostileFile() []byte {
	b := make([]byte, 32)
	b[0], b[1], b[2] = 0x72, 0xC3, 0x63 // magic
	b[3] = 1                            // arity
	b[7] = 0xFE                         // TTag[0]: child 0 is a branch node
	b[8] = 1                            // DPtrMax = 1
	b[15] = 0x01                        // codec byte: short codec 0x01 (zlib)
	// b[16..21]: CPtr[0] = 0  -> the child branch node is at COffset 0: the root itself
	b[23] = 0xFF // STag[0]: no CBias change
	b[24] = 32   // CPtrMax = 32 = CFileSize
	b[30] = 1    // version
	b[31] = 1    // arity, again
	c := crc32.ChecksumIEEE(b[6:32])
	c ^= c >> 16
	b[4], b[5] = uint8(c>>0), uint8(c>>8)
	return b
}

func main() {
	b := hostileFile()
	fmt.Printf("file (%d bytes): % X\n", len(b), b)
	r := &rac.ChunkReader{ReadSeeker: bytes.NewReader(b), CompressedSize: int64(len(b))}
	n, err := r.DecompressedSize()
	fmt.Printf("DecompressedSize() = %d, %v   (the root node is accepted as valid)\n", n, err)
	type res struct {
		c   rac.Chunk
		err error
	}
	done := make(chan res, 1)
	go func() {
		c, err := r.NextChunk()
		done <- res{c, err}
	}()
	timeout := 3 * time.Second
	select {
	case x := <-done:
		fmt.Printf("NextChunk() returned: chunk=%+v err=%v\n", x.c, x.err)
		if x.err == nil {
			fmt.Println("UNEXPECTED: a chunk was produced from a self-referential index")
			os.Exit(4)
		}
		fmt.Println("OK: the self-referential branch node was rejected")
	case <-time.After(timeout):
		fmt.Printf("HANG: NextChunk() did not return within %v (infinite descent in resolveSeekPosition)\n", timeout)
		os.Exit(3)
	}
}
