#!/usr/bin/env python3
"""Mutation self-test of the checkers.

For each mutant recipe (selftest/mutants/*.json): apply a small textual edit
to a scratch copy of /repo (never /repo itself), make sure the edited package
still builds (and, with --tests, that the package's own tests still pass),
run the owning check against the scratch copy (WV_REPO) and require exit 1
with the expected rule named; recipes of kind "benign" must leave the check
silent. The scratch copy lives outside /repo and /verif and is removed at the
end.

usage: selftest/run.py [--tests] [--keep] [--only SUBSTR] [--prop Cxx]
"""
import json, os, shutil, subprocess, sys, glob, tempfile, time

VERIF = os.path.dirname(os.path.dirname(os.path.abspath(__file__)))
REPO = os.environ.get("WV_REPO_SRC", "/repo")
ENV = dict(os.environ, GOFLAGS="-mod=mod", GOPROXY="off", GOSUMDB="off", GOTOOLCHAIN="local", GOWORK="off")
COPY = ["go.mod", "go.sum", "cmd", "lang", "lib", "internal", "std", "wuffs-root-directory.txt", "release", "doc"]


def sh(cmd, cwd=None, env=None, timeout=1200):
    p = subprocess.run(cmd, cwd=cwd, env=env or ENV, shell=isinstance(cmd, str), stdout=subprocess.PIPE, stderr=subprocess.STDOUT, text=True, timeout=timeout)
    return p.returncode, p.stdout


def main():
    args = sys.argv[1:]
    tests = "--tests" in args
    keep = "--keep" in args
    only = args[args.index("--only") + 1] if "--only" in args else None
    prop = args[args.index("--prop") + 1] if "--prop" in args else None
    rc, out = sh("cd %s/wv && go build -o ../bin/wv ." % VERIF)
    if rc != 0:
        print(out)
        sys.exit(2)
    scratch = tempfile.mkdtemp(prefix="wvmut-")
    root = os.path.join(scratch, "repo")
    os.makedirs(root)
    for c in COPY:
        src = os.path.join(REPO, c)
        if os.path.isdir(src):
            shutil.copytree(src, os.path.join(root, c), symlinks=True)
        elif os.path.exists(src):
            shutil.copy2(src, os.path.join(root, c))
    # package tests read ../../test/data: link (read-only use) rather than copy
    if os.path.isdir(os.path.join(REPO, "test")) and not os.path.exists(os.path.join(root, "test")):
        os.symlink(os.path.join(REPO, "test"), os.path.join(root, "test"))
    recipes = []
    for f in sorted(glob.glob(os.path.join(VERIF, "selftest", "mutants", "*.json"))):
        for r in json.load(open(f)):
            r["_file"] = os.path.basename(f)
            recipes.append(r)
    results = []
    bad = 0
    try:
        for r in recipes:
            name = r["id"]
            if only and only not in name:
                continue
            if prop and r["property"] != prop:
                continue
            saved = {}
            okapply = True
            for ed in r["edits"]:
                path = os.path.join(root, ed["file"])
                s = open(path).read()
                saved.setdefault(path, s)
                cnt = s.count(ed["old"])
                want = ed.get("count", 1)
                if cnt != want:
                    print("RECIPE-STALE %s: %r occurs %d times in %s (want %d)" % (name, ed["old"][:60], cnt, ed["file"], want))
                    okapply = False
                    break
                s = s.replace(ed["old"], ed["new"])
                open(path, "w").write(s)
            status = "?"
            detail = ""
            if okapply:
                pkgs = r.get("build", [])
                envr = dict(ENV, GOFLAGS="-mod=mod")
                for p in pkgs:
                    rc, out = sh(["go", "build", p], cwd=root, env=envr)
                    if rc != 0:
                        status, detail = "NOBUILD", out[-400:]
                        break
                if status == "?" and tests:
                    for p in r.get("test", pkgs):
                        rc, out = sh(["go", "test", "-count=1", p], cwd=root, env=envr)
                        if rc != 0:
                            status, detail = "TESTFAIL", out[-400:]
                            break
                if status == "?":
                    t0 = time.time()
                    rc, out = sh([os.path.join(VERIF, "bin", "wv"), "check", r["property"], "--tier", r.get("tier", "quick")], cwd=VERIF,
                                 env=dict(ENV, WV_REPO=root, WV_HOME=VERIF, WV_VERIF=os.path.join(scratch, "verif-out")))
                    dt = time.time() - t0
                    viol = [l for l in out.splitlines() if l.startswith("FAIL[")]
                    if r.get("kind", "mutant") == "benign":
                        if rc == 0:
                            status = "OK-silent"
                        else:
                            status, detail = "FALSE-ALARM", "\n".join(viol[:5])
                    else:
                        exp = r.get("expect_rule", "")
                        hit = [l for l in viol if ("rule=" + exp) in l]
                        if rc == 1 and hit:
                            status = "OK-caught"
                            detail = hit[0][:200]
                        elif rc == 1:
                            status, detail = "CAUGHT-OTHER", "\n".join(viol[:3])
                        elif rc == 0:
                            status = "MISSED"
                        else:
                            status, detail = "INFRA(rc=%d)" % rc, out[-400:]
                    detail += "  (%.1fs)" % dt
            else:
                status = "STALE"
            for path, s in saved.items():
                open(path, "w").write(s)
            if not status.startswith("OK"):
                bad += 1
            print("%-12s %-4s %-40s %s" % (status, r["property"], name, detail.replace("\n", "\n      ")))
            sys.stdout.flush()
            results.append({"id": name, "property": r["property"], "status": status})
    finally:
        if not keep:
            shutil.rmtree(scratch, ignore_errors=True)
        else:
            print("scratch kept at", scratch)
    json.dump(results, open(os.path.join(VERIF, "selftest", "last-results.json"), "w"), indent=1)
    print("%d recipes, %d not OK" % (len(results), bad))
    sys.exit(1 if bad else 0)


if __name__ == "__main__":
    main()
