#!/usr/bin/env python3
"""Re-run the checks against every archived seeded change (seeded/<id>/patch.diff).

For each seed: apply its patch to a scratch copy of /repo's current sources
(never /repo itself), run the owning property's check (plus any extra checks
named in EXTRA) with WV_REPO pointing at the scratch copy, record which rules
fire, undo the patch. Writes seeded/<id>/meta.json["caught_by_now"] and prints
one line per seed. The scratch copy lives under /tmp and is removed at the end.

usage: selftest/seedall.py [--only SUBSTR] [--jobs N]
"""
import json, os, shutil, subprocess, sys, glob, tempfile, re
from concurrent.futures import ThreadPoolExecutor

VERIF = os.path.dirname(os.path.dirname(os.path.abspath(__file__)))
REPO = "/repo"
ENV = dict(os.environ, GOFLAGS="-mod=mod", GOPROXY="off", GOSUMDB="off", GOTOOLCHAIN="local", GOWORK="off")
COPY = ["go.mod", "go.sum", "cmd", "lang", "lib", "internal", "std", "wuffs-root-directory.txt", "release", "doc"]
# property -> other checks that evaluate the same mechanism
EXTRA = {"C01": ["C02", "C08"], "C02": ["C01"], "C03": ["C20"], "C04": ["C20", "C05"], "C05": ["C04"], "C07": ["C20"], "C09": ["C20"],
         "C13": ["C15"], "C14": ["C15"], "C15": ["C13"]}


def sh(cmd, cwd=None, env=None, timeout=3600):
    p = subprocess.run(cmd, cwd=cwd, env=env or ENV, shell=isinstance(cmd, str), stdout=subprocess.PIPE, stderr=subprocess.STDOUT, text=True, timeout=timeout)
    return p.returncode, p.stdout


def mkroot(scratch, n):
    root = os.path.join(scratch, "repo%d" % n)
    os.makedirs(root)
    for c in COPY:
        src = os.path.join(REPO, c)
        if os.path.isdir(src):
            shutil.copytree(src, os.path.join(root, c), symlinks=True)
        elif os.path.exists(src):
            shutil.copy2(src, os.path.join(root, c))
    os.symlink(os.path.join(REPO, "test"), os.path.join(root, "test"))
    return root


def one(seed_dir, root, outdir):
    name = os.path.basename(seed_dir)
    meta = json.load(open(os.path.join(seed_dir, "meta.json")))
    prop = meta["property"]
    patch = os.path.join(seed_dir, "patch.diff")
    files = re.findall(r"^\+\+\+ b/(\S+)", open(patch).read(), re.M)
    saved = {}
    for f in files:
        p = os.path.join(root, f)
        saved[p] = open(p, "rb").read() if os.path.exists(p) else None
    rc, out = sh(["patch", "-p1", "-s", "-f", "--no-backup-if-mismatch", "-i", patch], cwd=root)
    res = {"seed": name, "property": prop}
    if rc != 0:
        res["apply"] = "FAILED: " + out[-300:]
    else:
        fired = []
        # also every check that reported it when it was archived
        first = sorted({x.split(":")[0] for x in meta.get("caught_by", []) if ":" in x})
        chks = [prop] + [x for x in EXTRA.get(prop, []) + first if x != prop]
        for chk in list(dict.fromkeys(chks)):
            rc, out = sh([os.path.join(VERIF, "bin", "wv"), "check", chk, "--tier", "quick"], cwd=VERIF,
                         env=dict(ENV, WV_REPO=root, WV_HOME=VERIF, WV_VERIF=os.path.join(outdir, name)))
            if rc not in (0, 1):
                fired.append(chk + ":INFRA(rc=%d)" % rc)
            for l in out.splitlines():
                m = re.match(r"FAIL\[\w+\]: property=(\w+) rule=(\S+) ", l)
                if m:
                    fired.append(m.group(1) + ":" + m.group(2))
        res["caught_by_now"] = sorted(set(fired))
    for p, b in saved.items():
        if b is None:
            if os.path.exists(p):
                os.remove(p)
        else:
            open(p, "wb").write(b)
    for p in glob.glob(os.path.join(root, "**", "*.rej"), recursive=True) + glob.glob(os.path.join(root, "**", "*.orig"), recursive=True):
        os.remove(p)
    return res


def main():
    args = sys.argv[1:]
    only = args[args.index("--only") + 1] if "--only" in args else None
    jobs = int(args[args.index("--jobs") + 1]) if "--jobs" in args else 4
    rc, out = sh("cd %s/wv && go build -o ../bin/wv ." % VERIF)
    if rc != 0:
        print(out)
        sys.exit(2)
    seeds = [d for d in sorted(glob.glob(os.path.join(VERIF, "seeded", "C*"))) if not only or only in os.path.basename(d)]
    scratch = tempfile.mkdtemp(prefix="wvseed-")
    try:
        roots = [mkroot(scratch, i) for i in range(jobs)]
        buckets = [seeds[i::jobs] for i in range(jobs)]

        def work(i):
            out = []
            for s in buckets[i]:
                r = one(s, roots[i], os.path.join(scratch, "out"))
                print("%-7s %-4s %s" % (r["seed"], r["property"], r.get("apply") or ", ".join(r["caught_by_now"]) or "MISSED"), flush=True)
                out.append(r)
            return out
        with ThreadPoolExecutor(jobs) as ex:
            results = [r for rs in ex.map(work, range(jobs)) for r in rs]
    finally:
        shutil.rmtree(scratch, ignore_errors=True)
    for r in results:
        if "caught_by_now" in r:
            mp = os.path.join(VERIF, "seeded", r["seed"], "meta.json")
            m = json.load(open(mp))
            m["caught_by_now"] = r["caught_by_now"]
            json.dump(m, open(mp, "w"), indent=1)
    n = len([r for r in results if r.get("caught_by_now")])
    print("%d seeds, %d caught by at least one rule, %d missed, %d patch failures" % (
        len(results), n, len([r for r in results if r.get("caught_by_now") == []]), len([r for r in results if "apply" in r])))


if __name__ == "__main__":
    main()
