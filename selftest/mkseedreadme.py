#!/usr/bin/env python3
"""Regenerates seeded/README.md from seeded/*/meta.json (first-run verdict = caught_by, current = caught_by_now from selftest/seedall.py)."""
import json, glob, os, re
VERIF = os.path.dirname(os.path.dirname(os.path.abspath(__file__)))
HEAD = '''# Independently seeded breaking changes

Each directory holds a change written by a fresh sub-agent that was given only
the text of one property and a private worktree (nothing from /verif):
`patch.diff`, `demo/` (fails with the patch, passes without) and `meta.json`
(what it breaks, what it needs to manifest, what I ran to confirm it, which
rules fire). Every change compiles and passes the 95-test suite; I confirmed
that and both demo outcomes myself with `selftest/seedcheck.py` /
`selftest/archive_seed.py`. Four rounds: `-1/-2` (rounds 1 and 2), `-3/-4` (round 3), `-5/-6` (round 4).

`first run` is the verdict of the checks as they were when the change
arrived (rule ids of the property's own check and of sibling checks);
`now` is the verdict of the current checks, re-computed for every archived
change by `selftest/seedall.py` (patch applied to a scratch copy of /repo's
current sources). Rules added because of a miss are genuine necessary
conditions of the property (violating them breaks the behaviour), not matches
on the seeded text; each has benign recipes in `selftest/mutants/`.
`missed` rows are value-level changes for which no sound structural rule was
found: they delimit what this family of technique does not reach.

| id | change (needs … to manifest) | first run | now |
|----|----|----|----|
'''
rows = []
stats = {"n": 0, "first": 0, "first_own": 0, "now": 0}
def short(s, n):
    s = re.sub(r"\s+", " ", s).strip().replace("|", "/")
    return s if len(s) <= n else s[:n - 1].rsplit(" ", 1)[0] + "…"
def key(d):
    b = os.path.basename(d); p, k = b.split("-"); return (p, int(k))
for d in sorted(glob.glob(os.path.join(VERIF, "seeded", "C*")), key=key):
    m = json.load(open(os.path.join(d, "meta.json")))
    name = os.path.basename(d)
    first = m.get("caught_by", [])
    now = m.get("caught_by_now", first)
    prop = m["property"]
    stats["n"] += 1
    stats["first"] += 1 if first else 0
    stats["first_own"] += 1 if any(x.startswith(prop + ":") for x in first) else 0
    stats["now"] += 1 if now else 0
    def fmt(l):
        if not l:
            return "**missed**"
        rules = sorted({x.split("@")[0] for x in l})
        own = [r for r in rules if r.startswith(prop + ":")]
        oth = [r for r in rules if not r.startswith(prop + ":")]
        s = ", ".join("`%s`" % r for r in (own + oth)[:4])
        if len(rules) > 4:
            s += " …"
        return s
    rows.append("| %s | %s (needs: %s) | %s | %s |" % (name, short(m["what_it_breaks"], 230), short(m["needs_to_manifest"], 170), fmt(first), fmt(now)))
tail = "\nTotals: %d changes; caught at first run by some check: %d (by the property's own check: %d); caught now: %d; still missed: %d.\n" % (
    stats["n"], stats["first"], stats["first_own"], stats["now"], stats["n"] - stats["now"])
tail += "\nNote: demo/go.mod files (and run.sh scripts) refer to the seeding worktree /tmp/seed*-cNN, which is removed after confirmation; to re-run a demo, create a worktree (git -C /repo worktree add --detach /tmp/seedN-cNN HEAD), apply patch.diff there, and run the demo as its meta.json says.\n"
open(os.path.join(VERIF, "seeded", "README.md"), "w").write(HEAD + "\n".join(rows) + "\n" + tail)
print(tail)
