#!/usr/bin/env python3
"""Confirm an independently seeded change and run the checks against it.

usage: selftest/seedcheck.py <worktree> <seed-dir> <property> [more properties…]

<seed-dir> holds patch.diff, demo/ and meta.json as written by a seeding
sub-agent. Steps (all in the sub-agent's own worktree, never in /repo):
  1. git apply patch.diff; go build ./...; go test ./... (must pass)
  2. run the demonstration with the patch (must fail) …
  3. … run every named check with WV_REPO=<worktree> (patched) and record rule ids
  4. git checkout -- . ; run the demonstration without the patch (must pass)
Prints one JSON line with the verdicts.
"""
import json, os, subprocess, sys

VERIF = os.path.dirname(os.path.dirname(os.path.abspath(__file__)))
ENVR = dict(os.environ, GOFLAGS="-mod=readonly", GOPROXY="off", GOSUMDB="off", GOTOOLCHAIN="local", GOWORK="off")
ENVM = dict(os.environ, GOFLAGS="-mod=mod", GOPROXY="off", GOSUMDB="off", GOTOOLCHAIN="local", GOWORK="off")


def sh(cmd, cwd, env, timeout=1800):
    try:
        p = subprocess.run(cmd, cwd=cwd, env=env, shell=isinstance(cmd, str), stdout=subprocess.PIPE, stderr=subprocess.STDOUT, text=True, timeout=timeout)
        return p.returncode, p.stdout
    except subprocess.TimeoutExpired as e:
        return 124, "TIMEOUT\n" + (e.stdout or "")


def run_demo(seed):
    demo = os.path.join(seed, "demo")
    if os.path.exists(os.path.join(demo, "run.sh")):
        return sh("bash run.sh", demo, ENVM, 900)
    if os.path.exists(os.path.join(demo, "main.go")):
        return sh("go run .", demo, ENVM, 900)
    tests = [f for f in os.listdir(demo) if f.endswith("_test.go")]
    if tests:
        return sh("go test -count=1 ./...", demo, ENVM, 900)
    return 2, "no recognised demo entry point"


def main():
    wt, seed, props = sys.argv[1], sys.argv[2], sys.argv[3:]
    res = {"seed": seed}
    sh("git checkout -- . && git clean -fdq", wt, ENVR)
    rc, out = sh("git apply " + os.path.join(seed, "patch.diff"), wt, ENVR)
    if rc != 0:
        res["apply"] = out[-300:]
        print(json.dumps(res))
        return
    rc, out = sh("go build ./... && go test -vet=off -count=1 ./...", wt, ENVR)
    res["build_and_tests_pass"] = rc == 0
    if rc != 0:
        res["test_output"] = out[-600:]
    rc, out = run_demo(seed)
    res["demo_with_patch_fails"] = rc != 0 or "MISBEHAVES" in out
    res["demo_with_patch_tail"] = out[-300:]
    sh("cd %s/wv && go build -o ../bin/wv ." % VERIF, VERIF, ENVM)
    checks = {}
    for p in props:
        rc, out = sh([os.path.join(VERIF, "bin", "wv"), "check", p, "--tier", "quick"], VERIF,
                     dict(ENVM, WV_REPO=wt, WV_HOME=VERIF, WV_VERIF="/tmp/seedcheck-out"))
        rules = sorted(set(l.split("rule=")[1].split(" ")[0] + "@" + l.split("anchor=")[1][:70] for l in out.splitlines() if l.startswith("FAIL[")))
        checks[p] = {"exit": rc, "rules": rules[:6]}
    res["checks"] = checks
    sh("git checkout -- . && git clean -fdq", wt, ENVR)
    rc, out = run_demo(seed)
    res["demo_without_patch_passes"] = rc == 0 and "MISBEHAVES" not in out
    if not res["demo_without_patch_passes"]:
        res["demo_without_patch_tail"] = out[-300:]
    print(json.dumps(res, indent=1))


if __name__ == "__main__":
    main()
