#!/usr/bin/env python3
"""archive_seed.py <worktree> <seedout-dir> <name> <property> [check ids…]
Runs seedcheck and, if the change is confirmed (builds, passes the suite, demo fails with / passes without),
copies patch.diff + demo/ + meta.json to /verif/seeded/<name>/ and records what was run and which rules fired."""
import json, os, shutil, subprocess, sys
VERIF = os.path.dirname(os.path.dirname(os.path.abspath(__file__)))
wt, seed, name, prop, checks = sys.argv[1], sys.argv[2], sys.argv[3], sys.argv[4], sys.argv[5:] or [sys.argv[4]]
out = subprocess.run([sys.executable, os.path.join(VERIF, "selftest", "seedcheck.py"), wt, seed] + checks, stdout=subprocess.PIPE, text=True).stdout
r = json.loads(out)
ok = r.get("build_and_tests_pass") and r.get("demo_with_patch_fails") and r.get("demo_without_patch_passes")
print(name, "confirmed" if ok else "NOT CONFIRMED", {k: v["rules"] for k, v in r.get("checks", {}).items()})
if not ok:
    print(out)
    sys.exit(1)
dst = os.path.join(VERIF, "seeded", name)
shutil.rmtree(dst, ignore_errors=True)
os.makedirs(dst)
shutil.copy(os.path.join(seed, "patch.diff"), dst)
shutil.copytree(os.path.join(seed, "demo"), os.path.join(dst, "demo"))
meta = json.load(open(os.path.join(seed, "meta.json")))
meta["property"] = prop
meta["confirmed_by_me"] = {
    "worktree": wt,
    "ran": ["git apply patch.diff", "go build ./... && go test -vet=off -count=1 ./... (pass)", "demo with patch (fails)", "checks " + " ".join(checks) + " with WV_REPO=<patched worktree>", "git checkout -- .", "demo without patch (passes)"],
    "checks": r["checks"],
}
meta["caught_by"] = sorted({p + ":" + x.split("@")[0] for p, v in r["checks"].items() for x in v["rules"]})
json.dump(meta, open(os.path.join(dst, "meta.json"), "w"), indent=1)
