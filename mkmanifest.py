#!/usr/bin/env python3
"""Regenerates MANIFEST.json from the table below (single source of truth)."""
import json, os

HERE = os.path.dirname(os.path.abspath(__file__))

# id -> (technique, level text, level note, design ref)
CLAIMED = {
    "C01": ("must-pass-through / guard-dominance rules on go/cfg of lang/check, constant-table agreement (go/types constants) with cgen siblings",
            "Static necessary-condition check of the bounds checker's obligation structure: every accepting path of the anchored checker functions passes the specific proof call or range guard for index, slice, call-argument, divide, shift, bitwise, nullable-receiver and unchecked-I/O constructs; pre-condition tables agree with operation names and cgen's tables; safety phases are wired. It decides these clauses for all Wuffs programs at once, which no finite set of compile tests can; it does not prove checker soundness.",
            "Trusts go/types + go/cfg, the enumerated error-return idioms, and that the named proof functions do what their names say (their own arithmetic is C02/C06 territory). Unrecognised shapes fail as undecided.",
            "DESIGN.md §4 C01"),
}

NOT_APPLICABLE = {
    "C04": "Semantic equivalence of emitted C and Wuffs source over all programs x inputs needs a reference semantics and execution or a verified translator; no clause of it is visible in code shape beyond what C20's snapshot tie already reports (DESIGN.md §5).",
    "C12": "Token preservation and idempotence of two text formatters are functions of index arithmetic on run-time text; the only structural candidate (byte provenance) cannot see a dropped byte (DESIGN.md §5).",
    "C14": "Equality with an in-memory reader is value-level; deadlock/leak/race freedom of the five-channel manager/worker protocol under all schedules needs an interleaving model, which is a different technique family (DESIGN.md §5).",
}

PENDING = "static check designed in DESIGN.md §4 but not yet built in this commit; not claimed until it is"

ALL = ["C%02d" % i for i in range(1, 21)]


def main():
    checks = []
    for pid in ALL:
        if pid not in CLAIMED:
            continue
        tech, text, note, ref = CLAIMED[pid]
        checks.append({
            "property_id": pid,
            "quick_cmd": "./check %s quick" % pid,
            "thorough_cmd": "./check %s thorough" % pid,
            "evidence_file": "/verif/evidence/%s.json" % pid,
            "replay_cmd_template": "./check %s quick   # re-evaluates every rule instance; the record at {path} names the failing (rule, anchor)" % pid,
            "engine": "wv",
            "level_claimed": {"category": "other", "text": text, "design_ref": ref},
            "level_note": note,
            "technique": "static analysis: " + tech,
        })
    na = []
    for pid in ALL:
        if pid in CLAIMED:
            continue
        na.append({"property_id": pid, "reason": NOT_APPLICABLE.get(pid, PENDING)})
    m = {
        "version": 1,
        "setup_cmd": "cd /verif/wv && GOFLAGS=-mod=mod GOPROXY=off GOSUMDB=off GOTOOLCHAIN=local GOWORK=off go build -o ../bin/wv .",
        "hooks": {
            "guard": "verif",
            "enable": "none needed: the checkers read /repo's sources and build products only; no instrumentation is compiled into google/wuffs",
            "baseline_off_cmd": "cd /repo && GOFLAGS=-mod=readonly GOPROXY=off go test -vet=off -count=1 -timeout 25m ./...",
            "source_commits": [],
            "add_only": True,
        },
        "engines": [{"name": "wv", "path": "/verif/wv", "serves_properties": sorted(CLAIMED),
                     "kind_free_text": "Go static analyser over go/packages + go/cfg + go/ssa (x/tools v0.29.0), the repository's own Wuffs front end for std/*.wuffs, a statement-tree parser for generated C, and binutils on the un-executed object file"}],
        "checks": checks,
        "not_applicable": na,
        "notes": "Every check is static analysis (family fixed by the task). `./check <id> <tier>` rebuilds bin/wv against /repo's working tree and evaluates frozen rule tables; known-findings.txt lists repaired defects (fix: commits in /repo) and any recorded findings.",
    }
    json.dump(m, open(os.path.join(HERE, "MANIFEST.json"), "w"), indent=1)
    print("checks:", [c["property_id"] for c in checks], "not_applicable:", [n["property_id"] for n in na])


if __name__ == "__main__":
    main()
