package main

// C03 rule family B — contracts of the hand-written pure bounds helpers of the
// base library (internal/cgen/base/fundamental-public.h, fundamental-private.h,
// io-private.h). Generated C carries no run-time bounds checks of its own: for
// slicing, table rows, prefix/suffix, iterate bounds, reader matching and the
// limited copies it calls these helpers and trusts the result. Each row of the
// contract table (c03_base_rows_*.go) states the result as a mathematical
// predicate of the arguments; the decision evaluates the helper's own syntax
// tree (c03_base_eval.go) on every argument tuple of a small enumerated domain
// and compares. Nothing is executed.

import (
	"fmt"
	"os"
	"path/filepath"
	"sort"
	"strings"

	"wv/core"
)

var bBaseFiles = []string{"fundamental-public.h", "fundamental-private.h", "io-private.h"}

type bRow struct {
	fn     string // C function
	rule   string // B.exact.* | B.bounded.*
	reason string // the contract in words
	only64 bool   // no size_t involved: one model suffices
	run    func(x *bx)
}

// bx is the state of one (row, model, pre-processor assignment) enumeration.
type bx struct {
	row    *bRow
	e      *ceval
	m      *cmodel
	tuples int
	desc   func() string
	fail   string
	undec  string
}

func (x *bx) done() bool { return x.fail != "" || x.undec != "" }

// begin starts one argument tuple; desc renders it for a counter-example.
func (x *bx) begin(desc func() string) {
	x.tuples++
	x.desc = desc
}

func (x *bx) call(args ...cval) (cval, bool) {
	ret, err := x.e.run(x.row.fn, args...)
	if err == nil && bHasUndef(ret) {
		err = &cerr{kind: "ub", msg: "the result has an uninitialised field"}
	}
	if err != nil {
		if err.kind == "unsupported" {
			x.undec = err.Error()
		} else {
			x.fail = fmt.Sprintf("%s: %s", x.desc(), err.Error())
		}
		return ret, false
	}
	return ret, true
}

func bHasUndef(v cval) bool {
	if v.ty != nil && v.ty.kind == ctStruct {
		for _, f := range v.fields {
			if bHasUndef(f.v) {
				return true
			}
		}
		return false
	}
	return v.undef
}

func (x *bx) expect(ok bool, format string, a ...interface{}) bool {
	if !ok && x.fail == "" {
		x.fail = x.desc() + ": " + fmt.Sprintf(format, a...)
	}
	return ok
}

// ---- value construction

func (x *bx) S() uint64 { return x.m.sizeMax() }

func (x *bx) iv(tn string, v uint64) cval { return x.e.intVal(x.m.types[tn], v) }
func (x *bx) u64(v uint64) cval           { return x.iv("uint64_t", v) }
func (x *bx) u32(v uint64) cval           { return x.iv("uint32_t", v) }
func (x *bx) sz(v uint64) cval            { return x.iv("size_t", v) }

func (x *bx) p8(b *cbuf, off int64) cval {
	return cval{ty: x.m.ptrTo(x.m.tU8), buf: b, off: off}
}

func (x *bx) structVal(tn string, vals ...cval) cval {
	t := x.m.types[tn]
	v := cval{ty: t}
	for i, f := range t.fields {
		v.fields = append(v.fields, &ccell{ty: f.ty, v: x.e.conv(vals[i], f.ty)})
	}
	return v
}

func (x *bx) slice(b *cbuf, off int64, n uint64) cval {
	return x.structVal("wuffs_base__slice_u8", x.p8(b, off), x.sz(n))
}

func (x *bx) table(b *cbuf, off int64, w, h, s uint64) cval {
	return x.structVal("wuffs_base__table_u8", x.p8(b, off), x.sz(w), x.sz(h), x.sz(s))
}

func (x *bx) cell(v cval) *ccell { return &ccell{ty: v.ty, v: v} }

func (x *bx) pcell(c *ccell) cval { return cval{ty: x.m.ptrTo(c.ty), cellp: c} }

func bFld(v cval, name string) cval {
	i := v.ty.field(name)
	return v.fields[i].v
}

func bPtrStr(v cval) string {
	if v.buf == nil {
		if v.cellp != nil {
			return "&obj"
		}
		return "NULL"
	}
	return fmt.Sprintf("buf%d+%d", v.buf.id, v.off)
}

func bSliceStr(v cval) string {
	return fmt.Sprintf("(%s, len %d)", bPtrStr(bFld(v, "ptr")), bFld(v, "len").u)
}

func bSamePtr(v cval, b *cbuf, off int64) bool {
	if b == nil {
		return v.buf == nil && v.cellp == nil
	}
	return v.buf == b && v.off == off
}

// expectSlice: the returned slice is exactly (b+off, n).
func (x *bx) expectSlice(ret cval, b *cbuf, off int64, n uint64) bool {
	if ret.ty == nil || ret.ty.kind != ctStruct || ret.ty.field("len") < 0 {
		return x.expect(false, "result is not a slice")
	}
	want := "NULL"
	if b != nil {
		want = fmt.Sprintf("buf%d+%d", b.id, off)
	}
	return x.expect(bSamePtr(bFld(ret, "ptr"), b, off) && bFld(ret, "len").u == n, "got %s, want (%s, len %d)", bSliceStr(ret), want, n)
}

// ---- domains

func bDedup(vs []uint64) []uint64 {
	seen := map[uint64]bool{}
	var out []uint64
	for _, v := range vs {
		if !seen[v] {
			seen[v] = true
			out = append(out, v)
		}
	}
	return out
}

// lens: slice lengths (range-only buffers, so large values cost nothing).
func (x *bx) lens() []uint64 {
	vs := []uint64{0, 1, 2, 3, 4, 5, 6}
	switch x.m.sizeBits {
	case 8:
		vs = append(vs, 127, 128, 254, 255)
	case 32:
		vs = append(vs, 1<<31, 1<<32-2, 1<<32-1)
	default:
		vs = append(vs, 1<<32-1, 1<<32, 1<<32+1, 1<<40)
	}
	return vs
}

// idx64: values of a uint64_t index argument around 0, around `near`, around SIZE_MAX and at the top of uint64_t.
func (x *bx) idx64(near ...uint64) []uint64 {
	vs := []uint64{0, 1, 2, 3, 4, 5, 6, 7}
	for _, n := range near {
		vs = append(vs, n-1, n, n+1)
	}
	S := x.S()
	vs = append(vs, S-1, S, S+1, S+2, 1<<32-1, 1<<32, 1<<32+1, 1<<63, ^uint64(0)-1, ^uint64(0))
	return bDedup(vs)
}

// idxSize: values of a size_t argument.
func (x *bx) idxSize(near ...uint64) []uint64 {
	var out []uint64
	for _, v := range x.idx64(near...) {
		if v <= x.S() {
			out = append(out, v)
		}
	}
	return out
}

// u32s: values of a uint32_t argument. In the mini model they stay <= SIZE_MAX: Wuffs
// requires size_t to be at least 32 bits wide, so a uint32_t always fits a size_t.
func (x *bx) u32s(small int, near ...uint64) []uint64 {
	var vs []uint64
	for i := 0; i <= small; i++ {
		vs = append(vs, uint64(i))
	}
	vs = append(vs, near...)
	vs = append(vs, 1<<32-1, 1<<32-2, 1<<31, 255, 254)
	var out []uint64
	for _, v := range bDedup(vs) {
		if v <= x.S() && v <= 1<<32-1 {
			out = append(out, v)
		}
	}
	return out
}

type bSliceCase struct {
	b   *cbuf
	off int64
	n   uint64
}

// sliceCases: a NULL empty slice, and for every length a slice at the start of its object and
// one two bytes into a larger object (range-only buffers).
func (x *bx) sliceCases() []bSliceCase {
	out := []bSliceCase{{nil, 0, 0}}
	for _, n := range x.lens() {
		out = append(out, bSliceCase{x.e.newBuf(int64(n), false), 0, n})
		if n < 1<<62 {
			out = append(out, bSliceCase{x.e.newBuf(int64(n)+5, false), 2, n})
		}
	}
	return out
}

// ---- running the table

type bOutcome struct {
	tuples int
	fail   string
	undec  string
	ops    uint32
	maxLit uint64
	cfgs   int
}

var bModels = []struct {
	name string
	bits int
}{{"size_t=8bit", 8}, {"size_t=32bit", 32}, {"size_t=64bit", 64}}

func bRunRow(lib *cbaseLib, row *bRow) bOutcome {
	var out bOutcome
	for mi, md := range bModels {
		if row.only64 && mi != len(bModels)-1 {
			continue
		}
		assigns := []map[string]bool{{}}
		for ai := 0; ai < len(assigns); ai++ {
			m := newCModel(md.name, md.bits)
			e := newCEval(m, lib, assigns[ai])
			x := &bx{row: row, e: e, m: m}
			row.run(x)
			out.tuples += x.tuples
			out.cfgs++
			out.ops |= e.ops
			if e.maxLit > out.maxLit {
				out.maxLit = e.maxLit
			}
			where := md.name
			if sig := cAssignSig(assigns[ai]); sig != "" {
				where += ", with " + strings.ReplaceAll(sig, "\x00", " and ")
			} else if len(e.ppSeen) > 0 {
				where += ", #else branches"
			}
			if x.undec != "" && out.undec == "" {
				out.undec = "[" + where + "] " + x.undec
			}
			if x.fail != "" && out.fail == "" {
				out.fail = "[" + where + "] " + x.fail
			}
			if ai == 0 && len(e.ppSeen) > 0 {
				var ds []string
				for d := range e.ppSeen {
					ds = append(ds, d)
				}
				sort.Strings(ds)
				if len(ds) > 3 {
					out.undec = fmt.Sprintf("%d pre-processor conditionals inside the helper and its callees", len(ds))
					return out
				}
				for mask := 1; mask < 1<<uint(len(ds)); mask++ {
					a := map[string]bool{}
					for k, d := range ds {
						if mask&(1<<uint(k)) != 0 {
							a[d] = true
						}
					}
					assigns = append(assigns, a)
				}
			}
			if out.fail != "" || out.undec != "" {
				return out
			}
		}
	}
	return out
}

var bFamilyClaim = map[string]string{
	"B.exact.slice":      "a slicing helper returns exactly the documented sub-range of its argument and the empty slice when an index is out of range — generated C indexes the result with no check of its own (C01 proves the indices against the returned length), so a wider or shifted result is an out-of-bounds access",
	"B.exact.io":         "an I/O helper (marks, limits, set) returns exactly the documented range inside [io0, io2) — the generated reader/writer loops trust these pointers without re-checking",
	"B.exact.copy":       "a bounds-checked copy helper copies exactly min(requested, available, free) bytes, advances the cursors by that count and touches no byte outside the two ranges — its callers pass lengths taken from the input",
	"B.exact.history":    "limited_copy_u32_from_history refuses a distance that reaches before io0, clamps the length to the free space and reads/writes only inside [io0, io2) (LZ77 forward copy)",
	"B.exact.fast":       "under its documented pre-condition (established by the Wuffs checker, C01 O7) a _fast history copy reads and writes only inside [io0, io2), advances the cursor by length and reproduces the LZ77 forward copy",
	"B.bounded.fast":     "under its documented pre-condition (established by the Wuffs checker, C01 O7) an 8-byte-chunk or cusp-returning _fast history copy reads and writes only inside [io0, io2), advances the cursor by length and reproduces the LZ77 forward copy in the first length bytes",
	"B.exact.num":        "a numeric helper (min, max, saturating add/sub) returns the mathematical result — the checker derives bounds facts (x.min(no_more_than: y) <= y, sat_sub never wraps) that later index proofs rely on",
	"B.bounded.table":    "a table helper returns the documented row / sub-table, lying inside the argument table, and the empty value when a coordinate is out of range — every pixel decoder relies on an empty row for y >= height",
	"B.bounded.iterate":  "iterate_total_advance(total, L, A) returns k·A where k is the number of whole L-byte chunks, A apart, that fit in total bytes: every admitted chunk lies inside the slice (the unchecked iterate body reads L bytes at each offset)",
	"B.bounded.match7":   "io_reader.match7 returns 0 iff the n = a&7 prefix bytes match, 2 on a mismatch or when the reader is closed with too few bytes, 1 only when an open reader ran out before a mismatch — callers turn 1 into `$short read` and retry, so 1 on a closed reader never terminates; it reads only [iop, io2)",
	"B.bounded.peekpoke": "an unchecked N-bit peek/poke touches exactly the N/8 bytes at p (the checker established that many and no more) and composes them in the named byte order",
	"B.bounded.num":      "a numeric helper (min, max, saturating add/sub) of a 16/32/64-bit type returns the mathematical result on a boundary grid of its real width",
}

type bBaseSrc struct {
	dir  string
	lib  *cbaseLib
	srcs map[string]*core.CFile
}

func bLoadBase(repo string, read func(string) ([]byte, error)) (*bBaseSrc, error) {
	dir := filepath.Join(repo, "internal", "cgen", "base")
	lib, err := cLoadBaseLib(dir, bBaseFiles, read)
	if err != nil {
		return nil, err
	}
	return &bBaseSrc{dir: dir, lib: lib}, nil
}

// runC03BaseSource decides every contract row against the base sources under repo.
func runC03BaseSource(c *core.Ctx, repo string, read func(string) ([]byte, error)) *cbaseLib {
	bs, err := bLoadBase(repo, read)
	if err != nil {
		c.Undecided("B.load", "internal/cgen/base", "the hand-written base headers are readable", err.Error())
		return nil
	}
	lib := bs.lib
	rows := bAllRows()
	decided := map[string]int{}
	tuples := 0
	for i := range rows {
		row := &rows[i]
		d := lib.funcs[row.fn]
		file := "?"
		if d != nil {
			file = d.file
		}
		anchor := "internal/cgen/base/" + file + " " + row.fn
		claim := bFamilyClaim[row.rule] + " — here: " + row.reason
		if d == nil {
			c.Undecided(row.rule, anchor, claim, "function not found in "+strings.Join(bBaseFiles, ", "))
			continue
		}
		out := bRunRow(lib, row)
		tuples += out.tuples
		switch {
		case out.undec != "":
			c.Undecided(row.rule, anchor, claim, "outside the evaluator's C subset: "+out.undec)
		case out.fail != "":
			c.Fail(row.rule, anchor, claim, out.tuples, "counter-example "+out.fail)
		case strings.HasPrefix(row.rule, "B.exact.") && row.rule != "B.exact.num" && (out.ops != 0 || out.maxLit > 3):
			c.Undecided(row.rule, anchor, claim, fmt.Sprintf("the helper now multiplies/divides/shifts (ops mask %#x) or uses a literal > 3 (%d): the ordering argument behind the exact claim no longer applies; move the row to a bounded rule", out.ops, out.maxLit))
		default:
			c.Pass(row.rule, anchor, claim, out.tuples, fmt.Sprintf("%d tuples in %d model configurations", out.tuples, out.cfgs))
			decided[row.rule]++
		}
	}
	nd := 0
	for _, n := range decided {
		nd += n
	}
	c.Analysed("base_helper_contracts_decided", nd)
	c.Analysed("base_helper_tuples", tuples)
	c.Floor("B.helpers", "base helpers with a contract row decided", nd, 80)
	c.Floor("B.tuples", "argument tuples evaluated over all contract rows", tuples, 300000)
	bControls(c)
	bMatch7ZeroProbe(c, lib)
	return lib
}

// bMatch7ZeroProbe reports (INFO, never a verdict) what the helper does for a prefix length
// of zero, which the contract row's domain excludes: std only passes constants with n = 4, 5.
func bMatch7ZeroProbe(c *core.Ctx, lib *cbaseLib) {
	const fn = "wuffs_private_impl__io_reader__match7"
	if lib.funcs[fn] == nil {
		return
	}
	m := newCModel("size_t=64bit", 64)
	e := newCEval(m, lib, map[string]bool{})
	x := &bx{row: &bRow{fn: fn}, e: e, m: m}
	w := x.win(8)
	_, err := e.run(fn, x.p8(w.b, w.lo), x.p8(w.b, w.hi), cval{ty: m.ptrTo(m.types["wuffs_base__io_buffer"])}, x.u64(0))
	if err != nil && err.kind == "ub" {
		c.Info("B.bounded.match7", "internal/cgen/base/io-private.h "+fn, "outside the contract's domain (n >= 1): with n = a&7 = 0 and at least 8 bytes available the helper evaluates "+err.msg+" — undefined behaviour in C; lang/builtin declares match7(a: u64) with no pre-condition on a, std only passes n = 4 and 5")
	}
}

// runC03Base is the entry point from runC03: contract rows on the sources of
// c.Repo, freshness against the generated C, and callee coverage.
func runC03Base(c *core.Ctx, cb *core.CBuild) {
	c.Note("family B (c03_base*.go) decides the arithmetic of the hand-written bounds helpers of internal/cgen/base, including wuffs_private_impl__iterate_total_advance, by evaluating their syntax trees over enumerated argument domains (exact for comparison/± helpers, bounded with a stated domain for the multiplying ones)")
	lib := runC03BaseSource(c, c.Repo, os.ReadFile)
	if lib == nil || cb == nil {
		return
	}
	bFreshness(c, cb, lib)
	bCoverage(c, cb, lib)
}
