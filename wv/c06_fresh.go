package main

// Engine E4 `fresh` for C06: provenance of the *big.Int pointers that reach
// the IntRange returned by the exported methods of lib/interval.
//
// Abstract domain. Every SSA value whose type can hold a *big.Int (the
// pointer itself, arrays / structs / tuples containing one, pointers to such
// aggregates) is mapped to a set of ORIGINS of the *big.Int pointers reachable
// through it:
//
//	nil            the nil pointer (an infinite bound)
//	fresh          allocated during this call (an ssa.Alloc of big.Int)
//	param(i)       reachable from the i-th SSA parameter at entry (receiver = 0)
//	global(g)      loaded from the package-level variable g (any element)
//	unknown(why)   anything the engine cannot attribute
//
// The analysis is field-insensitive (an aggregate is the union of its
// elements — so result[0] aliasing result[1] is, deliberately, invisible) and
// flow-insensitive (one set per value / per local Alloc "cell"), and
// interprocedural through computed summaries: per function, the origins of
// each result and, per pointer parameter, the origins it stores into the
// pointee (`eff`), both expressed over the function's own parameters. The
// summaries of all functions reached (package interval, and the math/big
// functions they call, whose SSA bodies are available) are iterated to a
// global fixpoint, which subsumes a bottom-up pass over the call graph.

import (
	"fmt"
	"go/token"
	"go/types"
	"sort"
	"strings"

	"golang.org/x/tools/go/ssa"
)

type oKind uint8

const (
	oNil oKind = iota
	oFresh
	oParam
	oGlobal
	oUnknown
)

type origin struct {
	k   oKind
	idx int    // oParam
	s   string // oGlobal: pkg.var ; oUnknown: reason ; oParam: parameter name
}

func (o origin) String() string {
	switch o.k {
	case oNil:
		return "nil"
	case oFresh:
		return "fresh"
	case oParam:
		return fmt.Sprintf("param#%d(%s)", o.idx, o.s)
	case oGlobal:
		return "global(" + o.s + ")"
	}
	return "unknown(" + o.s + ")"
}

func (o origin) bad() bool { return o.k == oParam || o.k == oGlobal || o.k == oUnknown }

// e4node names one abstract set.
type e4node struct {
	fn  *ssa.Function
	cat uint8           // 0 value, 1 cell of a local Alloc, 2 effect on pointer param idx, 3 result idx, 4 scratch set of a call instruction
	v   ssa.Value       // cat 0/1
	idx int             // cat 0: 0 = whole value, i+1 = component i of a tuple-valued call; cat 4: parameter index or -1
	ins ssa.Instruction // cat 4
}

type e4step struct {
	pos  token.Pos
	text string
	prev *e4node
	po   origin
	// via/viaO: for a value that came back out of a callee which passes one of
	// its parameters through — the callee-side chain (explained first), while
	// prev/po continue with the caller's argument.
	via  *e4node
	viaO origin
}

type e4leak struct {
	pos  token.Pos
	text string
}

type e4 struct {
	prog    *ssa.Program
	pkg     *types.Package // lib/interval
	bigInt  *types.Named
	carry   map[types.Type]bool
	sets    map[e4node]map[origin]e4step
	order   []*ssa.Function
	known   map[*ssa.Function]bool
	edges   map[*ssa.Function]map[*ssa.Function]bool
	leaks   map[*ssa.Function]map[string]e4leak
	exam    map[*ssa.Function]int // stores + calls examined (for site counts)
	modeled map[string]bool       // body-less callees answered from the model
	changed bool
}

func newE4(prog *ssa.Program, pkg *types.Package, bigInt *types.Named) *e4 {
	return &e4{prog: prog, pkg: pkg, bigInt: bigInt, carry: map[types.Type]bool{},
		sets: map[e4node]map[origin]e4step{}, known: map[*ssa.Function]bool{},
		edges: map[*ssa.Function]map[*ssa.Function]bool{}, leaks: map[*ssa.Function]map[string]e4leak{},
		exam: map[*ssa.Function]int{}, modeled: map[string]bool{}}
}

func (a *e4) isBigInt(t types.Type) bool {
	n, ok := types.Unalias(t).(*types.Named)
	return ok && n.Obj() == a.bigInt.Obj()
}

// carries: a value of type t can hold (or point to something holding) a *big.Int.
func (a *e4) carries(t types.Type) bool {
	if t == nil {
		return false
	}
	t = types.Unalias(t)
	if v, ok := a.carry[t]; ok {
		return v
	}
	a.carry[t] = false
	r := false
	switch u := t.Underlying().(type) {
	case *types.Pointer:
		r = a.isBigInt(u.Elem()) || a.carries(u.Elem())
	case *types.Array:
		r = a.carries(u.Elem())
	case *types.Slice:
		r = a.carries(u.Elem())
	case *types.Chan:
		r = a.carries(u.Elem())
	case *types.Map:
		r = a.carries(u.Key()) || a.carries(u.Elem())
	case *types.Struct:
		for i := 0; i < u.NumFields() && !r; i++ {
			r = a.carries(u.Field(i).Type())
		}
	case *types.Tuple:
		for i := 0; i < u.Len() && !r; i++ {
			r = a.carries(u.At(i).Type())
		}
	case *types.Interface:
		// An interface value may wrap a *big.Int (or an IntRange): it is
		// tracked like any other carrier, so that a detour through
		// interface{} (a cache, a formatted panic message) is followed.
		r = true
	}
	a.carry[t] = r
	return r
}

func (a *e4) sigCarries(f *ssa.Function) bool {
	for _, p := range f.Params {
		if a.carries(p.Type()) {
			return true
		}
	}
	return a.carries(f.Signature.Results())
}

func (a *e4) add(n e4node, o origin, st e4step) {
	m := a.sets[n]
	if m == nil {
		m = map[origin]e4step{}
		a.sets[n] = m
	}
	if _, ok := m[o]; ok {
		return
	}
	m[o] = st
	a.changed = true
}

func (a *e4) union(dst, src e4node, pos token.Pos, text string) {
	if dst == src {
		return
	}
	for o := range a.sets[src] {
		s := src
		a.add(dst, o, e4step{pos: pos, text: text, prev: &s, po: o})
	}
}

func (a *e4) ensure(f *ssa.Function) {
	if f == nil || a.known[f] || len(f.Blocks) == 0 {
		return
	}
	a.known[f] = true
	a.order = append(a.order, f)
	a.changed = true
}

func (a *e4) paramIndex(fn *ssa.Function, p *ssa.Parameter) int {
	for i, q := range fn.Params {
		if q == p {
			return i
		}
	}
	return -1
}

func (a *e4) posOf(fn *ssa.Function, x interface{}) token.Pos {
	switch v := x.(type) {
	case ssa.Instruction:
		if v.Pos().IsValid() {
			return v.Pos()
		}
		for _, op := range v.Operands(nil) {
			if *op != nil && (*op).Pos().IsValid() {
				if _, isParam := (*op).(*ssa.Parameter); !isParam {
					return (*op).Pos()
				}
			}
		}
	case ssa.Value:
		if v.Pos().IsValid() {
			return v.Pos()
		}
	}
	return fn.Pos()
}

// val returns the node holding the origins of v, seeding leaf values.
func (a *e4) val(fn *ssa.Function, v ssa.Value) e4node {
	n := e4node{fn: fn, cat: 0, v: v}
	switch x := v.(type) {
	case *ssa.Alloc:
		if a.isBigInt(x.Type().Underlying().(*types.Pointer).Elem()) {
			a.add(n, origin{k: oFresh}, e4step{pos: a.posOf(fn, x), text: "allocates a new big.Int"})
			return n
		}
		c := e4node{fn: fn, cat: 1, v: x}
		if a.sets[c] == nil {
			a.add(c, origin{k: oNil}, e4step{pos: a.posOf(fn, x), text: "zero value of local " + allocName(x)})
		}
		return c
	case *ssa.Parameter:
		i := a.paramIndex(fn, x)
		a.add(n, origin{k: oParam, idx: i, s: x.Name()}, e4step{pos: x.Pos(), text: "operand " + x.Name() + " of " + fn.Name()})
		if _, isPtr := x.Type().Underlying().(*types.Pointer); isPtr && !a.isBigIntPtr(x.Type()) {
			a.union(n, e4node{fn: fn, cat: 2, idx: i}, x.Pos(), "stored earlier through pointer parameter "+x.Name())
		}
	case *ssa.Const:
		a.add(n, origin{k: oNil}, e4step{pos: fn.Pos(), text: "nil / zero constant"})
	case *ssa.Global:
		a.add(n, origin{k: oGlobal, s: globalName(x)}, e4step{pos: x.Pos(), text: "package-level variable " + globalName(x)})
	case *ssa.FreeVar:
		a.add(n, origin{k: oUnknown, s: "free variable " + x.Name()}, e4step{pos: fn.Pos(), text: "captured variable " + x.Name()})
	}
	return n
}

func (a *e4) isBigIntPtr(t types.Type) bool {
	p, ok := t.Underlying().(*types.Pointer)
	return ok && a.isBigInt(p.Elem())
}

func allocName(x *ssa.Alloc) string {
	if x.Comment != "" {
		return x.Comment
	}
	return x.Name()
}

func globalName(g *ssa.Global) string {
	if g.Pkg != nil && g.Pkg.Pkg != nil {
		return g.Pkg.Pkg.Name() + "." + g.Name()
	}
	return g.Name()
}

type e4root struct {
	kind  uint8 // 0 alloc, 1 param, 2 global, 3 unknown
	alloc *ssa.Alloc
	p     int
	g     *ssa.Global
	why   string
}

// roots: the memory objects an address value may point into.
func (a *e4) roots(fn *ssa.Function, v ssa.Value, seen map[ssa.Value]bool) []e4root {
	if seen[v] {
		return nil
	}
	seen[v] = true
	switch x := v.(type) {
	case *ssa.Alloc:
		return []e4root{{kind: 0, alloc: x}}
	case *ssa.Parameter:
		return []e4root{{kind: 1, p: a.paramIndex(fn, x)}}
	case *ssa.Global:
		return []e4root{{kind: 2, g: x}}
	case *ssa.IndexAddr:
		return a.roots(fn, x.X, seen)
	case *ssa.FieldAddr:
		return a.roots(fn, x.X, seen)
	case *ssa.ChangeType:
		return a.roots(fn, x.X, seen)
	case *ssa.Convert:
		return a.roots(fn, x.X, seen)
	case *ssa.Slice:
		return a.roots(fn, x.X, seen)
	case *ssa.Phi:
		var out []e4root
		for _, e := range x.Edges {
			out = append(out, a.roots(fn, e, seen)...)
		}
		return out
	case *ssa.Const:
		return nil // nil pointer: a store through it panics
	}
	return []e4root{{kind: 3, why: fmt.Sprintf("address computed by %T", v)}}
}

// contents: the node(s) describing what is stored under an address root.
func (a *e4) rootNode(fn *ssa.Function, r e4root) (e4node, bool) {
	switch r.kind {
	case 0:
		return a.val(fn, r.alloc), true
	case 1:
		return a.val(fn, fn.Params[r.p]), true
	case 2:
		return a.val(fn, r.g), true
	}
	return e4node{}, false
}

func (a *e4) leak(fn *ssa.Function, pos token.Pos, text string) {
	m := a.leaks[fn]
	if m == nil {
		m = map[string]e4leak{}
		a.leaks[fn] = m
	}
	key := fmt.Sprintf("%d|%s", pos, text)
	if _, ok := m[key]; !ok {
		m[key] = e4leak{pos, text}
	}
}

// storeInto adds the origins of src to whatever addr may point into.
func (a *e4) storeInto(fn *ssa.Function, addr ssa.Value, src e4node, pos token.Pos, what string) {
	for _, r := range a.roots(fn, addr, map[ssa.Value]bool{}) {
		switch r.kind {
		case 0:
			if a.isBigInt(r.alloc.Type().Underlying().(*types.Pointer).Elem()) {
				continue
			}
			a.union(e4node{fn: fn, cat: 1, v: r.alloc}, src, pos, what+" into local "+allocName(r.alloc))
			a.val(fn, r.alloc)
		case 1:
			a.union(e4node{fn: fn, cat: 2, idx: r.p}, src, pos, what+" through pointer parameter "+fn.Params[r.p].Name())
		case 2:
			a.leak(fn, pos, what+" into package-level variable "+globalName(r.g))
		default:
			a.leak(fn, pos, what+" through an address the engine cannot attribute ("+r.why+")")
		}
	}
}

// calleesOf resolves the possible callees of a call; ok=false when some
// target cannot be resolved.
func (a *e4) calleesOf(c *ssa.CallCommon) (fs []*ssa.Function, builtin *ssa.Builtin, ok bool) {
	if c.IsInvoke() {
		return nil, nil, false
	}
	seen := map[ssa.Value]bool{}
	good := true
	var walk func(v ssa.Value)
	walk = func(v ssa.Value) {
		if seen[v] {
			return
		}
		seen[v] = true
		switch x := v.(type) {
		case *ssa.Function:
			fs = append(fs, x)
		case *ssa.Builtin:
			builtin = x
		case *ssa.Phi:
			for _, e := range x.Edges {
				walk(e)
			}
		case *ssa.ChangeType:
			walk(x.X)
		case *ssa.MakeClosure:
			if len(x.Bindings) == 0 {
				walk(x.Fn)
			} else {
				good = false
			}
		default:
			good = false
		}
	}
	walk(c.Value)
	if builtin != nil && len(fs) > 0 {
		good = false
	}
	return fs, builtin, good
}

func (a *e4) visit(fn *ssa.Function) {
	for _, p := range fn.Params {
		if a.carries(p.Type()) {
			a.val(fn, p)
		}
	}
	a.exam[fn] = 0
	for _, b := range fn.Blocks {
		for _, ins := range b.Instrs {
			a.instr(fn, ins)
		}
	}
}

func (a *e4) instr(fn *ssa.Function, ins ssa.Instruction) {
	pos := a.posOf(fn, ins)
	switch x := ins.(type) {
	case *ssa.Store:
		if !a.carries(x.Val.Type()) {
			return
		}
		a.exam[fn]++
		a.storeInto(fn, x.Addr, a.val(fn, x.Val), pos, "stored")
	case *ssa.Return:
		for i, r := range x.Results {
			if a.carries(r.Type()) {
				a.union(e4node{fn: fn, cat: 3, idx: i}, a.val(fn, r), pos, "returned")
			}
		}
	case *ssa.Go:
		a.call(fn, ins, x.Common(), nil)
	case *ssa.Defer:
		a.call(fn, ins, x.Common(), nil)
	case *ssa.Call:
		a.call(fn, ins, x.Common(), x)
	case *ssa.MapUpdate:
		if a.carries(x.Value.Type()) || a.carries(x.Key.Type()) {
			a.leak(fn, pos, "stored into a map")
		}
	case *ssa.Send:
		if a.carries(x.X.Type()) {
			a.leak(fn, pos, "sent on a channel")
		}
	case *ssa.MakeInterface:
		if a.carries(x.X.Type()) {
			a.union(a.val(fn, x), a.val(fn, x.X), pos, "wrapped in an interface value")
		}
	case ssa.Value:
		if !a.carries(x.Type()) {
			return
		}
		dst := a.val(fn, x)
		switch y := x.(type) {
		case *ssa.Alloc:
			// seeded by val
		case *ssa.Phi:
			for _, e := range y.Edges {
				a.union(dst, a.val(fn, e), pos, "merged at a join (phi)")
			}
		case *ssa.UnOp:
			if y.Op != token.MUL {
				a.add(dst, origin{k: oUnknown, s: "unary " + y.Op.String()}, e4step{pos: pos, text: "unrecognised unary operation"})
				return
			}
			for _, r := range a.roots(fn, y.X, map[ssa.Value]bool{}) {
				if n, ok := a.rootNode(fn, r); ok {
					a.union(dst, n, pos, "loaded from "+a.rootName(fn, r))
				} else {
					a.add(dst, origin{k: oUnknown, s: "load: " + r.why}, e4step{pos: pos, text: "loaded through an address the engine cannot attribute (" + r.why + ")"})
				}
			}
		case *ssa.IndexAddr:
			a.addrVal(fn, dst, y.X, pos)
		case *ssa.FieldAddr:
			a.addrVal(fn, dst, y.X, pos)
		case *ssa.Index:
			a.union(dst, a.val(fn, y.X), pos, "element of an array value")
		case *ssa.Field:
			a.union(dst, a.val(fn, y.X), pos, "field of a struct value")
		case *ssa.TypeAssert:
			if a.carries(y.X.Type()) {
				a.union(dst, a.val(fn, y.X), pos, "type assertion on an interface value")
			} else {
				a.add(dst, origin{k: oUnknown, s: "type assertion"}, e4step{pos: pos, text: "type assertion on an untracked value"})
			}
		case *ssa.ChangeInterface:
			a.union(dst, a.val(fn, y.X), pos, "interface conversion")
		case *ssa.ChangeType:
			a.union(dst, a.val(fn, y.X), pos, "type change")
		case *ssa.Convert:
			a.union(dst, a.val(fn, y.X), pos, "conversion")
		case *ssa.Slice:
			a.addrVal(fn, dst, y.X, pos)
		case *ssa.Extract:
			if c, ok := y.Tuple.(*ssa.Call); ok {
				a.union(dst, e4node{fn: fn, cat: 0, v: c, idx: y.Index + 1}, pos, fmt.Sprintf("result #%d of the call", y.Index))
			} else if ta, ok := y.Tuple.(*ssa.TypeAssert); ok && y.Index == 0 {
				a.union(dst, a.val(fn, ta), pos, "checked type assertion")
			} else {
				a.add(dst, origin{k: oUnknown, s: "extract"}, e4step{pos: pos, text: fmt.Sprintf("component of a %T tuple", y.Tuple)})
			}
		default:
			a.add(dst, origin{k: oUnknown, s: fmt.Sprintf("%T", x)}, e4step{pos: pos, text: fmt.Sprintf("value produced by %T, not modelled", x)})
		}
	}
}

func (a *e4) rootName(fn *ssa.Function, r e4root) string {
	switch r.kind {
	case 0:
		return "local " + allocName(r.alloc)
	case 1:
		return "the pointee of parameter " + fn.Params[r.p].Name()
	case 2:
		return "package-level variable " + globalName(r.g)
	}
	return "?"
}

// addrVal: an address derived from base denotes what base's roots hold.
func (a *e4) addrVal(fn *ssa.Function, dst e4node, base ssa.Value, pos token.Pos) {
	for _, r := range a.roots(fn, base, map[ssa.Value]bool{}) {
		if n, ok := a.rootNode(fn, r); ok {
			a.union(dst, n, pos, "address inside "+a.rootName(fn, r))
		} else {
			a.add(dst, origin{k: oUnknown, s: "address: " + r.why}, e4step{pos: pos, text: "address the engine cannot attribute (" + r.why + ")"})
		}
	}
}

func (a *e4) call(fn *ssa.Function, ins ssa.Instruction, c *ssa.CallCommon, res *ssa.Call) {
	pos := a.posOf(fn, ins)
	anyCarry := false
	for _, arg := range c.Args {
		if a.carries(arg.Type()) {
			anyCarry = true
		}
	}
	resCarries := res != nil && a.carries(res.Type())
	if !anyCarry && !resCarries {
		return
	}
	a.exam[fn]++
	nres := 0
	if res != nil {
		nres = c.Signature().Results().Len()
	}
	resNode := func(i int) e4node {
		if nres > 1 {
			return e4node{fn: fn, cat: 0, v: res, idx: i + 1}
		}
		return e4node{fn: fn, cat: 0, v: res}
	}
	unknownCall := func(why string) {
		if resCarries {
			for i := 0; i < nres; i++ {
				if a.carries(c.Signature().Results().At(i).Type()) {
					a.add(resNode(i), origin{k: oUnknown, s: why}, e4step{pos: pos, text: "result of " + why})
				}
			}
			if nres > 1 {
				a.add(e4node{fn: fn, cat: 0, v: res}, origin{k: oUnknown, s: why}, e4step{pos: pos, text: "result of " + why})
			}
		}
		if anyCarry {
			a.leak(fn, pos, "a *big.Int-carrying value is passed to "+why)
			unk := e4node{fn: fn, cat: 4, ins: ins, idx: -1}
			a.add(unk, origin{k: oUnknown, s: why}, e4step{pos: pos, text: "written by " + why})
			for _, arg := range c.Args {
				if _, isPtr := arg.Type().Underlying().(*types.Pointer); isPtr && a.carries(arg.Type()) && !a.isBigIntPtr(arg.Type()) {
					a.storeInto(fn, arg, unk, pos, "possibly stored by "+why)
				}
			}
		}
	}
	fs, builtin, ok := a.calleesOf(c)
	if !ok {
		unknownCall("a call whose target is not resolved statically")
		return
	}
	if builtin != nil {
		if resCarries {
			for _, arg := range c.Args {
				if a.carries(arg.Type()) {
					a.union(resNode(0), a.val(fn, arg), pos, "through builtin "+builtin.Name())
				}
			}
		}
		if builtin.Name() == "copy" && anyCarry {
			a.leak(fn, pos, "builtin copy of *big.Int-carrying elements")
		}
		return
	}
	for _, f := range fs {
		if a.edges[fn] == nil {
			a.edges[fn] = map[*ssa.Function]bool{}
		}
		a.edges[fn][f] = true
		if len(f.Blocks) == 0 {
			a.modelCall(fn, f, c, pos, resCarries, nres, resNode, unknownCall)
			continue
		}
		a.ensure(f)
		name := f.Name()
		// substitution of a callee-side set into the caller
		subst := func(dst e4node, src e4node, text string) {
			for o := range a.sets[src] {
				s := src
				if o.k == oParam {
					if o.idx < len(c.Args) {
						argN := a.val(fn, c.Args[o.idx])
						for ao := range a.sets[argN] {
							// two-level provenance: callee node first, then the argument
							a.add(dst, ao, e4step{pos: pos, text: text + ", which hands back its parameter " + o.s + " (callee-side chain follows, then the argument passed here)", prev: &argN, po: ao, via: &s, viaO: o})
						}
					}
					continue
				}
				a.add(dst, o, e4step{pos: pos, text: text, prev: &s, po: o})
			}
		}
		if resCarries {
			for i := 0; i < nres; i++ {
				if !a.carries(c.Signature().Results().At(i).Type()) {
					continue
				}
				subst(resNode(i), e4node{fn: f, cat: 3, idx: i}, "result of call to "+name)
				if nres > 1 {
					a.union(e4node{fn: fn, cat: 0, v: res}, resNode(i), pos, "tuple component")
				}
			}
		}
		for p := range f.Params {
			eff := e4node{fn: f, cat: 2, idx: p}
			if len(a.sets[eff]) == 0 || p >= len(c.Args) {
				continue
			}
			tmp := e4node{fn: fn, cat: 4, ins: ins, idx: p}
			subst(tmp, eff, "stored by "+name+" through its parameter "+f.Params[p].Name())
			a.storeInto(fn, c.Args[p], tmp, pos, "stored by callee "+name)
		}
	}
}

// modelCall answers calls to functions without an SSA body (only reached when
// math/big was loaded without syntax): big.NewInt is fresh; a (*big.Int)
// method with a single *big.Int result returns its receiver (math/big's
// documented convention).
func (a *e4) modelCall(fn, f *ssa.Function, c *ssa.CallCommon, pos token.Pos, resCarries bool, nres int, resNode func(int) e4node, unknownCall func(string)) {
	full := ""
	if f.Object() != nil {
		full = f.Object().(*types.Func).FullName()
	}
	switch {
	case c06Formatter[full]:
		// fmt's formatting functions read their operands and keep none of them.
		a.modeled[full] = true
	case full == "math/big.NewInt":
		a.modeled[full] = true
		a.add(resNode(0), origin{k: oFresh}, e4step{pos: pos, text: "big.NewInt (modelled: allocates)"})
	case strings.HasPrefix(full, "(*math/big.Int).") && nres <= 1:
		a.modeled[full] = true
		if resCarries && len(c.Args) > 0 && a.isBigIntPtr(c.Signature().Results().At(0).Type()) {
			a.union(resNode(0), a.val(fn, c.Args[0]), pos, "result of "+full+" (modelled: returns its receiver)")
		} else if resCarries {
			unknownCall("body-less function " + full)
		}
	default:
		unknownCall("body-less function " + f.String())
	}
}

// c06Formatter: body-less callees known to read, not retain, their arguments
// (their results are strings / errors built from text).
var c06Formatter = map[string]bool{
	"fmt.Sprintf": true, "fmt.Sprint": true, "fmt.Sprintln": true, "fmt.Errorf": true,
}

// solve iterates all reached functions to a fixpoint.
func (a *e4) solve(rootsFns []*ssa.Function) int {
	for _, f := range rootsFns {
		a.ensure(f)
	}
	rounds := 0
	for {
		rounds++
		a.changed = false
		for i := 0; i < len(a.order); i++ {
			a.visit(a.order[i])
		}
		if !a.changed || rounds > 200 {
			break
		}
	}
	return rounds
}

func (a *e4) originsOf(n e4node) []origin {
	var out []origin
	for o := range a.sets[n] {
		out = append(out, o)
	}
	sort.Slice(out, func(i, j int) bool {
		if out[i].k != out[j].k {
			return out[i].k < out[j].k
		}
		if out[i].idx != out[j].idx {
			return out[i].idx < out[j].idx
		}
		return out[i].s < out[j].s
	})
	return out
}

func originSetString(os []origin) string {
	var ss []string
	for _, o := range os {
		ss = append(ss, o.String())
	}
	return "{" + strings.Join(ss, ", ") + "}"
}

// explain walks the provenance chain of origin o at node n.
func (a *e4) explain(n e4node, o origin, posf func(token.Pos) string) []string {
	var lines []string
	seen := map[string]bool{}
	var walk func(n e4node, o origin, indent string, budget int)
	walk = func(n e4node, o origin, indent string, budget int) {
		for depth := 0; depth < budget && len(lines) < 40; depth++ {
			st, ok := a.sets[n][o]
			if !ok {
				return
			}
			where := "?"
			if n.fn != nil {
				where = n.fn.Name()
			}
			ln := fmt.Sprintf("%s%s (%s): %s", indent, posf(st.pos), where, st.text)
			if !seen[ln] {
				lines = append(lines, ln)
				seen[ln] = true
			}
			if st.via != nil && len(indent) < 6 {
				walk(*st.via, st.viaO, indent+"  | ", 12)
			}
			if st.prev == nil {
				return
			}
			n, o = *st.prev, st.po
		}
	}
	walk(n, o, "", 24)
	return lines
}
