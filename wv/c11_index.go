package main

// L.index — index guards of the tokenizer.
//
// Every index / slice expression on a local slice or string variable in
// lang/token.Tokenize and in the package functions it calls is decided by a
// forward dataflow over go/cfg whose abstract state is a *zone* (difference
// bound matrix): constraints `x - y <= c` over the nodes
//
//	0, len(S) for every local slice/string S, v for every local int variable v.
//
// Facts come from the conditions passed on the way (`j < len(src)-2`,
// `j+2 < len(src)`, `len(src)-2 > j`, `i == len(s)` false, …: every
// comparison whose difference of sides is x - y + c), with the short-circuit
// structure of && / || / ! walked in evaluation order (go/cfg keeps a compound
// condition as one node), from assignments (`j := i + 1`, `j++`, `i += 2`,
// `i = j`, `s = s[1:len(s)-1]`, `a = a[:len(s)]`, `n := len(src)`), from
// `for i := range a`, and from boolean locals (`hasEndian := A && B` stores
// the facts of its true and of its false outcome; `if hasEndian` recalls those
// that no assignment has invalidated since).
//
// Nothing is executed; the argument is the textbook interval/zone argument.

import (
	"fmt"
	"go/ast"
	"go/constant"
	"go/token"
	"go/types"
	"os"
	"sort"
	"strings"

	"golang.org/x/tools/go/cfg"

	"wv/core"
)

// ---------------------------------------------------------------------------
// A small forward dataflow driver shared by L.index and N.lhs
// ---------------------------------------------------------------------------

// c11Dom is an abstract domain. States are opaque; a nil state is "unreached".
type c11Dom interface {
	Entry() any
	Join(old, in any, widen bool) any // neither is nil
	Equal(a, b any) bool
	// Use is called (recording pass only) for every syntax node in the order of
	// evaluation, with the state in which it is evaluated.
	Use(n ast.Node, s any)
	// Refine: e is a boolean leaf (no &&, ||, !): the states in which it is true / false.
	Refine(e ast.Expr, s any) (t, f any)
	// Effect applies the effect of executing statement n.
	Effect(n ast.Node, s any) any
	// Range: the state at the start of an iteration of rs.
	Range(rs *ast.RangeStmt, s any) any
}

type c11Driver struct {
	fl    *core.Flow
	info  *types.Info
	dom   c11Dom
	rec   bool
	tagOf map[ast.Expr]ast.Expr // case expression of a tagged switch -> its tag
	in    map[*cfg.Block]any
	iters int
}

func newC11Driver(fl *core.Flow, dom c11Dom) *c11Driver {
	d := &c11Driver{fl: fl, info: fl.F.Info(), dom: dom, tagOf: map[ast.Expr]ast.Expr{}}
	ast.Inspect(fl.F.Decl.Body, func(n ast.Node) bool {
		if sw, ok := n.(*ast.SwitchStmt); ok && sw.Tag != nil {
			for _, cl := range sw.Body.List {
				for _, e := range cl.(*ast.CaseClause).List {
					d.tagOf[e] = sw.Tag
				}
			}
		}
		return true
	})
	return d
}

func (d *c11Driver) join(a, b any, widen bool) any {
	if a == nil {
		return b
	}
	if b == nil {
		return a
	}
	return d.dom.Join(a, b, widen)
}

// cond evaluates a boolean expression in state s: uses are offered in
// evaluation order; the states for the true and for the false outcome are returned.
func (d *c11Driver) cond(e ast.Expr, s any) (t, f any) {
	if s == nil {
		return nil, nil
	}
	switch v := ast.Unparen(e).(type) {
	case *ast.BinaryExpr:
		switch v.Op {
		case token.LAND:
			at, af := d.cond(v.X, s)
			bt, bf := d.cond(v.Y, at)
			return bt, d.join(af, bf, false)
		case token.LOR:
			at, af := d.cond(v.X, s)
			bt, bf := d.cond(v.Y, af)
			return d.join(at, bt, false), bf
		}
	case *ast.UnaryExpr:
		if v.Op == token.NOT {
			t, f = d.cond(v.X, s)
			return f, t
		}
	}
	d.scan(e, s)
	return d.dom.Refine(ast.Unparen(e), s)
}

// scan offers every node inside n (not entering blocks or function literals)
// to the domain, with && / || operands seen in the state their evaluation implies.
func (d *c11Driver) scan(n ast.Node, s any) {
	if n == nil || s == nil {
		return
	}
	ast.Inspect(n, func(m ast.Node) bool {
		switch v := m.(type) {
		case nil:
			return false
		case *ast.BlockStmt, *ast.FuncLit:
			return false
		case *ast.BinaryExpr:
			if v.Op == token.LAND || v.Op == token.LOR {
				d.cond(v, s)
				return false
			}
		case *ast.UnaryExpr:
			if v.Op == token.NOT {
				d.cond(v, s)
				return false
			}
		}
		if d.rec {
			d.dom.Use(m, s)
		}
		return true
	})
}

// quiet runs f with recording switched off (used by domains that re-evaluate
// a condition to remember its facts).
func (d *c11Driver) quiet(f func()) {
	old := d.rec
	d.rec = false
	f()
	d.rec = old
}

func (d *c11Driver) transfer(b *cfg.Block) []any {
	s := d.in[b]
	outs := make([]any, len(b.Succs))
	if b.Kind == cfg.KindRangeLoop && len(b.Nodes) == 0 && len(b.Succs) == 2 {
		if rs, ok := b.Stmt.(*ast.RangeStmt); ok {
			outs[0], outs[1] = d.dom.Range(rs, s), s
			return outs
		}
	}
	for i, n := range b.Nodes {
		last := i == len(b.Nodes)-1
		if e, ok := n.(ast.Expr); ok {
			if last && len(b.Succs) == 2 {
				if tag, isCase := d.tagOf[e]; isCase {
					// `switch tag { case e:` — the edge condition is tag == e
					d.scan(e, s)
					if s != nil {
						outs[0], outs[1] = d.dom.Refine(&ast.BinaryExpr{X: tag, Op: token.EQL, Y: e, OpPos: e.Pos()}, s)
					}
					return outs
				}
				if tv, ok := d.info.Types[e]; ok && tv.Type != nil {
					if bt, ok := tv.Type.Underlying().(*types.Basic); ok && bt.Info()&types.IsBoolean != 0 {
						outs[0], outs[1] = d.cond(e, s)
						return outs
					}
				}
			}
			d.scan(e, s)
			continue
		}
		d.scan(n, s)
		if s != nil {
			s = d.dom.Effect(n, s)
		}
	}
	for i := range outs {
		outs[i] = s
	}
	return outs
}

// run computes the fixpoint and then makes one recording pass. It returns
// false when no fixpoint was reached (the caller reports undecided).
func (d *c11Driver) run() bool {
	blocks := d.fl.G.Blocks
	d.in = map[*cfg.Block]any{}
	if len(blocks) == 0 {
		return true
	}
	d.in[blocks[0]] = d.dom.Entry()
	visits := map[*cfg.Block]int{}
	stable := false
	for iter := 0; iter < 400 && !stable; iter++ {
		d.iters++
		stable = true
		for _, b := range blocks {
			if d.in[b] == nil {
				continue
			}
			outs := d.transfer(b)
			for i, sc := range b.Succs {
				if outs[i] == nil {
					continue
				}
				var nw any
				if d.in[sc] == nil {
					nw = outs[i]
				} else {
					nw = d.dom.Join(d.in[sc], outs[i], visits[sc] > 6)
					if d.dom.Equal(nw, d.in[sc]) {
						continue
					}
				}
				visits[sc]++
				d.in[sc] = nw
				stable = false
			}
		}
	}
	if !stable {
		return false
	}
	d.rec = true
	for _, b := range blocks {
		if d.in[b] != nil {
			d.transfer(b)
		}
	}
	d.rec = false
	return true
}

// ---------------------------------------------------------------------------
// Zones
// ---------------------------------------------------------------------------

const zInf = int64(1) << 60

// zmat[i][j] is an upper bound of node_i - node_j. nil = infeasible.
type zmat [][]int64

func newZmat(n int) zmat {
	m := make(zmat, n)
	for i := range m {
		m[i] = make([]int64, n)
		for j := range m[i] {
			if i != j {
				m[i][j] = zInf
			}
		}
	}
	return m
}

func (m zmat) clone() zmat {
	if m == nil {
		return nil
	}
	o := make(zmat, len(m))
	for i := range m {
		o[i] = append([]int64(nil), m[i]...)
	}
	return o
}

func zadd(a, b int64) int64 {
	if a >= zInf || b >= zInf {
		return zInf
	}
	return a + b
}

// add tightens x - y <= c and restores closure; false when infeasible.
func (m zmat) add(x, y int, c int64) bool {
	if x == y {
		return c >= 0
	}
	if c >= m[x][y] {
		return true
	}
	n := len(m)
	for i := 0; i < n; i++ {
		ix := m[i][x]
		if ix >= zInf {
			continue
		}
		for j := 0; j < n; j++ {
			yj := m[y][j]
			if yj >= zInf {
				continue
			}
			if v := ix + c + yj; v < m[i][j] {
				m[i][j] = v
			}
		}
	}
	for i := 0; i < n; i++ {
		if m[i][i] < 0 {
			return false
		}
	}
	return true
}

func (m zmat) forget(v int) {
	for y := range m {
		if y != v {
			m[v][y], m[y][v] = zInf, zInf
		}
	}
}

// shift: v := v + k (+ an unknown non-negative amount when ge).
func (m zmat) shift(v int, k int64, ge bool) {
	for y := range m {
		if y == v {
			continue
		}
		if ge {
			m[v][y] = zInf
		} else if m[v][y] < zInf {
			m[v][y] += k
		}
		if m[y][v] < zInf {
			m[y][v] -= k
		}
	}
}

func zjoin(a, b zmat, widen bool) zmat {
	if a == nil {
		return b.clone()
	}
	if b == nil {
		return a.clone()
	}
	o := a.clone()
	for i := range o {
		for j := range o[i] {
			if b[i][j] > o[i][j] {
				if widen {
					o[i][j] = zInf
				} else {
					o[i][j] = b[i][j]
				}
			}
		}
	}
	return o
}

func zequal(a, b zmat) bool {
	if (a == nil) != (b == nil) {
		return false
	}
	for i := range a {
		for j := range a[i] {
			if a[i][j] != b[i][j] {
				return false
			}
		}
	}
	return true
}

// zbool: what was known when a boolean local was assigned, per outcome.
type zbool struct{ t, f zmat }

type zstate struct {
	m     zmat
	bools map[*types.Var]zbool
}

func (s *zstate) clone() *zstate {
	o := &zstate{m: s.m.clone(), bools: map[*types.Var]zbool{}}
	for k, v := range s.bools {
		o.bools[k] = zbool{v.t.clone(), v.f.clone()}
	}
	return o
}

// zlin: value = sum(co[node]) + k (+ an unknown amount >= 0 when ge).
type zlin struct {
	co map[int]int64
	k  int64
	ge bool
}

func (l zlin) scaled(c int64) zlin {
	o := zlin{co: map[int]int64{}, k: l.k * c, ge: l.ge}
	for n, v := range l.co {
		if v*c != 0 {
			o.co[n] = v * c
		}
	}
	return o
}

func (l zlin) plus(r zlin) zlin {
	o := zlin{co: map[int]int64{}, k: l.k + r.k, ge: l.ge || r.ge}
	for n, v := range l.co {
		o.co[n] = v
	}
	for n, v := range r.co {
		if o.co[n]+v == 0 {
			delete(o.co, n)
		} else {
			o.co[n] += v
		}
	}
	return o
}

// diff: l = x - y + k with x, y nodes (0 = the constant zero).
func (l zlin) diff() (x, y int, k int64, ok bool) {
	if l.ge || len(l.co) > 2 {
		return 0, 0, 0, false
	}
	np, nn := 0, 0
	for n, c := range l.co {
		switch c {
		case 1:
			x = n
			np++
		case -1:
			y = n
			nn++
		default:
			return 0, 0, 0, false
		}
	}
	if np > 1 || nn > 1 {
		return 0, 0, 0, false
	}
	return x, y, l.k, true
}

// zLossy: a place where the source relates tracked quantities in a way a zone
// cannot hold. A site left unproven that involves one of these nodes is
// reported as undecided rather than as unsafe.
type zLossy struct {
	pos   token.Pos
	text  string
	nodes map[int]bool
}

type zSite struct {
	pos    token.Pos
	text   string
	base   types.Object
	class  string // "safe", "unsafe", "unclassified"
	why    string
	nodes  map[int]bool
	onBase bool // base is a tracked slice/string
}

type zoneDom struct {
	d        *c11Driver
	fl       *core.Flow
	info     *types.Info
	node     map[types.Object]int // int variable -> node; slice/string variable -> node of its length
	isSeq    map[types.Object]bool
	names    []string
	untrack  map[types.Object]string
	sites    map[token.Pos]*zSite
	lossy    []zLossy
	lossSeen map[token.Pos]bool
}

func zIsInt(t types.Type) bool {
	b, ok := t.(*types.Basic)
	return ok && b.Kind() == types.Int
}

func zIsSeq(t types.Type) bool {
	switch u := t.Underlying().(type) {
	case *types.Slice:
		return true
	case *types.Basic:
		return u.Info()&types.IsString != 0
	}
	return false
}

func newZoneDom(fl *core.Flow) *zoneDom {
	z := &zoneDom{fl: fl, info: fl.F.Info(), node: map[types.Object]int{}, isSeq: map[types.Object]bool{}, names: []string{"0"},
		untrack: map[types.Object]string{}, sites: map[token.Pos]*zSite{}, lossSeen: map[token.Pos]bool{}}
	body := fl.F.Decl
	// variables whose address is taken or that a function literal captures are not tracked
	ast.Inspect(body, func(n ast.Node) bool {
		switch v := n.(type) {
		case *ast.UnaryExpr:
			if v.Op == token.AND {
				if id, ok := ast.Unparen(v.X).(*ast.Ident); ok {
					if o, ok := z.info.Uses[id].(*types.Var); ok {
						z.untrack[o] = "its address is taken"
					}
				}
			}
		case *ast.FuncLit:
			ast.Inspect(v.Body, func(m ast.Node) bool {
				if id, ok := m.(*ast.Ident); ok {
					if o, ok := z.info.Uses[id].(*types.Var); ok && !o.IsField() {
						z.untrack[o] = "captured by a function literal"
					}
				}
				return true
			})
			return false
		}
		return true
	})
	add := func(o *types.Var) {
		if o == nil || o.IsField() || o.Pkg() == nil || o.Parent() == o.Pkg().Scope() {
			return
		}
		if _, bad := z.untrack[o]; bad {
			return
		}
		if _, ok := z.node[o]; ok {
			return
		}
		switch {
		case zIsInt(o.Type()):
			z.node[o] = len(z.names)
			z.names = append(z.names, o.Name())
		case zIsSeq(o.Type()):
			z.node[o] = len(z.names)
			z.isSeq[o] = true
			z.names = append(z.names, "len("+o.Name()+")")
		}
	}
	ast.Inspect(body, func(n ast.Node) bool {
		if id, ok := n.(*ast.Ident); ok {
			if o, ok := z.info.Defs[id].(*types.Var); ok {
				add(o)
			}
		}
		return true
	})
	return z
}

func (z *zoneDom) Entry() any {
	m := newZmat(len(z.names))
	for o, n := range z.node {
		if z.isSeq[o] {
			m[0][n] = 0 // 0 - len <= 0
		}
	}
	return &zstate{m: m, bools: map[*types.Var]zbool{}}
}

func (z *zoneDom) Join(a, b any, widen bool) any {
	x, y := a.(*zstate), b.(*zstate)
	o := &zstate{m: zjoin(x.m, y.m, widen), bools: map[*types.Var]zbool{}}
	for k, v := range x.bools {
		if w, ok := y.bools[k]; ok {
			o.bools[k] = zbool{zjoin(v.t, w.t, widen), zjoin(v.f, w.f, widen)}
		}
	}
	return o
}

func (z *zoneDom) Equal(a, b any) bool {
	x, y := a.(*zstate), b.(*zstate)
	if !zequal(x.m, y.m) || len(x.bools) != len(y.bools) {
		return false
	}
	for k, v := range x.bools {
		w, ok := y.bools[k]
		if !ok || !zequal(v.t, w.t) || !zequal(v.f, w.f) {
			return false
		}
	}
	return true
}

func (z *zoneDom) varOf(e ast.Expr) (*types.Var, bool) {
	id, ok := ast.Unparen(e).(*ast.Ident)
	if !ok {
		return nil, false
	}
	o, ok := z.info.Uses[id].(*types.Var)
	if !ok {
		o, ok = z.info.Defs[id].(*types.Var)
	}
	return o, ok && o != nil
}

func (z *zoneDom) nodeOf(e ast.Expr, seq bool) (int, bool) {
	o, ok := z.varOf(e)
	if !ok {
		return 0, false
	}
	n, ok := z.node[o]
	return n, ok && z.isSeq[o] == seq
}

func (z *zoneDom) builtin(call *ast.CallExpr) string {
	if id, ok := ast.Unparen(call.Fun).(*ast.Ident); ok {
		if b, ok := z.info.Uses[id].(*types.Builtin); ok {
			return b.Name()
		}
	}
	return ""
}

// lin evaluates an int expression to a linear form over the nodes.
func (z *zoneDom) lin(e ast.Expr) (zlin, bool) {
	e = ast.Unparen(e)
	if tv, ok := z.info.Types[e]; ok && tv.Value != nil {
		if v := constant.ToInt(tv.Value); v.Kind() == constant.Int {
			if k, ok := constant.Int64Val(v); ok && k > -zInf/4 && k < zInf/4 {
				return zlin{k: k}, true
			}
		}
		return zlin{}, false
	}
	switch v := e.(type) {
	case *ast.Ident:
		if n, ok := z.nodeOf(v, false); ok {
			return zlin{co: map[int]int64{n: 1}}, true
		}
	case *ast.CallExpr:
		switch z.builtin(v) {
		case "len":
			if len(v.Args) == 1 {
				if n, ok := z.nodeOf(v.Args[0], true); ok {
					return zlin{co: map[int]int64{n: 1}}, true
				}
				return zlin{ge: true}, true // some length: >= 0
			}
		case "cap":
			return zlin{ge: true}, true
		}
		// int(x) of an int-typed x
		if tv, ok := z.info.Types[v.Fun]; ok && tv.IsType() && len(v.Args) == 1 && zIsInt(tv.Type) {
			if at, ok := z.info.Types[v.Args[0]]; ok && at.Type != nil && zIsInt(at.Type) {
				return z.lin(v.Args[0])
			}
		}
	case *ast.BinaryExpr:
		if tv, ok := z.info.Types[e]; !ok || tv.Type == nil || !zIsInt(tv.Type) {
			return zlin{}, false
		}
		a, oka := z.lin(v.X)
		b, okb := z.lin(v.Y)
		if !oka || !okb {
			return zlin{}, false
		}
		switch v.Op {
		case token.ADD:
			return a.plus(b), true
		case token.SUB:
			if b.ge {
				return zlin{}, false
			}
			return a.plus(b.scaled(-1)), true
		case token.MUL:
			if len(a.co) == 0 && !a.ge && (!b.ge || a.k >= 0) {
				return b.scaled(a.k), true
			}
			if len(b.co) == 0 && !b.ge && (!a.ge || b.k >= 0) {
				return a.scaled(b.k), true
			}
		}
	case *ast.UnaryExpr:
		if tv, ok := z.info.Types[e]; !ok || tv.Type == nil || !zIsInt(tv.Type) {
			return zlin{}, false
		}
		a, ok := z.lin(v.X)
		if !ok {
			return zlin{}, false
		}
		switch v.Op {
		case token.ADD:
			return a, true
		case token.SUB:
			if !a.ge {
				return a.scaled(-1), true
			}
		}
	}
	return zlin{}, false
}

// mentioned: the tracked quantities whose value enters e arithmetically (not
// through an element read `s[i]` or an argument of a call other than len/cap
// and conversions).
func (z *zoneDom) mentioned(e ast.Node) map[int]bool {
	out := map[int]bool{}
	ast.Inspect(e, func(n ast.Node) bool {
		switch v := n.(type) {
		case *ast.IndexExpr, *ast.SliceExpr, *ast.FuncLit:
			return false
		case *ast.CallExpr:
			if b := z.builtin(v); b == "len" || b == "cap" {
				return true
			}
			if tv, ok := z.info.Types[v.Fun]; ok && tv.IsType() {
				return true
			}
			return false
		}
		if id, ok := n.(*ast.Ident); ok {
			if o, ok := z.info.Uses[id].(*types.Var); ok {
				if nd, ok := z.node[o]; ok {
					out[nd] = true
				}
			}
		}
		return true
	})
	return out
}

func (z *zoneDom) noteLossy(n ast.Node, nodes map[int]bool) {
	if len(nodes) == 0 || z.lossSeen[n.Pos()] {
		return
	}
	z.lossSeen[n.Pos()] = true
	z.lossy = append(z.lossy, zLossy{n.Pos(), core.Src(z.fl.F.Prog.Fset, n), nodes})
}

// assume returns m refined by (x - y + k) op 0, or nil when that is infeasible.
func zassume(m zmat, x, y int, k int64, op token.Token) zmat {
	if m == nil {
		return nil
	}
	o := m.clone()
	ok := true
	switch op {
	case token.LSS:
		ok = o.add(x, y, -k-1)
	case token.LEQ:
		ok = o.add(x, y, -k)
	case token.GTR:
		ok = o.add(y, x, k-1)
	case token.GEQ:
		ok = o.add(y, x, k)
	case token.EQL:
		ok = o.add(x, y, -k) && o.add(y, x, k)
	case token.NEQ:
		if x == y {
			ok = k != 0
		} else {
			if o[x][y] == -k { // x - y <= -k and x - y != -k
				ok = o.add(x, y, -k-1)
			}
			if ok && o[y][x] == k {
				ok = o.add(y, x, k-1)
			}
		}
	}
	if !ok {
		return nil
	}
	return o
}

func znegate(op token.Token) token.Token {
	switch op {
	case token.LSS:
		return token.GEQ
	case token.LEQ:
		return token.GTR
	case token.GTR:
		return token.LEQ
	case token.GEQ:
		return token.LSS
	case token.EQL:
		return token.NEQ
	case token.NEQ:
		return token.EQL
	}
	return op
}

func (z *zoneDom) with(s *zstate, m zmat) any {
	if m == nil {
		return nil
	}
	o := s.clone()
	o.m = m
	return o
}

// meetBool recalls the facts stored for a boolean local.
func zmeet(a, b zmat) zmat {
	if a == nil || b == nil {
		return nil
	}
	o := a.clone()
	for i := range b {
		for j := range b[i] {
			if i != j && b[i][j] < zInf {
				if !o.add(i, j, b[i][j]) {
					return nil
				}
			}
		}
	}
	return o
}

func (z *zoneDom) Refine(e ast.Expr, sa any) (any, any) {
	s := sa.(*zstate)
	// constant conditions
	if tv, ok := z.info.Types[e]; ok && tv.Value != nil && tv.Value.Kind() == constant.Bool {
		if constant.BoolVal(tv.Value) {
			return s, nil
		}
		return nil, s
	}
	switch v := e.(type) {
	case *ast.Ident:
		if o, ok := z.varOf(v); ok {
			if bf, ok := s.bools[o]; ok {
				return z.with(s, zmeet(s.m, bf.t)), z.with(s, zmeet(s.m, bf.f))
			}
		}
	case *ast.BinaryExpr:
		switch v.Op {
		case token.LSS, token.LEQ, token.GTR, token.GEQ, token.EQL, token.NEQ:
		default:
			return s, s
		}
		// s == "" / s != "" / s == "lit" on a tracked string
		for _, pr := range [][2]ast.Expr{{v.X, v.Y}, {v.Y, v.X}} {
			L, isSeq := z.nodeOf(pr[0], true)
			tv, ok := z.info.Types[pr[1]]
			if !isSeq || !ok || tv.Value == nil || tv.Value.Kind() != constant.String || (v.Op != token.EQL && v.Op != token.NEQ) {
				continue
			}
			n := int64(len(constant.StringVal(tv.Value)))
			eq := z.with(s, zassume(s.m, L, 0, -n, token.EQL))
			var ne any = s
			if n == 0 {
				ne = z.with(s, zassume(s.m, L, 0, 0, token.NEQ))
			}
			if v.Op == token.EQL {
				return eq, ne
			}
			return ne, eq
		}
		a, oka := z.lin(v.X)
		b, okb := z.lin(v.Y)
		if oka && okb && !b.ge && !a.ge {
			if x, y, k, ok := a.plus(b.scaled(-1)).diff(); ok {
				return z.with(s, zassume(s.m, x, y, k, v.Op)), z.with(s, zassume(s.m, x, y, k, znegate(v.Op)))
			}
		}
		// a comparison between integers that mentions tracked quantities but is not a difference constraint
		if tx, ok := z.info.Types[v.X]; ok && tx.Type != nil {
			if bt, ok := tx.Type.Underlying().(*types.Basic); ok && bt.Info()&types.IsInteger != 0 {
				z.noteLossy(e, z.mentioned(e))
			}
		}
	}
	return s, s
}

// setNode: node v := l (in state s, in place). nodesKilled receives v.
func (z *zoneDom) setNode(s *zstate, v int, l zlin, ok bool, isLen bool) {
	for _, bf := range s.bools {
		if bf.t != nil {
			bf.t.forget(v)
			if isLen {
				bf.t[0][v] = 0
			}
		}
		if bf.f != nil {
			bf.f.forget(v)
			if isLen {
				bf.f[0][v] = 0
			}
		}
	}
	m := s.m
	done := false
	if ok {
		if c, self := l.co[v]; self && c == 1 && len(l.co) == 1 {
			m.shift(v, l.k, l.ge)
			done = true
		} else if !self {
			if len(l.co) == 0 {
				m.forget(v)
				if !l.ge {
					m.add(v, 0, l.k)
				}
				m.add(0, v, -l.k)
				done = true
			} else if len(l.co) == 1 {
				for y, c := range l.co {
					if c == 1 {
						m.forget(v)
						if !l.ge {
							m.add(v, y, l.k)
						}
						m.add(y, v, -l.k)
						done = true
					}
				}
			}
		}
	}
	if !done {
		m.forget(v)
	}
	if isLen {
		m.add(0, v, 0)
	}
}

// seqLen: the length of the value of e (a slice/string expression), as a linear form.
func (z *zoneDom) seqLen(e ast.Expr) (zlin, bool) {
	e = ast.Unparen(e)
	if tv, ok := z.info.Types[e]; ok && tv.Value != nil && tv.Value.Kind() == constant.String {
		return zlin{k: int64(len(constant.StringVal(tv.Value)))}, true
	}
	switch v := e.(type) {
	case *ast.Ident:
		if n, ok := z.nodeOf(v, true); ok {
			return zlin{co: map[int]int64{n: 1}}, true
		}
	case *ast.SliceExpr:
		if v.Slice3 {
			return zlin{}, false
		}
		lo := zlin{}
		ok := true
		if v.Low != nil {
			lo, ok = z.lin(v.Low)
		}
		if !ok || lo.ge {
			return zlin{}, false
		}
		var hi zlin
		if v.High != nil {
			hi, ok = z.lin(v.High)
		} else {
			hi, ok = z.seqLen(v.X)
		}
		if !ok {
			return zlin{}, false
		}
		return hi.plus(lo.scaled(-1)), true
	case *ast.CallExpr:
		switch z.builtin(v) {
		case "append":
			if len(v.Args) >= 1 {
				if l, ok := z.seqLen(v.Args[0]); ok {
					if v.Ellipsis.IsValid() {
						l.ge = true
						return l, true
					}
					return l.plus(zlin{k: int64(len(v.Args) - 1)}), true
				}
			}
			return zlin{}, false
		}
		// string(b) / []byte(s) keep the length
		if tv, ok := z.info.Types[v.Fun]; ok && tv.IsType() && len(v.Args) == 1 && zIsSeq(tv.Type) {
			if at, ok := z.info.Types[v.Args[0]]; ok && at.Type != nil && zIsSeq(at.Type) {
				return z.seqLen(v.Args[0])
			}
		}
	}
	return zlin{}, false
}

func (z *zoneDom) Effect(n ast.Node, sa any) any {
	s := sa.(*zstate).clone()
	forgetObj := func(o *types.Var) {
		delete(s.bools, o)
		if nd, ok := z.node[o]; ok {
			z.setNode(s, nd, zlin{}, false, z.isSeq[o])
		}
	}
	switch st := n.(type) {
	case *ast.IncDecStmt:
		if o, ok := z.varOf(st.X); ok {
			if nd, ok := z.node[o]; ok && !z.isSeq[o] {
				k := int64(1)
				if st.Tok == token.DEC {
					k = -1
				}
				z.setNode(s, nd, zlin{co: map[int]int64{nd: 1}, k: k}, true, false)
			}
		}
	case *ast.AssignStmt:
		type upd struct {
			o    *types.Var
			l    zlin
			ok   bool
			bool *zbool
		}
		var ups []upd
		targets := map[int]bool{}
		for _, l := range st.Lhs {
			if o, ok := z.varOf(l); ok {
				if nd, ok := z.node[o]; ok {
					targets[nd] = true
				}
			}
		}
		for i, l := range st.Lhs {
			o, ok := z.varOf(l)
			if !ok {
				continue // not a plain variable: a store through an index, field or pointer changes no tracked quantity
			}
			u := upd{o: o}
			nd, tracked := z.node[o]
			if len(st.Lhs) == len(st.Rhs) {
				rhs := st.Rhs[i]
				switch {
				case tracked && !z.isSeq[o]:
					switch st.Tok {
					case token.ASSIGN, token.DEFINE:
						u.l, u.ok = z.lin(rhs)
					case token.ADD_ASSIGN, token.SUB_ASSIGN:
						if r, ok := z.lin(rhs); ok {
							self := zlin{co: map[int]int64{nd: 1}}
							if st.Tok == token.ADD_ASSIGN {
								u.l, u.ok = self.plus(r), true
							} else if !r.ge {
								u.l, u.ok = self.plus(r.scaled(-1)), true
							}
						}
					}
					if !u.ok {
						z.noteLossy(st, z.withNode(z.mentioned(rhs), nd))
					}
				case tracked && z.isSeq[o]:
					if st.Tok == token.ASSIGN || st.Tok == token.DEFINE {
						u.l, u.ok = z.seqLen(rhs)
					}
				default:
					if bt, ok := o.Type().Underlying().(*types.Basic); ok && bt.Info()&types.IsBoolean != 0 && (st.Tok == token.ASSIGN || st.Tok == token.DEFINE) {
						if _, bad := z.untrack[o]; !bad && !o.IsField() && o.Pkg() != nil && o.Parent() != o.Pkg().Scope() {
							var t, f any
							z.d.quiet(func() { t, f = z.d.cond(rhs, sa) })
							zb := zbool{}
							if t != nil {
								zb.t = t.(*zstate).m
							}
							if f != nil {
								zb.f = f.(*zstate).m
							}
							u.bool = &zb
						}
					}
				}
			}
			// a right-hand side that reads another target of the same statement is not applied
			if u.ok {
				for t := range u.l.co {
					if targets[t] && t != nd {
						u.ok = false
					}
				}
				// representable: a constant, w + k, or the shift v + k
				if len(u.l.co) > 1 {
					u.ok = false
				}
				for _, c := range u.l.co {
					if c != 1 {
						u.ok = false
					}
				}
				if !u.ok && tracked && !z.isSeq[o] {
					z.noteLossy(st, z.withNode(z.mentioned(st.Rhs[i]), nd))
				}
			}
			ups = append(ups, u)
		}
		for _, u := range ups {
			delete(s.bools, u.o)
			if nd, ok := z.node[u.o]; ok {
				z.setNode(s, nd, u.l, u.ok, z.isSeq[u.o])
			}
		}
		for _, u := range ups {
			if u.bool != nil {
				// the stored facts must not mention quantities changed by this very statement
				for _, w := range ups {
					if nd, ok := z.node[w.o]; ok {
						if u.bool.t != nil {
							u.bool.t.forget(nd)
						}
						if u.bool.f != nil {
							u.bool.f.forget(nd)
						}
					}
				}
				s.bools[u.o] = *u.bool
			}
		}
	case *ast.DeclStmt:
		if gd, ok := st.Decl.(*ast.GenDecl); ok {
			for _, sp := range gd.Specs {
				vs, ok := sp.(*ast.ValueSpec)
				if !ok {
					continue
				}
				for i, id := range vs.Names {
					o, ok := z.info.Defs[id].(*types.Var)
					if !ok {
						continue
					}
					forgetObj(o)
					nd, tracked := z.node[o]
					if !tracked {
						continue
					}
					switch {
					case len(vs.Values) == 0:
						z.setNode(s, nd, zlin{}, true, z.isSeq[o]) // zero value: 0 / empty
					case len(vs.Values) == len(vs.Names) && z.isSeq[o]:
						l, ok := z.seqLen(vs.Values[i])
						z.setNode(s, nd, l, ok, true)
					case len(vs.Values) == len(vs.Names):
						l, ok := z.lin(vs.Values[i])
						z.setNode(s, nd, l, ok, false)
					}
				}
			}
		}
	}
	return s
}

func (z *zoneDom) withNode(m map[int]bool, n int) map[int]bool {
	m[n] = true
	return m
}

func (z *zoneDom) Range(rs *ast.RangeStmt, sa any) any {
	s := sa.(*zstate).clone()
	var keyNode, seqNode = -1, -1
	if rs.Key != nil {
		if o, ok := z.varOf(rs.Key); ok {
			delete(s.bools, o)
			if nd, ok := z.node[o]; ok {
				z.setNode(s, nd, zlin{}, false, z.isSeq[o])
				if !z.isSeq[o] {
					keyNode = nd
				}
			}
		}
	}
	if rs.Value != nil {
		if o, ok := z.varOf(rs.Value); ok {
			delete(s.bools, o)
			if nd, ok := z.node[o]; ok {
				z.setNode(s, nd, zlin{}, false, z.isSeq[o])
			}
		}
	}
	if nd, ok := z.nodeOf(rs.X, true); ok {
		seqNode = nd
	}
	if keyNode >= 0 && !zRangeKeyIsIndex(z.info, rs.X) {
		keyNode = -1 // a map key or channel element: nothing is known
	}
	if keyNode >= 0 {
		s.m.add(0, keyNode, 0) // key >= 0
		if seqNode >= 0 && !z.assignedIn(rs.Body, rs.X) {
			// key < len(X): X is evaluated once; the fact is kept only when X is not reassigned in the body
			if tv, ok := z.info.Types[rs.X]; ok {
				if _, isSlice := tv.Type.Underlying().(*types.Slice); isSlice {
					s.m.add(keyNode, seqNode, -1)
				}
				// (ranging over a string yields byte offsets of runes: also < len)
				if bt, ok := tv.Type.Underlying().(*types.Basic); ok && bt.Info()&types.IsString != 0 {
					s.m.add(keyNode, seqNode, -1)
				}
			}
		}
	}
	return s
}

// zRangeKeyIsIndex: ranging over x yields positions 0, 1, … as the key
// (slice, array, pointer to array, string, integer).
func zRangeKeyIsIndex(info *types.Info, x ast.Expr) bool {
	tv, ok := info.Types[x]
	if !ok || tv.Type == nil {
		return false
	}
	switch u := tv.Type.Underlying().(type) {
	case *types.Slice, *types.Array:
		return true
	case *types.Pointer:
		_, isArr := u.Elem().Underlying().(*types.Array)
		return isArr
	case *types.Basic:
		return u.Info()&(types.IsString|types.IsInteger) != 0
	}
	return false
}

func (z *zoneDom) assignedIn(body ast.Node, x ast.Expr) bool {
	o, ok := z.varOf(x)
	if !ok {
		return true
	}
	found := false
	ast.Inspect(body, func(n ast.Node) bool {
		switch st := n.(type) {
		case *ast.AssignStmt:
			for _, l := range st.Lhs {
				if w, ok := z.varOf(l); ok && w == o {
					found = true
				}
			}
		case *ast.RangeStmt:
			for _, l := range []ast.Expr{st.Key, st.Value} {
				if l != nil {
					if w, ok := z.varOf(l); ok && w == o {
						found = true
					}
				}
			}
		}
		return !found
	})
	return found
}

func (z *zoneDom) bound(m zmat, x, y int) string {
	if m[x][y] >= zInf {
		return fmt.Sprintf("nothing about %s - %s", z.names[x], z.names[y])
	}
	return fmt.Sprintf("%s - %s <= %d", z.names[x], z.names[y], m[x][y])
}

// Use classifies index and slice expressions.
func (z *zoneDom) Use(n ast.Node, sa any) {
	var base ast.Expr
	switch v := n.(type) {
	case *ast.IndexExpr:
		base = v.X
	case *ast.SliceExpr:
		base = v.X
	default:
		return
	}
	tv, ok := z.info.Types[base]
	if !ok || tv.Type == nil || tv.IsType() {
		return // generic instantiation etc.
	}
	if !zIsSeq(tv.Type) {
		return // arrays, pointers to arrays, maps: not the subject of this rule (counted by the caller)
	}
	s := sa.(*zstate)
	e := n.(ast.Expr)
	site := &zSite{pos: n.Pos(), text: core.Src(z.fl.F.Prog.Fset, e), class: "unclassified", nodes: map[int]bool{}}
	record := func() {
		if old, ok := z.sites[site.pos]; ok && old.class != "safe" {
			return // keep the worse verdict
		}
		z.sites[site.pos] = site
	}
	bo, _ := z.varOf(base)
	site.base = bo
	L, tracked := z.nodeOf(base, true)
	if !tracked {
		site.why = "the base is not a local slice/string variable"
		if bo != nil {
			if w, bad := z.untrack[bo]; bad {
				site.why = "the base variable is not tracked: " + w
			}
		}
		record()
		return
	}
	site.onBase = true
	site.nodes[L] = true
	m := s.m
	var need []string
	check := func(okc bool, what string, x, y int) {
		if !okc {
			need = append(need, fmt.Sprintf("%s is not implied (known: %s)", what, z.bound(m, x, y)))
		}
	}
	form := func(x ast.Expr, deflt zlin) (int, int64, bool) {
		l := deflt
		if x != nil {
			var ok bool
			l, ok = z.lin(x)
			if !ok {
				return 0, 0, false
			}
		}
		a, b, k, ok := l.diff()
		if !ok || b != 0 {
			return 0, 0, false
		}
		site.nodes[a] = true
		return a, k, true
	}
	switch v := n.(type) {
	case *ast.IndexExpr:
		x, k, ok := form(v.Index, zlin{})
		if !ok {
			site.why = "the index is not of the form v, v+c, v-c, len(s)-c or a constant"
			for nd := range z.mentioned(v.Index) {
				site.nodes[nd] = true
			}
			record()
			return
		}
		it := core.Src(z.fl.F.Prog.Fset, v.Index)
		check(m[0][x] <= k, "0 <= "+it, 0, x)
		check(m[x][L] <= -1-k, it+" < "+z.names[L], x, L)
	case *ast.SliceExpr:
		if v.Slice3 {
			site.why = "3-index slice"
			record()
			return
		}
		if v.Low == nil && v.High == nil {
			site.class = "safe"
			record()
			return
		}
		lx, lk, okl := form(v.Low, zlin{})
		hx, hk, okh := form(v.High, zlin{co: map[int]int64{L: 1}})
		if !okl || !okh {
			site.why = "a slice bound is not of the form v, v+c, v-c, len(s)-c or a constant"
			record()
			return
		}
		lt, ht := "0", z.names[L]
		if v.Low != nil {
			lt = core.Src(z.fl.F.Prog.Fset, v.Low)
		}
		if v.High != nil {
			ht = core.Src(z.fl.F.Prog.Fset, v.High)
		}
		check(m[0][lx] <= lk, "0 <= "+lt, 0, lx)
		check(lx == hx && lk <= hk || lx != hx && m[lx][hx] <= hk-lk, lt+" <= "+ht, lx, hx)
		check(hx == L && hk <= 0 || hx != L && m[hx][L] <= -hk, ht+" <= "+z.names[L], hx, L)
	}
	if len(need) == 0 {
		site.class = "safe"
	} else {
		site.class = "unsafe"
		site.why = strings.Join(need, "; ")
	}
	record()
}

// ---------------------------------------------------------------------------
// The rule
// ---------------------------------------------------------------------------

// c11IndexFloors: decided sites per function on the tree that was read.
var c11IndexFloors = map[string]int{
	"lang/token.Tokenize":  16,
	"lang/token.Unescape":  28,
	"lang/token.hasPrefix": 3,
}

// c11ZoneRun runs the zone dataflow over one function; z.sites holds the verdicts.
func c11ZoneRun(f *core.Func) (*zoneDom, *c11Driver, bool) {
	fl := core.NewFlow(f)
	z := newZoneDom(fl)
	d := newC11Driver(fl, z)
	z.d = d
	return z, d, d.run()
}

func c11IndexGuards(k *gctx) {
	c, g := k.c, k.g
	const rel = "lang/token"
	const rule = "L.index"
	claim := "every index / slice expression on the tokenizer's input (a local slice or string variable) is reached only past length tests that imply 0 <= index < len (0 <= lo <= hi <= len for slices), by a difference-constraint argument along every CFG path: otherwise a source file ending at that point makes the tokenizer panic with index out of range instead of returning tokens or an error"
	root := g.FindFunc(rel, "", "Tokenize")
	p := g.Pkg(rel)
	if root == nil || p == nil {
		c.Undecided(rule, rel+".Tokenize", claim, "Tokenize not found")
		return
	}
	byObj := map[*types.Func]*core.Func{}
	for _, f := range g.AllFuncs(p) {
		if f.Obj != nil {
			byObj[f.Obj] = f
		}
	}
	reach := map[*types.Func]bool{root.Obj: true}
	work := []*core.Func{root}
	for len(work) > 0 {
		f := work[0]
		work = work[1:]
		ast.Inspect(f.Decl.Body, func(n ast.Node) bool {
			if call, ok := n.(*ast.CallExpr); ok {
				if fn := core.Callee(f.Info(), call); fn != nil {
					if t, ok := byObj[fn.Origin()]; ok && !reach[t.Obj] {
						reach[t.Obj] = true
						work = append(work, t)
					}
				}
			}
			return true
		})
	}
	var funcs []*core.Func
	for fn := range reach {
		funcs = append(funcs, byObj[fn])
	}
	sort.Slice(funcs, func(i, j int) bool { return funcs[i].Name() < funcs[j].Name() })
	// the input parameter of Tokenize: accesses on it must all be classified
	var input types.Object
	if sig, ok := root.Obj.Type().(*types.Signature); ok {
		for i := 0; i < sig.Params().Len(); i++ {
			if sl, ok := sig.Params().At(i).Type().Underlying().(*types.Slice); ok {
				if b, ok := sl.Elem().Underlying().(*types.Basic); ok && b.Kind() == types.Uint8 {
					input = sig.Params().At(i)
				}
			}
		}
	}
	if input == nil {
		c.Undecided(rule, root.Name()+"[input parameter]", claim, "Tokenize has no []byte parameter")
	}
	total, totalInput, nOther, nArr := 0, 0, 0, 0
	seenFloor := map[string]bool{}
	for _, f := range funcs {
		name := f.Name()
		// every index/slice expression of the function, to account for the ones the pass did not visit
		type raw struct {
			e     ast.Expr
			isSeq bool
			inLit bool
		}
		var all []raw
		var walk func(n ast.Node, inLit bool)
		walk = func(n ast.Node, inLit bool) {
			ast.Inspect(n, func(m ast.Node) bool {
				var base ast.Expr
				switch v := m.(type) {
				case *ast.FuncLit:
					if !inLit {
						walk(v.Body, true)
						return false
					}
				case *ast.IndexExpr:
					base = v.X
				case *ast.SliceExpr:
					base = v.X
				}
				if base != nil {
					if tv, ok := f.Info().Types[base]; ok && tv.Type != nil && !tv.IsType() {
						if _, isMap := tv.Type.Underlying().(*types.Map); !isMap {
							all = append(all, raw{m.(ast.Expr), zIsSeq(tv.Type), inLit})
						}
					}
				}
				return true
			})
		}
		walk(f.Decl.Body, false)
		nseq := 0
		for _, r := range all {
			if r.isSeq {
				nseq++
			} else {
				nArr++
			}
		}
		if nseq == 0 {
			if fl, ok := c11IndexFloors[name]; ok {
				c.Floor(rule, "decided index/slice sites in "+name, 0, fl)
				seenFloor[name] = true
			}
			continue
		}
		z, d, ok := c11ZoneRun(f)
		if !ok {
			c.Undecided(rule, name, claim, "the dataflow did not reach a fixpoint")
			continue
		}
		var unsafe, undec []*zSite
		decided := 0
		if os.Getenv("C11_INDEX_DUMP") != "" {
			for _, r := range all {
				if s, ok := z.sites[r.e.Pos()]; ok {
					fmt.Printf("site %s %-28s %-12s %s\n", g.Pos(s.pos), s.text, s.class, s.why)
				}
			}
			for _, l := range z.lossy {
				fmt.Printf("lossy %s %s\n", g.Pos(l.pos), l.text)
			}
			fmt.Printf("%s: %d sweeps\n", name, d.iters)
		}
		for _, r := range all {
			if !r.isSeq {
				continue
			}
			s, visited := z.sites[r.e.Pos()]
			text := core.Src(g.Fset, r.e)
			switch {
			case r.inLit:
				nOther++
				c.Info(rule+".other", name, g.Pos(r.e.Pos())+": `"+text+"` is inside a function literal (not decided)")
			case !visited:
				nOther++
				c.Info(rule+".other", name, g.Pos(r.e.Pos())+": `"+text+"` is in code the CFG does not reach (not decided)")
			case s.class == "safe":
				decided++
				if s.base == input && input != nil {
					totalInput++
				}
			case s.class == "unsafe":
				decided++
				// involved in a relation the zone cannot hold? then undecided rather than unsafe
				lossy := ""
				for _, l := range z.lossy {
					for nd := range l.nodes {
						if s.nodes[nd] {
							lossy = fmt.Sprintf("%s `%s`", g.Pos(l.pos), l.text)
						}
					}
				}
				if lossy != "" {
					s.why += "; and " + lossy + " relates these quantities in a form that is not a difference constraint"
					undec = append(undec, s)
				} else {
					unsafe = append(unsafe, s)
				}
			default:
				if s.base == input && input != nil {
					s.why = "unclassified access to the input: " + s.why
					undec = append(undec, s)
				} else {
					nOther++
					c.Info(rule+".other", name, g.Pos(r.e.Pos())+": `"+text+"` — "+s.why+" (not decided)")
				}
			}
		}
		total += decided
		var lines []string
		for _, s := range unsafe {
			lines = append(lines, fmt.Sprintf("%s: `%s`: %s", g.Pos(s.pos), s.text, s.why))
		}
		c.Check(len(unsafe) == 0, rule, name, claim, decided, strings.Join(lines, "\n"))
		for _, s := range undec {
			c.Undecided(rule, name+"["+s.text+"]", claim, fmt.Sprintf("%s: `%s`: %s", g.Pos(s.pos), s.text, s.why))
		}
		if fl, ok := c11IndexFloors[name]; ok {
			c.Floor(rule, "decided index/slice sites in "+name, decided, fl)
			seenFloor[name] = true
		}
	}
	for name, fl := range c11IndexFloors {
		if !seenFloor[name] {
			c.Floor(rule, "decided index/slice sites in "+name+" (function not reachable from Tokenize)", 0, fl)
		}
	}
	c.Floor(rule, "decided index/slice sites on Tokenize's input parameter", totalInput, 14)
	c.Analysed("L_index_functions", len(funcs))
	c.Analysed("L_index_decided_sites", total)
	c.Analysed("L_index_sites_not_decided", nOther)
	c.Analysed("L_index_array_or_pointer_bases_not_examined", nArr)
}
