package main

// C20 clause 1 — engine E6 `maporder`: classify the body of every `range`
// over a map by its *effects* and decide whether the program state after the
// loop (and everything it emitted) can depend on Go's randomised map
// iteration order.
//
// Order-insensitive idioms (DESIGN §3 E6):
//   (i)   keyed-write    writes keyed by the loop key into a map/slice, delete
//   (ii)  aggregate      commutative aggregation: counts, integer sums, bit/bool
//                        or, constant stores, max/min under a total order
//   (iii) collect-sorted append into a slice (or into the slices of a
//                        map-of-slices) that is sorted on every path before any
//                        other use
//   (iv)  elem-sort      in-place sort of the loop value
//         elem-update    store of a constant into a field of the loop value
//   (v)   error-exit     early return of an error only (all other results are
//                        loop-independent)
//   (vi)  search         leaving the loop with loop-independent results and no
//                        other effect
// Everything else is a violation naming the effect.  Calls are decided by the
// write-effect summaries of c20_effects.go, never by name.

import (
	"fmt"
	"go/ast"
	"go/token"
	"go/types"
	"sort"
	"strings"

	"golang.org/x/tools/go/packages"

	"wv/core"
)

type moEnv struct {
	prog   *core.GoProg
	pkg    *packages.Package // package whose TypesInfo covers the analysed syntax
	fx     *fxAn
	flows  map[ast.Node]*core.Flow
	byX    map[ast.Expr]*moLoop // RangeStmt.X -> loop
	loops  []*moLoop
	result map[*moLoop]*moResult
}

type moLoop struct {
	rs       *ast.RangeStmt
	encl     ast.Node // innermost enclosing *ast.FuncDecl or *ast.FuncLit
	enclName string   // pkgrel.(Recv).Func (the enclosing declaration)
	isMap    bool
}

type moResult struct {
	classes  map[string]int
	problems []string
	stmts    int
	exits    int
	calls    int // call expressions whose effects were decided
	callees  int // functions whose bodies were examined for those calls
}

func (r *moResult) classList() string {
	var ks []string
	for k, n := range r.classes {
		ks = append(ks, fmt.Sprintf("%s×%d", k, n))
	}
	sort.Strings(ks)
	if len(ks) == 0 {
		return "no-effect"
	}
	return strings.Join(ks, ",")
}

func (e *moEnv) info() *types.Info      { return e.pkg.TypesInfo }
func (e *moEnv) pos(p token.Pos) string { return e.prog.Pos(p) }

// collectLoops finds every range statement in the files (function
// declarations and function literals in package-level initialisers alike).
func (e *moEnv) collectLoops(files []*ast.File, declName func(*ast.FuncDecl) string) {
	e.byX = map[ast.Expr]*moLoop{}
	for _, f := range files {
		var stack []ast.Node
		var top string
		ast.Inspect(f, func(n ast.Node) bool {
			if n == nil {
				stack = stack[:len(stack)-1]
				return true
			}
			stack = append(stack, n)
			switch x := n.(type) {
			case *ast.FuncDecl:
				top = declName(x)
			case *ast.GenDecl:
				if len(stack) == 2 {
					top = e.pkgRel() + ".<package-level initialiser>"
				}
			case *ast.RangeStmt:
				var encl ast.Node
				for i := len(stack) - 2; i >= 0 && encl == nil; i-- {
					switch stack[i].(type) {
					case *ast.FuncDecl, *ast.FuncLit:
						encl = stack[i]
					}
				}
				if encl == nil {
					return true
				}
				t := e.info().TypeOf(x.X)
				isMap := false
				if t != nil {
					_, isMap = t.Underlying().(*types.Map)
				}
				lp := &moLoop{rs: x, encl: encl, enclName: top, isMap: isMap}
				e.loops = append(e.loops, lp)
				e.byX[x.X] = lp
			}
			return true
		})
	}
}

func (e *moEnv) pkgRel() string { return strings.TrimPrefix(e.pkg.PkgPath, core.Mod+"/") }

func (e *moEnv) flowFor(encl ast.Node) *core.Flow {
	if fl, ok := e.flows[encl]; ok {
		return fl
	}
	var decl *ast.FuncDecl
	var obj *types.Func
	switch x := encl.(type) {
	case *ast.FuncDecl:
		decl = x
		obj, _ = e.info().Defs[x.Name].(*types.Func)
	case *ast.FuncLit:
		decl = &ast.FuncDecl{Name: ast.NewIdent("func literal"), Type: x.Type, Body: x.Body}
	}
	fl := core.NewFlow(&core.Func{Pkg: e.pkg, Decl: decl, Obj: obj, Prog: e.prog})
	e.flows[encl] = fl
	return fl
}

func (e *moEnv) sigOf(encl ast.Node) *types.Signature {
	switch x := encl.(type) {
	case *ast.FuncDecl:
		if o, ok := e.info().Defs[x.Name].(*types.Func); ok {
			return o.Type().(*types.Signature)
		}
	case *ast.FuncLit:
		if s, ok := e.info().TypeOf(x).(*types.Signature); ok {
			return s
		}
	}
	return nil
}

// ---------- lvalues ----------

// lval is a variable or a field path rooted at a variable: c, c.f, c.f.g, *p.
type lval struct {
	root types.Object
	path []types.Object // field objects; nil entry = explicit dereference
}

func (l lval) ok() bool { return l.root != nil }

func (l lval) String() string {
	if l.root == nil {
		return "?"
	}
	s := l.root.Name()
	for _, p := range l.path {
		if p == nil {
			s = "*" + s
		} else {
			s += "." + p.Name()
		}
	}
	return s
}

func (e *moEnv) lvalOf(x ast.Expr) lval {
	switch v := ast.Unparen(x).(type) {
	case *ast.Ident:
		o := e.info().Uses[v]
		if o == nil {
			o = e.info().Defs[v]
		}
		if vr, ok := o.(*types.Var); ok {
			return lval{root: vr}
		}
	case *ast.SelectorExpr:
		if sel, ok := e.info().Selections[v]; ok && sel.Kind() == types.FieldVal {
			b := e.lvalOf(v.X)
			if b.ok() {
				return lval{root: b.root, path: append(append([]types.Object(nil), b.path...), sel.Obj())}
			}
		} else if o, ok := e.info().Uses[v.Sel].(*types.Var); ok && !o.IsField() {
			return lval{root: o} // qualified package-level variable
		}
	case *ast.StarExpr:
		b := e.lvalOf(v.X)
		if b.ok() {
			return lval{root: b.root, path: append(append([]types.Object(nil), b.path...), nil)}
		}
	}
	return lval{}
}

func sameLval(a, b lval) bool {
	if a.root != b.root || len(a.path) != len(b.path) {
		return false
	}
	for i := range a.path {
		if a.path[i] != b.path[i] {
			return false
		}
	}
	return true
}

// overlaps: one is a prefix of the other (reading c touches c.f; reading c.f.g touches c.f).
func overlaps(a, b lval) bool {
	if a.root != b.root {
		return false
	}
	n := len(a.path)
	if len(b.path) < n {
		n = len(b.path)
	}
	for i := 0; i < n; i++ {
		if a.path[i] != b.path[i] {
			return false
		}
	}
	return true
}

// exprEqual: structural equality with identifiers compared by object.
func (e *moEnv) exprEqual(a, b ast.Expr) bool {
	a, b = ast.Unparen(a), ast.Unparen(b)
	switch x := a.(type) {
	case *ast.Ident:
		y, ok := b.(*ast.Ident)
		if !ok {
			return false
		}
		ox, oy := e.info().Uses[x], e.info().Uses[y]
		if ox == nil {
			ox = e.info().Defs[x]
		}
		if oy == nil {
			oy = e.info().Defs[y]
		}
		return ox != nil && ox == oy
	case *ast.SelectorExpr:
		y, ok := b.(*ast.SelectorExpr)
		return ok && e.info().Uses[x.Sel] == e.info().Uses[y.Sel] && e.exprEqual(x.X, y.X)
	case *ast.IndexExpr:
		y, ok := b.(*ast.IndexExpr)
		return ok && e.exprEqual(x.X, y.X) && e.exprEqual(x.Index, y.Index)
	case *ast.StarExpr:
		y, ok := b.(*ast.StarExpr)
		return ok && e.exprEqual(x.X, y.X)
	case *ast.BasicLit:
		y, ok := b.(*ast.BasicLit)
		return ok && x.Kind == y.Kind && x.Value == y.Value
	case *ast.CallExpr:
		y, ok := b.(*ast.CallExpr)
		if !ok || len(x.Args) != len(y.Args) || !e.exprEqual(x.Fun, y.Fun) {
			return false
		}
		for i := range x.Args {
			if !e.exprEqual(x.Args[i], y.Args[i]) {
				return false
			}
		}
		return true
	}
	return false
}

// ---------- sort calls ----------

var sortFuncs = map[string]string{
	"sort.Strings": "total", "sort.Ints": "total", "sort.Float64s": "total",
	"slices.Sort": "total",
	"sort.Slice":  "less", "sort.SliceStable": "less",
	"slices.SortFunc": "cmp", "slices.SortStableFunc": "cmp",
	"sort.Sort": "iface", "sort.Stable": "iface",
}

// sortCall: call is a sort of its first argument; returns that argument and
// whether the ordering is recognisably a total order over whole elements
// (ties in a sort by a projection would leave the input order visible).
func (e *moEnv) sortCall(call *ast.CallExpr) (arg ast.Expr, total bool, why string, ok bool) {
	fn := core.Callee(e.info(), call)
	if fn == nil || fn.Pkg() == nil || len(call.Args) == 0 {
		return nil, false, "", false
	}
	kind, isSort := sortFuncs[fn.Pkg().Path()+"."+fn.Name()]
	if !isSort || fn.Type().(*types.Signature).Recv() != nil {
		return nil, false, "", false
	}
	arg = call.Args[0]
	switch kind {
	case "total":
		return arg, true, "", true
	case "iface":
		// sort.Sort(sort.StringSlice(x)) and friends.
		if c, isCall := ast.Unparen(arg).(*ast.CallExpr); isCall && len(c.Args) == 1 {
			if tv, has := e.info().Types[c.Fun]; has && tv.IsType() {
				if n, isNamed := types.Unalias(tv.Type).(*types.Named); isNamed && n.Obj().Pkg() != nil && n.Obj().Pkg().Path() == "sort" {
					return c.Args[0], true, "", true
				}
			}
		}
		return arg, false, "sort.Sort with a user-defined Less is not analysed", true
	}
	if len(call.Args) < 2 {
		return arg, false, "comparator missing", true
	}
	lit, isLit := ast.Unparen(call.Args[1]).(*ast.FuncLit)
	if !isLit || len(lit.Body.List) != 1 {
		return arg, false, "comparator is not a single-return function literal", true
	}
	ret, isRet := lit.Body.List[0].(*ast.ReturnStmt)
	if !isRet || len(ret.Results) != 1 {
		return arg, false, "comparator is not a single-return function literal", true
	}
	var params []types.Object
	for _, f := range lit.Type.Params.List {
		for _, id := range f.Names {
			params = append(params, e.info().Defs[id])
		}
	}
	if len(params) != 2 {
		return arg, false, "comparator does not have two parameters", true
	}
	isParam := func(x ast.Expr, i int) bool {
		id, ok := ast.Unparen(x).(*ast.Ident)
		return ok && e.info().Uses[id] == params[i]
	}
	elem := func(x ast.Expr, i int) bool {
		if kind == "cmp" {
			return isParam(x, i)
		}
		ix, ok := ast.Unparen(x).(*ast.IndexExpr)
		return ok && e.exprEqual(ix.X, arg) && isParam(ix.Index, i)
	}
	r := ast.Unparen(ret.Results[0])
	if kind == "cmp" {
		// cmp.Compare(a, b), strings.Compare(a, b), a.Cmp(b), a.Compare(b)
		if c, isCall := r.(*ast.CallExpr); isCall {
			ops := c.Args
			if sel, isSel := ast.Unparen(c.Fun).(*ast.SelectorExpr); isSel && len(c.Args) == 1 {
				if _, isMethod := e.info().Selections[sel]; isMethod {
					ops = []ast.Expr{sel.X, c.Args[0]}
				}
			}
			if len(ops) == 2 && ((elem(ops[0], 0) && elem(ops[1], 1)) || (elem(ops[0], 1) && elem(ops[1], 0))) {
				return arg, true, "", true
			}
		}
		return arg, false, "comparator does not compare the two whole elements", true
	}
	lo, hi, okc := e.cmpOf(r)
	if okc && ((elem(lo, 0) && elem(hi, 1)) || (elem(lo, 1) && elem(hi, 0))) {
		return arg, true, "", true
	}
	return arg, false, "comparator does not compare the two whole elements s[i], s[j] (a sort by a projection leaves ties in input order)", true
}

// cmpOf: cond means lo < hi (or lo <= hi) under an order given by the
// built-in operators on integers/strings, a `func (T) LessThan/Less/Before(T)
// bool` method, or `a.Cmp(b) REL 0`.
func (e *moEnv) cmpOf(cond ast.Expr) (lo, hi ast.Expr, ok bool) {
	cond = ast.Unparen(cond)
	switch x := cond.(type) {
	case *ast.UnaryExpr:
		if x.Op == token.NOT {
			l, h, ok := e.cmpOf(x.X)
			return h, l, ok
		}
	case *ast.BinaryExpr:
		var a, b ast.Expr
		switch x.Op {
		case token.LSS, token.LEQ:
			a, b = x.X, x.Y
		case token.GTR, token.GEQ:
			a, b = x.Y, x.X
		default:
			return nil, nil, false
		}
		// a.Cmp(b) REL 0
		zero := func(z ast.Expr) bool { v, ok := core.ConstInt64(e.info(), z); return ok && v == 0 }
		cmpCall := func(z ast.Expr) (ast.Expr, ast.Expr, bool) {
			c, ok := ast.Unparen(z).(*ast.CallExpr)
			if !ok || len(c.Args) != 1 {
				return nil, nil, false
			}
			fn := core.Callee(e.info(), c)
			if fn == nil || (fn.Name() != "Cmp" && fn.Name() != "Compare") || fn.Type().(*types.Signature).Recv() == nil {
				return nil, nil, false
			}
			return core.RecvOf(c), c.Args[0], true
		}
		if p, q, ok := cmpCall(a); ok && zero(b) { // p.Cmp(q) < 0  => p < q
			return p, q, true
		}
		if p, q, ok := cmpCall(b); ok && zero(a) { // 0 < p.Cmp(q)  => q < p
			return q, p, true
		}
		ta := e.info().TypeOf(a)
		if bt, isBasic := ta.Underlying().(*types.Basic); isBasic && bt.Info()&(types.IsInteger|types.IsString) != 0 {
			return a, b, true
		}
	case *ast.CallExpr:
		fn := core.Callee(e.info(), x)
		if fn == nil || len(x.Args) != 1 {
			return nil, nil, false
		}
		sig := fn.Type().(*types.Signature)
		if sig.Recv() == nil || sig.Params().Len() != 1 || sig.Results().Len() != 1 {
			return nil, nil, false
		}
		if !types.Identical(sig.Recv().Type(), sig.Params().At(0).Type()) || !types.Identical(sig.Results().At(0).Type(), types.Typ[types.Bool]) {
			return nil, nil, false
		}
		switch fn.Name() {
		case "LessThan", "Less", "Before":
			return core.RecvOf(x), x.Args[0], true
		}
	}
	return nil, nil, false
}

// ---------- the walker ----------

type moWalk struct {
	e      *moEnv
	lp     *moLoop
	res    *moResult
	keyObj types.Object
	valObj types.Object
	ranged lval

	assigned   []lval                // outer lvalues assigned anywhere in the body
	constOnly  map[types.Object]bool // outer bool/flag roots only ever assigned constants in the body
	keyDirty   bool                  // the key variable is reassigned in the body
	breakable  []ast.Stmt            // enclosing for/switch/select statements inside the body
	guards     []moGuard             // enclosing if conditions
	collects   []moCollect
	effects    int // accepted order-insensitive effects other than loop-independent constant stores
	searchExit []token.Pos
	underAcc   int // >0: inside a block whose condition compares a running max/min accumulator
}

type moGuard struct {
	cond ast.Expr
	then bool
	body *ast.BlockStmt
}

type moCollect struct {
	lv          lval
	mapOfSlices bool
	pos         token.Pos
}

func (w *moWalk) problem(pos token.Pos, format string, args ...interface{}) {
	w.res.problems = append(w.res.problems, w.e.pos(pos)+": "+fmt.Sprintf(format, args...))
}

func (w *moWalk) class(c string) { w.res.classes[c]++ }

func (w *moWalk) isLocal(o types.Object) bool {
	return o != nil && o.Pos() >= w.lp.rs.Pos() && o.Pos() < w.lp.rs.End()
}

func (e *moEnv) classify(lp *moLoop) *moResult {
	if r, ok := e.result[lp]; ok {
		return r
	}
	res := &moResult{classes: map[string]int{}}
	e.result[lp] = res
	w := &moWalk{e: e, lp: lp, res: res, constOnly: map[types.Object]bool{}}
	rs := lp.rs
	objOf := func(x ast.Expr) types.Object {
		id, ok := x.(*ast.Ident)
		if !ok || id.Name == "_" {
			return nil
		}
		if o := e.info().Defs[id]; o != nil {
			return o
		}
		return e.info().Uses[id]
	}
	if rs.Key != nil {
		w.keyObj = objOf(rs.Key)
	}
	if rs.Value != nil {
		w.valObj = objOf(rs.Value)
	}
	if rs.Tok == token.ASSIGN {
		for _, x := range []ast.Expr{rs.Key, rs.Value} {
			if x != nil && objOf(x) != nil {
				w.problem(x.Pos(), "the loop assigns its key/value to the existing variable %s: after the loop it holds whichever element was visited last", core.Src(e.prog.Fset, x))
			}
		}
	}
	w.ranged = e.lvalOf(rs.X)
	w.prepass()
	w.pureExpr(rs.X, "ranged expression")
	w.block(rs.Body.List)

	// (iii): every collected slice is sorted before any other use.
	seen := map[string]bool{}
	for _, c := range w.collects {
		key := fmt.Sprintf("%s|%v", c.lv, c.mapOfSlices)
		if seen[key] {
			continue
		}
		seen[key] = true
		if esc := w.sortedAfter(c); esc == "" {
			w.class("collect-sorted")
			w.effects++
		} else {
			w.problem(c.pos, "elements are appended to %s in map order, and %s", c.lv, esc)
		}
	}
	// (vi): a search exit must be the loop's only effect.
	if len(w.searchExit) > 0 && w.effects > 0 {
		w.problem(w.searchExit[0], "the loop is left early here but also accumulates state: which elements were processed before the exit depends on the order")
	}
	return res
}

// prepass collects the outer lvalues assigned in the body.
func (w *moWalk) prepass() {
	e := w.e
	nonConst := map[types.Object]bool{}
	note := func(lhs ast.Expr, rhs ast.Expr) {
		x := ast.Unparen(lhs)
		if ix, ok := x.(*ast.IndexExpr); ok {
			x = ast.Unparen(ix.X)
			rhs = nil
		}
		lv := e.lvalOf(x)
		if !lv.ok() {
			return
		}
		if w.isLocal(lv.root) {
			if lv.root == w.keyObj && len(lv.path) == 0 {
				w.keyDirty = true
			}
			return
		}
		w.assigned = append(w.assigned, lv)
		if rhs == nil || core.ConstVal(e.info(), rhs) == nil || len(lv.path) != 0 {
			nonConst[lv.root] = true
		} else if !nonConst[lv.root] {
			w.constOnly[lv.root] = true
		}
	}
	ast.Inspect(w.lp.rs.Body, func(n ast.Node) bool {
		switch s := n.(type) {
		case *ast.FuncLit:
			return false
		case *ast.AssignStmt:
			if s.Tok == token.DEFINE {
				return true
			}
			for i, l := range s.Lhs {
				var r ast.Expr
				if len(s.Lhs) == len(s.Rhs) && s.Tok == token.ASSIGN {
					r = s.Rhs[i]
				}
				note(l, r)
			}
		case *ast.IncDecStmt:
			note(s.X, nil)
		case *ast.RangeStmt:
			if s.Tok == token.ASSIGN {
				if s.Key != nil {
					note(s.Key, nil)
				}
				if s.Value != nil {
					note(s.Value, nil)
				}
			}
		}
		return true
	})
	for o := range nonConst {
		delete(w.constOnly, o)
	}
}

// readsAssigned: x reads an outer location that the loop also assigns.
// allow lists lvalues that may be read (the accumulator of a recognised form).
func (w *moWalk) readsAssigned(x ast.Node, allow ...lval) (lval, bool) {
	return w.readsAssigned2(x, false, allow...)
}

// readsAssigned2: with flagsOK, outer variables that the loop only ever sets
// to constants (a `first = false` flag) may be read.
func (w *moWalk) readsAssigned2(x ast.Node, flagsOK bool, allow ...lval) (lval, bool) {
	var hit lval
	found := false
	var visit func(n ast.Node)
	visit = func(n ast.Node) {
		if n == nil || found {
			return
		}
		ast.Inspect(n, func(m ast.Node) bool {
			if found {
				return false
			}
			ex, ok := m.(ast.Expr)
			if !ok {
				return true
			}
			switch ex.(type) {
			case *ast.Ident, *ast.SelectorExpr, *ast.StarExpr:
			default:
				return true
			}
			lv := w.e.lvalOf(ex)
			if !lv.ok() {
				return true
			}
			if w.isLocal(lv.root) {
				return false
			}
			for _, al := range allow {
				if sameLval(al, lv) {
					return false
				}
			}
			for _, as := range w.assigned {
				if overlaps(as, lv) {
					if flagsOK && w.constOnly[as.root] && len(as.path) == 0 {
						continue
					}
					hit, found = lv, true
					return false
				}
			}
			return false // maximal path handled; do not revisit its prefixes
		})
	}
	visit(x)
	return hit, found
}

func (w *moWalk) mentionsLocal(x ast.Node) bool {
	found := false
	ast.Inspect(x, func(m ast.Node) bool {
		if id, ok := m.(*ast.Ident); ok {
			o := w.e.info().Uses[id]
			if o != nil && w.isLocal(o) {
				found = true
			}
		}
		return !found
	})
	return found
}

// loopIndependent: the expression has the same value whichever element is
// being visited and however many were visited before.
func (w *moWalk) loopIndependent(x ast.Expr) bool {
	if w.mentionsLocal(x) {
		return false
	}
	if _, bad := w.readsAssigned(x); bad {
		return false
	}
	return true
}

// pureExpr checks every call evaluated inside x; what names the context.
// Reads of loop-assigned outer state are reported unless allowed.
func (w *moWalk) pureExpr(x ast.Node, what string, allow ...lval) {
	if x == nil {
		return
	}
	e := w.e
	ast.Inspect(x, func(m ast.Node) bool {
		switch c := m.(type) {
		case *ast.FuncLit:
			// Judged where it is passed or called: the SSA effect summary of that
			// call includes the closure's body (c20_effects.go).
			return false
		case *ast.UnaryExpr:
			if c.Op == token.ARROW {
				w.problem(c.Pos(), "channel receive inside the loop body (%s)", what)
			}
		case *ast.CallExpr:
			w.callEffects(c, what)
		}
		return true
	})
	if lv, bad := w.readsAssigned(x, allow...); bad {
		w.problem(x.Pos(), "%s reads %s, which this loop also assigns: the value seen depends on how many elements were visited before", what, lv)
	}
	_ = e
}

// callEffects reports a problem if the call writes non-local state.
func (w *moWalk) callEffects(c *ast.CallExpr, what string) {
	e := w.e
	if tv, ok := e.info().Types[c.Fun]; ok && tv.IsType() {
		return // conversion
	}
	if id, ok := ast.Unparen(c.Fun).(*ast.Ident); ok {
		if b, ok := e.info().Uses[id].(*types.Builtin); ok {
			switch b.Name() {
			case "len", "cap", "append", "make", "new", "min", "max", "complex", "real", "imag", "panic", "recover":
			default:
				w.problem(c.Pos(), "built-in %s in %s", b.Name(), what)
			}
			return
		}
	}
	ci := e.fx.sites[c.Lparen]
	if ci == nil {
		if tv, ok := e.info().Types[c]; ok && tv.Value != nil {
			return // constant-folded
		}
		w.problem(c.Pos(), "call %s (%s) has no SSA counterpart: cannot decide its effects", core.Src(e.prog.Fset, c), what)
		return
	}
	eff, nf := e.fx.callSiteEffects(ci)
	w.res.calls++
	w.res.callees += nf
	if len(eff) > 0 {
		if len(eff) > 3 {
			eff = append(eff[:3], "…")
		}
		w.problem(c.Pos(), "order-dependent effect: %s calls %s, which writes state that outlives the call [%s]", what, core.Src(e.prog.Fset, c.Fun), strings.Join(eff, "; "))
	}
}

func (w *moWalk) block(list []ast.Stmt) {
	for i, s := range list {
		// `if C { continue }` followed by the rest of the block is the same as
		// `if !C { rest }`: judge the rest under that guard.
		if ifs, ok := s.(*ast.IfStmt); ok && ifs.Else == nil && ifs.Init == nil && w.onlyContinues(ifs.Body) && i+1 < len(list) {
			w.res.stmts++
			neg := &ast.UnaryExpr{OpPos: ifs.Cond.Pos(), Op: token.NOT, X: ifs.Cond}
			rest := &ast.BlockStmt{Lbrace: list[i+1].Pos(), List: list[i+1:], Rbrace: list[len(list)-1].End()}
			acc := w.cond(neg, &ast.IfStmt{If: ifs.If, Cond: neg, Body: rest})
			if acc {
				w.underAcc++
			}
			w.guards = append(w.guards, moGuard{neg, true, rest})
			w.block(rest.List)
			w.guards = w.guards[:len(w.guards)-1]
			if acc {
				w.underAcc--
			}
			return
		}
		w.stmt(s)
	}
}

// onlyContinues: the block is `{ continue }` for the innermost loop (branch
// markers inserted by core.NewFlow are skipped).
func (w *moWalk) onlyContinues(b *ast.BlockStmt) bool {
	n := 0
	for _, s := range b.List {
		switch x := s.(type) {
		case *ast.ExprStmt:
			if _, ok := x.X.(*ast.BasicLit); ok {
				continue
			}
			return false
		case *ast.BranchStmt:
			if x.Tok != token.CONTINUE || x.Label != nil || len(w.breakable) > 0 && w.innerLoop() {
				return false
			}
			n++
		default:
			return false
		}
	}
	return n == 1
}

// innerLoop: the innermost breakable statement inside the body is itself a loop
// (then an unlabeled continue does not belong to the ranged loop).
func (w *moWalk) innerLoop() bool {
	for i := len(w.breakable) - 1; i >= 0; i-- {
		switch w.breakable[i].(type) {
		case *ast.ForStmt, *ast.RangeStmt:
			return true
		}
	}
	return false
}

func (w *moWalk) stmt(s ast.Stmt) {
	e := w.e
	w.res.stmts++
	switch x := s.(type) {
	case nil:
	case *ast.BlockStmt:
		w.block(x.List)
	case *ast.EmptyStmt:
	case *ast.LabeledStmt:
		w.stmt(x.Stmt)
	case *ast.ExprStmt:
		if _, ok := x.X.(*ast.BasicLit); ok {
			return // branch marker inserted by core.NewFlow
		}
		if c, ok := ast.Unparen(x.X).(*ast.CallExpr); ok {
			w.callStmt(c)
			return
		}
		w.pureExpr(x.X, "expression statement")
	case *ast.DeclStmt:
		if gd, ok := x.Decl.(*ast.GenDecl); ok {
			for _, sp := range gd.Specs {
				if vs, ok := sp.(*ast.ValueSpec); ok {
					for _, v := range vs.Values {
						w.pureExpr(v, "initialiser")
					}
				}
			}
		}
	case *ast.AssignStmt:
		w.assign(x)
	case *ast.IncDecStmt:
		w.store(x.X, nil, x.Tok, x.Pos(), nil)
	case *ast.IfStmt:
		w.stmt(x.Init)
		acc := w.cond(x.Cond, x)
		if acc {
			w.underAcc++
		}
		w.guards = append(w.guards, moGuard{x.Cond, true, x.Body})
		w.block(x.Body.List)
		w.guards[len(w.guards)-1].then = false
		w.stmt(x.Else)
		w.guards = w.guards[:len(w.guards)-1]
		if acc {
			w.underAcc--
		}
	case *ast.SwitchStmt:
		w.stmt(x.Init)
		if x.Tag != nil {
			w.pureExpr(x.Tag, "switch tag")
		}
		w.breakable = append(w.breakable, x)
		for _, cl := range x.Body.List {
			cc := cl.(*ast.CaseClause)
			for _, ce := range cc.List {
				w.pureExpr(ce, "case expression")
			}
			w.block(cc.Body)
		}
		w.breakable = w.breakable[:len(w.breakable)-1]
	case *ast.TypeSwitchStmt:
		w.stmt(x.Init)
		w.breakable = append(w.breakable, x)
		switch a := x.Assign.(type) {
		case *ast.ExprStmt:
			w.pureExpr(a.X, "type switch")
		case *ast.AssignStmt:
			for _, r := range a.Rhs {
				w.pureExpr(r, "type switch")
			}
		}
		for _, cl := range x.Body.List {
			w.block(cl.(*ast.CaseClause).Body)
		}
		w.breakable = w.breakable[:len(w.breakable)-1]
	case *ast.ForStmt:
		w.stmt(x.Init)
		if x.Cond != nil {
			w.pureExpr(x.Cond, "loop condition")
		}
		w.breakable = append(w.breakable, x)
		w.block(x.Body.List)
		w.stmt(x.Post)
		w.breakable = w.breakable[:len(w.breakable)-1]
	case *ast.RangeStmt:
		w.pureExpr(x.X, "ranged expression")
		w.breakable = append(w.breakable, x)
		w.block(x.Body.List)
		w.breakable = w.breakable[:len(w.breakable)-1]
	case *ast.ReturnStmt:
		w.ret(x)
	case *ast.BranchStmt:
		w.branch(x)
	case *ast.GoStmt:
		w.problem(x.Pos(), "go statement inside the loop body: goroutines start in map order")
	case *ast.DeferStmt:
		w.problem(x.Pos(), "defer inside the loop body: deferred calls run in reverse map order")
	case *ast.SendStmt:
		w.problem(x.Pos(), "channel send inside the loop body: values are sent in map order")
	case *ast.SelectStmt:
		w.problem(x.Pos(), "select inside the loop body")
	default:
		w.problem(s.Pos(), "statement form %T is not analysed", s)
	}
	_ = e
}

// cond checks an if condition: pure, and (unless it is a recognised
// accumulator guard, checked where the guarded store is) free of reads of
// loop-assigned state.
func (w *moWalk) cond(c ast.Expr, ifs *ast.IfStmt) (accGuarded bool) {
	// Purity of calls first.
	ast.Inspect(c, func(m ast.Node) bool {
		switch cc := m.(type) {
		case *ast.FuncLit:
			return false
		case *ast.CallExpr:
			w.callEffects(cc, "condition")
		}
		return true
	})
	if lv, bad := w.readsAssigned(c); bad {
		// Allowed only when the body is a max/min update of exactly that accumulator.
		if w.guardAccumulator(c, ifs.Body, lv) {
			return true
		}
		w.problem(c.Pos(), "condition reads %s, which this loop also assigns: the branch taken depends on how many elements were visited before", lv)
	}
	return false
}

// guardAccumulator: cond is (other || … ||) ACC < CAND (or CAND < ACC) and the
// guarded block assigns ACC = CAND.
func (w *moWalk) guardAccumulator(c ast.Expr, body *ast.BlockStmt, acc lval) bool {
	_, _, ok := w.accGuard(c, body, acc)
	return ok
}

// accGuard finds, among the conjuncts/disjuncts of cond, a comparison between
// the accumulator acc and a candidate expression, and verifies the block
// stores the candidate into the accumulator. Returns the candidate.
func (w *moWalk) accGuard(c ast.Expr, body *ast.BlockStmt, acc lval) (cand ast.Expr, accExpr ast.Expr, ok bool) {
	e := w.e
	for _, conj := range flattenAnd(c) {
		var cmp ast.Expr
		okOthers := true
		for _, d := range flattenOr(conj) {
			lo, hi, isCmp := e.cmpOf(d)
			if isCmp && cmp == nil {
				switch {
				case sameLval(e.lvalOf(lo), acc) && acc.ok():
					cand, accExpr, cmp = hi, lo, d
					continue
				case sameLval(e.lvalOf(hi), acc) && acc.ok():
					cand, accExpr, cmp = lo, hi, d
					continue
				}
			}
			// Other disjuncts: state tests of the accumulator itself / constant flags only.
			if w.mentionsLocal(d) {
				okOthers = false
			}
			if _, bad := w.readsAssigned2(d, true, acc); bad {
				okOthers = false
			}
		}
		if cmp == nil || !okOthers {
			cand = nil
			continue
		}
		// The other conjuncts may filter on the element but must not read loop-assigned state.
		for _, other := range flattenAnd(c) {
			if other == conj {
				continue
			}
			if _, bad := w.readsAssigned(other); bad {
				return nil, nil, false
			}
		}
		// The block stores cand into acc at its top level.
		for _, st := range body.List {
			as, isAs := st.(*ast.AssignStmt)
			if !isAs || as.Tok != token.ASSIGN || len(as.Lhs) != len(as.Rhs) {
				continue
			}
			for i, l := range as.Lhs {
				if sameLval(e.lvalOf(l), acc) && e.exprEqual(as.Rhs[i], cand) {
					return cand, accExpr, true
				}
			}
		}
		return nil, nil, false
	}
	return nil, nil, false
}

func (w *moWalk) assign(as *ast.AssignStmt) {
	if as.Tok == token.DEFINE {
		for _, r := range as.Rhs {
			w.pureExpr(r, "right-hand side")
		}
		return
	}
	paired := len(as.Lhs) == len(as.Rhs)
	if !paired {
		for _, r := range as.Rhs {
			w.pureExpr(r, "right-hand side")
		}
	}
	for i, l := range as.Lhs {
		var r ast.Expr
		if paired {
			r = as.Rhs[i]
		}
		w.store(l, r, as.Tok, as.Pos(), as)
	}
}

func commutativeOp(tok token.Token) bool {
	switch tok {
	case token.ADD_ASSIGN, token.SUB_ASSIGN, token.MUL_ASSIGN, token.OR_ASSIGN, token.AND_ASSIGN, token.XOR_ASSIGN, token.INC, token.DEC:
		return true
	}
	return false
}

func isIntegerOrBool(t types.Type) (integer, boolean bool) {
	b, ok := t.Underlying().(*types.Basic)
	if !ok {
		return false, false
	}
	return b.Info()&types.IsInteger != 0, b.Info()&types.IsBoolean != 0
}

// store classifies one assignment `lhs tok rhs` (rhs nil: ++/-- or the
// unpaired result of a multi-value call).
func (w *moWalk) store(lhs, rhs ast.Expr, tok token.Token, pos token.Pos, stmt *ast.AssignStmt) {
	e := w.e
	lhs = ast.Unparen(lhs)
	if id, ok := lhs.(*ast.Ident); ok && id.Name == "_" {
		w.pureExpr(rhs, "right-hand side")
		return
	}
	src := core.Src(e.prog.Fset, lhs)

	// Under a running-max/min guard, which iterations enter the block depends on
	// the order: only the accumulator and its companions may be stored.
	if w.underAcc > 0 {
		lv := e.lvalOf(lhs)
		if lv.ok() && w.isLocal(lv.root) && len(lv.path) == 0 {
			w.pureExpr(rhs, "right-hand side")
			return
		}
		if lv.ok() && tok == token.ASSIGN && rhs != nil && w.guardedStore(lv, rhs, stmt) {
			w.pureExpr(rhs, "right-hand side", lv)
			w.class("aggregate")
			w.effects++
			return
		}
		w.problem(pos, "store to %s inside a block guarded by a comparison with a running maximum/minimum: which iterations enter the block depends on the iteration order", src)
		return
	}

	// Element stores: X[i] = …
	if ix, ok := lhs.(*ast.IndexExpr); ok {
		base := e.lvalOf(ix.X)
		w.pureExpr(ix.Index, "index expression")
		if !base.ok() {
			w.problem(pos, "store to %s: the indexed operand is not a variable or field path", src)
			return
		}
		if w.isLocal(base.root) {
			if base.root == w.valObj || base.root == w.keyObj {
				w.problem(pos, "store through the loop variable %s: a per-element update is not a recognised order-insensitive idiom", src)
				return
			}
			if _, isArr := e.info().TypeOf(ix.X).Underlying().(*types.Array); !isArr || len(base.path) > 0 {
				w.problem(pos, "store through the loop-local reference %s: it may alias memory that outlives the iteration", src)
				return
			}
			w.pureExpr(rhs, "right-hand side")
			return
		}
		keyed := false
		if id, ok := ast.Unparen(ix.Index).(*ast.Ident); ok && w.keyObj != nil && e.info().Uses[id] == w.keyObj && !w.keyDirty {
			keyed = true
		}
		sameAsRanged := w.ranged.ok() && sameLval(base, w.ranged)
		if sameAsRanged && !keyed {
			w.problem(pos, "store to %s inserts into the map being ranged over under a key other than the loop key: whether the new entry is visited is unspecified", src)
			return
		}
		// X[i] = append(X[i], …)
		if c, ok := ast.Unparen(c20RhsOrNil(rhs)).(*ast.CallExpr); ok && tok == token.ASSIGN && w.isBuiltin(c, "append") && len(c.Args) > 0 && e.exprEqual(c.Args[0], lhs) {
			for _, a := range c.Args[1:] {
				w.pureExpr(a, "appended value")
			}
			if keyed {
				w.class("keyed-write")
				w.effects++
				return
			}
			w.collects = append(w.collects, moCollect{lv: base, mapOfSlices: true, pos: pos})
			return
		}
		if keyed {
			w.pureExpr(rhs, "right-hand side")
			w.class("keyed-write")
			w.effects++
			return
		}
		elemT := e.info().TypeOf(lhs)
		isInt, isBool := isIntegerOrBool(elemT)
		switch {
		case commutativeOp(tok) && (isInt || (isBool && tok != token.ADD_ASSIGN)):
			w.pureExpr(rhs, "right-hand side")
			w.class("aggregate")
			w.effects++
		case tok == token.ASSIGN && rhs != nil && w.loopIndependent(rhs):
			w.pureExpr(rhs, "right-hand side")
			w.class("aggregate") // idempotent set insertion
			w.effects++
		default:
			w.problem(pos, "last-writer-wins store %s %s …: distinct map keys may produce the same index, and the surviving value depends on the iteration order", src, tok)
		}
		return
	}

	lv := e.lvalOf(lhs)
	if !lv.ok() {
		w.problem(pos, "store to %s: not a variable or field path", src)
		return
	}
	if w.isLocal(lv.root) {
		// (iv') resetting a field of every element to a constant: the same
		// store whichever order, even if two keys share an element.
		if len(lv.path) > 0 && lv.root == w.valObj && tok == token.ASSIGN && rhs != nil &&
			(core.ConstVal(e.info(), rhs) != nil || core.IsNilIdent(e.info(), rhs)) {
			w.class("elem-update")
			w.effects++
			return
		}
		if len(lv.path) > 0 {
			t := lv.root.Type()
			if _, isStruct := t.Underlying().(*types.Struct); !isStruct {
				w.problem(pos, "store through the loop-local pointer %s: a per-element update is not a recognised order-insensitive idiom", src)
				return
			}
			for _, p := range lv.path {
				if p == nil {
					w.problem(pos, "store through the loop-local pointer %s", src)
					return
				}
			}
			// (a nested pointer field would be an implicit dereference)
			if w.pathDerefs(lhs) {
				w.problem(pos, "store through a pointer reachable from the loop variable (%s): a per-element update is not a recognised order-insensitive idiom", src)
				return
			}
		}
		w.pureExpr(rhs, "right-hand side")
		return
	}

	// Outer variable / field.
	t := e.info().TypeOf(lhs)
	isInt, isBool := isIntegerOrBool(t)
	// X = append(X, …)
	if c, ok := ast.Unparen(c20RhsOrNil(rhs)).(*ast.CallExpr); ok && tok == token.ASSIGN && w.isBuiltin(c, "append") && len(c.Args) > 0 && sameLval(e.lvalOf(c.Args[0]), lv) {
		for _, a := range c.Args[1:] {
			w.pureExpr(a, "appended value")
		}
		w.collects = append(w.collects, moCollect{lv: lv, pos: pos})
		return
	}
	switch {
	case commutativeOp(tok) && isInt, (tok == token.OR_ASSIGN || tok == token.AND_ASSIGN || tok == token.XOR_ASSIGN) && isBool:
		w.pureExpr(rhs, "right-hand side")
		w.class("aggregate")
		w.effects++
		return
	case tok != token.ASSIGN:
		what := "operation"
		if b, ok := t.Underlying().(*types.Basic); ok && b.Info()&types.IsString != 0 {
			what = "string concatenation"
		} else if ok && b.Info()&types.IsFloat != 0 {
			what = "floating-point accumulation (not associative)"
		}
		w.problem(pos, "order-dependent %s: %s %s … accumulates in map order", what, src, tok)
		return
	}
	if rhs == nil {
		w.problem(pos, "%s receives a result of a multi-value call in every iteration: the last writer wins", src)
		return
	}
	// X = constant / loop-independent value: idempotent (and harmless next to
	// a search exit: `found = true; break`).
	if w.loopIndependent(rhs) {
		w.pureExpr(rhs, "right-hand side")
		w.class("aggregate")
		return
	}
	// X = X || e, X = X | e, X = min(X, e), X = max(X, e)
	if w.commutativeUpdate(lv, rhs) {
		w.pureExpr(rhs, "right-hand side", lv)
		w.class("aggregate")
		w.effects++
		return
	}
	// Guarded max/min: if ACC < CAND { ACC, OTHER = CAND, f(k, v) }.
	if w.guardedStore(lv, rhs, stmt) {
		w.pureExpr(rhs, "right-hand side", lv)
		w.class("aggregate")
		w.effects++
		return
	}
	w.problem(pos, "last-writer-wins assignment: %s = %s depends on the element, so after the loop %s holds the value of whichever element was visited last", src, core.Src(e.prog.Fset, rhs), src)
}

func c20RhsOrNil(x ast.Expr) ast.Expr {
	if x == nil {
		return &ast.BadExpr{}
	}
	return x
}

func (w *moWalk) isBuiltin(c *ast.CallExpr, name string) bool {
	id, ok := ast.Unparen(c.Fun).(*ast.Ident)
	if !ok {
		return false
	}
	b, ok := w.e.info().Uses[id].(*types.Builtin)
	return ok && b.Name() == name
}

// pathDerefs: some selector step in x dereferences a pointer implicitly.
func (w *moWalk) pathDerefs(x ast.Expr) bool {
	for {
		sel, ok := ast.Unparen(x).(*ast.SelectorExpr)
		if !ok {
			return false
		}
		if s, ok := w.e.info().Selections[sel]; ok && s.Indirect() {
			return true
		}
		x = sel.X
	}
}

func (w *moWalk) commutativeUpdate(lv lval, rhs ast.Expr) bool {
	e := w.e
	switch r := ast.Unparen(rhs).(type) {
	case *ast.BinaryExpr:
		switch r.Op {
		case token.LOR, token.LAND, token.OR, token.AND, token.XOR, token.ADD, token.MUL:
			t := e.info().TypeOf(r)
			isInt, isBool := isIntegerOrBool(t)
			if !isInt && !isBool {
				return false
			}
			if sameLval(e.lvalOf(r.X), lv) {
				_, bad := w.readsAssigned(r.Y)
				return !bad
			}
			if sameLval(e.lvalOf(r.Y), lv) {
				_, bad := w.readsAssigned(r.X)
				return !bad
			}
		}
	case *ast.CallExpr:
		if (w.isBuiltin(r, "min") || w.isBuiltin(r, "max")) && len(r.Args) == 2 {
			t := e.info().TypeOf(r)
			if isInt, _ := isIntegerOrBool(t); !isInt {
				if b, ok := t.Underlying().(*types.Basic); !ok || b.Info()&types.IsString == 0 {
					return false
				}
			}
			for i := 0; i < 2; i++ {
				if sameLval(e.lvalOf(r.Args[i]), lv) {
					_, bad := w.readsAssigned(r.Args[1-i])
					return !bad
				}
			}
			return false
		}
	}
	return false
}

// guardedStore: the store lv = rhs sits directly in the block of an
// `if ACC < CAND` (max) / `if CAND < ACC` (min) whose block stores CAND into
// ACC.  Either lv is ACC itself (rhs = CAND), or lv is a companion that
// records which element won; companions are unambiguous only when CAND is the
// loop key (map keys are distinct, so a strict total order has no ties).
func (w *moWalk) guardedStore(lv lval, rhs ast.Expr, stmt *ast.AssignStmt) bool {
	e := w.e
	if len(w.guards) == 0 || stmt == nil {
		return false
	}
	g := w.guards[len(w.guards)-1]
	if !g.then {
		return false
	}
	direct := false
	for _, st := range g.body.List {
		if st == ast.Stmt(stmt) {
			direct = true
		}
	}
	if !direct {
		return false
	}
	// Which accumulator does the guard compare?  Try every outer lvalue assigned in this block.
	for _, st := range g.body.List {
		as, ok := st.(*ast.AssignStmt)
		if !ok || as.Tok != token.ASSIGN || len(as.Lhs) != len(as.Rhs) {
			continue
		}
		for _, l := range as.Lhs {
			acc := e.lvalOf(l)
			if !acc.ok() || w.isLocal(acc.root) {
				continue
			}
			cand, _, ok := w.accGuard(g.cond, g.body, acc)
			if !ok {
				continue
			}
			candIsKey := false
			if id, isID := ast.Unparen(cand).(*ast.Ident); isID && w.keyObj != nil && e.info().Uses[id] == w.keyObj && !w.keyDirty {
				candIsKey = true
			}
			if sameLval(acc, lv) {
				if candIsKey {
					return true
				}
				// Max over a derived value: equal candidates are identical only for basic types.
				if _, isBasic := e.info().TypeOf(cand).Underlying().(*types.Basic); isBasic && w.onlyStoreInBlock(g.body, stmt) && len(stmt.Lhs) == 1 {
					return true
				}
				return false
			}
			// Companion of the accumulator.
			if candIsKey {
				if _, bad := w.readsAssigned(rhs); !bad {
					return true
				}
			}
		}
	}
	return false
}

func (w *moWalk) onlyStoreInBlock(b *ast.BlockStmt, stmt *ast.AssignStmt) bool {
	n := 0
	for _, st := range b.List {
		switch st.(type) {
		case *ast.AssignStmt, *ast.IncDecStmt:
			n++
		}
	}
	return n == 1
}

func (w *moWalk) callStmt(c *ast.CallExpr) {
	e := w.e
	if w.underAcc > 0 && (w.isBuiltin(c, "delete") || w.isBuiltin(c, "panic")) {
		w.problem(c.Pos(), "%s inside a block guarded by a comparison with a running maximum/minimum", core.Src(e.prog.Fset, c.Fun))
		return
	}
	for _, a := range c.Args {
		if _, isLit := ast.Unparen(a).(*ast.FuncLit); isLit {
			continue // judged with the call (sort comparator) below
		}
		w.pureExpr(a, "call argument")
	}
	switch {
	case w.isBuiltin(c, "delete") && len(c.Args) == 2:
		base := e.lvalOf(c.Args[0])
		keyed := false
		if id, ok := ast.Unparen(c.Args[1]).(*ast.Ident); ok && w.keyObj != nil && e.info().Uses[id] == w.keyObj && !w.keyDirty {
			keyed = true
		}
		if !keyed && w.ranged.ok() && base.ok() && sameLval(base, w.ranged) {
			w.problem(c.Pos(), "delete from the map being ranged over under a key other than the loop key: whether that entry is still visited is unspecified")
			return
		}
		w.class("keyed-write")
		w.effects++
		return
	case w.isBuiltin(c, "panic"):
		w.class("error-exit")
		w.res.exits++
		return
	}
	if arg, total, why, ok := e.sortCall(c); ok {
		lv := e.lvalOf(arg)
		if lv.ok() && w.isLocal(lv.root) && (lv.root == w.valObj) {
			if !total {
				w.problem(c.Pos(), "in-place sort of the loop value, but %s", why)
				return
			}
			if len(c.Args) > 1 {
				if lit, isLit := ast.Unparen(c.Args[1]).(*ast.FuncLit); isLit {
					w.closureCalls(lit)
				}
			}
			w.class("elem-sort")
			w.effects++
			return
		}
	}
	// Any other call statement: must be write-free.
	ast.Inspect(c.Fun, func(m ast.Node) bool {
		if cc, ok := m.(*ast.CallExpr); ok {
			w.callEffects(cc, "call")
		}
		return true
	})
	w.callEffects(c, "statement")
}

// closureCalls: every call inside a comparator literal must be write-free.
func (w *moWalk) closureCalls(lit *ast.FuncLit) {
	ast.Inspect(lit.Body, func(m ast.Node) bool {
		if cc, ok := m.(*ast.CallExpr); ok {
			w.callEffects(cc, "sort comparator")
		}
		return true
	})
}

func (w *moWalk) ret(r *ast.ReturnStmt) {
	e := w.e
	w.res.exits++
	if w.underAcc > 0 {
		w.problem(r.Pos(), "return inside a block guarded by a comparison with a running maximum/minimum: whether it is reached depends on the iteration order")
		return
	}
	sig := e.sigOf(w.lp.encl)
	if sig == nil {
		w.problem(r.Pos(), "return inside the loop: enclosing signature not found")
		return
	}
	nres := sig.Results().Len()
	if nres == 0 {
		w.searchExit = append(w.searchExit, r.Pos())
		w.class("search")
		return
	}
	lastIsErr := isErrorIface(sig.Results().At(nres - 1).Type())
	if len(r.Results) == 0 {
		// Naked return: the named results must not be loop-assigned.
		for i := 0; i < nres; i++ {
			v := sig.Results().At(i)
			if i == nres-1 && lastIsErr {
				continue
			}
			for _, as := range w.assigned {
				if as.root == types.Object(v) {
					w.problem(r.Pos(), "naked return of %s, which the loop assigns", v.Name())
					return
				}
			}
		}
		if lastIsErr {
			w.class("error-exit")
		} else {
			w.searchExit = append(w.searchExit, r.Pos())
			w.class("search")
		}
		return
	}
	if len(r.Results) != nres {
		w.pureExpr(r.Results[0], "returned call")
		if w.loopIndependent(r.Results[0]) {
			w.searchExit = append(w.searchExit, r.Pos())
			w.class("search")
		} else {
			w.problem(r.Pos(), "returns the results of %s, which depend on the element being visited", core.Src(e.prog.Fset, r.Results[0]))
		}
		return
	}
	errorish := false
	for i, x := range r.Results {
		w.pureExpr(x, "returned value")
		if i == nres-1 && lastIsErr {
			if !core.IsNilIdent(e.info(), x) {
				errorish = true
			}
			continue
		}
		if !w.loopIndependent(x) {
			w.problem(r.Pos(), "returns %s, which depends on the element being visited: the result is chosen by the iteration order", core.Src(e.prog.Fset, x))
			return
		}
	}
	if errorish {
		w.class("error-exit")
		return
	}
	w.searchExit = append(w.searchExit, r.Pos())
	w.class("search")
}

func (w *moWalk) branch(b *ast.BranchStmt) {
	leaves := false
	switch b.Tok {
	case token.FALLTHROUGH:
		return
	case token.CONTINUE:
		if b.Label == nil {
			return
		}
		leaves = !w.labelInside(b.Label) // continuing an outer loop abandons this one
	case token.BREAK:
		if b.Label == nil {
			leaves = len(w.breakable) == 0
		} else {
			leaves = !w.labelInsideBody(b.Label)
		}
	case token.GOTO:
		leaves = !w.labelInsideBody(b.Label)
	}
	if leaves && w.underAcc > 0 {
		w.problem(b.Pos(), "the loop is left inside a block guarded by a comparison with a running maximum/minimum")
		return
	}
	if leaves {
		w.res.exits++
		w.searchExit = append(w.searchExit, b.Pos())
		w.class("search")
	}
}

// labelInside: the label names the ranged loop itself or a statement inside its body.
func (w *moWalk) labelInside(l *ast.Ident) bool {
	o := w.e.info().Uses[l]
	if o == nil {
		return false
	}
	if w.labelInsideBody(l) {
		return true
	}
	// The label of the range statement itself directly precedes it.
	return w.labelOfLoop() == o
}

func (w *moWalk) labelOfLoop() types.Object {
	var out types.Object
	var root ast.Node
	switch x := w.lp.encl.(type) {
	case *ast.FuncDecl:
		root = x.Body
	case *ast.FuncLit:
		root = x.Body
	}
	ast.Inspect(root, func(m ast.Node) bool {
		if ls, ok := m.(*ast.LabeledStmt); ok && ls.Stmt == ast.Stmt(w.lp.rs) {
			out = w.e.info().Defs[ls.Label]
		}
		return out == nil
	})
	return out
}

func (w *moWalk) labelInsideBody(l *ast.Ident) bool {
	o := w.e.info().Uses[l]
	return o != nil && o.Pos() > w.lp.rs.Body.Pos() && o.Pos() < w.lp.rs.Body.End()
}

// ---------- (iii) sorted before any other use ----------

// mentions: node n reads or writes lv (or a prefix / extension of it).
func (e *moEnv) mentions(n ast.Node, lv lval) bool {
	found := false
	ast.Inspect(n, func(m ast.Node) bool {
		if found {
			return false
		}
		ex, ok := m.(ast.Expr)
		if !ok {
			return true
		}
		switch ex.(type) {
		case *ast.Ident, *ast.SelectorExpr, *ast.StarExpr:
			if l := e.lvalOf(ex); l.ok() {
				if overlaps(l, lv) {
					found = true
				}
				return false
			}
		}
		return true
	})
	return found
}

// sortedBefore: on every path that starts after a node satisfying start,
// the slice lv is sorted (total order over whole elements) before any other
// mention of it and — when it outlives the function — before any successful
// exit.  Nodes for which skip holds are ignored (the collecting loop itself).
// extraEvent, if non-nil, is an additional discharging event.
func (e *moEnv) sortedBefore(fl *core.Flow, start func(ast.Node) bool, lv lval, skip func(ast.Node) bool, escapes bool, extraEvent func(ast.Node) bool) (string, int) {
	var badSort string
	isSortOn := func(call *ast.CallExpr) bool {
		arg, total, why, ok := e.sortCall(call)
		if !ok || !sameLval(e.lvalOf(arg), lv) {
			return false
		}
		if !total {
			badSort = fmt.Sprintf("%s: %s", e.pos(call.Pos()), why)
			return false
		}
		return true
	}
	q := core.Query{
		Start: start,
		Events: []core.Event{{Node: func(n ast.Node) bool {
			if extraEvent != nil && extraEvent(n) {
				return true
			}
			return core.Guaranteed(n, isSortOn)
		}}},
		Exit: func(n ast.Node) bool {
			if skip != nil && skip(n) {
				return false
			}
			if ret, ok := n.(*ast.ReturnStmt); ok {
				if e.mentions(ret, lv) {
					return true
				}
				return escapes && !fl.IsErrorReturn(ret)
			}
			return e.mentions(n, lv)
		},
		FuncEnd: escapes,
	}
	esc, sites := fl.Escapes(q)
	if len(esc) == 0 {
		if sites == 0 {
			return "the starting point was not found in the control-flow graph", 0
		}
		return "", sites
	}
	s := "it is used before being sorted: " + esc[0].String()
	if badSort != "" {
		s += " (a sort call exists but " + badSort + ")"
	}
	return s, sites
}

// outlives: the variable/field path is visible after the enclosing function returns.
func (e *moEnv) outlives(encl ast.Node, lv lval) bool {
	if len(lv.path) > 0 {
		return true
	}
	v, ok := lv.root.(*types.Var)
	if !ok {
		return true
	}
	if v.Pkg() != nil && v.Parent() == v.Pkg().Scope() {
		return true
	}
	if sig := e.sigOf(encl); sig != nil {
		for i := 0; i < sig.Results().Len(); i++ {
			if sig.Results().At(i) == v {
				return true
			}
		}
	}
	return false
}

// sortedAfter returns "" when every collected slice is sorted on every path
// from the loop to any other use; otherwise a description of the escaping path.
func (w *moWalk) sortedAfter(c moCollect) string {
	e := w.e
	fl := e.flowFor(w.lp.encl)
	rs := w.lp.rs
	var extra func(ast.Node) bool
	if c.mapOfSlices {
		// A later loop `for _, s := range X { sort(s) }` over the same map.
		extra = func(n ast.Node) bool {
			x, ok := n.(ast.Expr)
			if !ok {
				return false
			}
			lp2 := e.byX[x]
			if lp2 == nil || lp2 == w.lp || !sameLval(e.lvalOf(lp2.rs.X), c.lv) {
				return false
			}
			r2 := e.classify(lp2)
			return len(r2.problems) == 0 && r2.exits == 0 && r2.classes["elem-sort"] >= 1 && len(r2.classes) == 1
		}
	}
	lv := c.lv
	msg, sites := e.sortedBefore(fl,
		func(n ast.Node) bool { return n == ast.Node(rs.X) },
		lv,
		func(n ast.Node) bool { return n.Pos() >= rs.Pos() && n.End() <= rs.End() },
		e.outlives(w.lp.encl, lv), extra)
	w.res.stmts += sites
	if c.mapOfSlices && extra != nil && msg != "" {
		msg += " (for a map of slices the discharging event is a later `range` over the same map whose body only sorts the value)"
	}
	return msg
}
