package main

// C06 clause 2: "an operation reports failure exactly when some pair makes it
// undefined". Engine E1 (go/cfg paths) over the Try* methods, plus an exact
// finite enumeration of the three predicates the guards are built from.

import (
	"fmt"
	"go/ast"
	"go/constant"
	"go/token"
	"go/types"
	"sort"
	"strings"

	"golang.org/x/tools/go/ssa"

	"wv/core"
)

// c06TrySpec: the frozen table. pred == "" ⇒ the operation is total (never
// fails); otherwise the operation is undefined for a pair (a, b) exactly when
// b satisfies the point predicate, so the interval operation must fail iff x
// is non-empty and y (non-empty) contains such a b — i.e. iff
// !x.Empty() && y.<pred>().
var c06TrySpec = map[string]struct{ pred, why string }{
	"TryUnite":     {"", "union is total"},
	"TryIntersect": {"", "intersection is total"},
	"TryAdd":       {"", "addition is total"},
	"TrySub":       {"", "subtraction is total"},
	"TryMul":       {"", "multiplication is total"},
	"TryAnd":       {"", "bit-and is total on arbitrary-precision two's complement"},
	"TryOr":        {"", "bit-or is total on arbitrary-precision two's complement"},
	"TryLsh":       {"ContainsNegative", "a << b is undefined exactly for b < 0"},
	"TryRsh":       {"ContainsNegative", "a >> b is undefined exactly for b < 0"},
	"TryQuo":       {"ContainsZero", "a / b is undefined exactly for b == 0"},
}

type c06ret struct {
	r  *ast.ReturnStmt
	ok string // "true", "false", "?"
}

// c06Returns classifies the ok result of every return statement: from the
// syntax when it is a constant expression, otherwise from go/ssa (a naked
// return, or `return z, ok` after `ok = true`, is a constant there too).
func c06Returns(fl *core.Flow, prog *ssa.Program) []c06ret {
	var out []c06ret
	info := fl.F.Info()
	bySSA := map[token.Pos]string{}
	if prog != nil && fl.F.Obj != nil {
		if sf := prog.FuncValue(fl.F.Obj); sf != nil {
			for _, b := range sf.Blocks {
				for _, ins := range b.Instrs {
					if r, ok := ins.(*ssa.Return); ok && len(r.Results) == 2 {
						if cst, ok := r.Results[1].(*ssa.Const); ok && cst.Value != nil && cst.Value.Kind() == constant.Bool {
							v := "false"
							if constant.BoolVal(cst.Value) {
								v = "true"
							}
							if old, seen := bySSA[r.Pos()]; seen && old != v {
								v = "?"
							}
							bySSA[r.Pos()] = v
						} else {
							bySSA[r.Pos()] = "?"
						}
					}
				}
			}
		}
	}
	ast.Inspect(fl.F.Decl.Body, func(n ast.Node) bool {
		switch x := n.(type) {
		case *ast.FuncLit:
			return false
		case *ast.ReturnStmt:
			r := c06ret{r: x, ok: "?"}
			if len(x.Results) == 2 {
				if cv := core.ConstVal(info, x.Results[1]); cv != nil && cv.Kind() == constant.Bool {
					if constant.BoolVal(cv) {
						r.ok = "true"
					} else {
						r.ok = "false"
					}
				}
			}
			if r.ok == "?" {
				if v, ok := bySSA[x.Return]; ok {
					r.ok = v
				}
			}
			out = append(out, r)
		}
		return true
	})
	return out
}

func runC06Try(k *gctx, prog *ssa.Program) {
	c := k.c
	g := k.g
	named, methods := exportedIntRangeMethods(k)
	if named == nil {
		c.Undecided("try.table", relInterval+".IntRange", "type IntRange resolves", "type not found")
		return
	}
	// ---- try.table: the set of (IntRange, bool) methods is the table ----
	found := map[string]bool{}
	for _, f := range methods {
		sig := f.Obj.Type().(*types.Signature)
		if sig.Results().Len() != 2 {
			continue
		}
		r0, r1 := sig.Results().At(0).Type(), sig.Results().At(1).Type()
		b, isBasic := r1.Underlying().(*types.Basic)
		if !types.Identical(types.Unalias(r0), named) || !isBasic || b.Kind() != types.Bool {
			continue
		}
		name := f.Decl.Name.Name
		found[name] = true
		if _, ok := c06TrySpec[name]; !ok {
			c.Undecided("try.table", f.Name(), "every exported (IntRange, ok bool) operation has a stated failure condition", g.Pos(f.Decl.Pos())+": this method is not in the checker's table; its failure condition is unknown")
		}
	}
	var names []string
	for n := range c06TrySpec {
		names = append(names, n)
	}
	sort.Strings(names)
	emptyM := g.LookupMethod(relInterval, "IntRange", "Empty")
	if emptyM == nil {
		c.Undecided("try.table", relInterval+".(IntRange).Empty", "the emptiness predicate exists", "method not found")
		return
	}
	nTotalReturns, nFalse := 0, 0
	for _, name := range names {
		sp := c06TrySpec[name]
		fl := k.flow("try.table", relInterval, "IntRange", name)
		if fl == nil {
			continue
		}
		c.Check(found[name], "try.table", fl.F.Name(), "the operation has the (IntRange, ok bool) shape the table expects ("+sp.why+")", 1, g.Pos(fl.F.Decl.Pos())+": result types are not (IntRange, bool)")
		rets := c06Returns(fl, prog)
		if sp.pred == "" {
			// ---- try.total ----
			var bad []string
			for _, r := range rets {
				if r.ok != "true" {
					bad = append(bad, fmt.Sprintf("%s: `%s` — ok is %s", g.Pos(r.r.Pos()), core.Src(g.Fset, r.r), map[string]string{"false": "false", "?": "not the constant true"}[r.ok]))
				}
			}
			claim := "the operation is total (" + sp.why + "): every return reports ok == true"
			if len(rets) == 0 {
				c.Undecided("try.total", fl.F.Name(), claim, "no return statement found")
				continue
			}
			nTotalReturns += len(rets)
			c.Check(len(bad) == 0, "try.total", fl.F.Name(), claim, len(rets), strings.Join(bad, "\n"))
			continue
		}
		// ---- failing operations ----
		predM := g.LookupMethod(relInterval, "IntRange", sp.pred)
		if predM == nil {
			c.Undecided("try.guard", fl.F.Name(), "predicate "+sp.pred+" exists", "method not found")
			continue
		}
		x, y := fl.Recv(), fl.Param(0)
		if x == nil || y == nil {
			c.Undecided("try.guard", fl.F.Name(), "receiver x and argument y are named", "unnamed receiver or parameter")
			continue
		}
		info := fl.F.Info()
		atom := func(m *types.Func, operand types.Object) core.ExprPred {
			direct := func(e ast.Expr) bool {
				call, ok := ast.Unparen(e).(*ast.CallExpr)
				if !ok || !core.IsCallTo(info, call, m) {
					return false
				}
				r := core.RecvOf(call)
				if r == nil {
					return false
				}
				id, ok := ast.Unparen(r).(*ast.Ident)
				return ok && info.Uses[id] == operand
			}
			return func(e ast.Expr) bool {
				if direct(e) {
					return true
				}
				if id, ok := ast.Unparen(e).(*ast.Ident); ok {
					if v, ok := info.Uses[id].(*types.Var); ok && !v.IsField() {
						defs := fl.Defs()[v]
						return len(defs) == 1 && direct(defs[0])
					}
				}
				return false
			}
		}
		xEmpty, yEmpty, yPred := atom(emptyM, x), atom(emptyM, y), atom(predM, y)

		// try.operands: x and y denote the operands throughout.
		if msgs := c06Modified(fl, x, y); len(msgs) > 0 {
			c.Fail("try.operands", fl.F.Name(), "the receiver and the argument are not reassigned, element-assigned or address-taken, so the guards test the caller's operands", len(msgs), strings.Join(msgs, "\n"))
		} else {
			c.Pass("try.operands", fl.F.Name(), "the receiver and the argument are not reassigned, element-assigned or address-taken, so the guards test the caller's operands", 2, "")
		}

		anchor := fl.F.Name()
		var unknown []string
		nf := 0
		for _, r := range rets {
			switch r.ok {
			case "false":
				nf++
			case "?":
				unknown = append(unknown, fmt.Sprintf("%s: `%s`", g.Pos(r.r.Pos()), core.Src(g.Fset, r.r)))
			}
		}
		if len(unknown) > 0 {
			c.Undecided("try.guard", anchor, "every return states ok as the constant true or false", strings.Join(unknown, "\n"))
			continue
		}
		nPredAtoms := 0
		ast.Inspect(fl.F.Decl.Body, func(n ast.Node) bool {
			if e, ok := n.(ast.Expr); ok && yPred(e) {
				if _, isCall := ast.Unparen(e).(*ast.CallExpr); isCall {
					nPredAtoms++
				}
			}
			return true
		})
		if nf == 0 || nPredAtoms == 0 {
			c.Undecided("try.guard", anchor, "the operation has an `ok == false` return guarded by y."+sp.pred+"() ("+sp.why+")",
				fmt.Sprintf("%s: %d `return …, false` statements and %d tests of y.%s() found", g.Pos(fl.F.Decl.Pos()), nf, nPredAtoms, sp.pred))
			continue
		}
		nFalse += nf
		isFalseRet := func(n ast.Node) bool {
			for _, r := range rets {
				if ast.Node(r.r) == n {
					return r.ok == "false"
				}
			}
			return false
		}
		isOtherRet := func(n ast.Node) bool {
			for _, r := range rets {
				if ast.Node(r.r) == n {
					return r.ok != "false"
				}
			}
			return false
		}
		type lit = c06lit
		edge := func(lits ...lit) core.Event {
			return core.Event{Edge: func(cond ast.Expr, ci *core.CondInfo, taken bool) bool { return c06Establishes(cond, taken, lits) }}
		}
		k.mustPass("try.onlyif.x", anchor,
			"failure is reported only for a non-empty x: every path to a `return …, false` leaves a branch that establishes x.Empty() == false (an empty x has no member, so no pair is undefined)",
			fl, core.Query{Exit: isFalseRet, Events: []core.Event{edge(lit{xEmpty, false})}})
		k.mustPass("try.onlyif.y", anchor,
			"failure is reported only when y holds an offending member: every path to a `return …, false` leaves a branch that establishes y."+sp.pred+"() == true ("+sp.why+")",
			fl, core.Query{Exit: isFalseRet, Events: []core.Event{edge(lit{yPred, true})}})
		k.mustPass("try.if", anchor,
			"success is reported only when no pair is undefined: every path to a return with ok != false (or to the end of the function) leaves a branch that establishes x.Empty() == true, y.Empty() == true or y."+sp.pred+"() == false",
			fl, core.Query{Exit: isOtherRet, FuncEnd: true, Events: []core.Event{edge(lit{xEmpty, true}, lit{yEmpty, true}, lit{yPred, false})}})
	}
	c.Floor("try.total", "return statements of the 7 total Try* operations", nTotalReturns, 7)
	c.Floor("try.guard", "`return …, false` statements of TryLsh, TryRsh, TryQuo", nFalse, 3)
}

// c06lit is an atom with a polarity: "p(e) evaluates to val".
type c06lit struct {
	p   core.ExprPred
	val bool
}

// c06Establishes: leaving condition cond along its taken/not-taken branch
// guarantees that at least one of the literals holds. go/cfg keeps a
// short-circuit condition as one node, so the boolean structure is handled
// here: a conjunction of facts (a && b taken, a || b not taken) establishes a
// literal if either side does; a disjunction of facts (a && b not taken,
// a || b taken) only if both sides do (possibly different literals).
func c06Establishes(cond ast.Expr, taken bool, lits []c06lit) bool {
	cond = ast.Unparen(cond)
	for _, l := range lits {
		if l.val == taken && l.p(cond) {
			return true
		}
	}
	switch x := cond.(type) {
	case *ast.UnaryExpr:
		if x.Op == token.NOT {
			return c06Establishes(x.X, !taken, lits)
		}
	case *ast.BinaryExpr:
		if x.Op == token.LAND || x.Op == token.LOR {
			conj := (x.Op == token.LAND) == taken
			l, r := c06Establishes(x.X, taken, lits), c06Establishes(x.Y, taken, lits)
			if conj {
				return l || r
			}
			return l && r
		}
	}
	return false
}

// c06Modified reports assignments to / address-taking of the operand variables.
func c06Modified(fl *core.Flow, objs ...types.Object) []string {
	info := fl.F.Info()
	g := fl.F.Prog
	is := func(e ast.Expr) bool {
		id, ok := ast.Unparen(e).(*ast.Ident)
		if !ok {
			return false
		}
		for _, o := range objs {
			if info.Uses[id] == o || info.Defs[id] == o {
				return true
			}
		}
		return false
	}
	base := func(e ast.Expr) ast.Expr {
		for {
			switch x := ast.Unparen(e).(type) {
			case *ast.IndexExpr:
				e = x.X
			case *ast.SliceExpr:
				e = x.X
			default:
				return ast.Unparen(e)
			}
		}
	}
	var out []string
	ast.Inspect(fl.F.Decl.Body, func(n ast.Node) bool {
		switch s := n.(type) {
		case *ast.AssignStmt:
			for _, l := range s.Lhs {
				if is(base(l)) {
					out = append(out, fmt.Sprintf("%s: `%s` assigns to an operand variable", g.Pos(s.Pos()), core.Src(g.Fset, s)))
				}
			}
		case *ast.IncDecStmt:
			if is(base(s.X)) {
				out = append(out, fmt.Sprintf("%s: `%s`", g.Pos(s.Pos()), core.Src(g.Fset, s)))
			}
		case *ast.RangeStmt:
			for _, e := range []ast.Expr{s.Key, s.Value} {
				if e != nil && s.Tok == token.ASSIGN && is(base(e)) {
					out = append(out, fmt.Sprintf("%s: range assigns to an operand variable", g.Pos(s.Pos())))
				}
			}
		case *ast.UnaryExpr:
			if s.Op == token.AND && is(base(s.X)) {
				out = append(out, fmt.Sprintf("%s: `%s` takes the address of an operand variable", g.Pos(s.Pos()), core.Src(g.Fset, s)))
			}
		case *ast.CallExpr:
			if sel, ok := ast.Unparen(s.Fun).(*ast.SelectorExpr); ok && is(base(sel.X)) {
				if se := info.Selections[sel]; se != nil {
					if fn, ok := se.Obj().(*types.Func); ok {
						if rv := fn.Type().(*types.Signature).Recv(); rv != nil {
							if _, isPtr := rv.Type().Underlying().(*types.Pointer); isPtr {
								if _, recvIsPtr := info.TypeOf(sel.X).Underlying().(*types.Pointer); !recvIsPtr {
									out = append(out, fmt.Sprintf("%s: `%s` calls a pointer-receiver method on an operand variable", g.Pos(s.Pos()), core.Src(g.Fset, s)))
								}
							}
						}
					}
				}
			}
		}
		return true
	})
	return out
}

// ------------------------------------------------------------------
// try.pred: Empty, ContainsNegative, ContainsZero against their definitions.
//
// The three methods observe the two bounds only through `b == nil`,
// b.Sign() REL const and lo.Cmp(hi) REL const. The truth value is therefore a
// function of (nil-ness, sign of each bound, order of the two bounds); every
// consistent combination is realised by bounds drawn from
// {nil, -2, -1, 0, +1, +2}, so evaluating the method's syntax tree on those 36
// configurations and comparing with the set-theoretic definition is exact.
// Any other observation of a bound (BitLen, arithmetic, a call the evaluator
// does not know) is refused: the obligation becomes undecided.

type c06bound struct {
	inf bool
	v   int
}

func (b c06bound) String() string {
	if b.inf {
		return "nil"
	}
	return fmt.Sprintf("%+d", b.v)
}

type c06predEval struct {
	k     *gctx
	info  *types.Info
	named *types.Named
	steps int
}

type c06evalErr struct {
	pos token.Pos
	msg string
}

func (e *c06evalErr) Error() string { return e.msg }

func (pe *c06predEval) fail(n ast.Node, format string, args ...interface{}) error {
	return &c06evalErr{n.Pos(), fmt.Sprintf(format, args...)}
}

func (pe *c06predEval) evalMethod(f *core.Func, x [2]c06bound, depth int) (bool, error) {
	if depth > 6 {
		return false, pe.fail(f.Decl, "predicate call depth exceeded")
	}
	recv := types.Object(nil)
	if f.Decl.Recv != nil && len(f.Decl.Recv.List) == 1 && len(f.Decl.Recv.List[0].Names) == 1 {
		recv = pe.info.Defs[f.Decl.Recv.List[0].Names[0]]
	}
	if recv == nil || f.Decl.Type.Params.NumFields() != 0 {
		return false, pe.fail(f.Decl, "predicate must have a named value receiver and no parameters")
	}
	if _, isPtr := recv.Type().Underlying().(*types.Pointer); isPtr {
		return false, pe.fail(f.Decl, "pointer receiver not supported")
	}
	ret, err := pe.execList(f.Decl.Body.List, recv, x, depth)
	if err != nil {
		return false, err
	}
	if ret == nil {
		return false, pe.fail(f.Decl.Body, "control reaches the end of the predicate without a return")
	}
	return *ret, nil
}

func (pe *c06predEval) execList(list []ast.Stmt, recv types.Object, x [2]c06bound, depth int) (*bool, error) {
	for _, s := range list {
		r, err := pe.exec(s, recv, x, depth)
		if err != nil || r != nil {
			return r, err
		}
	}
	return nil, nil
}

func (pe *c06predEval) exec(s ast.Stmt, recv types.Object, x [2]c06bound, depth int) (*bool, error) {
	pe.steps++
	switch st := s.(type) {
	case *ast.ReturnStmt:
		if len(st.Results) != 1 {
			return nil, pe.fail(st, "return with %d results", len(st.Results))
		}
		v, err := pe.evalBool(st.Results[0], recv, x, depth)
		if err != nil {
			return nil, err
		}
		return &v, nil
	case *ast.BlockStmt:
		return pe.execList(st.List, recv, x, depth)
	case *ast.IfStmt:
		if st.Init != nil {
			return nil, pe.fail(st, "if statement with an init clause is not supported by the predicate evaluator")
		}
		v, err := pe.evalBool(st.Cond, recv, x, depth)
		if err != nil {
			return nil, err
		}
		if v {
			return pe.execList(st.Body.List, recv, x, depth)
		}
		if st.Else != nil {
			return pe.exec(st.Else, recv, x, depth)
		}
		return nil, nil
	case *ast.EmptyStmt:
		return nil, nil
	}
	return nil, pe.fail(s, "statement form %T is not supported by the predicate evaluator", s)
}

func (pe *c06predEval) boundExpr(e ast.Expr, recv types.Object, x [2]c06bound) (c06bound, bool) {
	ix, ok := ast.Unparen(e).(*ast.IndexExpr)
	if !ok {
		return c06bound{}, false
	}
	id, ok := ast.Unparen(ix.X).(*ast.Ident)
	if !ok || pe.info.Uses[id] != recv {
		return c06bound{}, false
	}
	i, ok := core.ConstInt64(pe.info, ix.Index)
	if !ok || i < 0 || i > 1 {
		return c06bound{}, false
	}
	return x[i], true
}

func (pe *c06predEval) evalInt(e ast.Expr, recv types.Object, x [2]c06bound) (int64, error) {
	e = ast.Unparen(e)
	if v, ok := core.ConstInt64(pe.info, e); ok {
		return v, nil
	}
	call, ok := e.(*ast.CallExpr)
	if !ok {
		return 0, pe.fail(e, "integer expression `%s` is not a constant, b.Sign() or b.Cmp(b')", core.Src(pe.k.g.Fset, e))
	}
	fn := core.Callee(pe.info, call)
	r := core.RecvOf(call)
	if fn == nil || r == nil {
		return 0, pe.fail(e, "call `%s` is not resolved", core.Src(pe.k.g.Fset, e))
	}
	a, ok := pe.boundExpr(r, recv, x)
	if !ok {
		return 0, pe.fail(e, "receiver of `%s` is not x[0] or x[1]", core.Src(pe.k.g.Fset, e))
	}
	switch fn.FullName() {
	case "(*math/big.Int).Sign":
		if a.inf {
			return 0, pe.fail(e, "`%s` dereferences a nil bound", core.Src(pe.k.g.Fset, e))
		}
		switch {
		case a.v < 0:
			return -1, nil
		case a.v > 0:
			return 1, nil
		}
		return 0, nil
	case "(*math/big.Int).Cmp":
		if len(call.Args) != 1 {
			break
		}
		b, ok := pe.boundExpr(call.Args[0], recv, x)
		if !ok {
			return 0, pe.fail(e, "argument of `%s` is not x[0] or x[1]", core.Src(pe.k.g.Fset, e))
		}
		if a.inf || b.inf {
			return 0, pe.fail(e, "`%s` dereferences a nil bound", core.Src(pe.k.g.Fset, e))
		}
		switch {
		case a.v < b.v:
			return -1, nil
		case a.v > b.v:
			return 1, nil
		}
		return 0, nil
	}
	return 0, pe.fail(e, "`%s` observes a bound through %s, which the finite abstraction does not cover", core.Src(pe.k.g.Fset, e), fn.FullName())
}

func (pe *c06predEval) evalBool(e ast.Expr, recv types.Object, x [2]c06bound, depth int) (bool, error) {
	pe.steps++
	e = ast.Unparen(e)
	if cv := core.ConstVal(pe.info, e); cv != nil && cv.Kind() == constant.Bool {
		return constant.BoolVal(cv), nil
	}
	switch y := e.(type) {
	case *ast.UnaryExpr:
		if y.Op == token.NOT {
			v, err := pe.evalBool(y.X, recv, x, depth)
			return !v, err
		}
	case *ast.BinaryExpr:
		switch y.Op {
		case token.LAND:
			l, err := pe.evalBool(y.X, recv, x, depth)
			if err != nil || !l {
				return false, err
			}
			return pe.evalBool(y.Y, recv, x, depth)
		case token.LOR:
			l, err := pe.evalBool(y.X, recv, x, depth)
			if err != nil || l {
				return l, err
			}
			return pe.evalBool(y.Y, recv, x, depth)
		case token.EQL, token.NEQ:
			if core.IsNilIdent(pe.info, y.Y) || core.IsNilIdent(pe.info, y.X) {
				other := y.X
				if core.IsNilIdent(pe.info, y.X) {
					other = y.Y
				}
				b, ok := pe.boundExpr(other, recv, x)
				if !ok {
					return false, pe.fail(e, "`%s` compares something other than x[0]/x[1] with nil", core.Src(pe.k.g.Fset, e))
				}
				return b.inf == (y.Op == token.EQL), nil
			}
			if t := pe.info.TypeOf(y.X); t != nil {
				if bt, ok := t.Underlying().(*types.Basic); ok && bt.Info()&types.IsBoolean != 0 {
					l, err := pe.evalBool(y.X, recv, x, depth)
					if err != nil {
						return false, err
					}
					r, err := pe.evalBool(y.Y, recv, x, depth)
					if err != nil {
						return false, err
					}
					return (l == r) == (y.Op == token.EQL), nil
				}
			}
			fallthrough
		case token.LSS, token.LEQ, token.GTR, token.GEQ:
			l, err := pe.evalInt(y.X, recv, x)
			if err != nil {
				return false, err
			}
			r, err := pe.evalInt(y.Y, recv, x)
			if err != nil {
				return false, err
			}
			v, ok := relEval(y.Op, l, r)
			if !ok {
				return false, pe.fail(e, "operator %s", y.Op)
			}
			return v, nil
		}
	case *ast.CallExpr:
		fn := core.Callee(pe.info, y)
		r := core.RecvOf(y)
		if fn != nil && r != nil && len(y.Args) == 0 && fn.Pkg() != nil && fn.Pkg().Path() == core.Mod+"/"+relInterval {
			if id, ok := ast.Unparen(r).(*ast.Ident); ok && pe.info.Uses[id] == recv {
				if f := pe.k.g.FindFunc(relInterval, "IntRange", fn.Name()); f != nil && f.Obj == fn {
					return pe.evalMethod(f, x, depth+1)
				}
			}
		}
	}
	return false, pe.fail(e, "boolean expression `%s` is outside the forms the finite abstraction covers (nil tests, Sign, Cmp between the two bounds, calls of sibling predicates on the same receiver)", core.Src(pe.k.g.Fset, e))
}

func runC06Pred(k *gctx) {
	c := k.c
	g := k.g
	p := g.Pkg(relInterval)
	tn, _ := g.LookupObj(relInterval, "IntRange").(*types.TypeName)
	if tn == nil {
		return
	}
	named, _ := types.Unalias(tn.Type()).(*types.Named)
	nonEmpty := func(x [2]c06bound) bool { return x[0].inf || x[1].inf || x[0].v <= x[1].v }
	specs := []struct {
		name, def string
		want      func(x [2]c06bound) bool
	}{
		{"Empty", "x has no member: both bounds finite and x[0] > x[1]", func(x [2]c06bound) bool { return !nonEmpty(x) }},
		{"ContainsNegative", "some member of x is < 0: x is non-empty and its lower bound is -∞ or negative",
			func(x [2]c06bound) bool { return nonEmpty(x) && (x[0].inf || x[0].v < 0) }},
		{"ContainsZero", "0 is a member of x: lower bound -∞ or <= 0, upper bound +∞ or >= 0",
			func(x [2]c06bound) bool { return (x[0].inf || x[0].v <= 0) && (x[1].inf || x[1].v >= 0) }},
	}
	var dom []c06bound
	dom = append(dom, c06bound{inf: true})
	for v := -2; v <= 2; v++ {
		dom = append(dom, c06bound{v: v})
	}
	total := 0
	for _, sp := range specs {
		f := g.FindFunc(relInterval, "IntRange", sp.name)
		anchor := relInterval + ".(IntRange)." + sp.name
		claim := "the predicate the failure guards rely on means what it says — " + sp.def + " — on every configuration of (nil-ness, sign, order) of the two bounds"
		if f == nil {
			c.Undecided("try.pred", anchor, claim, "method not found")
			continue
		}
		pe := &c06predEval{k: k, info: p.TypesInfo, named: named}
		var bad []string
		var evalErr error
		n := 0
		for _, lo := range dom {
			for _, hi := range dom {
				x := [2]c06bound{lo, hi}
				got, err := pe.evalMethod(f, x, 0)
				if err != nil {
					evalErr = err
					break
				}
				n++
				if want := sp.want(x); got != want {
					bad = append(bad, fmt.Sprintf("x = [%s, %s]: %s() yields %v, definition says %v", lo, hi, sp.name, got, want))
				}
			}
			if evalErr != nil {
				break
			}
		}
		total += n
		switch {
		case evalErr != nil:
			pos := f.Decl.Pos()
			if ee, ok := evalErr.(*c06evalErr); ok {
				pos = ee.pos
			}
			c.Undecided("try.pred", anchor, claim, fmt.Sprintf("%s: %v", g.Pos(pos), evalErr))
		case len(bad) > 0:
			c.Fail("try.pred", anchor, claim, n, g.Pos(f.Decl.Pos())+":\n"+strings.Join(bad, "\n"))
		default:
			c.Pass("try.pred", anchor, claim, n, fmt.Sprintf("%s: %d configurations agree", g.Pos(f.Decl.Pos()), n))
		}
	}
	c.Floor("try.pred", "bound configurations evaluated for Empty, ContainsNegative, ContainsZero", total, 108)
}
