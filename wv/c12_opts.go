package main

// C12, rule D5.opts: in dumbindent.FormatBytes the configuration variables that
// the options set (indentBytes, indentCount — spaces/tabs and how many) are read
// only after their last assignment: no path leads from a read of one of them to a
// later assignment of it. A value computed from the default and used with the
// configured one disagrees with it: the first line's indentation is counted in
// spaces and written in tabs, so re-indenting the output changes it again
// (independently seeded change C12-6 moved the initial-indent count above the
// options block).

import (
	"go/ast"
	"go/token"
	"go/types"

	"wv/core"
)

func runC12Opts(k *gctx) {
	c := k.c
	fl := k.flow("D5.opts", "lib/dumbindent", "", "FormatBytes")
	if fl == nil {
		return
	}
	info := fl.F.Info()
	opts := fl.Param(2)
	// configuration variables: locals assigned inside an `if opts != nil { … }` block
	cfg := map[types.Object]bool{}
	ast.Inspect(fl.F.Decl.Body, func(n ast.Node) bool {
		is, ok := n.(*ast.IfStmt)
		if !ok || !nilTest(fl, is.Cond, func(e ast.Expr) bool { return fl.Obj(e) == opts }, false) {
			return true
		}
		ast.Inspect(is.Body, func(m ast.Node) bool {
			if as, ok := m.(*ast.AssignStmt); ok && as.Tok == token.ASSIGN {
				for _, l := range as.Lhs {
					if o := fl.Obj(l); o != nil {
						if v, isVar := o.(*types.Var); isVar && !v.IsField() {
							cfg[o] = true
						}
					}
				}
			}
			return true
		})
		return true
	})
	c.Floor("D5.opts", "configuration variables set from the options in FormatBytes", len(cfg), 2)
	for o := range cfg {
		o := o
		isWrite := func(n ast.Node) bool {
			as, ok := n.(*ast.AssignStmt)
			if !ok {
				return false
			}
			for _, l := range as.Lhs {
				if fl.Obj(l) == o {
					return true
				}
			}
			return false
		}
		isRead := func(n ast.Node) bool {
			if isWrite(n) {
				// `x = f(x)` style self-updates would count; the options block has none
				as := n.(*ast.AssignStmt)
				for _, r := range as.Rhs {
					if core.Mentions(info, r, o) {
						return true
					}
				}
				return false
			}
			switch n.(type) {
			case *ast.IfStmt, *ast.ForStmt, *ast.SwitchStmt, *ast.BlockStmt, *ast.RangeStmt:
				return false
			}
			return core.Mentions(info, n, o)
		}
		k.mustPass("D5.opts", fl.F.Name()+"["+o.Name()+"]",
			"the configured value of `"+o.Name()+"` is final before it is first read: anything computed from the default and then used with the configured value (tabs vs spaces) makes the output disagree with itself, and a second run changes it",
			fl, core.Query{Start: isRead, Exit: isWrite})
	}
}
