package main

// G9.bracket: in generated C, a block that re-points a derived I/O bound
// (io0_X / io1_X / io2_X) — the io_bind, io_limit and io_forget_history
// lowerings — saves the old value in an `o_K_<var>` first and restores it from
// that `o_K_<var>` before the block ends. The bounds are what can_undo_byte
// (`iop > io1`), history copies (`iop - io0`) and the short-read tests
// (`iop == io2`) are computed from, so a bound that is re-pointed and not put
// back makes the code after the block see the block's view of the buffer:
// wrong `can_undo_byte`, reads past the caller's limit, or an "internal error"
// status on a valid input (independently seeded change C03-3 dropped the io1
// save/restore of io_forget_history; xz then reports "#xz: internal error:
// inconsistent BCJ filter state" when fed 1..7 bytes per call).

import (
	"fmt"
	"os"
	"regexp"
	"strings"

	"wv/core"
)

var (
	reIOVar   = regexp.MustCompile(`^io[012]_[A-Za-z0-9_]+$`)
	reSaveVar = regexp.MustCompile(`^o_[0-9]+_(io[012]_[A-Za-z0-9_]+)$`)
)

// ioBracketStats counts what the rule examined (for the floor).
type ioBracketStats struct{ blocks, vars int }

// checkIOBrackets walks every statement list of fn. Returns the problems found.
func checkIOBrackets(fn *c08fn, st *ioBracketStats) []string {
	var bad []string
	var walk func(list []*core.CStmt, top bool)
	walk = func(list []*core.CStmt, top bool) {
		saved := map[string]string{} // io var -> o_K_ var
		savedAt := map[string]int{}  // io var -> index in list
		assigned := map[string]int{} // io var -> first index of a re-pointing assignment at this level
		for i, s := range list {
			if s.Kind != "expr" {
				continue
			}
			toks := s.Toks
			// declaration `[const] uint8_t * o_K_V = V`
			for j := 0; j+2 < len(toks); j++ {
				if m := reSaveVar.FindStringSubmatch(toks[j].Text); m != nil && toks[j+1].Text == "=" && toks[j+2].Text == m[1] && j+3 == len(toks) {
					saved[m[1]] = toks[j].Text
					savedAt[m[1]] = i
				}
			}
			// assignment `V = …` at this level
			if len(toks) >= 3 && reIOVar.MatchString(toks[0].Text) && toks[1].Text == "=" {
				v := toks[0].Text
				if len(toks) == 3 && reSaveVar.MatchString(toks[2].Text) {
					continue // a restore
				}
				if _, seen := assigned[v]; !seen {
					assigned[v] = i
				}
			}
		}
		if !top && (len(saved) > 0) {
			st.blocks++
		}
		// restores anywhere below this level, after the save
		restored := map[string]bool{}
		var find func(l []*core.CStmt)
		find = func(l []*core.CStmt) {
			for _, s := range l {
				if s.Kind == "expr" && len(s.Toks) == 3 && s.Toks[1].Text == "=" {
					if m := reSaveVar.FindStringSubmatch(s.Toks[2].Text); m != nil && m[1] == s.Toks[0].Text {
						restored[s.Toks[0].Text+"<-"+s.Toks[2].Text] = true
					}
				}
				find(s.Body)
				find(s.Else)
			}
		}
		find(list)
		for v, o := range saved {
			st.vars++
			if !restored[v+"<-"+o] {
				bad = append(bad, fmt.Sprintf("line %d: %s is saved in %s but never restored from it in that block", list[savedAt[v]].Line, v, o))
			}
		}
		if !top {
			for v, i := range assigned {
				if at, ok := saved[v]; !ok {
					bad = append(bad, fmt.Sprintf("line %d: `%s` re-points %s inside a block that does not save it (no `o_K_%s = %s` in the block): the code after the block keeps the block's bound", list[i].Line, list[i].Text(), v, v, v))
				} else if savedAt[v] > i {
					bad = append(bad, fmt.Sprintf("line %d: %s is re-pointed before it is saved in %s", list[i].Line, v, at))
				}
			}
		}
		for _, s := range list {
			// the body of a plain block / if / loop is its own level
			switch s.Kind {
			case "block":
				walk(s.Body, false)
			default:
				if len(s.Body) > 0 {
					walkNested(s.Body, walk)
				}
				if len(s.Else) > 0 {
					walkNested(s.Else, walk)
				}
			}
		}
	}
	walk(fn.stmts, true)
	return bad
}

// walkNested descends into control statements without treating their bodies
// as bracket levels of their own unless they are `{ … }` blocks.
func walkNested(list []*core.CStmt, walk func([]*core.CStmt, bool)) {
	for _, s := range list {
		if s.Kind == "block" {
			walk(s.Body, false)
			continue
		}
		walkNested(s.Body, walk)
		walkNested(s.Else, walk)
	}
}

func reportIOBrackets(c *core.Ctx, fn *c08fn, st *ioBracketStats) {
	before := st.vars
	bad := checkIOBrackets(fn, st)
	if len(bad) == 0 && st.vars == before {
		return
	}
	c.Check(len(bad) == 0, "G9.bracket", "generated C "+fn.cname,
		"a block that re-points a derived I/O bound (io0/io1/io2: the io_bind, io_limit and io_forget_history lowerings) saves it in o_K_<bound> first and restores it from there before the block ends, so that can_undo_byte, history distances and short-read tests after the block are taken against the caller's buffer again",
		st.vars-before, strings.Join(bad, "\n"))
}

// runIOBrackets evaluates G9.bracket over the given packages (used by C03,
// where a bound that is not put back shows up as an "internal error" status on
// a valid input; C08 evaluates the same rule inside its own function loop).
func runIOBrackets(c *core.Ctx, pkgs []*WPkg) {
	st := ioBracketStats{}
	for _, p := range pkgs {
		src, err := os.ReadFile(p.CPath)
		if err != nil {
			c.Infra("%v", err)
		}
		cf := core.CParseFile(p.CPath, string(src))
		for _, f := range p.Funcs {
			cname := p.funcCName(f)
			cfn := cf.ByNam[cname]
			if cfn == nil {
				continue
			}
			stmts, perr := core.CParseBody(cfn.Body)
			if perr != nil {
				c.Undecided("G0.parse", "generated C "+cname, "function body parses into a statement tree", perr.Error())
				continue
			}
			reportIOBrackets(c, &c08fn{p, f, cname, cfn, stmts}, &st)
		}
	}
	c.Floor("G9", "saved derived I/O bounds (io_bind / io_limit / io_forget_history blocks)", st.vars, 20)
}
