package main

// E9: the axiom table as implemented. Each closure of lang/check's reasons[]
// is interpreted symbolically (Go assignment semantics included: a name bound
// twice keeps only the last binding) to obtain the formula actually enforced:
// claim pattern ⇐ premises. The formula is compared with the one the axiom's
// name states, and its validity over ℤ is decided by Fourier–Motzkin
// elimination on premises ∧ ¬claim (unit-coefficient linear constraints), with
// a small-integer countermodel search when it is not refuted.

import (
	"fmt"
	"go/ast"
	"go/token"
	"os"
	"path/filepath"
	"sort"
	"strconv"
	"strings"

	"wv/core"
)

// ---- terms ----

type aTerm struct {
	op   string // "" leaf, "+", "-"
	sym  string // leaf: symbol name, or "0"
	l, r *aTerm
}

func (t *aTerm) String() string {
	if t == nil {
		return "?"
	}
	if t.op == "" {
		return t.sym
	}
	return "(" + t.l.String() + " " + t.op + " " + t.r.String() + ")"
}

type aAtom struct {
	rel  string // < <= == >= > !=
	l, r *aTerm
}

func (a aAtom) String() string { return a.l.String() + " " + a.rel + " " + a.r.String() }

// linear form: coefficients per symbol + constant
type lin struct {
	c map[string]int
	k int
}

func (t *aTerm) lin() lin {
	out := lin{c: map[string]int{}}
	var add func(t *aTerm, sign int)
	add = func(t *aTerm, sign int) {
		switch t.op {
		case "":
			if t.sym == "0" {
				return
			}
			if v, err := strconv.Atoi(t.sym); err == nil {
				out.k += sign * v
				return
			}
			out.c[t.sym] += sign
		case "+":
			add(t.l, sign)
			add(t.r, sign)
		case "-":
			add(t.l, sign)
			add(t.r, -sign)
		}
	}
	add(t, 1)
	return out
}

// cons: Σ c·x + k <= 0
type cons struct {
	c map[string]int
	k int
}

func leq(a, b lin, plus int) cons { // a + plus <= b  ⇒  a - b + plus <= 0
	c := cons{c: map[string]int{}, k: a.k - b.k + plus}
	for s, v := range a.c {
		c.c[s] += v
	}
	for s, v := range b.c {
		c.c[s] -= v
	}
	for s, v := range c.c {
		if v == 0 {
			delete(c.c, s)
		}
	}
	return c
}

// atomCons returns a disjunction of conjunctions of constraints for the atom
// (or its negation).
func atomCons(a aAtom, negate bool) [][]cons {
	l, r := a.l.lin(), a.r.lin()
	rel := a.rel
	if negate {
		rel = map[string]string{"<": ">=", "<=": ">", "==": "!=", ">=": "<", ">": "<=", "!=": "=="}[rel]
	}
	switch rel {
	case "<":
		return [][]cons{{leq(l, r, 1)}}
	case "<=":
		return [][]cons{{leq(l, r, 0)}}
	case ">":
		return [][]cons{{leq(r, l, 1)}}
	case ">=":
		return [][]cons{{leq(r, l, 0)}}
	case "==":
		return [][]cons{{leq(l, r, 0), leq(r, l, 0)}}
	case "!=":
		return [][]cons{{leq(l, r, 1)}, {leq(r, l, 1)}}
	}
	return nil
}

// fmInfeasible: Fourier–Motzkin over ℚ with the integer-tightened inputs;
// true ⇒ no rational (hence no integer) solution.
func fmInfeasible(cs []cons) bool {
	vars := map[string]bool{}
	for _, c := range cs {
		for s := range c.c {
			vars[s] = true
		}
	}
	var names []string
	for s := range vars {
		names = append(names, s)
	}
	sort.Strings(names)
	cur := cs
	for _, v := range names {
		var pos, neg, rest []cons
		for _, c := range cur {
			switch {
			case c.c[v] > 0:
				pos = append(pos, c)
			case c.c[v] < 0:
				neg = append(neg, c)
			default:
				rest = append(rest, c)
			}
		}
		for _, p := range pos {
			for _, n := range neg {
				// p: a·v + P <= 0 (a>0); n: -b·v + N <= 0 (b>0) ⇒ b·P + a·N <= 0
				a, b := p.c[v], -n.c[v]
				nc := cons{c: map[string]int{}, k: b*p.k + a*n.k}
				for s, x := range p.c {
					if s != v {
						nc.c[s] += b * x
					}
				}
				for s, x := range n.c {
					if s != v {
						nc.c[s] += a * x
					}
				}
				for s, x := range nc.c {
					if x == 0 {
						delete(nc.c, s)
					}
				}
				rest = append(rest, nc)
			}
		}
		cur = rest
		if len(cur) > 20000 {
			return false
		}
	}
	for _, c := range cur {
		if len(c.c) == 0 && c.k > 0 {
			return true
		}
	}
	return false
}

func evalTerm(t *aTerm, env map[string]int) int {
	switch t.op {
	case "":
		if v, err := strconv.Atoi(t.sym); err == nil {
			return v
		}
		return env[t.sym]
	case "+":
		return evalTerm(t.l, env) + evalTerm(t.r, env)
	}
	return evalTerm(t.l, env) - evalTerm(t.r, env)
}

func evalAtom(a aAtom, env map[string]int) bool {
	l, r := evalTerm(a.l, env), evalTerm(a.r, env)
	switch a.rel {
	case "<":
		return l < r
	case "<=":
		return l <= r
	case "==":
		return l == r
	case ">=":
		return l >= r
	case ">":
		return l > r
	case "!=":
		return l != r
	}
	return false
}

func symsOf(atoms []aAtom) []string {
	seen := map[string]bool{}
	var walk func(t *aTerm)
	walk = func(t *aTerm) {
		if t == nil {
			return
		}
		if t.op == "" {
			if _, err := strconv.Atoi(t.sym); err != nil {
				seen[t.sym] = true
			}
			return
		}
		walk(t.l)
		walk(t.r)
	}
	for _, a := range atoms {
		walk(a.l)
		walk(a.r)
	}
	var out []string
	for s := range seen {
		out = append(out, s)
	}
	sort.Strings(out)
	return out
}

// decideValid: premises ⇒ claim over ℤ. Returns "valid", "invalid" (+ model) or "undecided".
func decideValid(premises []aAtom, claim aAtom) (string, string) {
	// premises ∧ ¬claim unsatisfiable?
	alts := atomCons(claim, true)
	allRefuted := true
	for _, alt := range alts {
		cs := append([]cons{}, alt...)
		ok := true
		for _, p := range premises {
			pc := atomCons(p, false)
			if len(pc) != 1 {
				ok = false // a disjunctive premise: not in the fragment
				break
			}
			cs = append(cs, pc[0]...)
		}
		if !ok {
			return "undecided", "premise outside the conjunctive fragment"
		}
		if !fmInfeasible(cs) {
			allRefuted = false
		}
	}
	if allRefuted {
		return "valid", ""
	}
	// countermodel search
	syms := symsOf(append(append([]aAtom{}, premises...), claim))
	if len(syms) > 7 {
		return "undecided", "too many symbols for the countermodel search"
	}
	env := map[string]int{}
	var rec func(i int) bool
	rec = func(i int) bool {
		if i == len(syms) {
			for _, p := range premises {
				if !evalAtom(p, env) {
					return false
				}
			}
			return !evalAtom(claim, env)
		}
		for v := -3; v <= 3; v++ {
			env[syms[i]] = v
			if rec(i + 1) {
				return true
			}
		}
		return false
	}
	if rec(0) {
		var parts []string
		for _, s := range syms {
			parts = append(parts, fmt.Sprintf("%s=%d", s, env[s]))
		}
		return "invalid", strings.Join(parts, ", ")
	}
	return "undecided", "not refuted by Fourier–Motzkin and no countermodel in [-3,3]^n"
}

// ---- parsing the axiom's name ----

type nameParser struct {
	s string
	i int
}

func (p *nameParser) ws() {
	for p.i < len(p.s) && p.s[p.i] == ' ' {
		p.i++
	}
}

func (p *nameParser) operand() *aTerm {
	p.ws()
	if p.i < len(p.s) && p.s[p.i] == '(' {
		p.i++
		l := p.operand()
		p.ws()
		if p.i >= len(p.s) || (p.s[p.i] != '+' && p.s[p.i] != '-') {
			return nil
		}
		op := string(p.s[p.i])
		p.i++
		r := p.operand()
		p.ws()
		if p.i >= len(p.s) || p.s[p.i] != ')' || l == nil || r == nil {
			return nil
		}
		p.i++
		return &aTerm{op: op, l: l, r: r}
	}
	j := p.i
	for j < len(p.s) && ((p.s[j] >= 'a' && p.s[j] <= 'z') || (p.s[j] >= '0' && p.s[j] <= '9')) {
		j++
	}
	if j == p.i {
		return nil
	}
	t := &aTerm{sym: p.s[p.i:j]}
	p.i = j
	return t
}

func parseNamedAtom(s string) (aAtom, bool) {
	p := &nameParser{s: strings.TrimSpace(s)}
	l := p.operand()
	p.ws()
	j := p.i
	for j < len(p.s) && strings.ContainsRune("<>=!", rune(p.s[j])) {
		j++
	}
	rel := p.s[p.i:j]
	p.i = j
	r := p.operand()
	p.ws()
	if l == nil || r == nil || p.i != len(p.s) {
		return aAtom{}, false
	}
	switch rel {
	case "<", "<=", "==", ">=", ">", "!=":
		return aAtom{rel, l, r}, true
	}
	return aAtom{}, false
}

// ---- extraction from data.go ----

var tokRel = map[string]string{
	"IDXBinaryLessThan": "<", "IDXBinaryLessEq": "<=", "IDXBinaryEqEq": "==", "IDXBinaryGreaterEq": ">=", "IDXBinaryGreaterThan": ">", "IDXBinaryNotEq": "!=",
	"IDXBinaryPlus": "+", "IDXBinaryMinus": "-",
}

type axiomImpl struct {
	name     string
	claim    aAtom
	premises []aAtom
	err      string
	pos      token.Pos
}

// extractAxiom interprets one closure.
func extractAxiom(k *gctx, info interface {
}, fl *ast.FuncLit, name string) axiomImpl {
	g := k.g
	p := g.Pkg(relCheck)
	ti := p.TypesInfo
	out := axiomImpl{name: name, pos: fl.Pos()}
	fail := func(n ast.Node, msg string) axiomImpl {
		out.err = fmt.Sprintf("%s: %s: `%s`", g.Pos(n.Pos()), msg, core.Src(g.Fset, n))
		return out
	}
	nsym := 0
	fresh := func(hint string) *aTerm {
		nsym++
		return &aTerm{sym: fmt.Sprintf("%s#%d", hint, nsym)}
	}
	env := map[string]*aTerm{} // Go variable name -> term (latest binding)
	// the claim's structure: root symbol expanded by parseBinaryOp destructurings
	type destruct struct {
		of        *aTerm // the (leaf) term that was destructured
		l, r      *aTerm
		op        string
		opChecked bool
	}
	var ds []*destruct
	root := fresh("cond")
	var lastParse *destruct
	eqs := [][2]*aTerm{}
	tokName := func(e ast.Expr) string {
		if sel, ok := ast.Unparen(e).(*ast.SelectorExpr); ok {
			return sel.Sel.Name
		}
		return ""
	}
	termOf := func(e ast.Expr) *aTerm {
		e = ast.Unparen(e)
		switch x := e.(type) {
		case *ast.Ident:
			if x.Name == "zeroExpr" {
				return &aTerm{sym: "0"}
			}
			return env[x.Name]
		case *ast.CallExpr:
			// X.AsNode()
			if sel, ok := x.Fun.(*ast.SelectorExpr); ok && sel.Sel.Name == "AsNode" {
				if id, ok := sel.X.(*ast.Ident); ok {
					if id.Name == "zeroExpr" {
						return &aTerm{sym: "0"}
					}
					return env[id.Name]
				}
			}
			// n.Condition()
			if sel, ok := x.Fun.(*ast.SelectorExpr); ok && sel.Sel.Name == "Condition" {
				return root
			}
		}
		return nil
	}
	isCallNamed := func(e ast.Expr, fn string) *ast.CallExpr {
		call, ok := ast.Unparen(e).(*ast.CallExpr)
		if !ok {
			return nil
		}
		c := core.Callee(ti, call)
		if c == nil || c.Name() != fn {
			return nil
		}
		return call
	}
	returnsErr := func(body *ast.BlockStmt, what string) bool {
		if len(body.List) != 1 {
			return false
		}
		r, ok := body.List[0].(*ast.ReturnStmt)
		if !ok || len(r.Results) != 1 {
			return false
		}
		id, ok := r.Results[0].(*ast.Ident)
		return ok && id.Name == what
	}
	for _, st := range fl.Body.List {
		switch s := st.(type) {
		case *ast.AssignStmt:
			if len(s.Rhs) != 1 {
				return fail(s, "unrecognised assignment")
			}
			if call := isCallNamed(s.Rhs[0], "parseBinaryOp"); call != nil && len(s.Lhs) == 3 && len(call.Args) == 1 {
				of := termOf(call.Args[0])
				if of == nil || of.op != "" {
					return fail(s, "parseBinaryOp of an unknown term")
				}
				d := &destruct{of: of}
				names := [2]string{}
				for i := 1; i <= 2; i++ {
					id, ok := s.Lhs[i].(*ast.Ident)
					if !ok {
						return fail(s, "unrecognised destructuring target")
					}
					names[i-1] = id.Name
				}
				d.l, d.r = fresh(names[0]), fresh(names[1])
				if names[0] != "_" {
					env[names[0]] = d.l // Go semantics: (re)binding replaces the earlier value
				}
				if names[1] != "_" {
					env[names[1]] = d.r
				}
				if names[0] == "zeroExpr" || names[1] == "zeroExpr" {
					return fail(s, "destructuring assigns to the package-level zeroExpr")
				}
				ds = append(ds, d)
				lastParse = d
				continue
			}
			if call := isCallNamed(s.Rhs[0], "argValue"); call != nil && len(s.Lhs) == 1 && len(call.Args) == 3 {
				id, ok := s.Lhs[0].(*ast.Ident)
				cv := core.ConstVal(ti, call.Args[2])
				if !ok || cv == nil {
					return fail(s, "unrecognised argValue")
				}
				nm, _ := strconv.Unquote(cv.ExactString())
				env[id.Name] = fresh("arg:" + nm)
				continue
			}
			if call := isCallNamed(s.Rhs[0], "NewExpr"); call != nil && len(s.Lhs) == 1 && len(call.Args) == 7 {
				id, ok := s.Lhs[0].(*ast.Ident)
				op := tokRel[tokName(call.Args[1])]
				l, r := termOf(call.Args[3]), termOf(call.Args[5])
				if !ok || (op != "+" && op != "-") || l == nil || r == nil {
					return fail(s, "unrecognised NewExpr")
				}
				env[id.Name] = &aTerm{op: op, l: l, r: r}
				continue
			}
			// `_ = x`
			if len(s.Lhs) == 1 {
				if id, ok := s.Lhs[0].(*ast.Ident); ok && id.Name == "_" {
					continue
				}
			}
			return fail(s, "unrecognised statement")
		case *ast.IfStmt:
			// if op != t.IDX… { return errFailed }
			if s.Init == nil {
				if be, ok := ast.Unparen(s.Cond).(*ast.BinaryExpr); ok && be.Op == token.NEQ {
					if id, ok := be.X.(*ast.Ident); ok && id.Name == "op" && returnsErr(s.Body, "errFailed") && lastParse != nil {
						op := tokRel[tokName(be.Y)]
						if op == "" {
							return fail(s, "unknown operator constant")
						}
						lastParse.op, lastParse.opChecked = op, true
						continue
					}
				}
				// if x == nil { return errFailed }
				if be, ok := ast.Unparen(s.Cond).(*ast.BinaryExpr); ok && be.Op == token.EQL && core.IsNilIdent(ti, be.Y) && returnsErr(s.Body, "errFailed") {
					continue
				}
				// if !X.Eq(Y) { return errFailed }
				if u, ok := ast.Unparen(s.Cond).(*ast.UnaryExpr); ok && u.Op == token.NOT && returnsErr(s.Body, "errFailed") {
					if call := isCallNamed(u.X, "Eq"); call != nil && len(call.Args) == 1 {
						x, y := termOf(core.RecvOf(call)), termOf(call.Args[0])
						if x != nil && y != nil {
							eqs = append(eqs, [2]*aTerm{x, y})
							continue
						}
					}
				}
				return fail(s, "unrecognised guard")
			}
			// if err := proveReasonRequirement(q, OP, L, R); err != nil { return err }
			as, ok := s.Init.(*ast.AssignStmt)
			if !ok || len(as.Rhs) != 1 {
				return fail(s, "unrecognised guard")
			}
			call := isCallNamed(as.Rhs[0], "proveReasonRequirement")
			if call == nil || len(call.Args) != 4 {
				return fail(s, "unrecognised guard")
			}
			be, ok := ast.Unparen(s.Cond).(*ast.BinaryExpr)
			if !ok || be.Op != token.NEQ || !core.IsNilIdent(ti, be.Y) || !returnsErr(s.Body, "err") {
				return fail(s, "the requirement's error is not returned")
			}
			rel := tokRel[tokName(call.Args[1])]
			l, r := termOf(call.Args[2]), termOf(call.Args[3])
			if rel == "" || rel == "+" || rel == "-" || l == nil || r == nil {
				return fail(s, "unrecognised requirement")
			}
			out.premises = append(out.premises, aAtom{rel, l, r})
		case *ast.ReturnStmt:
			if len(s.Results) != 1 || !core.IsNilIdent(ti, s.Results[0]) {
				return fail(s, "unrecognised return")
			}
		default:
			return fail(st, "unrecognised statement")
		}
	}
	// expand the claim
	byLeaf := map[*aTerm]*destruct{}
	for _, d := range ds {
		if !d.opChecked {
			out.err = "a parseBinaryOp destructuring is not followed by a check of its operator"
			return out
		}
		byLeaf[d.of] = d
	}
	// unify symbols equated by Eq guards (same expression ⇒ same value)
	repl := map[string]string{}
	find := func(s string) string {
		for repl[s] != "" {
			s = repl[s]
		}
		return s
	}
	for _, e := range eqs {
		if e[0].op != "" || e[1].op != "" {
			out.err = "Eq guard between non-leaf terms"
			return out
		}
		a, b := find(e[0].sym), find(e[1].sym)
		if a != b {
			repl[a] = b
		}
	}
	var expand func(t *aTerm) *aTerm
	expand = func(t *aTerm) *aTerm {
		if t.op != "" {
			return &aTerm{op: t.op, l: expand(t.l), r: expand(t.r)}
		}
		if d, ok := byLeaf[t]; ok {
			return &aTerm{op: d.op, l: expand(d.l), r: expand(d.r)}
		}
		if t.sym == "0" {
			return t
		}
		return &aTerm{sym: find(t.sym)}
	}
	rd := byLeaf[root]
	if rd == nil {
		out.err = "the claim (n.Condition()) is never destructured"
		return out
	}
	if rd.op == "+" || rd.op == "-" {
		out.err = "the claim's top-level operator is arithmetic"
		return out
	}
	out.claim = aAtom{rd.op, expand(rd.l), expand(rd.r)}
	for i, pr := range out.premises {
		out.premises[i] = aAtom{pr.rel, expand(pr.l), expand(pr.r)}
	}
	// arithmetic sub-terms of the claim must have been operator-checked as + or -
	var chk func(t *aTerm) bool
	chk = func(t *aTerm) bool {
		if t.op == "" {
			return true
		}
		return (t.op == "+" || t.op == "-") && chk(t.l) && chk(t.r)
	}
	if !chk(out.claim.l) || !chk(out.claim.r) {
		out.err = "a comparison operator occurs below the claim's top level"
	}
	return out
}

// matchNamed: is there a bijection between the name's variables and the
// implementation's symbols under which the two formulas coincide?
func matchNamed(nameClaim aAtom, namePrem []aAtom, impl axiomImpl) (bool, string) {
	fwd, bwd := map[string]string{}, map[string]string{}
	var unify func(n, i *aTerm) bool
	unify = func(n, i *aTerm) bool {
		if n.op != i.op {
			return false
		}
		if n.op != "" {
			return unify(n.l, i.l) && unify(n.r, i.r)
		}
		if _, err := strconv.Atoi(n.sym); err == nil {
			return i.sym == n.sym
		}
		if _, err := strconv.Atoi(i.sym); err == nil {
			return false
		}
		if x, ok := fwd[n.sym]; ok && x != i.sym {
			return false
		}
		if x, ok := bwd[i.sym]; ok && x != n.sym {
			return false
		}
		fwd[n.sym], bwd[i.sym] = i.sym, n.sym
		return true
	}
	if nameClaim.rel != impl.claim.rel || !unify(nameClaim.l, impl.claim.l) || !unify(nameClaim.r, impl.claim.r) {
		return false, fmt.Sprintf("claim enforced is `%s`, the name states `%s` (a repeated variable must denote one expression)", impl.claim, nameClaim)
	}
	if len(namePrem) != len(impl.premises) {
		return false, fmt.Sprintf("%d premises enforced, the name states %d", len(impl.premises), len(namePrem))
	}
	for k := range namePrem {
		if namePrem[k].rel != impl.premises[k].rel || !unify(namePrem[k].l, impl.premises[k].l) || !unify(namePrem[k].r, impl.premises[k].r) {
			return false, fmt.Sprintf("premise %d enforced is `%s`, the name states `%s`", k+1, impl.premises[k], namePrem[k])
		}
	}
	return true, ""
}

func runC02Axioms(k *gctx) {
	c := k.c
	p := k.g.Pkg(relCheck)
	var lit *ast.CompositeLit
	for _, f := range p.Syntax {
		ast.Inspect(f, func(m ast.Node) bool {
			vs, ok := m.(*ast.ValueSpec)
			if ok && len(vs.Names) == 1 && vs.Names[0].Name == "reasons" && len(vs.Values) == 1 {
				lit, _ = vs.Values[0].(*ast.CompositeLit)
			}
			return true
		})
	}
	if lit == nil {
		c.Undecided("A1", relCheck+".reasons", "the axiom table exists", "not found")
		return
	}
	var implNames []string
	for _, e := range lit.Elts {
		cl, ok := e.(*ast.CompositeLit)
		if !ok || len(cl.Elts) != 2 {
			c.Undecided("A1", relCheck+".reasons", "entries are {name, closure}", core.Src(k.g.Fset, e))
			continue
		}
		cv := core.ConstVal(p.TypesInfo, cl.Elts[0])
		fl, ok2 := cl.Elts[1].(*ast.FuncLit)
		if cv == nil || !ok2 {
			c.Undecided("A1", relCheck+".reasons", "entries are {name, closure}", core.Src(k.g.Fset, e))
			continue
		}
		raw, _ := strconv.Unquote(cv.ExactString()) // value is "\"a < b: …\"" including quotes
		name := strings.Trim(raw, "\"")
		implNames = append(implNames, name)
		anchor := relCheck + ".reasons[\"" + name + "\"]"
		impl := extractAxiom(k, nil, fl, name)
		if impl.err != "" {
			c.Undecided("A1.shape", anchor, "the axiom's implementation is in the recognised generated form", impl.err)
			continue
		}
		// the name's formula
		i := strings.IndexByte(name, ':')
		if i < 0 {
			c.Undecided("A1.named", anchor, "the axiom name has the form `claim: premise; …`", name)
			continue
		}
		nc, ok := parseNamedAtom(name[:i])
		var np []aAtom
		for _, s := range strings.Split(name[i+1:], ";") {
			a, ok2 := parseNamedAtom(s)
			ok = ok && ok2
			np = append(np, a)
		}
		if !ok {
			c.Undecided("A1.named", anchor, "the axiom name parses", name)
			continue
		}
		same, why := matchNamed(nc, np, impl)
		var ps []string
		for _, pr := range impl.premises {
			ps = append(ps, pr.String())
		}
		enforced := impl.claim.String() + "  ⇐  " + strings.Join(ps, " ∧ ")
		c.Check(same, "A1.named", anchor, "the rule enforced by the generated code is the rule the axiom's name states", 1+len(impl.premises),
			fmt.Sprintf("%s: %s; enforced: %s", k.g.Pos(impl.pos), why, enforced))
		verdict, model := decideValid(impl.premises, impl.claim)
		switch verdict {
		case "valid":
			c.Pass("A2.valid", anchor, "the enforced rule is a theorem of the integers (premises ∧ ¬claim refuted by Fourier–Motzkin)", 1+len(impl.premises), enforced)
		case "invalid":
			c.Fail("A2.valid", anchor, "the enforced rule is a theorem of the integers", 1+len(impl.premises),
				fmt.Sprintf("%s: NOT valid: %s; countermodel %s", k.g.Pos(impl.pos), enforced, model))
		default:
			c.Undecided("A2.valid", anchor, "the enforced rule is a theorem of the integers", enforced+": "+model)
		}
		// the named rule itself
		if v2, m2 := decideValid(np, nc); v2 != "valid" {
			c.Fail("A2.named", anchor, "the rule as named (and listed in axioms.md) is a theorem of the integers", 1, fmt.Sprintf("%s %s", v2, m2))
		}
	}
	c.Floor("A1", "axioms in lang/check.reasons", len(implNames), 20)
	// axioms.md ⇄ reasons[].s, in order
	md, err := os.ReadFile(filepath.Join(c.Repo, "lang", "check", "axioms.md"))
	if err != nil {
		c.Undecided("A3.listing", "lang/check/axioms.md", "axiom listing readable", err.Error())
		return
	}
	var listed []string
	s := string(md)
	if i := strings.Index(s, "\n\n---\n\n"); i >= 0 {
		s = s[i:]
	}
	for {
		i := strings.Index(s, "`\"")
		if i < 0 {
			break
		}
		s = s[i+2:]
		j := strings.Index(s, "\"`")
		if j < 0 {
			break
		}
		listed = append(listed, s[:j])
		s = s[j+2:]
	}
	same := len(listed) == len(implNames)
	for i := 0; same && i < len(listed); i++ {
		same = listed[i] == implNames[i]
	}
	c.Check(same, "A3.listing", "lang/check/axioms.md", "the documented axiom listing and the implemented table are the same sequence", len(listed),
		fmt.Sprintf("axioms.md lists %d, reasons[] has %d", len(listed), len(implNames)))
	// the table is what the checker consults: reasonMap is built from reasons
	if fl := k.flow("A3.wired", relCheck, "", "Check"); fl != nil {
		reasonsObj := k.g.LookupObj(relCheck, "reasons")
		found := false
		ast.Inspect(fl.F.Decl.Body, func(m ast.Node) bool {
			if rs, ok := m.(*ast.RangeStmt); ok && fl.Is(reasonsObj)(rs.X) {
				found = true
			}
			return true
		})
		c.Check(found, "A3.wired", fl.F.Name(), "check.Check builds its reason map from the reasons table", 1, "")
	}
}
