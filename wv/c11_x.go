package main

// C11, rule family X applied to the formatter and to cgen's name helpers: index
// and re-slice expressions are reached only in states that imply they are in
// range (engine: idxguard.go, built for C15/C16). "None of them panics" for the
// formatter (lang/render) — seeded change C11-5 rewrote appendNum with slices of
// a digit buffer that is empty for the literal `0x` — and for internal/cgen.

import (
	"wv/core"
)

func c11X(c *core.Ctx, k *gctx) {
	xIndexRule(c, k.g, xScope{rel: "lang/render", floorIndex: 23, floorSlice: 10})
	xIndexRule(c, k.g, xScope{rel: "internal/cgen", floorIndex: 36, floorSlice: 4})
}
