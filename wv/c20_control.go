package main

// C20 positive/negative controls: small Go sources that are type-checked,
// built into SSA and pushed through the very same classifier and scanner on
// every run.  Each function states the verdict it must receive; a classifier
// that accepted (or rejected) everything would fail here.  The sources are
// only analysed, never executed.

import (
	"fmt"
	"go/ast"
	"go/parser"
	"go/types"
	"os"
	"path/filepath"
	"sort"
	"strings"

	"golang.org/x/tools/go/callgraph/cha"
	"golang.org/x/tools/go/callgraph/vta"
	"golang.org/x/tools/go/packages"
	"golang.org/x/tools/go/ssa"
	"golang.org/x/tools/go/ssa/ssautil"

	"wv/core"
)

const c20ControlPath = "wvcontrol"

// Function names: bad* must be reported, ok* must be classified as the idiom
// after the underscore.
const c20MapControlSrc = `package wvcontrol

import (
	"errors"
	"fmt"
	"io"
	"sort"
)

type buffer []byte

func (b *buffer) printf(format string, args ...interface{}) { fmt.Fprintf(b, format, args...) }
func (b *buffer) Write(p []byte) (int, error)               { *b = append(*b, p...); return len(p), nil }
func (b *buffer) writes(s string)                           { *b = append(*b, s...) }

type key [2]uint32

func (k key) LessThan(o key) bool { return k[0] < o[0] || (k[0] == o[0] && k[1] < o[1]) }

type node struct {
	name string
	kids []*node
	seen bool
}

func (n *node) walk(f func(*node) error) error {
	if err := f(n); err != nil {
		return err
	}
	for _, k := range n.kids {
		if err := k.walk(f); err != nil {
			return err
		}
	}
	return nil
}

func check(n *node) error {
	return n.walk(func(o *node) error {
		if o.name == "" {
			return fmt.Errorf("unnamed node under %q", n.name)
		}
		return nil
	})
}

func mark(n *node) error {
	return n.walk(func(o *node) error { o.seen = true; return nil })
}

// ---- must be reported ----

func badEmitPrintf(b *buffer, statuses map[key]string) {
	for _, z := range statuses {
		b.printf("extern const char %s[];\n", z)
	}
}

func badEmitFprintf(w io.Writer, statuses map[key]string) {
	for k, z := range statuses {
		fmt.Fprintf(w, "%v %s\n", k, z)
	}
}

func badEmitAppend(b *buffer, m map[string]int) {
	for k := range m {
		b.writes(k)
	}
}

func badCollectUnsorted(m map[string]int) []string {
	var keys []string
	for k := range m {
		keys = append(keys, k)
	}
	return keys
}

func badCollectUsedBeforeSort(m map[string]int) (string, []string) {
	var keys []string
	for k := range m {
		keys = append(keys, k)
	}
	first := keys[0]
	sort.Strings(keys)
	return first, keys
}

func badLastWriter(m map[string]int) string {
	last := ""
	for k := range m {
		last = k
	}
	return last
}

func badConcat(m map[string]int) string {
	s := ""
	for k := range m {
		s += k
	}
	return s
}

func badReturnElement(m map[string]*node) *node {
	for _, n := range m {
		if n.seen {
			return n
		}
	}
	return nil
}

func badCountUntilBreak(m map[string]int) int {
	n := 0
	for _, v := range m {
		if v < 0 {
			break
		}
		n++
	}
	return n
}

func badSortByProjection(m map[uint32][]key) {
	for _, ks := range m {
		sort.Slice(ks, func(i, j int) bool { return ks[i][1] < ks[j][1] })
	}
}

func badCollidingIndex(m map[key]string) map[uint32]string {
	out := map[uint32]string{}
	for k, v := range m {
		out[k[0]] = v
	}
	return out
}

func badMutatingWalk(m map[string]*node, order *[]string) {
	for _, n := range m {
		n.walk(func(o *node) error { *order = append(*order, o.name); return nil })
	}
}

func badCallWithEffect(m map[string]*node) error {
	for _, n := range m {
		if err := mark(n); err != nil {
			return err
		}
	}
	return nil
}

func badCondReadsCounter(m map[string]int) map[string]int {
	out := map[string]int{}
	n := 0
	for k, v := range m {
		if n < 3 {
			out[k] = v
		}
		n++
	}
	return out
}

func badMaxCompanionByValue(m map[string]int) (string, int) {
	bestK, best := "", 0
	for k, v := range m {
		if best < v {
			best, bestK = v, k
		}
	}
	return bestK, best
}

func badRunningMaxima(m map[string]int) []string {
	best, trail := "", []string(nil)
	for k := range m {
		if best < k {
			best = k
			trail = append(trail, k)
		}
	}
	sort.Strings(trail)
	return trail
}

func badKeyedReadsTarget(m map[string]int) map[string]int {
	out := map[string]int{}
	for k := range m {
		out[k] = len(out)
	}
	return out
}

func badNumberedCollect(m map[string]int) []string {
	var keys []string
	for k := range m {
		keys = append(keys, fmt.Sprint(len(keys), k))
	}
	sort.Strings(keys)
	return keys
}

func badMapOfSlicesUnsorted(m map[key]string) map[uint32][]string {
	out := map[uint32][]string{}
	for k, v := range m {
		out[k[0]] = append(out[k[0]], v)
	}
	return out
}

// ---- must be accepted ----

func ok_keyed(m map[string]int) map[string]int {
	out := map[string]int{}
	for k, v := range m {
		out[k] = v + 1
		delete(m, k)
	}
	return out
}

func ok_aggregate(m map[string]int) (int, bool, int) {
	n, any, sum := 0, false, 0
	for _, v := range m {
		n++
		sum += v
		if v < 0 {
			any = true
		}
	}
	return n, any, sum
}

func ok_argmax(m map[key]*node) (key, string) {
	best, name := key{}, ""
	for k, n := range m {
		if best.LessThan(k) {
			best, name = k, n.name
		}
	}
	return best, name
}

func ok_maxvalue(m map[string]int) int {
	best := 0
	for _, v := range m {
		if v > best {
			best = v
		}
	}
	return best
}

func ok_collectsorted(m map[string]int) []string {
	keys := []string(nil)
	for k := range m {
		keys = append(keys, k)
	}
	sort.Strings(keys)
	return keys
}

func ok_mapofslices(m map[key]string) map[uint32][]key {
	out := map[uint32][]key{}
	for k := range m {
		out[k[0]] = append(out[k[0]], k)
	}
	for _, ks := range out {
		sort.Slice(ks, func(i, j int) bool { return ks[i].LessThan(ks[j]) })
	}
	return out
}

func ok_erroronly(m map[string]*node) error {
	for _, n := range m {
		if n == nil {
			continue
		}
		if err := check(n); err != nil {
			return err
		}
	}
	return nil
}

func ok_search(m map[string]*node, want string) bool {
	found := false
outer:
	switch {
	default:
		for _, n := range m {
			if n.name == want {
				found = true
				break outer
			}
		}
		return false
	}
	return found
}

func ok_elemreset(m map[string]*node) {
	for _, n := range m {
		n.seen = false
	}
}

func badElemKeyed(m map[string]*node) {
	for k, n := range m {
		n.name = k
	}
}

func ok_purewalk(m map[string]*node) int {
	total := 0
	for _, x := range m {
		x.walk(func(o *node) error { return nil })
		total++
	}
	return total
}

func ok_searchreturn(m map[string]*node, want string) (bool, error) {
	for _, n := range m {
		if n.name == want {
			return true, nil
		}
	}
	return false, errors.New("not found")
}
`

const c20NondetControlSrc = `package wvcontrol

import (
	"fmt"
	"math/rand"
	"os"
	"time"
)

type out []byte

func (b *out) printf(format string, args ...interface{}) { *b = append(*b, fmt.Sprintf(format, args...)...) }

type stage interface{ run(b *out) }
type header struct{}
type body struct{}

func (header) run(b *out) { b.printf("// generated at %v\n", time.Now()) }
func (body) run(b *out) {
	if os.Getenv("WUFFS_SEED") != "" {
		b.printf("%d", rand.Int())
	}
}

func Do(b *out) {
	for _, s := range []stage{header{}, body{}} {
		s.run(b)
	}
	done := make(chan bool)
	go func() { done <- true }()
	select {
	case <-done:
	default:
	}
}

func unreached() int { return os.Getpid() }
`

type c20Control struct {
	pkg   *packages.Package
	files []*ast.File
	spkg  *ssa.Package
	prog  *ssa.Program
}

type mapImporter map[string]*packages.Package

func (m mapImporter) Import(path string) (*types.Package, error) {
	if p, ok := m[path]; ok && p.Types != nil {
		return p.Types, nil
	}
	return nil, fmt.Errorf("control imports %q, which is not loaded", path)
}

func (st *c20) buildControl(name, src string) (*c20Control, error) {
	return st.buildStandalone(filepath.Join(st.k.g.Repo, "wv-control", name), src)
}

// buildStandalone type-checks one source file as a package of its own
// (imports resolved among the loaded packages) and builds its SSA form.
// src may be nil to read the file from disk.
func (st *c20) buildStandalone(fname string, src interface{}) (*c20Control, error) {
	g := st.k.g
	f, err := parser.ParseFile(g.Fset, fname, src, parser.ParseComments)
	if err != nil {
		return nil, err
	}
	tpkg := types.NewPackage(c20ControlPath, f.Name.Name)
	spkg, info, err := ssautil.BuildPackage(&types.Config{Importer: mapImporter(g.ByPth)}, g.Fset, tpkg, []*ast.File{f}, ssa.InstantiateGenerics)
	if err != nil {
		return nil, err
	}
	pp := &packages.Package{PkgPath: c20ControlPath, Name: "wvcontrol", Fset: g.Fset, Syntax: []*ast.File{f}, Types: tpkg, TypesInfo: info}
	return &c20Control{pkg: pp, files: []*ast.File{f}, spkg: spkg, prog: spkg.Prog}, nil
}

func (st *c20) mapOrderControl() {
	c, k := st.c, st.k
	anchor := "wv-control/c20_maporder.go"
	claim := "the classifier reports every order-dependent control loop (emit via printf/Fprintf/append, unsorted or prematurely used collection, last writer, string concatenation, returned element, count-until-break, sort by projection, colliding index, effectful callee, condition on a counter, arg-max with ties) and accepts one control loop per idiom (i)–(vi)"
	ctl, err := st.buildControl("c20_maporder.go", c20MapControlSrc)
	if err != nil {
		c.Undecided("M1.control", anchor, claim, "control source does not type-check: "+err.Error())
		return
	}
	all := ssautil.AllFunctions(ctl.prog)
	cg := vta.CallGraph(all, cha.CallGraph(ctl.prog))
	fx := newFx(ctl.prog, cg, func(p string) bool { return p == c20ControlPath }, k.g.Pos)
	fx.indexSites(all)
	env := &moEnv{prog: k.g, pkg: ctl.pkg, fx: fx, flows: map[ast.Node]*core.Flow{}, result: map[*moLoop]*moResult{}}
	env.collectLoops(ctl.files, func(d *ast.FuncDecl) string { return d.Name.Name })
	want := map[string]string{"ok_keyed": "keyed-write", "ok_aggregate": "aggregate", "ok_argmax": "aggregate", "ok_maxvalue": "aggregate",
		"ok_collectsorted": "collect-sorted", "ok_mapofslices": "collect-sorted", "ok_erroronly": "error-exit", "ok_search": "search", "ok_searchreturn": "search", "ok_elemreset": "elem-update", "ok_purewalk": "aggregate"}
	var wrong []string
	nBad, nOK := 0, 0
	perFn := map[string][]*moResult{}
	var names []string
	for _, lp := range env.loops {
		if !lp.isMap {
			continue
		}
		if _, ok := perFn[lp.enclName]; !ok {
			names = append(names, lp.enclName)
		}
		perFn[lp.enclName] = append(perFn[lp.enclName], env.classify(lp))
	}
	sort.Strings(names)
	for _, fn := range names {
		rs := perFn[fn]
		nprob := 0
		classes := map[string]bool{}
		var first string
		for _, r := range rs {
			nprob += len(r.problems)
			if len(r.problems) > 0 && first == "" {
				first = r.problems[0]
			}
			for cl := range r.classes {
				classes[cl] = true
			}
		}
		if os.Getenv("WV_DEBUG") != "" {
			fmt.Fprintf(os.Stderr, "control %-28s problems=%d classes=%v %s\n", fn, nprob, classes, first)
		}
		switch {
		case strings.HasPrefix(fn, "bad"):
			nBad++
			if nprob == 0 {
				wrong = append(wrong, fmt.Sprintf("%s: an order-dependent loop was accepted", fn))
			}
		case strings.HasPrefix(fn, "ok_"):
			nOK++
			if nprob != 0 {
				wrong = append(wrong, fmt.Sprintf("%s: an order-insensitive loop was reported: %s", fn, first))
			} else if !classes[want[fn]] {
				wrong = append(wrong, fmt.Sprintf("%s: expected idiom %s, classifier said %v", fn, want[fn], classes))
			}
		}
	}
	if nBad < 20 || nOK < 11 {
		wrong = append(wrong, fmt.Sprintf("only %d bad and %d ok control functions with a map range were found (want 20 and 11)", nBad, nOK))
	}
	c.Check(len(wrong) == 0, "M1.control", anchor, claim, nBad+nOK, strings.Join(wrong, "\n"))
}

func (st *c20) nondetControl() {
	c := st.c
	anchor := "wv-control/c20_nondet.go"
	claim := "the who-may-call scan reports time.Now (reached through an interface method), os.Getenv, math/rand.Int, the go statement and the select in the control program, and does not report os.Getpid in a function that Do cannot reach"
	ctl, err := st.buildControl("c20_nondet.go", c20NondetControlSrc)
	if err != nil {
		c.Undecided("N1.control", anchor, claim, "control source does not type-check: "+err.Error())
		return
	}
	all := ssautil.AllFunctions(ctl.prog)
	cg := vta.CallGraph(all, cha.CallGraph(ctl.prog))
	inCtl := func(p string) bool { return p == c20ControlPath }
	root := ctl.spkg.Func("Do")
	reach := reachFrom(cg, []*ssa.Function{root}, func(f *ssa.Function) bool { return inCtl(fnPkgPath(f)) })
	finds, n := scanNondet(cg, reach, inCtl)
	got := map[string]bool{}
	for _, f := range finds {
		got[f.what] = true
	}
	var wrong []string
	for _, w := range []string{"time.Now", "os.Getenv", "math/rand.Int", "go statement", "select statement"} {
		if !got[w] {
			wrong = append(wrong, "not reported: "+w)
		}
	}
	if got["os.Getpid"] {
		wrong = append(wrong, "os.Getpid reported although unreachable from Do")
	}
	c.Check(len(wrong) == 0, "N1.control", anchor, claim, n, strings.Join(wrong, "; "))
}

// generator: lang/check/gen.go (//go:build ignore, so the build and the
// loader do not see it) produces data.go from axioms.md. It is a single-file
// program over the standard library; it is parsed and type-checked on its own
// and its map ranges and nondeterminism sources are decided by the same rules.
func (st *c20) generator() {
	c, k := st.c, st.k
	rel := "lang/check/gen.go"
	anchor := "lang/check/gen.go (go:build ignore)"
	ctl, err := st.buildStandalone(filepath.Join(k.g.Repo, rel), nil)
	if err != nil {
		c.Undecided("M1.generator", anchor, "the axiom-table generator is parsed and type-checked on its own", err.Error())
		return
	}
	all := ssautil.AllFunctions(ctl.prog)
	cg := vta.CallGraph(all, cha.CallGraph(ctl.prog))
	inGen := func(p string) bool { return p == c20ControlPath }
	fx := newFx(ctl.prog, cg, inGen, k.g.Pos)
	fx.indexSites(all)
	env := &moEnv{prog: k.g, pkg: ctl.pkg, fx: fx, flows: map[ast.Node]*core.Flow{}, result: map[*moLoop]*moResult{}}
	env.collectLoops(ctl.files, func(d *ast.FuncDecl) string { return "lang/check/gen.go:" + d.Name.Name })
	n := 0
	for _, lp := range env.loops {
		if !lp.isMap {
			continue
		}
		n++
		r := env.classify(lp)
		a := lp.enclName + "[range " + core.Src(k.g.Fset, lp.rs.X) + "]"
		claim := "the generator of lang/check/data.go does not depend on map iteration order (same idioms as M1.maprange)"
		if len(r.problems) == 0 {
			c.Pass("M1.generator", a, claim, r.stmts, k.g.Pos(lp.rs.Pos())+": classified "+r.classList())
		} else {
			c.Fail("M1.generator", a, claim, r.stmts, k.g.Pos(lp.rs.Pos())+":\n"+strings.Join(r.problems, "\n"))
		}
	}
	c.Floor("M1.generator", "map ranges in lang/check/gen.go (names → sort.Strings)", n, 1)
	root := ctl.spkg.Func("main")
	if root == nil {
		c.Undecided("N1.generator", anchor, "the generator has a main function", "not found")
		return
	}
	reach := reachFrom(cg, []*ssa.Function{root, ctl.spkg.Func("init")}, func(f *ssa.Function) bool { return inGen(fnPkgPath(f)) })
	finds, ni := scanNondet(cg, reach, inGen)
	var bad []string
	for _, f := range finds {
		bad = append(bad, fmt.Sprintf("%s: %s uses %s (%s)", k.g.Pos(f.pos), f.fn.Name(), f.what, f.why))
	}
	c.Check(len(bad) == 0, "N1.generator", anchor, "the generator of lang/check/data.go uses no clock, random source, environment reader, goroutine or select", ni, strings.Join(bad, "\n"))
}
