package main

// C05: the per-function scratch word (rules S1–S3).
//
// An I/O built-in that can suspend part-way (`read_u16le?` … `read_u64be?` with
// fewer than N bytes available, `skip?`/`skip_u32?`, `write_u8?`) keeps its
// partial state — bytes accumulated so far plus a bit count, bytes still to
// skip, the byte still to write — in `self->private_data.s_<func>.scratch`,
// because the call is resumed INSIDE the built-in: execution re-enters at the
// suspension-point label that cgen placed after the scratch word was
// initialised. Two orderings make that work:
//
//   S1.resume  generated C, per suspension-point label k: if some path from k
//              to a `goto suspend` (that resumes at k: no other label on the
//              way) stores into the scratch word, then no path from k
//              overwrites the scratch word with a value that does not depend on
//              it before reading it. Otherwise the partial progress recorded
//              before the suspension is lost on resumption: the resumed
//              multi-byte read forgets the bytes it consumed, returns a wrong
//              value and consumes extra input (exactly the split-dependent
//              behaviour C05 forbids).
//   S2.init    generated C, per label k after which the scratch word is read
//              before being overwritten: on every fall-through path into k the
//              last statement that touches the scratch word is a plain
//              overwrite (its initialisation). Otherwise the built-in starts
//              from the residue of an earlier built-in of the same function.
//   S3.order   cgen (E1 on go/cfg of writeReadUxxAsUyy and
//              writeBuiltinQuestionCall): once a lowering has declared
//              `usesScratch = true`, every path to its writeCoroSuspPoint call
//              first emits the scratch store `<scratch> = …`.
//
// Not decided: that the value stored is the right one (bit arithmetic of the
// accumulation loop), and whether a value lost under S1 was still needed (in
// the shapes cgen emits, the scratch word is written after a label only to
// record partial progress).

import (
	"fmt"
	"go/ast"
	"go/types"
	"strconv"
	"strings"

	"wv/core"
)

type scratchClass int

const (
	scNone  scratchClass = iota
	scAlias              // uint64_t* scratch = &<field>;  (neither read nor write)
	scKill               // <field> = <expr not mentioning it>;
	scRead               // reads it (condition, right-hand side, argument)
	scRW                 // reads and writes it (compound assignment, *scratch |= …, <field> = f(<field>))
	scOdd                // a shape this rule does not classify
)

// classifyScratch classifies one CFG node with respect to the scratch word of
// function fname.
func classifyScratch(n *cfNode, fname string) (scratchClass, string) {
	toks := n.toks
	if len(toks) == 0 {
		return scNone, ""
	}
	field := []string{"self", "->", "private_data", ".", "s_" + fname, ".", "scratch"}
	fieldTxt := strings.Join(field, " ")
	mentions := func(ts []core.CTok) (int, bool) {
		k := 0
		foreign := false
		for i, t := range ts {
			if t.Kind != 'i' || t.Text != "scratch" {
				continue
			}
			if i > 0 && (ts[i-1].Is(".") || ts[i-1].Is("->")) {
				// a member access: must be this function's field
				if i >= 6 && core.CText(ts[i-6:i+1]) == fieldTxt {
					k++
				} else {
					foreign = true
				}
				continue
			}
			k++ // the local alias `scratch`
		}
		return k, foreign
	}
	k, foreign := mentions(toks)
	if foreign {
		return scOdd, "mentions a scratch member that is not " + fieldTxt
	}
	if k == 0 {
		return scNone, ""
	}
	if n.kind != "expr" {
		return scRead, ""
	}
	txt := core.CText(toks)
	if txt == "uint64_t * scratch = & "+fieldTxt {
		return scAlias, ""
	}
	if core.CHasSeq(toks, "&", "self", "->", "private_data", ".", "s_"+fname, ".", "scratch") || core.CHasSeq(toks, "&", "scratch") {
		return scOdd, "takes the address of the scratch word outside the recognised alias declaration"
	}
	depth, eq := 0, -1
	for i, t := range toks {
		if t.Is("(") || t.Is("[") || t.Is("{") {
			depth++
		} else if t.Is(")") || t.Is("]") || t.Is("}") {
			depth--
		} else if depth == 0 && isAssignOp(t) {
			eq = i
			break
		}
	}
	if eq < 0 {
		return scRead, ""
	}
	lhs := core.CText(toks[:eq])
	if lhs != fieldTxt && lhs != "* scratch" {
		if lk, _ := mentions(toks[:eq]); lk > 0 {
			return scOdd, "the scratch word occurs inside an assignment target: `" + lhs + "`"
		}
		return scRead, ""
	}
	rk, _ := mentions(toks[eq+1:])
	if toks[eq].Is("=") && rk == 0 {
		return scKill, ""
	}
	return scRW, ""
}

type scratchStats struct {
	labels, accum, carrying, touching int
}

// checkScratchC evaluates S1 and S2 on one generated coroutine.
func checkScratchC(c *core.Ctx, anchor, fname, cname string, stmts []*core.CStmt, st *scratchStats) {
	g, _, _, _ := coroGraph(stmts)
	n := len(g.nodes)
	cls := make([]scratchClass, n)
	any := false
	for i, nd := range g.nodes {
		k, why := classifyScratch(nd, fname)
		cls[i] = k
		if k == scOdd {
			c.Undecided("S1.resume", anchor, "every statement that mentions the scratch word is a plain store, a read, a read-modify-write or the alias declaration", fmt.Sprintf("%s line %d: %s", cname, nd.line, why))
			return
		}
		if k != scNone {
			any = true
			st.touching++
		}
	}
	if !any {
		return
	}
	preds := make([][]int, n)
	for i, nd := range g.nodes {
		for _, s := range nd.succ {
			preds[s] = append(preds[s], i)
		}
	}
	isSuspend := func(i int) bool { return g.nodes[i].gotoL == "suspend" }
	var badResume, badInit []string
	nLab, nAccum, nCarry := 0, 0, 0
	for k, lab := range g.nodes {
		if lab.csp == "" {
			continue
		}
		nLab++
		// forward from the label, within the stretch that resumes at k
		type state struct {
			node  int
			wrote bool
		}
		accum := false
		seen := map[state]bool{}
		var stack []state
		for _, s := range lab.succ {
			stack = append(stack, state{s, false})
		}
		for len(stack) > 0 {
			x := stack[len(stack)-1]
			stack = stack[:len(stack)-1]
			if seen[x] || g.nodes[x.node].csp != "" {
				continue
			}
			seen[x] = true
			if isSuspend(x.node) {
				if x.wrote {
					accum = true
				}
				continue
			}
			w := x.wrote || cls[x.node] == scKill || cls[x.node] == scRW
			for _, s := range g.nodes[x.node].succ {
				stack = append(stack, state{s, w})
			}
		}
		// first touch after the label: a read (carrying) or a plain overwrite (early kill)
		carrying, earlyKill := false, -1
		seen1 := map[int]bool{}
		var st1 []int
		st1 = append(st1, lab.succ...)
		for len(st1) > 0 {
			x := st1[len(st1)-1]
			st1 = st1[:len(st1)-1]
			if seen1[x] || g.nodes[x].csp != "" || isSuspend(x) {
				continue
			}
			seen1[x] = true
			switch cls[x] {
			case scKill:
				if earlyKill < 0 || g.nodes[x].line < g.nodes[earlyKill].line {
					earlyKill = x
				}
				continue
			case scRead, scRW:
				carrying = true
				continue
			}
			st1 = append(st1, g.nodes[x].succ...)
		}
		if accum {
			nAccum++
			if earlyKill >= 0 {
				badResume = append(badResume, fmt.Sprintf("%s: suspension point %s (line %d): the code that resumes here stores partial progress in the scratch word before it can suspend again, but line %d overwrites the scratch word (`%s`) before anything reads it — a resumed call forgets what the suspended call had accumulated",
					cname, lab.csp, lab.line, g.nodes[earlyKill].line, core.CText(g.nodes[earlyKill].toks)))
			}
		}
		if carrying {
			nCarry++
			// backward: the last touch on every fall-through path into the label is a plain store
			seen2 := map[int]bool{}
			st2 := append([]int(nil), preds[k]...)
			if len(st2) == 0 {
				badInit = append(badInit, fmt.Sprintf("%s: suspension point %s (line %d) has no fall-through predecessor", cname, lab.csp, lab.line))
			}
			for len(st2) > 0 {
				x := st2[len(st2)-1]
				st2 = st2[:len(st2)-1]
				if seen2[x] {
					continue
				}
				seen2[x] = true
				switch cls[x] {
				case scKill:
					continue
				case scRead, scRW:
					badInit = append(badInit, fmt.Sprintf("%s: suspension point %s (line %d): the scratch word is read after this label, but on a path into it the last statement touching the scratch word is line %d (`%s`), not its initialisation — the built-in would start from an earlier built-in's residue",
						cname, lab.csp, lab.line, g.nodes[x].line, core.CText(g.nodes[x].toks)))
					continue
				}
				if len(preds[x]) == 0 {
					badInit = append(badInit, fmt.Sprintf("%s: suspension point %s (line %d): the scratch word is read after this label, but a path from the function entry reaches it without any store to the scratch word", cname, lab.csp, lab.line))
					continue
				}
				st2 = append(st2, preds[x]...)
			}
		}
	}
	st.labels += nLab
	st.accum += nAccum
	st.carrying += nCarry
	c.Check(len(badResume) == 0, "S1.resume", anchor,
		"between a suspension-point label and the suspension that resumes at it, partial progress stored in the scratch word survives resumption: no path from the label overwrites the scratch word before reading it (a call split inside a multi-byte read / skip must continue, not restart)", nLab+nAccum,
		strings.Join(dedup(badResume), "\n"))
	c.Check(len(badInit) == 0, "S2.init", anchor,
		"every suspension-point label after which the scratch word is read is entered, on all fall-through paths, right after the scratch word's initialisation (no earlier built-in's residue, no uninitialised use)", nLab+nCarry,
		strings.Join(dedup(badInit), "\n"))
}

func dedup(xs []string) []string {
	seen := map[string]bool{}
	var out []string
	for _, x := range xs {
		if !seen[x] {
			seen[x] = true
			out = append(out, x)
		}
	}
	return out
}

// checkScratchCgen: rule S3 on cgen's two lowering functions.
func checkScratchCgen(c *core.Ctx) {
	k := newG(c, "./internal/cgen")
	total := 0
	for _, name := range []string{"writeReadUxxAsUyy", "writeBuiltinQuestionCall"} {
		const rule = "S3.order"
		fl := k.flow(rule, "internal/cgen", "gen", name)
		if fl == nil {
			continue
		}
		info := fl.F.Info()
		anchor := "internal/cgen.(gen)." + name + "[usesScratch … writeCoroSuspPoint]"
		// locals holding the C name of the scratch word: fmt.Sprintf("…scratch", …)
		isSprintfScratch := func(e ast.Expr) bool {
			call, ok := ast.Unparen(e).(*ast.CallExpr)
			if !ok || len(call.Args) == 0 {
				return false
			}
			fn := core.Callee(info, call)
			if fn == nil || fn.FullName() != "fmt.Sprintf" {
				return false
			}
			v := core.ConstVal(info, call.Args[0])
			if v == nil {
				return false
			}
			s, err := strconv.Unquote(v.ExactString())
			return err == nil && strings.HasSuffix(s, ".scratch")
		}
		scratchVars := fl.VarsDenoting(isSprintfScratch)
		isScratchName := fl.Denotes(isSprintfScratch)
		usesScratchSet := func(n ast.Node) bool {
			as, ok := n.(*ast.AssignStmt)
			if !ok || len(as.Lhs) != 1 || len(as.Rhs) != 1 {
				return false
			}
			sel, ok := ast.Unparen(as.Lhs[0]).(*ast.SelectorExpr)
			if !ok {
				return false
			}
			f, ok := info.Uses[sel.Sel].(*types.Var)
			if !ok || !f.IsField() || f.Name() != "usesScratch" {
				return false
			}
			v := core.ConstVal(info, as.Rhs[0])
			return v != nil && v.ExactString() == "true"
		}
		nStart, nSusp := 0, 0
		isSuspCall := func(call *ast.CallExpr) bool {
			fn := core.Callee(info, call)
			return fn != nil && fn.Name() == "writeCoroSuspPoint" && fn.Pkg() != nil && strings.HasSuffix(fn.Pkg().Path(), "internal/cgen")
		}
		ast.Inspect(fl.F.Decl.Body, func(m ast.Node) bool {
			if usesScratchSet(m) {
				nStart++
			}
			if call, ok := m.(*ast.CallExpr); ok && isSuspCall(call) {
				nSusp++
			}
			return true
		})
		if nStart == 0 || nSusp == 0 || len(scratchVars) == 0 {
			c.Undecided(rule, anchor, "the lowering declares usesScratch = true, names the scratch word with fmt.Sprintf(\"….scratch\") and calls writeCoroSuspPoint", fmt.Sprintf("%d `usesScratch = true`, %d scratch-name locals, %d writeCoroSuspPoint calls", nStart, len(scratchVars), nSusp))
			continue
		}
		total += nStart
		k.mustPass(rule, anchor, "a built-in that keeps its partial state in the scratch word emits the store that initialises it (`<scratch> = …`) BEFORE its suspension-point label: the label is where a split call resumes, so a store emitted after it would wipe the bytes already accumulated / still to skip each time the call is resumed", fl, core.Query{
			Start: usesScratchSet,
			Exit: func(n ast.Node) bool {
				return core.Guaranteed(n, isSuspCall)
			},
			Events: []core.Event{core.CallEvent(func(call *ast.CallExpr) bool {
				fn := core.Callee(info, call)
				if fn == nil || fn.Name() != "printf" || fn.Pkg() == nil || !strings.HasSuffix(fn.Pkg().Path(), "internal/cgen") || len(call.Args) < 2 {
					return false
				}
				v := core.ConstVal(info, call.Args[0])
				if v == nil {
					return false
				}
				s, err := strconv.Unquote(v.ExactString())
				return err == nil && strings.HasPrefix(strings.TrimLeft(s, " \t\n"), "%s = ") && isScratchName(call.Args[1])
			})},
		})
	}
	c.Floor("S3", "lowerings that declare usesScratch = true (read_uNN slow path, skip, write_u8)", total, 3)
}
