package main

import (
	"fmt"
	"go/ast"
	"go/token"
	"go/types"
	"regexp"
	"strings"

	"wv/core"
)

// ---------------------------------------------------------------------------
// M2: byteProbs.encodeByte ≅ byteProbs.decodeByte

type byteModel struct {
	fl        *core.Flow
	x         *symx
	call      *ast.CallExpr
	loop      *ast.ForStmt
	idx, bit  types.Object
	bitDef    ast.Expr
	initVals  []string
	stepVals  []string
	stepNodes []ast.Node
	trips     int
	slotOK    bool
}

func enclosingFor(body ast.Node, target ast.Node) (loops []*ast.ForStmt) {
	for _, n := range core.PathTo(body, target) {
		if f, ok := n.(*ast.ForStmt); ok {
			loops = append(loops, f)
		}
	}
	return
}

func callsTo(info *types.Info, n ast.Node, fn *types.Func) (out []*ast.CallExpr) {
	ast.Inspect(n, func(m ast.Node) bool {
		if call, ok := m.(*ast.CallExpr); ok && core.IsCallTo(info, call, fn) {
			out = append(out, call)
		}
		return true
	})
	return
}

func inNode(outer, inner ast.Node) bool {
	return outer.Pos() <= inner.Pos() && inner.End() <= outer.End()
}

func (r *c17) extractByte(rule string, dec bool) *byteModel {
	name, bitName := "encodeByte", "encodeBit"
	if dec {
		name, bitName = "decodeByte", "decodeBit"
	}
	fl := r.k.flow(rule, relLzma, "byteProbs", name)
	bitFn := r.k.g.LookupMethod(relLzma, "prob", bitName)
	if fl == nil {
		return nil
	}
	anchor := fl.F.Name()
	und := func(pos token.Pos, why string) *byteModel {
		r.c.Undecided(rule, anchor, "the function has the recognised shape: index := 1; loop { probs[index]."+bitName+"(…); index = index<<1 | bit }", r.k.g.Pos(pos)+": "+why)
		return nil
	}
	if bitFn == nil {
		return und(fl.F.Decl.Pos(), "prob."+bitName+" not found")
	}
	info := fl.F.Info()
	body := fl.F.Decl.Body
	calls := callsTo(info, body, bitFn)
	if len(calls) != 1 {
		return und(body.Pos(), fmt.Sprintf("%d calls of prob.%s (want exactly 1)", len(calls), bitName))
	}
	m := &byteModel{fl: fl, x: newSymx(info), call: calls[0]}
	x := m.x
	x.singleDefs(body)
	// slot: recv[idx]
	ix, ok := ast.Unparen(core.RecvOf(m.call)).(*ast.IndexExpr)
	if !ok {
		return und(m.call.Pos(), "the bit coder's receiver is not an index expression")
	}
	base := ast.Unparen(ix.X)
	if st, ok := base.(*ast.StarExpr); ok {
		base = ast.Unparen(st.X)
	}
	m.slotOK = fl.Recv() != nil && fl.Obj(base) == fl.Recv()
	idxID, ok := ast.Unparen(ix.Index).(*ast.Ident)
	if !ok {
		return und(ix.Index.Pos(), "the slot index is not a plain variable")
	}
	m.idx = fl.Obj(idxID)
	loops := enclosingFor(body, m.call)
	if len(loops) != 1 {
		return und(m.call.Pos(), fmt.Sprintf("the bit coder call sits in %d for-loops (want 1)", len(loops)))
	}
	m.loop = loops[0]
	// bit variable
	if dec {
		for _, n := range core.PathTo(body, m.call) {
			if as, ok := n.(*ast.AssignStmt); ok && len(as.Rhs) == 1 && ast.Unparen(as.Rhs[0]) == ast.Expr(m.call) && len(as.Lhs) == 2 {
				if id, ok := as.Lhs[0].(*ast.Ident); ok {
					m.bit = fl.Obj(id)
				}
			}
		}
		if m.bit == nil {
			return und(m.call.Pos(), "the decoded bit is not bound by `bit, err := …decodeBit(…)`")
		}
	} else {
		if len(m.call.Args) != 2 {
			return und(m.call.Pos(), "encodeBit call does not have 2 arguments")
		}
		id, ok := ast.Unparen(m.call.Args[1]).(*ast.Ident)
		if !ok {
			return und(m.call.Args[1].Pos(), "the encoded bit is not a plain variable")
		}
		m.bit = fl.Obj(id)
	}
	m.bitDef = x.inline[m.bit]
	delete(x.inline, m.bit)
	delete(x.inline, m.idx)
	x.names[m.idx], x.names[m.bit] = "IDX", "BIT"
	vals, nodes := x.assignmentsTo(body, m.idx)
	for i, n := range nodes {
		if inNode(m.loop.Body, n) {
			m.stepVals = append(m.stepVals, vals[i])
			m.stepNodes = append(m.stepNodes, n)
		} else if inNode(m.loop, n) {
			return und(n.Pos(), "the index is assigned in the loop header")
		} else {
			m.initVals = append(m.initVals, vals[i])
		}
	}
	return m
}

func (r *c17) byteTwins() {
	c, g := r.c, r.k.g
	enc := r.extractByte("M2", false)
	dec := r.extractByte("M2", true)
	if enc == nil || dec == nil {
		return
	}
	ea, da := enc.fl.F.Name(), dec.fl.F.Name()
	both := ea + " ~ " + da
	c.Check(enc.slotOK && dec.slotOK, "M2.slot", both, "both bit coders are invoked on probs[index] of the receiver's own table, indexed by the tree index", 2,
		fmt.Sprintf("%s / %s: receiver table indexed by index: enc=%v dec=%v", g.Pos(enc.call.Pos()), g.Pos(dec.call.Pos()), enc.slotOK, dec.slotOK))
	j := func(v []string) string { return "[" + strings.Join(v, " ; ") + "]" }
	c.Check(j(enc.initVals) == "[#1]" && j(dec.initVals) == "[#1]", "M2.init", both, "the tree index starts at 1 in both (single initialisation, constant 1)", 2,
		fmt.Sprintf("%s: encoder initialisations %s; %s: decoder initialisations %s", g.Pos(enc.loop.Pos()), j(enc.initVals), g.Pos(dec.loop.Pos()), j(dec.initVals)))
	step := mk("or", "BIT", mk("shl", "IDX", "#1"))
	c.Check(j(enc.stepVals) == j(dec.stepVals) && j(enc.stepVals) == "["+step+"]", "M2.step", both,
		"both advance by index = index<<1 | bit exactly once per iteration, with the bit passed to / returned by the bit coder", 2,
		fmt.Sprintf("%s: encoder %s; %s: decoder %s; expected [%s]", g.Pos(enc.loop.Pos()), j(enc.stepVals), g.Pos(dec.loop.Pos()), j(dec.stepVals), step))

	// Trip counts.
	encTrips, decTrips := -1, -1
	encDetail, decDetail := "", ""
	ctr, vals, ok := tripCount(enc.fl.F.Info(), enc.loop)
	if ok {
		encTrips = len(vals)
		enc.x.names[ctr] = "I"
		delete(enc.x.inline, ctr)
		desc := true
		for i, v := range vals {
			if v != int64(len(vals)-1-i) {
				desc = false
			}
		}
		bitExpr := "?"
		if d := enc.bitDef; d != nil {
			if p := enc.fl.Param(1); p != nil {
				enc.x.names[p] = "BYTE"
			}
			bitExpr = enc.x.eval(d, nil)
		}
		re := regexp.MustCompile(`^and\(#1,shr\(conv:uint(8|16|32|64)?\(BYTE\),(I|conv:u?int(8|16|32|64)?\(I\))\)\)$`)
		c.Check(desc && re.MatchString(bitExpr), "M2.enc.bitorder", ea,
			"the encoder feeds bit i of the byte with i descending from 7 to 0 (most significant bit first, as the decoder reassembles)", len(vals),
			fmt.Sprintf("%s: counter values %v, bit expression %s", g.Pos(enc.loop.Pos()), vals, bitExpr))
		encDetail = fmt.Sprintf("counter %v", vals)
	} else {
		c.Undecided("M2.count", ea, "the encoder loop is a counted loop with constant bounds", g.Pos(enc.loop.Pos())+": loop header not of the form for i := c0; i REL c1; i±±")
	}
	// decoder: for IDX < K with no init/post; from 1 each step maps [lo,hi] to [2lo,2hi+1].
	if dec.loop.Init == nil && dec.loop.Post == nil && dec.loop.Cond != nil {
		cond := dec.x.eval(dec.loop.Cond, nil)
		var bound int64
		if _, err := fmt.Sscanf(cond, "lt(IDX,#%d)", &bound); err == nil && len(dec.stepVals) == 1 && dec.stepVals[0] == step {
			lo, hi, n := int64(1), int64(1), 0
			for lo < bound && hi < bound && n < 64 {
				lo, hi, n = 2*lo, 2*hi+1, n+1
			}
			if lo >= bound && hi >= bound && bound > 1 {
				decTrips = n
			}
			decDetail = fmt.Sprintf("loop condition %s", cond)
		} else {
			decDetail = "loop condition " + cond
		}
	}
	if decTrips < 0 {
		c.Undecided("M2.count", da, "the decoder loop is `for index < K` with a data-independent trip count", g.Pos(dec.loop.Pos())+": "+decDetail)
	}
	if encTrips >= 0 && decTrips >= 0 {
		c.Check(encTrips == decTrips && encTrips == 8, "M2.count", both, "both loops code exactly 8 bits (encoder counter 7..0; decoder until index reaches 0x100 from 1)", 2,
			fmt.Sprintf("%s: encoder %d iterations (%s); %s: decoder %d iterations (%s)", g.Pos(enc.loop.Pos()), encTrips, encDetail, g.Pos(dec.loop.Pos()), decTrips, decDetail))
	}
	// decoder result: byte(index) on success returns.
	nret, bad := 0, ""
	ast.Inspect(dec.fl.F.Decl.Body, func(n ast.Node) bool {
		if rs, ok := n.(*ast.ReturnStmt); ok && dec.fl.SuccessReturn(rs) {
			nret++
			if len(rs.Results) == 0 || dec.x.eval(rs.Results[0], nil) != "conv:uint8(IDX)" || inNode(dec.loop, rs) {
				bad = g.Pos(rs.Pos()) + ": " + core.Src(g.Fset, rs)
			}
		}
		return true
	})
	if nret == 0 {
		c.Undecided("M2.dec.result", da, "a success return exists", "no success return found")
	} else {
		c.Check(bad == "", "M2.dec.result", da, "the decoded byte is the low 8 bits of the final tree index, returned after the loop", nret, bad)
	}
	// Ordering on the CFG: call before update; update on every continuing path.
	for _, m := range []*byteModel{enc, dec} {
		fl := m.fl
		a := fl.F.Name() + "[loop body]"
		isStep := func(n ast.Node) bool {
			for _, s := range m.stepNodes {
				if n == s {
					return true
				}
			}
			return false
		}
		isCall := func(call *ast.CallExpr) bool { return call == m.call }
		region := core.RegionOf(m.loop.Body)
		r.k.mustPass("M2.order.update", a, "every path through the loop body that continues (does not return) performs the index update", fl,
			core.Query{Region: region, FallOut: true, Events: []core.Event{{Node: isStep}}})
		r.k.mustPass("M2.order.call", a, "the index update is reached only after the bit coder ran on probs[index] (the slot is chosen before the index moves)", fl,
			core.Query{Region: region, Exit: isStep, Events: []core.Event{core.CallEvent(isCall)}})
	}
}

// ---------------------------------------------------------------------------
// M3: encodeUvarint ≅ decodeUvarint

func (r *c17) uvarintTwins() {
	c, g := r.c, r.k.g
	ef := r.k.flow("M3", relLzma, "", "encodeUvarint")
	df := r.k.flow("M3", relLzma, "", "decodeUvarint")
	if ef == nil || df == nil {
		return
	}
	ea, da := ef.F.Name(), df.F.Name()
	both := ea + " ~ " + da
	// ---- encoder
	var eCond, ePost, eBody, eRet string
	var ePos token.Pos
	{
		x := newSymx(ef.F.Info())
		dst, xv := ef.Param(0), ef.Param(1)
		var loop *ast.ForStmt
		var ret *ast.ReturnStmt
		okShape := dst != nil && xv != nil
		for _, s := range ef.F.Decl.Body.List {
			switch v := s.(type) {
			case *ast.ForStmt:
				if loop != nil {
					okShape = false
				}
				loop = v
			case *ast.ReturnStmt:
				ret = v
			default:
				okShape = false
			}
		}
		if !okShape || loop == nil || ret == nil || loop.Init != nil || loop.Cond == nil || loop.Post == nil || len(ret.Results) != 1 {
			c.Undecided("M3", ea, "shape: for ; x >= C; x >>= g { dst = append(dst, …) } return append(dst, …)", g.Pos(ef.F.Decl.Pos())+": not recognised")
			return
		}
		ePos = loop.Pos()
		init := symState{x.oid(dst): "DST", x.oid(xv): "X"}
		eCond = x.eval(loop.Cond, init)
		st := init.clone()
		if err := x.exec(loop.Body.List, st, false, nil); err != nil {
			c.Undecided("M3", ea, "loop body is an assignment list", g.Pos(loop.Body.Pos())+": "+err.Error())
			return
		}
		eBody = st[x.oid(dst)]
		if st[x.oid(xv)] != "X" {
			eBody += " (and the body changes x to " + st[x.oid(xv)] + ")"
		}
		st2 := init.clone()
		if err := x.exec([]ast.Stmt{loop.Post}, st2, false, nil); err != nil {
			c.Undecided("M3", ea, "loop post statement is an assignment", g.Pos(loop.Post.Pos())+": "+err.Error())
			return
		}
		ePost = st2[x.oid(xv)]
		eRet = x.eval(ret.Results[0], init)
	}
	// ---- decoder
	var dVals []int64
	var dLenCond, dByte, dSrc, dAcc, dGuard, dRetOK, dFail string
	var dPos token.Pos
	{
		x := newSymx(df.F.Info())
		src := df.Param(0)
		var loop *ast.ForStmt
		var ret *ast.ReturnStmt
		okShape := src != nil
		for _, s := range df.F.Decl.Body.List {
			switch v := s.(type) {
			case *ast.ForStmt:
				if loop != nil {
					okShape = false
				}
				loop = v
			case *ast.ReturnStmt:
				ret = v
			default:
				okShape = false
			}
		}
		res := df.F.Decl.Type.Results
		if !okShape || loop == nil || ret == nil || res == nil || res.NumFields() != 3 || len(ret.Results) != 3 {
			c.Undecided("M3", da, "shape: for i := 0; i < C && len(src) > 0; i += g { … if s&0x80 == 0 { return src, x, true } } return …, false", g.Pos(df.F.Decl.Pos())+": not recognised")
			return
		}
		dPos = loop.Pos()
		ctr, vals, ok := tripCount(df.F.Info(), loop)
		conj := flattenAnd(loop.Cond)
		if !ok || len(conj) != 2 {
			c.Undecided("M3", da, "the decoder loop is counted with constant bounds and a len(src) conjunct", g.Pos(loop.Pos())+": loop header not recognised")
			return
		}
		dVals = vals
		x.names[ctr] = "I"
		// accumulator: the uint64 result
		var acc types.Object
		k := 0
		for _, f := range res.List {
			for _, id := range f.Names {
				if k == 1 {
					acc = df.F.Info().Defs[id]
				}
				k++
			}
		}
		if acc == nil {
			c.Undecided("M3", da, "the value result is a named result", g.Pos(res.Pos())+": unnamed results")
			return
		}
		init := symState{x.oid(src): "SRC", x.oid(acc): "X"}
		dLenCond = x.eval(conj[1], init)
		st := init.clone()
		var eff symEffects
		if err := x.exec(loop.Body.List, st, true, &eff); err != nil || len(eff.guards) != 1 || len(eff.guardConds) != 1 || len(eff.calls) != 0 {
			c.Undecided("M3", da, "loop body is an assignment list with one success guard", g.Pos(loop.Body.Pos())+": not recognised")
			return
		}
		gd := eff.guards[0]
		if loop.Body.List[len(loop.Body.List)-1] != ast.Stmt(gd) {
			c.Undecided("M3", da, "the success guard is the last statement of the loop body", g.Pos(gd.Pos())+": statements follow the guard")
			return
		}
		dSrc, dAcc = st[x.oid(src)], st[x.oid(acc)]
		dGuard = x.eval(gd.Cond, st)
		gr := gd.Body.List[len(gd.Body.List)-1].(*ast.ReturnStmt)
		if len(gd.Body.List) != 1 || len(gr.Results) != 3 {
			c.Undecided("M3", da, "the success guard is a bare return of 3 values", g.Pos(gd.Pos())+": not recognised")
			return
		}
		dRetOK = x.eval(gr.Results[0], st) + " | " + x.eval(gr.Results[1], st) + " | " + x.eval(gr.Results[2], st)
		dFail = x.eval(ret.Results[2], init)
		dByte = "idx(SRC,#0)"
	}
	const G = 7
	contS := fmt.Sprintf("#%d", 1<<G)
	maskS := fmt.Sprintf("#%d", 1<<G-1)
	gS := fmt.Sprintf("#%d", G)
	stepOK := len(dVals) > 0
	for i, v := range dVals {
		if v != int64(i*G) {
			stepOK = false
		}
	}
	wantAcc := mk("or", "X", mk("shl", "conv:uint64("+mk("and", maskS, dByte)+")", "I"))
	c.Check(ePost == mk("shr", "X", gS) && eCond == mk("le", contS, "X") && stepOK && dAcc == wantAcc, "M3.group", both,
		"7-bit groups on both sides: encoder loops while x >= 1<<7 and shifts x right by 7; decoder shift amounts go 0,7,14,… and each byte contributes uint64(s & 0x7F) << i", 4,
		fmt.Sprintf("%s: encoder condition %s, post x=%s; %s: decoder shifts %v, accumulator x=%s (expected %s)", g.Pos(ePos), eCond, ePost, g.Pos(dPos), dVals, dAcc, wantAcc))
	wantBody := "append(DST," + mk("or", contS, "conv:uint8(X)") + ")"
	wantRet := "append(DST,conv:uint8(X))"
	wantGuard := mk("eq", "#0", mk("and", contS, dByte))
	wantOK := "slice(SRC,#1,) | " + wantAcc + " | #true"
	c.Check(eBody == wantBody && eRet == wantRet && dGuard == wantGuard && dRetOK == wantOK, "M3.cont", both,
		"continuation bit 0x80: the encoder sets it on every byte but the last; the decoder stops successfully at the first byte with it clear and returns the accumulated value and the remaining source", 4,
		fmt.Sprintf("%s: encoder loop byte %s, last byte %s; %s: decoder stop test %s, success return %s", g.Pos(ePos), eBody, eRet, g.Pos(dPos), dGuard, dRetOK))
	c.Check(dSrc == "slice(SRC,#1,)" && dLenCond == mk("lt", "#0", "len(SRC)"), "M3.dec.consume", da,
		"the decoder consumes exactly one byte per group and loops only while a byte is available", 2,
		fmt.Sprintf("%s: src becomes %s, availability test %s", g.Pos(dPos), dSrc, dLenCond))
	c.Check(len(dVals) == 9 && stepOK && dFail == "#false", "M3.limit", da,
		"the decoder reads at most 9 bytes (shifts 0..56, 63 payload bits: the XZ limit) and reports failure when no terminating byte was seen", len(dVals),
		fmt.Sprintf("%s: %d iterations, shifts %v, fall-through ok result %s", g.Pos(dPos), len(dVals), dVals, dFail))
}
