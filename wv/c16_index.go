package main

// C16, rule family X: index and re-slice guards of lib/flatecut and
// lib/zlibcut, everything reachable from Cut (engine: idxguard.go).

import (
	"wv/core"
)

func c16Index(c *core.Ctx, g *core.GoProg) {
	xControl(c)
	fromCut := func(P *igPkg) map[*igFn]bool {
		var roots []*igFn
		for _, F := range P.fns {
			if F.decl.Recv == nil && F.obj.Name() == "Cut" {
				roots = append(roots, F)
			}
		}
		return igReach(P, roots)
	}
	// floors: 38 index / 5 slice expressions are decided safe in flatecut today, 8 / 1 in zlibcut (of the 8, the 4
	// header reads are the ones no rewrite can make undecided: the trailer bytes may be written through `encoded[end+k]`,
	// whose bound rests on flatecut's result)
	xIndexRule(c, g, xScope{rel: c16RelFlate, floorIndex: 33, floorSlice: 4, inScope: fromCut})
	xIndexRule(c, g, xScope{rel: c16RelZlib, floorIndex: 4, floorSlice: 1, inScope: fromCut})
}
