package main

// idxguard_rule.go — rule family X (index and re-slice guards): the verdicts
// of the engine of idxguard.go reported per function, with floors.

import (
	"fmt"
	"go/ast"
	"go/token"
	"go/types"
	"os"
	"path/filepath"
	"regexp"
	"sort"
	"strings"

	"golang.org/x/tools/go/packages"

	"wv/core"
)

const (
	xClaimIndex = "every index expression s[e] on arbitrary input is reached only in states that imply 0 <= e < len(s) (the constant length for arrays), by an interval / difference-constraint argument along every CFG path with package-local argument, result and field-range summaries: otherwise some input makes the reader panic with `index out of range` instead of returning an error"
	xClaimSlice = "every slice expression s[lo:hi] (s[lo:hi:max]) is reached only in states that imply 0 <= lo <= hi <= cap(s) (len for strings, the constant length for arrays; hi <= len(s) implies it), by the same argument: otherwise some input makes the reader panic with `slice bounds out of range` instead of returning an error"
)

// xScope: one package to which the rule family is applied.
type xScope struct {
	rel        string
	inScope    func(P *igPkg) map[*igFn]bool // nil: every function
	floorIndex int                           // decided-safe X.index sites
	floorSlice int                           // decided-safe X.slice sites
	// findings: sites (function name -> source text of the expression) that the
	// triage of the unchanged tree found to be genuine crashes; reported as INFO "FINDING".
	findings map[string]string
}

// igReach: the functions reachable from roots by calls, function references and
// (for every named type of the package mentioned) its methods.
func igReach(P *igPkg, roots []*igFn) map[*igFn]bool {
	methods := map[*types.TypeName][]*igFn{}
	for _, F := range P.fns {
		if sig, ok := F.obj.Type().(*types.Signature); ok && sig.Recv() != nil {
			t := sig.Recv().Type()
			if pt, ok := t.(*types.Pointer); ok {
				t = pt.Elem()
			}
			if nt, ok := t.(*types.Named); ok {
				methods[nt.Obj()] = append(methods[nt.Obj()], F)
			}
		}
	}
	seen := map[*igFn]bool{}
	work := append([]*igFn(nil), roots...)
	for _, F := range roots {
		seen[F] = true
	}
	add := func(F *igFn) {
		if F != nil && !seen[F] {
			seen[F] = true
			work = append(work, F)
		}
	}
	for len(work) > 0 {
		F := work[0]
		work = work[1:]
		ast.Inspect(F.decl.Body, func(n ast.Node) bool {
			id, ok := n.(*ast.Ident)
			if !ok {
				return true
			}
			switch o := F.info.Uses[id].(type) {
			case *types.Func:
				add(P.byObj[o.Origin()])
			case *types.TypeName:
				if o.Pkg() == P.pkg.Types {
					for _, M := range methods[o] {
						add(M)
					}
				}
			}
			return true
		})
	}
	return seen
}

// xSubject: e is an index / slice expression the rule family speaks about.
func xSubject(F *igFn, e ast.Expr) (slice, ok bool) {
	var base ast.Expr
	var bounds []ast.Expr
	switch v := e.(type) {
	case *ast.IndexExpr:
		base, bounds = v.X, []ast.Expr{v.Index}
	case *ast.SliceExpr:
		base, slice = v.X, true
		if v.Low == nil && v.High == nil && v.Max == nil {
			return true, false
		}
		for _, b := range []ast.Expr{v.Low, v.High, v.Max} {
			if b != nil {
				bounds = append(bounds, b)
			}
		}
	default:
		return false, false
	}
	if tv, has := F.info.Types[base]; has && tv.IsType() {
		return slice, false
	}
	bt := F.typeOf(base)
	if bt == nil {
		return slice, false
	}
	_, isArr := igArrayLen(bt)
	if !isArr && !igIsSlice(bt) && !igIsString(bt) {
		return slice, false
	}
	if isArr {
		allConst := true
		for _, b := range bounds {
			if _, c := F.constInt(b); !c {
				allConst = false
			}
		}
		if allConst {
			return slice, false
		}
	}
	return slice, true
}

// xOnly: development aid — WV_X_ONLY=1 runs rule family X alone; such a run
// records an undecided obligation, so it can never pass.
func xOnly(c *core.Ctx) bool {
	if os.Getenv("WV_X_ONLY") == "" {
		return false
	}
	c.Undecided("X.only", "WV_X_ONLY", "the whole property is checked", "development run of rule family X alone")
	return true
}

type xCounts struct{ safeIndex, safeSlice, fail, info int }

// xIndexRule analyses one package and reports rule family X for the functions in scope.
func xIndexRule(c *core.Ctx, g *core.GoProg, sc xScope) (*igPkg, xCounts) {
	var cnt xCounts
	p := g.Pkg(sc.rel)
	if p == nil {
		c.Undecided("X.index", sc.rel, xClaimIndex, "package not loaded")
		return nil, cnt
	}
	P := newIgPkg(g, p)
	P.analyse()
	scope := map[*igFn]bool{}
	if sc.inScope != nil {
		scope = sc.inScope(P)
	} else {
		for _, F := range P.fns {
			scope[F] = true
		}
	}
	dump := os.Getenv("WV_X_DUMP") != ""
	if dump {
		fmt.Printf("== %s: %d functions, %d in scope, %d summary rounds, %d function runs\n", sc.rel, len(P.fns), len(scope), P.rounds, P.reruns)
		type sp struct {
			n string
			d float64
		}
		var sps []sp
		for n, d := range P.spent {
			sps = append(sps, sp{n, d.Seconds()})
		}
		sort.Slice(sps, func(i, j int) bool { return sps[i].d > sps[j].d })
		for i, x := range sps {
			if i < 6 {
				fmt.Printf("  time %.2fs %s (%d nodes)\n", x.d, x.n, len(P.byName(x.n).nodes))
			}
		}
		for F, why := range P.failed {
			fmt.Printf("  FAILED %s: %s\n", F.name, why)
		}
		var fs []string
		for f, iv := range P.fieldInv {
			fs = append(fs, fmt.Sprintf("field %s: A%s G%s", f.Name(), iv.a, iv.g))
		}
		for fn, ps := range P.paramSum {
			for i, s := range ps {
				fs = append(fs, fmt.Sprintf("param %s#%d: A%s G%s owned=%v seen=%v", fn.Name(), i, s.val.a, s.val.g, s.owned, s.seen))
			}
		}
		for fn, rs := range P.retSum {
			for i, s := range rs {
				if !s.a.empty() && s.a != igTop {
					fs = append(fs, fmt.Sprintf("result %s#%d: A%s G%s", fn.Name(), i, s.a, s.g))
				}
			}
		}
		sort.Strings(fs)
		for _, l := range fs {
			fmt.Println("  " + l)
		}
	}
	for _, F := range P.fns {
		if !scope[F] {
			continue
		}
		type raw struct {
			e     ast.Expr
			slice bool
			inLit bool
		}
		var all []raw
		var walk func(n ast.Node, inLit bool)
		walk = func(n ast.Node, inLit bool) {
			ast.Inspect(n, func(m ast.Node) bool {
				if lit, ok := m.(*ast.FuncLit); ok && !inLit {
					walk(lit.Body, true)
					return false
				}
				if e, ok := m.(ast.Expr); ok {
					if sl, ok := xSubject(F, e); ok {
						all = append(all, raw{e, sl, inLit})
					}
				}
				return true
			})
		}
		walk(F.decl.Body, false)
		if len(all) == 0 {
			continue
		}
		R := P.runs[F]
		if why, bad := P.failed[F]; bad {
			c.Undecided("X.index", F.name, xClaimIndex, why)
			continue
		}
		var failIdx, failSl []string
		nIdx, nSl := 0, 0
		for _, r := range all {
			rule := "X.index"
			if r.slice {
				rule = "X.slice"
			}
			text := core.Src(g.Fset, r.e)
			var s *igSite
			if R != nil {
				s = R.sites[r.e.Pos()]
			}
			where := g.Pos(r.e.Pos())
			if dump {
				cls, why := "unvisited", ""
				if s != nil {
					cls, why = s.class, s.why
				}
				fmt.Printf("site %-34s %-9s %-34s %s\n", where, cls, text, why)
			}
			if f, isFinding := sc.findings[F.name+"|"+text]; isFinding && (s == nil || s.class != "safe") {
				cnt.info++
				c.Info(rule+".other", F.name, where+": `"+text+"` — FINDING (genuine crash, see notes): "+f)
				continue
			}
			switch {
			case r.inLit:
				cnt.info++
				c.Info(rule+".other", F.name, where+": `"+text+"` is inside a function literal (not decided)")
			case R == nil || R.in == nil || len(R.in) == 0:
				cnt.info++
				c.Info(rule+".other", F.name, where+": `"+text+"` — no call site of this function is visible to the engine (not decided)")
			case s == nil:
				cnt.info++
				c.Info(rule+".other", F.name, where+": `"+text+"` is in code the engine does not reach (not decided)")
			case s.class == "safe":
				if r.slice {
					nSl++
				} else {
					nIdx++
				}
			case s.class == "fail":
				cnt.fail++
				line := fmt.Sprintf("%s: `%s`: %s", where, text, s.why)
				if r.slice {
					failSl = append(failSl, line)
				} else {
					failIdx = append(failIdx, line)
				}
			default:
				cnt.info++
				c.Info(rule+".other", F.name, where+": `"+text+"` — "+s.why+" (not decided)")
			}
		}
		cnt.safeIndex += nIdx
		cnt.safeSlice += nSl
		if nIdx > 0 || len(failIdx) > 0 {
			c.Check(len(failIdx) == 0, "X.index", F.name, xClaimIndex, nIdx+len(failIdx), strings.Join(failIdx, "\n"))
		}
		if nSl > 0 || len(failSl) > 0 {
			c.Check(len(failSl) == 0, "X.slice", F.name, xClaimSlice, nSl+len(failSl), strings.Join(failSl, "\n"))
		}
	}
	c.Floor("X.index", "index expressions decided safe in "+sc.rel, cnt.safeIndex, sc.floorIndex)
	c.Floor("X.slice", "slice expressions decided safe in "+sc.rel, cnt.safeSlice, sc.floorSlice)
	key := strings.ReplaceAll(sc.rel, "/", "_")
	c.Analysed("X_"+key+"_functions_in_scope", len(scope))
	c.Analysed("X_"+key+"_index_safe", cnt.safeIndex)
	c.Analysed("X_"+key+"_slice_safe", cnt.safeSlice)
	c.Analysed("X_"+key+"_not_decided", cnt.info)
	c.Analysed("X_"+key+"_summary_rounds", P.rounds)
	return P, cnt
}

func (P *igPkg) byName(n string) *igFn {
	for _, F := range P.fns {
		if F.name == n {
			return F
		}
	}
	return &igFn{}
}

// ---------------------------------------------------------------------------
// Positive control
// ---------------------------------------------------------------------------

var xControlTokens = regexp.MustCompile(`//.*?((?:SAFE|FAIL|INFO)(?: (?:SAFE|FAIL|INFO))*)\s*$`)

// xControl analyses the planted package selftest/controls/xcontrol.go.txt with
// the same engine; the expected verdict of every access is written at the end
// of its line. The run fails unless every access gets exactly that verdict.
func xControl(c *core.Ctx) {
	const rule = "X.control"
	claim := "on the planted control package the engine proves exactly the guarded accesses (capacity re-slice, make / re-slice lengths, callee bounds check through the argument summary, header tests, clamp, boolean local, byte-derived array offsets, sum guard, binary search, field range invariant), reports exactly the planted defects (guard short by the checksum length, guard weaker by one, check after the access, capacity test for an index, unguarded byte offset, helper whose only caller guards too weakly) and leaves the accesses that rest on outside invariants undecided"
	path := filepath.Join(c.Home, "selftest", "controls", "xcontrol.go.txt")
	src, err := os.ReadFile(path)
	if err != nil {
		c.Undecided(rule, "wvxcontrol", claim, "control source not found: "+err.Error())
		return
	}
	dir, err := os.MkdirTemp("", "wv-x-control-")
	if err != nil {
		c.Infra("control: %v", err)
	}
	c.OnExit(func() { os.RemoveAll(dir) })
	const modPath = core.Mod + "/wvxcontrol"
	if err := os.WriteFile(filepath.Join(dir, "go.mod"), []byte("module "+modPath+"\n\ngo 1.16\n"), 0o644); err != nil {
		c.Infra("control: %v", err)
	}
	if err := os.WriteFile(filepath.Join(dir, "ctl.go"), src, 0o644); err != nil {
		c.Infra("control: %v", err)
	}
	cfg := &packages.Config{
		Mode: packages.NeedName | packages.NeedFiles | packages.NeedCompiledGoFiles | packages.NeedImports |
			packages.NeedDeps | packages.NeedTypes | packages.NeedSyntax | packages.NeedTypesInfo | packages.NeedTypesSizes | packages.NeedModule,
		Dir: dir, Env: core.GoEnv(), Fset: token.NewFileSet(),
	}
	pkgs, err := packages.Load(cfg, ".")
	if err != nil || len(pkgs) != 1 || len(pkgs[0].Errors) > 0 {
		c.Infra("control package does not load: %v %v", err, pkgs)
	}
	gp := &core.GoProg{Fset: cfg.Fset, ByPth: map[string]*packages.Package{}, Repo: dir, Pkgs: pkgs}
	packages.Visit(pkgs, nil, func(p *packages.Package) { gp.ByPth[p.PkgPath] = p })
	P := newIgPkg(gp, pkgs[0])
	P.analyse()
	// expected verdicts, by line
	want := map[int][]string{}
	nwant := 0
	perClass := map[string]int{}
	for i, line := range strings.Split(string(src), "\n") {
		if m := xControlTokens.FindStringSubmatch(line); m != nil {
			want[i+1] = strings.Fields(m[1])
			nwant += len(want[i+1])
			for _, w := range want[i+1] {
				perClass[w]++
			}
		}
	}
	type at struct {
		col int
		cls string
		txt string
	}
	got := map[int][]at{}
	for _, F := range P.fns {
		R := P.runs[F]
		ast.Inspect(F.decl.Body, func(n ast.Node) bool {
			e, ok := n.(ast.Expr)
			if !ok {
				return true
			}
			if _, subj := xSubject(F, e); !subj {
				return true
			}
			cls := "UNVISITED"
			if R != nil {
				if s := R.sites[e.Pos()]; s != nil {
					cls = strings.ToUpper(s.class)
				}
			}
			ps := gp.Fset.Position(e.Pos())
			got[ps.Line] = append(got[ps.Line], at{ps.Column, cls, core.Src(gp.Fset, e)})
			return true
		})
	}
	var diffs []string
	lines := map[int]bool{}
	for l := range want {
		lines[l] = true
	}
	for l := range got {
		lines[l] = true
	}
	var ls []int
	for l := range lines {
		ls = append(ls, l)
	}
	sort.Ints(ls)
	for _, l := range ls {
		g := got[l]
		sort.Slice(g, func(i, j int) bool { return g[i].col < g[j].col })
		var gs, txt []string
		for _, x := range g {
			gs = append(gs, x.cls)
			txt = append(txt, "`"+x.txt+"`")
		}
		if strings.Join(gs, " ") != strings.Join(want[l], " ") {
			diffs = append(diffs, fmt.Sprintf("control line %d %s: got [%s], want [%s]", l, strings.Join(txt, " "), strings.Join(gs, " "), strings.Join(want[l], " ")))
		}
	}
	for F, why := range P.failed {
		diffs = append(diffs, F.name+": "+why)
	}
	if perClass["SAFE"] < 20 || perClass["FAIL"] < 6 || perClass["INFO"] < 3 {
		diffs = append(diffs, fmt.Sprintf("the control file plants %d SAFE / %d FAIL / %d INFO accesses, fewer than the 20 / 6 / 3 it was written with", perClass["SAFE"], perClass["FAIL"], perClass["INFO"]))
	}
	c.Check(len(diffs) == 0, rule, "wvxcontrol", claim, nwant, strings.Join(diffs, "\n"))
}
