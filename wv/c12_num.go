package main

// C12, rule R14: the numeric-literal prefixes the tokenizer accepts and the
// prefixes the formatter recognises agree. token.Tokenize switches its digit
// class after `0x`, `0X`, `0b`, `0B`; render.appendNum must treat exactly
// those as prefixes (strip two bytes, group by 4). A prefix the tokenizer
// accepts but the formatter does not know is grouped as if it were decimal
// digits, which can put an underscore between `0` and the letter: the output
// no longer tokenizes (independently seeded change C12-3 dropped `B`).
// Sibling tables (E3): reader and writer of one lexical form.

import (
	"fmt"
	"go/ast"
	"go/token"
	"sort"
	"strings"

	"wv/core"
)

// c12CharArms collects, for the if/else-if chains and switch statements under
// root whose conditions compare an expression satisfying isScrut with byte
// constants, the map constant → body of the arm taken for it.
func c12CharArms(fl *core.Flow, root ast.Node, isScrut func(ast.Expr) bool) map[byte][]ast.Stmt {
	info := fl.F.Info()
	out := map[byte][]ast.Stmt{}
	constOf := func(e ast.Expr) (byte, bool) {
		v, ok := core.ConstInt64(info, e)
		if !ok || v < 0 || v > 255 {
			return 0, false
		}
		return byte(v), true
	}
	ast.Inspect(root, func(n ast.Node) bool {
		switch s := n.(type) {
		case *ast.IfStmt:
			var chars []byte
			all := true
			for _, at := range flattenOr(s.Cond) {
				be, ok := ast.Unparen(at).(*ast.BinaryExpr)
				if !ok || be.Op != token.EQL {
					all = false
					break
				}
				if c, ok := constOf(be.Y); ok && isScrut(be.X) {
					chars = append(chars, c)
				} else if c, ok := constOf(be.X); ok && isScrut(be.Y) {
					chars = append(chars, c)
				} else {
					all = false
					break
				}
			}
			if all {
				for _, c := range chars {
					if _, dup := out[c]; !dup {
						out[c] = s.Body.List
					}
				}
			}
		case *ast.SwitchStmt:
			if s.Tag == nil || !isScrut(s.Tag) {
				return true
			}
			for _, cc := range s.Body.List {
				cl := cc.(*ast.CaseClause)
				for _, e := range cl.List {
					if c, ok := constOf(e); ok {
						if _, dup := out[c]; !dup {
							out[c] = cl.Body
						}
					}
				}
			}
		}
		return true
	})
	return out
}

func runC12Num(k *gctx) {
	c := k.c
	// --- tokenizer side: bytes after a leading '0' that switch the digit class
	tf := k.flow("R14.prefix", "lang/token", "", "Tokenize")
	rf := k.flow("R14.prefix", "lang/render", "", "appendNum")
	if tf == nil || rf == nil {
		return
	}
	tinfo := tf.F.Info()
	src := tf.Param(2)
	// scrutinee: src[<idx>] directly, or a local defined as src[<idx>]
	isSrcIdx := func(e ast.Expr) bool {
		ie, ok := ast.Unparen(e).(*ast.IndexExpr)
		return ok && tf.Obj(ie.X) == src
	}
	isTokScrut := func(e ast.Expr) bool { return tf.Denotes(isSrcIdx)(e) }
	// digit-class variable: a local of function type assigned in the arms
	arms := c12CharArms(tf, tf.F.Decl.Body, isTokScrut)
	tokPrefixes := map[byte]string{} // char -> name of the digit-class function it selects
	for ch, body := range arms {
		if !(ch >= 'A' && ch <= 'Z' || ch >= 'a' && ch <= 'z') {
			continue
		}
		for _, st := range body {
			as, ok := st.(*ast.AssignStmt)
			if !ok || len(as.Lhs) != len(as.Rhs) {
				continue
			}
			for i, l := range as.Lhs {
				lo := tf.Obj(l)
				if lo == nil {
					continue
				}
				if _, isFn := lo.Type().Underlying().(interface{ Params() interface{} }); isFn {
					_ = isFn
				}
				if strings.HasPrefix(lo.Type().String(), "func(") {
					if fo := tf.Obj(as.Rhs[i]); fo != nil {
						tokPrefixes[ch] = fo.Name()
					}
				}
			}
		}
	}
	_ = tinfo
	c.Floor("R14.prefix", "letters after a leading 0 that select a digit class in token.Tokenize", len(tokPrefixes), 4)

	// --- formatter side: bytes s[1] for which appendNum strips a two-byte prefix
	rinfo := rf.F.Info()
	s := rf.Param(1)
	isS1 := func(e ast.Expr) bool {
		ie, ok := ast.Unparen(e).(*ast.IndexExpr)
		if !ok || rf.Obj(ie.X) != s {
			return false
		}
		v, isC := core.ConstInt64(rinfo, ie.Index)
		return isC && v == 1
	}
	rarms := c12CharArms(rf, rf.F.Decl.Body, func(e ast.Expr) bool { return rf.Denotes(isS1)(e) })
	type fmtArm struct {
		strips bool
		group  int64
		emits  string // canonical prefix appended, "" if not a constant
	}
	fmtPrefixes := map[byte]fmtArm{}
	for ch, body := range rarms {
		var fa fmtArm
		for _, st := range body {
			as, ok := st.(*ast.AssignStmt)
			if !ok || len(as.Lhs) != 1 || len(as.Rhs) != 1 {
				continue
			}
			lo := rf.Obj(as.Lhs[0])
			switch {
			case lo == s:
				if se, ok := ast.Unparen(as.Rhs[0]).(*ast.SliceExpr); ok && rf.Obj(se.X) == s && se.High == nil {
					if v, isC := core.ConstInt64(rinfo, se.Low); isC && v == 2 {
						fa.strips = true
					}
				}
			case lo != nil && lo.Name() != "" && strings.Contains(lo.Type().String(), "int"):
				if v, isC := core.ConstInt64(rinfo, as.Rhs[0]); isC {
					fa.group = v
				}
			default:
				// buf = append(buf, "0x"...) / append(buf, '0', 'x') / append(buf, '0', s[1]|0x20)
				call, ok := ast.Unparen(as.Rhs[0]).(*ast.CallExpr)
				if !ok {
					continue
				}
				if id, ok := call.Fun.(*ast.Ident); !ok || id.Name != "append" || len(call.Args) < 2 {
					continue
				}
				var sb strings.Builder
				okAll := true
				for _, a := range call.Args[1:] {
					if cv := core.ConstVal(rinfo, a); cv != nil {
						if cv.Kind().String() == "String" {
							str := cv.ExactString()
							sb.WriteString(strings.Trim(str, `"`))
						} else if v, isC := core.ConstInt64(rinfo, a); isC {
							sb.WriteByte(byte(v))
						} else {
							okAll = false
						}
						continue
					}
					// s[1] | 0x20 : lower-cases the letter
					if be, ok := ast.Unparen(a).(*ast.BinaryExpr); ok && be.Op == token.OR {
						if v, isC := core.ConstInt64(rinfo, be.Y); isC && v == 0x20 && rf.Denotes(isS1)(be.X) {
							sb.WriteByte(ch | 0x20)
							continue
						}
						if v, isC := core.ConstInt64(rinfo, be.X); isC && v == 0x20 && rf.Denotes(isS1)(be.Y) {
							sb.WriteByte(ch | 0x20)
							continue
						}
					}
					okAll = false
				}
				if okAll {
					fa.emits = sb.String()
				}
			}
		}
		if fa.strips {
			fmtPrefixes[ch] = fa
		}
	}
	var keys []int
	for ch := range tokPrefixes {
		keys = append(keys, int(ch))
	}
	sort.Ints(keys)
	for _, ki := range keys {
		ch := byte(ki)
		anchor := fmt.Sprintf("lang/render.appendNum[prefix 0%c]", ch)
		claim := fmt.Sprintf("the formatter recognises the prefix `0%c`, which the tokenizer accepts (digit class %s): it strips the two prefix bytes, groups the digits by 4 and writes the lower-case prefix — otherwise the literal is grouped as a decimal and an underscore can land inside the prefix, so the output no longer tokenizes", ch, tokPrefixes[ch])
		fa, ok := fmtPrefixes[ch]
		switch {
		case !ok:
			c.Fail("R14.prefix", anchor, claim, 1, k.g.Pos(rf.F.Decl.Pos())+": no arm of appendNum strips a two-byte prefix for this letter")
		case fa.group != 4:
			c.Fail("R14.prefix", anchor, claim, 1, fmt.Sprintf("%s: group length %d, want 4", k.g.Pos(rf.F.Decl.Pos()), fa.group))
		case fa.emits != "0"+string(ch|0x20):
			c.Fail("R14.prefix", anchor, claim, 1, fmt.Sprintf("%s: emits %q, want %q", k.g.Pos(rf.F.Decl.Pos()), fa.emits, "0"+string(ch|0x20)))
		default:
			c.Pass("R14.prefix", anchor, claim, 1, k.g.Pos(rf.F.Decl.Pos()))
		}
	}
	// and no prefix is stripped that the tokenizer does not accept
	for ch := range fmtPrefixes {
		if _, ok := tokPrefixes[ch]; !ok {
			c.Fail("R14.extra", fmt.Sprintf("lang/render.appendNum[prefix 0%c]", ch), "the formatter strips only prefixes the tokenizer accepts (stripping two bytes of a plain decimal literal changes its digits' grouping base and drops nothing only by accident)", 1, k.g.Pos(rf.F.Decl.Pos()))
		}
	}
}
