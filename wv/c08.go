package main

import (
	"fmt"
	"go/ast"
	"math/big"
	"os"
	"sort"
	"strings"

	"wv/core"

	a "github.com/google/wuffs/lang/ast"
	t "github.com/google/wuffs/lang/token"
)

func init() {
	register("C08", core.Spec{
		Decides:    "on the C that the working tree's compiler generates for every std package, joined with each method's Wuffs declaration: (1) in every public method, every access through self is preceded by the null-receiver guard and the magic guard, in that order, and status-returning methods map DISABLED to 'disabled by previous error' and anything else to 'initialize not called'; (2) every io-token / ptr / refined parameter of a public method is re-validated at run time with exactly the declared bounds, disabling the object on failure; (3) public coroutines carry the active-coroutine guard with a per-struct unique id and record it at suspend; (4) every public coroutine disables the object when it exits with an error and has no return that bypasses the exit block; (5) every derived I/O pointer is loaded from the buffer's own index, written back (reader: ri, writer: wi) before every return, saved before and reloaded after every call that is handed the same buffer, and generated code never assigns a reader's wi, a writer's ri, or data.ptr/data.len of an argument buffer; (6) initialize() checks receiver, sizeof and version before touching *self, zeroes private_impl (or all of *self) unless told it is already zeroed, and only then sets vtables, choosy pointers, sub-object initializers and finally the magic; (7) rule family Q on the Wuffs sources of every struct that implements base.image_decoder: the call_sequence typestate — for every protocol method and every documented state, which statuses a call can end with and where it leaves call_sequence — equals a frozen reference machine (rejected with '#bad call sequence' exactly where the interface forbids the call and before any I/O, success moves to the documented next state on every success exit and only after the fallible work, '@end of data' after the end, 0x60 final), and the still-image decoders agree with each other. Plus must-pass rules on cgen's prologue generator so that the same holds for programs outside std",
		NotDecided: "0 <= ri <= wi <= len arithmetic inside method bodies and hand-written helpers (C01/C03), 'never changes source bytes', which data makes an image decoder take which of the allowed transitions (the call_sequence machine is decided as a may-summary per state, family Q), and behaviour of the hand-written base API",
		Assumptions: []string{"the statement-tree parser (core/ctree.go) covers the C subset cgen emits; a body it cannot parse fails as undecided",
			"the Wuffs front end as reader of declarations (effects, parameter types and refinements)",
			"family Q: between the suspension of a coroutine and its resumption no other call writes call_sequence"},
		Exhaustive: true,
	}, runC08)
}

// natural bounds of base numeric types (my own table, independent of cgen's).
func naturalBounds(name string) (lo, hi *big.Int) {
	if len(name) < 2 {
		return nil, nil
	}
	var bits int
	fmt.Sscanf(name[1:], "%d", &bits)
	if bits == 0 {
		return nil, nil
	}
	one := big.NewInt(1)
	switch name[0] {
	case 'u':
		return big.NewInt(0), new(big.Int).Sub(new(big.Int).Lsh(one, uint(bits)), one)
	case 'i':
		h := new(big.Int).Lsh(one, uint(bits-1))
		return new(big.Int).Neg(h), new(big.Int).Sub(h, one)
	}
	return nil, nil
}

// splitTop splits tokens on a top-level operator.
func splitTop(toks []core.CTok, op string) [][]core.CTok {
	var out [][]core.CTok
	depth, start := 0, 0
	for i, tk := range toks {
		if tk.Is("(") || tk.Is("[") {
			depth++
		} else if tk.Is(")") || tk.Is("]") {
			depth--
		} else if depth == 0 && tk.Is(op) {
			out = append(out, toks[start:i])
			start = i + 1
		}
	}
	return append(out, toks[start:])
}

// stripParens removes redundant outer parentheses.
func stripParens(toks []core.CTok) []core.CTok {
	for len(toks) >= 2 && toks[0].Is("(") {
		depth := 0
		closeAt := -1
		for i, tk := range toks {
			if tk.Is("(") {
				depth++
			} else if tk.Is(")") {
				depth--
				if depth == 0 {
					closeAt = i
					break
				}
			}
		}
		if closeAt != len(toks)-1 {
			break
		}
		toks = toks[1 : len(toks)-1]
	}
	return toks
}

func normAtom(toks []core.CTok) string {
	toks = stripParens(toks)
	var parts []string
	for _, tk := range toks {
		s := tk.Text
		if tk.Kind == 'n' {
			s = strings.TrimRight(strings.ToLower(s), "ul")
			if v, ok := new(big.Int).SetString(s, 0); ok {
				s = v.String()
			}
		}
		// unary minus in front of a literal: `< - 5` ⇒ `< -5`
		if tk.Kind == 'n' && len(parts) >= 1 && parts[len(parts)-1] == "-" && (len(parts) == 1 || strings.ContainsAny(parts[len(parts)-2], "<>=!&|(")) {
			parts[len(parts)-1] = "-" + s
			continue
		}
		parts = append(parts, s)
	}
	return strings.Join(parts, " ")
}

func hasSelfArrow(toks []core.CTok) bool { return core.CHasSeq(toks, "self", "->") }

// stmtToks returns all tokens of a statement including nested ones (conditions and bodies).
func stmtToks(s *core.CStmt) []core.CTok {
	out := append([]core.CTok{}, s.Toks...)
	for _, b := range s.Body {
		out = append(out, stmtToks(b)...)
	}
	for _, b := range s.Else {
		out = append(out, stmtToks(b)...)
	}
	return out
}

func isReturnOf(s *core.CStmt, needles ...string) bool {
	if s.Kind != "return" {
		return false
	}
	for _, n := range needles {
		found := false
		for _, tk := range s.Toks {
			if tk.Is(n) {
				found = true
			}
		}
		if !found {
			return false
		}
	}
	return true
}

type c08fn struct {
	p     *WPkg
	f     *a.Func
	cname string
	cfn   *core.CFunc
	stmts []*core.CStmt
}

func runC08(c *core.Ctx) {
	cb := c.BuildC()
	if cb == nil {
		return
	}
	std := loadStd(c, cb)
	std = append(std, loadCorpus(c, cb, "protocol")...)
	nPub, nGuarded, nNoSelf, nCoro, nArgChecked, nDerived, nInit := 0, 0, 0, 0, 0, 0, 0
	brk := ioBracketStats{}
	stale := staleStats{}
	for _, p := range std {
		src, err := os.ReadFile(p.CPath)
		if err != nil {
			c.Infra("%v", err)
		}
		cf := core.CParseFile(p.CPath, string(src))
		coroIDs := map[string]map[string]string{} // struct -> id -> method
		for _, f := range p.Funcs {
			cname := p.funcCName(f)
			cfn := cf.ByNam[cname]
			if cfn == nil {
				if f.Public() {
					c.Undecided("G0.found", "generated C "+cname, "definition of this public method exists in the generated C", "not found")
				}
				continue
			}
			stmts, perr := core.CParseBody(cfn.Body)
			if perr != nil {
				c.Undecided("G0.parse", "generated C "+cname, "function body parses into a statement tree", perr.Error())
				continue
			}
			fn := &c08fn{p, f, cname, cfn, stmts}
			// (5) applies to every function with derived I/O pointers, public or private.
			if checkDerived(c, fn) {
				nDerived++
			}
			reportIOBrackets(c, fn, &brk)
			checkStaleIndex(c, fn, &stale)
			if !f.Public() {
				continue
			}
			nPub++
			idx := 0
			guarded := checkSelfGuards(c, fn, &idx)
			if guarded {
				nGuarded++
			} else if !hasSelfArrow(cfn.Body) {
				nNoSelf++
			}
			if checkArgGuards(c, fn, &idx) {
				nArgChecked++
			}
			if f.Effect().Coroutine() {
				nCoro++
				st := p.str(f.Receiver()[1])
				if coroIDs[st] == nil {
					coroIDs[st] = map[string]string{}
				}
				checkCoroutine(c, fn, &idx, coroIDs[st])
			}
		}
		// (6) initializers
		for _, s := range p.Structs {
			if !s.Classy() {
				continue
			}
			cname := p.structCName(s) + "__initialize"
			cfn := cf.ByNam[cname]
			if cfn == nil {
				c.Undecided("G6.found", "generated C "+cname, "initializer exists", "not found")
				continue
			}
			stmts, perr := core.CParseBody(cfn.Body)
			if perr != nil {
				c.Undecided("G6.parse", "generated C "+cname, "initializer parses", perr.Error())
				continue
			}
			nInit++
			checkInitializer(c, p, s, cname, cfn, stmts)
		}
	}
	c.Analysed("public_methods", nPub)
	c.Analysed("public_methods_with_receiver_guards", nGuarded)
	c.Analysed("public_methods_without_any_receiver_access", nNoSelf)
	c.Analysed("public_coroutines", nCoro)
	c.Analysed("public_methods_with_argument_guards", nArgChecked)
	c.Analysed("functions_with_derived_io_pointers", nDerived)
	c.Analysed("initializers", nInit)
	c.Floor("G1", "public methods whose receiver accesses are guarded", nGuarded, 240)
	c.Floor("G3", "public coroutines", nCoro, 60)
	c.Floor("G5", "functions with derived I/O pointers", nDerived, 100)
	c.Floor("G6", "initializers", nInit, 28)
	c.Floor("G10", "reads of a mirrored buffer index in generated C", stale.reads, 200)
	c.Floor("G9", "saved derived I/O bounds (io_bind / io_limit / io_forget_history blocks)", brk.vars, 20)

	runC08CallSeq(c, std)
	runC08Cgen(c)
	runC08Base(c)
}

// checkSelfGuards: rule G1. idx is advanced past the guards.
func checkSelfGuards(c *core.Ctx, fn *c08fn, idx *int) bool {
	anchor := "generated C " + fn.cname
	f := fn.f
	if !hasSelfArrow(fn.cfn.Body) {
		return false // no access through the receiver at all (cgen omits the prologue for empty bodies)
	}
	returnsStatus := f.Effect().Coroutine() || (f.Out() != nil && f.Out().IsStatus())
	var bad []string
	st := fn.stmts
	// guard 0: if (!self) return …
	if len(st) < 2 || st[0].Kind != "if" || core.CText(st[0].Toks) != "! self" || len(st[0].Body) != 1 || st[0].Body[0].Kind != "return" || len(st[0].Else) != 0 {
		bad = append(bad, fmt.Sprintf("line %d: first statement is not `if (!self) { return …; }`", fn.cfn.Line))
	} else if returnsStatus && !isReturnOf(st[0].Body[0], "wuffs_base__error__bad_receiver") {
		bad = append(bad, fmt.Sprintf("line %d: null receiver does not return wuffs_base__error__bad_receiver", st[0].Line))
	}
	if len(bad) == 0 {
		g := st[1]
		atoms := map[string]bool{}
		for _, at := range splitTop(stripParens(g.Toks), "&&") {
			atoms[normAtom(at)] = true
		}
		wantAtoms := map[string]bool{"self -> private_impl . magic != WUFFS_BASE__MAGIC": true}
		if f.Effect().Pure() {
			wantAtoms["self -> private_impl . magic != WUFFS_BASE__DISABLED"] = true
		}
		same := len(atoms) == len(wantAtoms)
		for k := range wantAtoms {
			if !atoms[k] {
				same = false
			}
		}
		if g.Kind != "if" || !same || len(g.Body) != 1 || g.Body[0].Kind != "return" || len(g.Else) != 0 {
			bad = append(bad, fmt.Sprintf("line %d: second statement is not the magic guard `if (self->private_impl.magic != WUFFS_BASE__MAGIC%s) { return …; }` (found `%s`)", g.Line,
				map[bool]string{true: " && … != WUFFS_BASE__DISABLED", false: ""}[f.Effect().Pure()], g.Text()))
		} else if returnsStatus {
			rt := g.Body[0].Toks
			i := core.CFindSeq(rt, "self", "->", "private_impl", ".", "magic", "==", "WUFFS_BASE__DISABLED", ")", "?", "wuffs_base__error__disabled_by_previous_error", ":", "wuffs_base__error__initialize_not_called")
			if i < 0 {
				bad = append(bad, fmt.Sprintf("line %d: magic guard does not return (magic == DISABLED) ? disabled_by_previous_error : initialize_not_called (found `%s`)", g.Line, core.CText(rt)))
			}
		} else if hasSelfArrow(g.Body[0].Toks) {
			bad = append(bad, fmt.Sprintf("line %d: magic guard's return reads through self", g.Line))
		}
	}
	*idx = 2
	c.Check(len(bad) == 0, "G1.receiver", anchor, "every access through self is preceded by `if (!self) return` and then the magic guard (MAGIC, or MAGIC/DISABLED for pure methods); status-returning methods report bad_receiver / disabled_by_previous_error / initialize_not_called accordingly", len(fn.stmts), strings.Join(bad, "\n"))
	return len(bad) == 0
}

type argExpect struct {
	atoms []string
}

func (fn *c08fn) expectedArgAtoms() []string {
	p, f := fn.p, fn.f
	var out []string
	for _, o := range f.In().Fields() {
		o := o.AsField()
		typ := o.XType()
		name := "a_" + p.str(o.Name())
		switch {
		case typ.IsIOTokenType() || typ.Decorator() == t.IDPtr:
			out = append(out, "! "+name)
		case typ.IsRefined():
			lo, hi := (*big.Int)(nil), (*big.Int)(nil)
			b := typ.Bounds()
			if b[0] != nil {
				lo = b[0].ConstValue()
			}
			if b[1] != nil {
				hi = b[1].ConstValue()
			}
			if qid := typ.QID(); qid[0] == t.IDBase {
				nlo, nhi := naturalBounds(p.str(qid[1]))
				if lo != nil && nlo != nil && lo.Cmp(nlo) == 0 {
					lo = nil
				}
				if hi != nil && nhi != nil && hi.Cmp(nhi) == 0 {
					hi = nil
				}
			}
			if lo != nil {
				out = append(out, name+" < "+lo.String())
			}
			if hi != nil {
				out = append(out, name+" > "+hi.String())
			}
		}
	}
	return out
}

// checkArgGuards: rule G2.
func checkArgGuards(c *core.Ctx, fn *c08fn, idx *int) bool {
	want := fn.expectedArgAtoms()
	if len(want) == 0 {
		return false
	}
	anchor := "generated C " + fn.cname
	var bad []string
	if *idx >= len(fn.stmts) {
		bad = append(bad, "no statement after the receiver guards")
	} else {
		g := fn.stmts[*idx]
		got := map[string]bool{}
		for _, at := range splitTop(stripParens(g.Toks), "||") {
			got[normAtom(at)] = true
		}
		var missing []string
		for _, w := range want {
			if !got[w] {
				missing = append(missing, w)
			}
		}
		switch {
		case g.Kind != "if":
			bad = append(bad, fmt.Sprintf("line %d: statement after the receiver guards is not the argument guard (found `%s`)", g.Line, g.Text()))
		case len(missing) > 0 || len(got) != len(want):
			keys := []string{}
			for k := range got {
				keys = append(keys, k)
			}
			sort.Strings(keys)
			bad = append(bad, fmt.Sprintf("line %d: argument guard tests {%s}; the declaration requires exactly {%s}", g.Line, strings.Join(keys, " || "), strings.Join(want, " || ")))
		default:
			pure := fn.f.Effect().Pure()
			if pure {
				// A pure method's receiver is `const`: it cannot (and must not) touch the
				// object; the failed check just returns the zero value (cgen since cafbb40).
				touches := false
				for _, st := range g.Body {
					if hasSelfArrow(st.Toks) {
						touches = true
					}
				}
				if len(g.Body) < 1 || g.Body[len(g.Body)-1].Kind != "return" || touches {
					bad = append(bad, fmt.Sprintf("line %d: a failed argument check of a pure method must return without touching the (const) receiver", g.Line))
				}
			} else if len(g.Body) < 2 || core.CText(g.Body[0].Toks) != "self -> private_impl . magic = WUFFS_BASE__DISABLED" || g.Body[len(g.Body)-1].Kind != "return" {
				bad = append(bad, fmt.Sprintf("line %d: a failed argument check must disable the object and return", g.Line))
			} else if fn.f.Effect().Coroutine() && !isReturnOf(g.Body[len(g.Body)-1], "wuffs_base__error__bad_argument") {
				bad = append(bad, fmt.Sprintf("line %d: a failed argument check of a coroutine must return wuffs_base__error__bad_argument", g.Line))
			}
			*idx++
		}
		// No use of a pointer argument before the guard is possible: the guard is the first statement after the receiver guards.
	}
	c.Check(len(bad) == 0, "G2.args", anchor, "pointer/io-token parameters are null-checked and refined numeric parameters are range-checked against exactly their declared bounds before first use; failure disables the object (a pure method, whose receiver is const, returns the zero value instead)", len(want), strings.Join(bad, "\n"))
	return len(bad) == 0
}

// checkCoroutine: rules G3 and G4.
func checkCoroutine(c *core.Ctx, fn *c08fn, idx *int, ids map[string]string) {
	anchor := "generated C " + fn.cname
	var bad []string
	id := ""
	st := fn.stmts
	if *idx+1 >= len(st) {
		bad = append(bad, "missing active-coroutine guard")
	} else {
		g := st[*idx]
		atoms := splitTop(stripParens(g.Toks), "&&")
		ok := g.Kind == "if" && len(atoms) == 2 && normAtom(atoms[0]) == "self -> private_impl . active_coroutine != 0"
		if ok {
			a1 := strings.Fields(normAtom(atoms[1]))
			if len(a1) == 7 && strings.Join(a1[:6], " ") == "self -> private_impl . active_coroutine !=" {
				id = a1[6]
			} else {
				ok = false
			}
		}
		if !ok {
			bad = append(bad, fmt.Sprintf("line %d: expected `if ((self->private_impl.active_coroutine != 0) && (… != <id>))`, found `%s`", g.Line, g.Text()))
		} else {
			if len(g.Body) != 2 || core.CText(g.Body[0].Toks) != "self -> private_impl . magic = WUFFS_BASE__DISABLED" || !isReturnOf(g.Body[1], "wuffs_base__error__interleaved_coroutine_calls") {
				bad = append(bad, fmt.Sprintf("line %d: an interleaved call must disable the object and return interleaved_coroutine_calls", g.Line))
			}
			if id == "0" {
				bad = append(bad, "coroutine id 0 is reserved for 'none active'")
			}
			if other, dup := ids[id]; dup {
				bad = append(bad, fmt.Sprintf("coroutine id %s is also used by %s of the same struct", id, other))
			}
			ids[id] = fn.cname
			nx := st[*idx+1]
			if core.CText(nx.Toks) != "self -> private_impl . active_coroutine = 0" {
				bad = append(bad, fmt.Sprintf("line %d: expected `self->private_impl.active_coroutine = 0;` after the guard", nx.Line))
			}
			*idx += 2
		}
	}
	c.Check(len(bad) == 0, "G3.interleave", anchor, "calling a different coroutine while one is suspended disables the object and reports interleaved_coroutine_calls; coroutine ids are non-zero and unique per struct", 2, strings.Join(bad, "\n"))

	// G4: after `exit:` — if (is_error(&status)) magic = DISABLED; return status; and no other return after the prologue.
	bad = nil
	exitAt, suspendAt := -1, -1
	for i, s := range st {
		if s.Kind == "label" && s.Label == "exit" {
			exitAt = i
		}
		if s.Kind == "label" && s.Label == "suspend" {
			suspendAt = i
		}
	}
	if exitAt < 0 {
		bad = append(bad, "no top-level `exit:` label")
	} else {
		sawDisable := false
		for _, s := range st[exitAt+1:] {
			if s.Kind == "if" && core.CText(s.Toks) == "wuffs_base__status__is_error ( & status )" && len(s.Body) == 1 &&
				core.CText(s.Body[0].Toks) == "self -> private_impl . magic = WUFFS_BASE__DISABLED" {
				sawDisable = true
			}
			if s.Kind == "return" {
				if !sawDisable {
					bad = append(bad, fmt.Sprintf("line %d: `return` after exit: is not preceded by `if (wuffs_base__status__is_error(&status)) { self->private_impl.magic = WUFFS_BASE__DISABLED; }`", s.Line))
				}
				if core.CText(s.Toks) != "status" {
					bad = append(bad, fmt.Sprintf("line %d: the exit block returns `%s`, not status", s.Line, core.CText(s.Toks)))
				}
			}
		}
		// no return between the prologue guards and exit:
		core.CWalk(st[*idx:exitAt], func(s *core.CStmt) bool {
			if s.Kind == "return" {
				bad = append(bad, fmt.Sprintf("line %d: `return %s` bypasses the exit block (object not disabled on error, indexes not written back)", s.Line, core.CText(s.Toks)))
			}
			return true
		})
	}
	// suspend: records active_coroutine with the same id, when the function has suspension points.
	if suspendAt >= 0 && id != "" {
		found := false
		for _, s := range st[suspendAt+1:] {
			if s.Kind == "label" {
				break
			}
			if core.CText(s.Toks) == "self -> private_impl . active_coroutine = wuffs_base__status__is_suspension ( & status ) ? "+id+" : 0" {
				found = true
			}
		}
		if !found {
			bad = append(bad, "the suspend block does not record `active_coroutine = is_suspension(&status) ? "+id+" : 0`")
		}
	}
	c.Check(len(bad) == 0, "G4.disable", anchor, "a public coroutine leaves only through its exit block, which disables the object when the status is an error; suspension records the coroutine's own id", len(st), strings.Join(bad, "\n"))
}

// checkDerived: rule G5, for any function that declares iop_a_<x>.
func checkDerived(c *core.Ctx, fn *c08fn) bool {
	p, f := fn.p, fn.f
	type dv struct {
		name   string // a_src
		iop    string // iop_a_src
		field  string // ri | wi
		other  string // wi | ri
		loaded bool
	}
	var dvs []*dv
	for _, o := range f.In().Fields() {
		o := o.AsField()
		typ := o.XType()
		if !typ.IsIOTokenType() {
			continue
		}
		name := "a_" + p.str(o.Name())
		iop := "iop_" + name
		// is the derived pointer declared in this function?
		declared := false
		for _, s := range fn.stmts {
			if s.Kind == "expr" && core.CHasSeq(s.Toks, iop, "=", "NULL") {
				declared = true
			}
		}
		if !declared {
			continue
		}
		d := &dv{name: name, iop: iop}
		if typ.IsIOType() && typ.QID()[1] == t.IDIOReader || p.str(typ.QID()[1]) == "io_reader" || p.str(typ.QID()[1]) == "token_reader" {
			d.field, d.other = "ri", "wi"
		} else {
			d.field, d.other = "wi", "ri"
		}
		dvs = append(dvs, d)
	}
	if len(dvs) == 0 {
		return false
	}
	anchor := "generated C " + fn.cname
	var bad []string
	isLoad := func(s *core.CStmt, d *dv) bool {
		return s.Kind == "if" && core.CText(s.Toks) == d.name+" && "+d.name+" -> data . ptr" &&
			core.CHasSeq(stmtToks(s), "io1_"+d.name, "=", "io0_"+d.name, "+", d.name, "->", "meta", ".", d.field) &&
			core.CHasSeq(stmtToks(s), d.iop, "=", "io1_"+d.name)
	}
	isSave := func(s *core.CStmt, d *dv) bool {
		if s.Kind != "if" || len(s.Body) != 1 {
			return false
		}
		cond := core.CText(s.Toks)
		if cond != d.name+" && "+d.name+" -> data . ptr" && cond != d.name {
			return false
		}
		return core.CText(s.Body[0].Toks) == d.name+" -> meta . "+d.field+" = ( ( size_t ) ( "+d.iop+" - "+d.name+" -> data . ptr ) )"
	}
	isReload := func(s *core.CStmt, d *dv) bool {
		if s.Kind != "if" || len(s.Body) != 1 || core.CText(s.Toks) != d.name {
			return false
		}
		return core.CText(s.Body[0].Toks) == d.iop+" = "+d.name+" -> data . ptr + "+d.name+" -> meta . "+d.field
	}
	// initial load at top level
	loadAt := map[*dv]int{}
	for _, d := range dvs {
		loadAt[d] = -1
		for i, s := range fn.stmts {
			if isLoad(s, d) {
				loadAt[d] = i
				break
			}
		}
		if loadAt[d] < 0 {
			bad = append(bad, fmt.Sprintf("%s is declared but never loaded from %s->data.ptr + %s->meta.%s", d.iop, d.name, d.name, d.field))
		}
	}
	// every return after the load is preceded by the saves
	var walk func(list []*core.CStmt, top bool, start int)
	nRet := 0
	walk = func(list []*core.CStmt, top bool, start int) {
		for i, s := range list {
			if top && i < start {
				continue // the prologue guards precede the initial load
			}
			if s.Kind == "return" {
				nRet++
				for _, d := range dvs {
					if loadAt[d] < 0 {
						continue
					}
					found := false
					for j := i - 1; j >= 0; j-- {
						if list[j].Kind == "label" && !(list[j].Label == "exit") {
							break
						}
						if isSave(list[j], d) {
							found = true
							break
						}
						if list[j].Kind != "if" && list[j].Kind != "label" && list[j].Kind != "expr" {
							break
						}
					}
					if !found {
						bad = append(bad, fmt.Sprintf("line %d: `return %s` is not preceded by the write-back `%s->meta.%s = %s - %s->data.ptr`", s.Line, core.CText(s.Toks), d.name, d.field, d.iop, d.name))
					}
				}
			}
			walk(s.Body, false, 0)
			walk(s.Else, false, 0)
		}
	}
	minLoad := len(fn.stmts)
	for _, d := range dvs {
		if loadAt[d] >= 0 && loadAt[d] < minLoad {
			minLoad = loadAt[d]
		}
	}
	walk(fn.stmts, true, minLoad)
	// calls that are handed the buffer: saved before, reloaded after
	nCalls := 0
	var walkCalls func(list []*core.CStmt)
	walkCalls = func(list []*core.CStmt) {
		for i, s := range list {
			if s.Kind == "expr" {
				for _, d := range dvs {
					if passesBuffer(s.Toks, d.name) {
						nCalls++
						saved, reloaded := false, false
						for j := i - 1; j >= 0 && j >= i-6; j-- {
							if isSave(list[j], d) {
								saved = true
								break
							}
						}
						for j := i + 1; j < len(list) && j <= i+6; j++ {
							if isReload(list[j], d) {
								reloaded = true
								break
							}
						}
						if !saved {
							bad = append(bad, fmt.Sprintf("line %d: %s is passed to a callee without first writing back %s (the callee would see a stale %s)", s.Line, d.name, d.iop, d.field))
						}
						if !reloaded {
							bad = append(bad, fmt.Sprintf("line %d: %s is not reloaded from %s->meta.%s after the call (the caller would re-read or overwrite bytes)", s.Line, d.iop, d.name, d.field))
						}
					}
				}
			}
			walkCalls(s.Body)
			walkCalls(s.Else)
		}
	}
	walkCalls(fn.stmts)
	// Assignments to the *other* index, to data.ptr/data.len: only inside the two
	// save/restore idioms (io_limit narrows wi and restores it; io_forget_history
	// rebases the buffer and restores it with memcpy), and those idioms must be
	// paired within one block with no return/goto escaping in between.
	nIdioms := 0
	var scan func(list []*core.CStmt)
	scan = func(list []*core.CStmt) {
		allowed := map[int]bool{}
		for _, d := range dvs {
			for i, st := range list {
				tx := core.CText(st.Toks)
				// io_limit: `… o_K_io2_a_x = io2_a_x` … `io2_a_x = o_K_io2_a_x`
				if st.Kind == "expr" && strings.HasSuffix(tx, "= io2_"+d.name) && strings.Contains(tx, "o_") && strings.Contains(tx, "_io2_"+d.name+" =") {
					f := strings.Fields(tx)
					saved := f[len(f)-3]
					j := -1
					for m := i + 1; m < len(list); m++ {
						if core.CText(list[m].Toks) == "io2_"+d.name+" = "+saved {
							j = m
							break
						}
					}
					if j < 0 {
						bad = append(bad, fmt.Sprintf("line %d: io_limit narrows %s but the limit is never restored in the same block", st.Line, d.name))
						continue
					}
					nIdioms++
					// the `if (a_x)` right after the limit call and right after the restore may assign wi/closed
					for m := i + 1; m <= j+1 && m < len(list); m++ {
						if list[m].Kind == "if" && core.CText(list[m].Toks) == d.name && (m == j+1 || (m > i && m <= i+2)) {
							allowed[m] = true
						}
					}
					if esc := escapes(list[i+1 : j]); esc != "" {
						bad = append(bad, fmt.Sprintf("line %d: inside io_limit on %s: %s — the narrowed %s->meta.%s would not be restored", st.Line, d.name, esc, d.name, d.other))
					}
				}
				// io_forget_history: if (a_x) { memcpy(&o_K_a_x, a_x, …); … } … if (a_x) { memcpy(a_x, &o_K_a_x, …); … }
				if st.Kind == "if" && core.CText(st.Toks) == d.name {
					all := core.CText(stmtToks(st))
					if k := strings.Index(all, "memcpy ( & o_"); k >= 0 && strings.Contains(all, "_"+d.name+" , "+d.name+" , sizeof ( * "+d.name+" ) )") {
						name := strings.Fields(all[k:])[3]
						j := -1
						for m := i + 1; m < len(list); m++ {
							if list[m].Kind == "if" && core.CText(list[m].Toks) == d.name && strings.Contains(core.CText(stmtToks(list[m])), "memcpy ( "+d.name+" , & "+name+" , sizeof ( * "+d.name+" ) )") {
								j = m
								break
							}
						}
						if j < 0 {
							bad = append(bad, fmt.Sprintf("line %d: %s is rebased (io_forget_history) but never restored in the same block", st.Line, d.name))
							continue
						}
						nIdioms++
						allowed[i], allowed[j] = true, true
						if esc := escapes(list[i+1 : j]); esc != "" {
							bad = append(bad, fmt.Sprintf("line %d: inside io_forget_history on %s: %s — the rebased buffer would not be restored", st.Line, d.name, esc))
						}
					}
				}
			}
		}
		for i, st := range list {
			if !allowed[i] {
				for _, d := range dvs {
					toks := st.Toks
					for q := 0; q+5 < len(toks); q++ {
						if toks[q].Is(d.name) && toks[q+1].Is("->") {
							if toks[q+2].Is("meta") && toks[q+3].Is(".") && toks[q+4].Is(d.other) && isAssignOp(toks[q+5]) {
								bad = append(bad, fmt.Sprintf("line %d: generated code assigns %s->meta.%s outside the io_limit / io_forget_history save-restore idioms", toks[q].Line, d.name, d.other))
							}
							if toks[q+2].Is("data") && toks[q+3].Is(".") && (toks[q+4].Is("ptr") || toks[q+4].Is("len")) && isAssignOp(toks[q+5]) {
								bad = append(bad, fmt.Sprintf("line %d: generated code assigns %s->data.%s outside the io_forget_history save-restore idiom", toks[q].Line, d.name, toks[q+4].Text))
							}
						}
					}
				}
				scan(st.Body)
				scan(st.Else)
			}
		}
	}
	scan(fn.stmts)
	_ = nIdioms
	c.Check(len(bad) == 0, "G5.writeback", anchor, "each derived I/O pointer is loaded from its buffer's own index, written back before every return, saved/reloaded around calls that receive the buffer, and the other index / data.ptr / data.len are never assigned", nRet+nCalls+len(dvs), strings.Join(bad, "\n"))
	return true
}

// passesBuffer: the statement calls a wuffs_<pkg>__ function with the bare
// argument token a_x (not a field access, not the unchecked built-ins).
func passesBuffer(toks []core.CTok, name string) bool {
	for i := 0; i+1 < len(toks); i++ {
		if toks[i].Kind == 'i' && strings.HasPrefix(toks[i].Text, "wuffs_") && !strings.HasPrefix(toks[i].Text, "wuffs_base__") && !strings.HasPrefix(toks[i].Text, "wuffs_private_impl__") && toks[i+1].Is("(") {
			cl := -1
			depth := 0
			for j := i + 1; j < len(toks); j++ {
				if toks[j].Is("(") {
					depth++
				} else if toks[j].Is(")") {
					depth--
					if depth == 0 {
						cl = j
						break
					}
				}
			}
			if cl < 0 {
				continue
			}
			for _, arg := range splitTop(toks[i+2:cl], ",") {
				if len(arg) == 1 && arg[0].Is(name) {
					return true
				}
			}
		}
	}
	return false
}

// checkInitializer: rule G6.
func checkInitializer(c *core.Ctx, p *WPkg, s *a.Struct, cname string, cfn *core.CFunc, st []*core.CStmt) {
	anchor := "generated C " + cname
	var bad []string
	find := func(pred func(*core.CStmt) bool) int {
		for i, x := range st {
			if pred(x) {
				return i
			}
		}
		return -1
	}
	iNull := find(func(x *core.CStmt) bool {
		return x.Kind == "if" && core.CText(x.Toks) == "! self" && len(x.Body) == 1 && isReturnOf(x.Body[0], "wuffs_base__error__bad_receiver")
	})
	iSize := find(func(x *core.CStmt) bool {
		return x.Kind == "if" && core.CText(x.Toks) == "sizeof ( * self ) != sizeof_star_self" && len(x.Body) == 1 && isReturnOf(x.Body[0], "wuffs_base__error__bad_sizeof_receiver")
	})
	iVer := find(func(x *core.CStmt) bool {
		if x.Kind != "if" || len(x.Body) != 1 || !isReturnOf(x.Body[0], "wuffs_base__error__bad_wuffs_version") {
			return false
		}
		atoms := map[string]bool{}
		for _, at := range splitTop(stripParens(x.Toks), "||") {
			atoms[normAtom(at)] = true
		}
		return atoms["( wuffs_version >> 32 ) != WUFFS_VERSION_MAJOR"] && atoms["( ( wuffs_version >> 16 ) & 65535 ) > WUFFS_VERSION_MINOR"] && len(atoms) == 2
	})
	iZero := find(func(x *core.CStmt) bool {
		return x.Kind == "if" && core.CText(x.Toks) == "( options & WUFFS_INITIALIZE__ALREADY_ZEROED ) != 0"
	})
	if iNull != 0 {
		bad = append(bad, "first statement is not `if (!self) return bad_receiver`")
	}
	if iSize < 0 {
		bad = append(bad, "no `sizeof(*self) != sizeof_star_self` ⇒ bad_sizeof_receiver guard")
	}
	if iVer < 0 {
		bad = append(bad, "no version guard `(wuffs_version>>32) != MAJOR || ((wuffs_version>>16)&0xFFFF) > MINOR` ⇒ bad_wuffs_version")
	}
	if iZero < 0 {
		bad = append(bad, "no branch on WUFFS_INITIALIZE__ALREADY_ZEROED")
	}
	if len(bad) == 0 {
		if !(iNull < iSize && iSize < iZero && iVer < iZero) {
			bad = append(bad, "receiver/sizeof/version guards do not all precede the zeroing branch")
		}
		// no access through self before the zeroing branch other than sizeof(*self)
		for _, x := range st[:iZero] {
			if hasSelfArrow(stmtToks(x)) {
				bad = append(bad, fmt.Sprintf("line %d: *self is accessed before it has been validated/zeroed", x.Line))
			}
		}
		z := st[iZero]
		// then-arm: magic != 0 ⇒ falsely claimed
		okThen := false
		for _, x := range z.Body {
			if x.Kind == "if" && core.CText(x.Toks) == "self -> private_impl . magic != 0" && len(x.Body) == 1 && isReturnOf(x.Body[0], "wuffs_base__error__initialize_falsely_claimed_already_zeroed") {
				okThen = true
			}
		}
		if !okThen {
			bad = append(bad, "ALREADY_ZEROED arm does not reject a non-zero magic")
		}
		// else-arm: memset whole or private_impl
		okElse := false
		if len(z.Else) == 1 && z.Else[0].Kind == "if" && core.CText(z.Else[0].Toks) == "( options & WUFFS_INITIALIZE__LEAVE_INTERNAL_BUFFERS_UNINITIALIZED ) == 0" {
			e := z.Else[0]
			full, part := false, false
			for _, x := range e.Body {
				if core.CText(x.Toks) == "memset ( self , 0 , sizeof ( * self ) )" {
					full = true
				}
			}
			for _, x := range e.Else {
				if core.CText(x.Toks) == "memset ( & ( self -> private_impl ) , 0 , sizeof ( self -> private_impl ) )" {
					part = true
				}
			}
			okElse = full && part
		}
		if !okElse {
			bad = append(bad, "not-already-zeroed arm must memset(self,0,sizeof(*self)), or memset(&self->private_impl,…) under LEAVE_INTERNAL_BUFFERS_UNINITIALIZED")
		}
		// every private_impl assignment after the zeroing; magic = MAGIC last among them; sub-initializers checked
		magicAt := -1
		lastAssign := -1
		for i, x := range st {
			if i <= iZero {
				continue
			}
			tx := core.CText(x.Toks)
			if tx == "self -> private_impl . magic = WUFFS_BASE__MAGIC" {
				magicAt = i
			}
			if x.Kind == "expr" && strings.HasPrefix(tx, "self -> private_impl .") {
				lastAssign = i
			}
		}
		for i, x := range st[:iZero] {
			_ = i
			if x.Kind == "expr" && strings.HasPrefix(core.CText(x.Toks), "self -> private_impl .") {
				bad = append(bad, fmt.Sprintf("line %d: private_impl is assigned before the zeroing branch", x.Line))
			}
		}
		if magicAt < 0 {
			bad = append(bad, "magic is never set to WUFFS_BASE__MAGIC")
		}
		_ = lastAssign
		// sub-object initializers: each is a block { status z = X__initialize(&self->private_data.f, sizeof(...), WUFFS_VERSION, options); if (z.repr) return z; } before magic = MAGIC
		wantSubs := 0
		for _, fld := range s.Fields() {
			ft := fld.AsField().XType().Innermost()
			if ft.Decorator() == 0 && ft.QID()[0] != t.IDBase && ft.QID()[0] != 0 || (ft.Decorator() == 0 && ft.QID()[0] == 0 && isClassyLocal(p, ft.QID()[1])) {
				wantSubs++
			}
		}
		gotSubs := 0
		for i, x := range st {
			if x.Kind != "block" || i < iZero {
				continue
			}
			hasInit, hasCheck := false, false
			for _, y := range x.Body {
				ty := core.CText(y.Toks)
				if y.Kind == "expr" && strings.Contains(ty, "__initialize (") && strings.Contains(ty, "WUFFS_VERSION , options") && strings.HasPrefix(ty, "wuffs_base__status z =") {
					hasInit = true
				}
				if y.Kind == "if" && core.CText(y.Toks) == "z . repr" && len(y.Body) == 1 && isReturnOf(y.Body[0], "z") {
					hasCheck = true
				}
			}
			if hasInit {
				gotSubs++
				if !hasCheck {
					bad = append(bad, fmt.Sprintf("line %d: a sub-object initializer's status is not propagated", x.Line))
				}
				if magicAt >= 0 && i > magicAt {
					bad = append(bad, fmt.Sprintf("line %d: a sub-object is initialized after magic was set", x.Line))
				}
			}
		}
		if gotSubs < wantSubs {
			bad = append(bad, fmt.Sprintf("%d sub-object fields declared in std/%s but only %d initializer calls emitted", wantSubs, p.Name, gotSubs))
		}
	}
	c.Check(len(bad) == 0, "G6.initialize", anchor, "initialize validates receiver, sizeof and version before touching *self, zeroes private_impl (or all of *self), rejects a falsely claimed ALREADY_ZEROED, initializes sub-objects and propagates their status, and sets the magic only after all that", len(st), strings.Join(bad, "\n"))
}

func isClassyLocal(p *WPkg, id t.ID) bool {
	for _, s := range p.Structs {
		if s.QID()[1] == id {
			return s.Classy()
		}
	}
	return false
}

// runC08Cgen: tier-G rows on the prologue generator (cover programs outside std).
func runC08Cgen(c *core.Ctx) {
	k := newG(c, "./internal/cgen")
	if fl := k.flow("G7", "internal/cgen", "gen", "writeFuncImplPrologue"); fl != nil {
		selfMagic := k.fn("G7", "internal/cgen", "", "writeFuncImplSelfMagicCheck")
		argChecks := k.fn("G7", "internal/cgen", "gen", "writeFuncImplArgChecks")
		isPublic := func(e ast.Expr) bool { return callNamedOn(fl, e, "Public", nil) }
		recvZero := func(e ast.Expr) bool { return callNamedOn(fl, e, "IsZero", nil) }
		k.passChecked("G7.magic", fl.F.Name(), "for every public method with a receiver the prologue emits the receiver/magic guards first (writeFuncImplSelfMagicCheck)", fl,
			core.Query{Exit: fl.SuccessReturn, FuncEnd: true,
				Exempt: func(cond ast.Expr, ci *core.CondInfo, taken bool) bool {
					if taken {
						return false
					}
					parts := flattenAnd(cond)
					if len(parts) != 2 {
						return false
					}
					x, neg := boolCond(parts[1])
					return isPublic(parts[0]) && neg && recvZero(x)
				}}, fl.Call(selfMagic))
		k.passChecked("G7.args", fl.F.Name(), "for every public method the prologue emits the run-time argument checks (writeFuncImplArgChecks)", fl,
			core.Query{Exit: fl.SuccessReturn, FuncEnd: true,
				Exempt: func(cond ast.Expr, ci *core.CondInfo, taken bool) bool {
					return !taken && len(flattenAnd(cond)) == 1 && isPublic(cond)
				}}, fl.Call(argChecks))
		// ordering: nothing is written to b before the self/magic check.
		k.mustPass("G7.order", fl.F.Name(), "no output precedes the receiver/magic guards", fl, core.Query{
			Events: []core.Event{core.CallEvent(fl.Call(selfMagic))},
			Exit: func(n ast.Node) bool {
				return core.Guaranteed(n, func(call *ast.CallExpr) bool {
					fn := core.Callee(fl.F.Info(), call)
					return fn != nil && (fn.Name() == "writes" || fn.Name() == "printf" || fn.Name() == "writeb" || fn.Name() == "writex") && fl.Is(fl.Param(0))(core.RecvOf(call))
				}) || core.Guaranteed(n, fl.Call(argChecks))
			},
			Exempt: func(cond ast.Expr, ci *core.CondInfo, taken bool) bool {
				if taken {
					return false
				}
				parts := flattenAnd(cond)
				return len(parts) == 2 && isPublic(parts[0])
			}})
	}
	// writeFuncImplArgChecks: the switch over parameter classes.
	if fl := k.flow("G7", "internal/cgen", "gen", "writeFuncImplArgChecks"); fl != nil {
		hasIO, hasPtr, hasRefined := false, false, false
		ast.Inspect(fl.F.Decl.Body, func(m ast.Node) bool {
			cc, ok := m.(*ast.CaseClause)
			if !ok {
				return true
			}
			for _, e := range cc.List {
				if core.AnyCall(e, func(call *ast.CallExpr) bool {
					fn := core.Callee(fl.F.Info(), call)
					return fn != nil && fn.Name() == "IsIOTokenType"
				}) {
					hasIO = true
				}
				if core.AnyCall(e, func(call *ast.CallExpr) bool {
					fn := core.Callee(fl.F.Info(), call)
					return fn != nil && fn.Name() == "Decorator"
				}) {
					hasPtr = true
				}
				if core.AnyCall(e, func(call *ast.CallExpr) bool {
					fn := core.Callee(fl.F.Info(), call)
					return fn != nil && fn.Name() == "IsRefined"
				}) {
					hasRefined = true
				}
			}
			return true
		})
		c.Check(hasIO && hasPtr && hasRefined, "G7.classes", fl.F.Name(), "the argument-check generator has arms for io tokens, ptr types and refined numeric types (the classes the checker assumes at function entry)", 3, fmt.Sprintf("io=%v ptr=%v refined=%v", hasIO, hasPtr, hasRefined))
	}
	// epilogue: public ⇒ disable on error.
	if fl := k.flow("G7", "internal/cgen", "gen", "writeFuncImplEpilogue"); fl != nil {
		found := false
		ast.Inspect(fl.F.Decl.Body, func(m ast.Node) bool {
			if is, ok := m.(*ast.IfStmt); ok && callNamedOn(fl, is.Cond, "Public", nil) {
				ast.Inspect(is.Body, func(x ast.Node) bool {
					if bl, ok := x.(*ast.BasicLit); ok && strings.Contains(bl.Value, "wuffs_base__status__is_error(&status)") {
						found = true
					}
					return true
				})
				ast.Inspect(is.Body, func(x ast.Node) bool {
					if bl, ok := x.(*ast.BasicLit); ok && strings.Contains(bl.Value, "WUFFS_BASE__DISABLED") {
						found = found && true
					}
					return true
				})
			}
			return true
		})
		c.Check(found, "G7.epilogue", fl.F.Name(), "for public status-returning methods the epilogue generator emits the disable-on-error block", 1, "")
	}
}

// escapes reports a return, or a goto whose label is not defined inside the
// given statements, or a coroutine suspension point (which re-enters from the
// switch at the top of the function).
func escapes(list []*core.CStmt) string {
	labels := map[string]bool{}
	core.CWalk(list, func(s *core.CStmt) bool {
		if s.Kind == "label" {
			labels[s.Label] = true
		}
		return true
	})
	out := ""
	core.CWalk(list, func(s *core.CStmt) bool {
		if out != "" {
			return false
		}
		switch s.Kind {
		case "return":
			out = fmt.Sprintf("`return` at line %d", s.Line)
		case "goto":
			if !labels[s.Label] {
				out = fmt.Sprintf("`goto %s` at line %d leaves the block", s.Label, s.Line)
			}
		case "expr":
			if len(s.Toks) > 0 && strings.HasPrefix(s.Toks[0].Text, "WUFFS_BASE__COROUTINE_SUSPENSION_POINT") {
				out = fmt.Sprintf("a coroutine suspension point at line %d", s.Line)
			}
		}
		return true
	})
	return out
}
