package main

import (
	"fmt"
	"go/ast"
	"os"
	"strconv"
	"strings"

	"wv/core"
)

func init() {
	register("C04", core.Spec{
		Decides:     "three narrow structural clauses of C04 only. (1) cgen's operator table: every Wuffs unary, binary, associative and assignment operator is lowered to the C operator of the same meaning, where the expected C operator is derived from the operator constant's own name (…Plus → +, …LessEq → <=, TildeMod* → the plain operator, TildeSat*/As → no direct C operator), and no two distinct comparison operators share a lowering. (2) derived I/O pointers: in every generated function of std and the corpus, iop/io0/io1/io2 are loaded from the buffer's own index, written back before every return and saved/reloaded around every call that receives the buffer (the C08 G5 rule, evaluated here because it is a translation obligation). (3) struct initialisation: the generated initializer zeroes private_impl (or the whole struct) before arming it (C08 G6), which is what makes 'zero-initialised variables' true of fields. (4) loop lowering: no C `continue;` sits directly inside a do/while(0) (W1), per function no more do/while(0) loops than Wuffs loops that provably run once (W2), and cgen sets its run-once flag only past IsWhileTrue, !HasContinue and JumpTarget()==n (W3). (5) iterate: the generated rounds of every iterate statement visit exactly the chunk offsets the source defines (I2)",
		NotDecided:  "the substance of C04 — that expressions, casts and integer promotions, statement lowering other than the run-once idiom and the iterate chunk sequence (if/else chains, deep break/continue labels, loop bodies), every built-in method and SIMD intrinsic compute what the Wuffs source means for all inputs. That is translation correctness over all programs and needs a reference semantics; it is declined. Note that any cgen edit that changes std's generated C is reported by C20's snapshot comparison, which is not counted as C04 coverage",
		Assumptions: []string{"the Wuffs operator constants are named after the operator they denote (lang/token/list.go)", "the C statement parser and front end as in C08"},
	}, runC04)
}

var c04Words = map[string]string{
	"Plus": "+", "Minus": "-", "Star": "*", "Slash": "/", "ShiftL": "<<", "ShiftR": ">>", "Amp": "&", "Pipe": "|", "Hat": "^", "Percent": "%",
	"NotEq": "!=", "LessThan": "<", "LessEq": "<=", "EqEq": "==", "GreaterEq": ">=", "GreaterThan": ">", "And": "&&", "Or": "||", "Not": "!",
}

func runC04(c *core.Ctx) {
	k := newG(c, "./internal/cgen")
	p := k.g.Pkg("internal/cgen")
	var lit *ast.CompositeLit
	for _, f := range p.Syntax {
		ast.Inspect(f, func(m ast.Node) bool {
			vs, ok := m.(*ast.ValueSpec)
			if ok && len(vs.Names) == 1 && vs.Names[0].Name == "cOpNames" && len(vs.Values) == 1 {
				lit, _ = vs.Values[0].(*ast.CompositeLit)
			}
			return true
		})
	}
	if lit == nil {
		c.Undecided("X1.optable", "internal/cgen.cOpNames", "the operator table exists", "not found")
	} else {
		n := 0
		seenCmp := map[string]string{}
		for _, e := range lit.Elts {
			kv, ok := e.(*ast.KeyValueExpr)
			if !ok {
				continue
			}
			sel, ok := ast.Unparen(kv.Key).(*ast.SelectorExpr)
			vv := core.ConstVal(p.TypesInfo, kv.Value)
			if !ok || vv == nil {
				c.Undecided("X1.optable", "internal/cgen.cOpNames", "entries are token constant → string constant", core.Src(k.g.Fset, e))
				continue
			}
			name := sel.Sel.Name
			got, _ := strconv.Unquote(vv.ExactString())
			got = strings.TrimSpace(got)
			w := strings.TrimPrefix(name, "ID")
			isAssign := false
			for _, pre := range []string{"XBinary", "XAssociative", "XUnary"} {
				w = strings.TrimPrefix(w, pre)
			}
			if !strings.HasPrefix(name, "IDX") && strings.HasSuffix(w, "Eq") && w != "Eq" && w != "EqEq" && w != "NotEq" && w != "LessEq" && w != "GreaterEq" {
				isAssign = true
				w = strings.TrimSuffix(w, "Eq")
			}
			sat := strings.HasPrefix(w, "TildeSat")
			w = strings.TrimPrefix(strings.TrimPrefix(w, "TildeMod"), "TildeSat")
			want := ""
			switch {
			case name == "IDEq" || name == "IDEqQuestion":
				want = "="
			case sat || w == "As":
				want = "no direct C operator"
			default:
				op, ok := c04Words[w]
				if !ok {
					c.Undecided("X1.optable", "internal/cgen.cOpNames["+name+"]", "operator name is recognised", "cannot derive the operator from the name "+name)
					continue
				}
				want = op
				if isAssign {
					want += "="
				}
			}
			n++
			okEntry := got == want
			if want == "no direct C operator" {
				okEntry = !strings.ContainsAny(got, "+-*/<>=&|^%!") || strings.Contains(got, "no_such")
			}
			c.Check(okEntry, "X1.optable", "internal/cgen.cOpNames["+name+"]", fmt.Sprintf("Wuffs operator %s is lowered to the C operator `%s`", name, want), 1, fmt.Sprintf("%s: table says `%s`", k.g.Pos(kv.Pos()), got))
			if strings.HasPrefix(name, "IDXBinary") {
				switch w {
				case "NotEq", "LessThan", "LessEq", "EqEq", "GreaterEq", "GreaterThan":
					if other, dup := seenCmp[got]; dup {
						c.Fail("X1.distinct", "internal/cgen.cOpNames["+name+"]", "distinct comparison operators have distinct lowerings", 1, name+" and "+other+" both lower to `"+got+"`")
					}
					seenCmp[got] = name
				}
			}
		}
		c.Floor("X1", "operator table entries", n, 53)
	}

	// (2) + (3): generated C.
	cb := c.BuildC()
	if cb == nil {
		return
	}
	pkgs := loadStd(c, cb)
	pkgs = append(pkgs, loadCorpus(c, cb, "protocol")...)
	pkgs = append(pkgs, loadCorpus(c, cb, "liveness")...)
	pkgs = append(pkgs, loadCorpus(c, cb, "lowering")...)
	// (4) loop lowering: W1/W2 on the generated C, W3 on cgen (c04_loops.go);
	// (5) iterate rounds visit exactly the chunks the source defines (c03_iterate.go).
	checkLoopLowering(c, pkgs)
	checkIterates(c, pkgs, "C04")
	checkWhileGuard(k)
	nD, nI := 0, 0
	ist := initStats{}
	for _, pk := range pkgs {
		src, err := os.ReadFile(pk.CPath)
		if err != nil {
			c.Infra("%v", err)
		}
		cf := core.CParseFile(pk.CPath, string(src))
		for _, f := range pk.Funcs {
			cname := pk.funcCName(f)
			cfn := cf.ByNam[cname]
			if cfn == nil {
				continue
			}
			stmts, perr := core.CParseBody(cfn.Body)
			if perr != nil {
				c.Undecided("G0.parse", "generated C "+cname, "function body parses into a statement tree", perr.Error())
				continue
			}
			if checkDerived(c, &c08fn{pk, f, cname, cfn, stmts}) {
				nD++
			}
			checkLocalInit(c, &c08fn{pk, f, cname, cfn, stmts}, &ist)
		}
		for _, s := range pk.Structs {
			if !s.Classy() {
				continue
			}
			cname := pk.structCName(s) + "__initialize"
			cfn := cf.ByNam[cname]
			if cfn == nil {
				continue
			}
			stmts, perr := core.CParseBody(cfn.Body)
			if perr != nil {
				continue
			}
			nI++
			checkInitializer(c, pk, s, cname, cfn, stmts)
		}
	}
	c.Floor("G5", "functions with derived I/O pointers", nD, 100)
	c.Floor("Z1", "declarations of Wuffs locals in generated C", ist.decls, 1800)
	c.Floor("G6", "initializers", nI, 28)
}
