package main

// C17, rule D.alloc: "for arbitrary input bytes Decode returns data-plus-error
// without panicking and with output no larger than a fixed multiple of the
// input size". The decoders grow their output only by appending bytes they
// decoded (or copied) from the input. A size taken from a header field — 8
// untrusted bytes in a .lzma file — must never drive an allocation: `make`
// with it panics ("makeslice: cap out of range"), exhausts memory, or returns
// a buffer out of all proportion to the input (independently seeded change
// C17-4 pre-sized dst with `make([]byte, 0, len(dst)+int(size))`).
// Rule: in every function reachable (static calls inside the package) from
// FileFormat.Decode, each `make` has constant size arguments or sizes that are
// `len(x)` / `cap(x)` of a slice (± a constant); nothing else allocates with a
// computed size. A positive control keeps the zero-count rule from passing
// vacuously.

import (
	"go/ast"
	"go/token"
	"go/types"
	"sort"
	"strings"

	"wv/core"
)

func (r *c17) allocs() {
	k, c := r.k, r.c
	p := k.g.Pkg(relLzma)
	if p == nil {
		return
	}
	funcs := map[*types.Func]*core.Func{}
	for _, f := range k.g.AllFuncs(p) {
		funcs[f.Obj] = f
	}
	var entry *core.Func
	for _, f := range funcs {
		if f.Decl.Name.Name == "Decode" && f.Decl.Recv != nil {
			entry = f
		}
	}
	if entry == nil {
		c.Undecided("D.alloc", relLzma+".(FileFormat).Decode", "the decode entry point exists", "not found")
		return
	}
	// reachable set
	reach := map[*core.Func]bool{}
	var visit func(f *core.Func)
	visit = func(f *core.Func) {
		if reach[f] {
			return
		}
		reach[f] = true
		ast.Inspect(f.Decl.Body, func(n ast.Node) bool {
			if call, ok := n.(*ast.CallExpr); ok {
				if fn := core.Callee(f.Info(), call); fn != nil {
					if g, ok := funcs[fn]; ok {
						visit(g)
					}
				}
			}
			return true
		})
	}
	visit(entry)
	var names []string
	for f := range reach {
		names = append(names, f.Decl.Name.Name)
	}
	sort.Strings(names)
	c.Floor("D.alloc", "functions reachable from FileFormat.Decode", len(reach), 6)
	sizeOK := func(fl *core.Flow, info *types.Info, e ast.Expr) bool {
		depth := 0
		var ok func(e ast.Expr) bool
		ok = func(e ast.Expr) bool {
			e = ast.Unparen(e)
			if core.ConstVal(info, e) != nil {
				return true
			}
			switch x := e.(type) {
			case *ast.Ident:
				// a local all of whose definitions are acceptable sizes
				obj := fl.Obj(x)
				v, isVar := obj.(*types.Var)
				if !isVar || v.IsField() || depth > 4 {
					return false
				}
				defs := fl.Defs()[obj]
				if len(defs) == 0 {
					return false // a parameter
				}
				depth++
				defer func() { depth-- }()
				for _, d := range defs {
					if !ok(d) {
						return false
					}
				}
				return true
			case *ast.CallExpr:
				if id, isId := x.Fun.(*ast.Ident); isId && (id.Name == "len" || id.Name == "cap") && len(x.Args) == 1 {
					_, isB := info.Uses[id].(*types.Builtin)
					return isB
				}
				// integer conversion of an acceptable size
				if tv, isT := info.Types[x.Fun]; isT && tv.IsType() && len(x.Args) == 1 {
					return ok(x.Args[0])
				}
			case *ast.BinaryExpr:
				if x.Op == token.ADD || x.Op == token.SUB {
					return ok(x.X) && ok(x.Y)
				}
			}
			return false
		}
		return ok(e)
	}
	nAppend := 0
	for f := range reach {
		info := f.Info()
		fl := core.NewFlow(f)
		var bad []string
		sites := 0
		ast.Inspect(f.Decl.Body, func(n ast.Node) bool {
			call, isCall := n.(*ast.CallExpr)
			if !isCall {
				return true
			}
			id, isId := call.Fun.(*ast.Ident)
			if !isId {
				return true
			}
			if _, isB := info.Uses[id].(*types.Builtin); !isB {
				return true
			}
			switch id.Name {
			case "make":
				sites++
				for _, a := range call.Args[1:] {
					if !sizeOK(fl, info, a) {
						bad = append(bad, k.g.Pos(call.Pos())+": `"+core.Src(k.g.Fset, call)+"`: the size `"+core.Src(k.g.Fset, a)+"` is computed from something other than constants and slice lengths")
					}
				}
			case "new":
				sites++
			case "append":
				nAppend++
			}
			return true
		})
		anchor := f.Name()
		claim := "the decoder allocates only by appending decoded bytes: every make() in the decode call tree has constant or slice-length sizes, so no header field can drive an allocation (panic, memory exhaustion or an output out of proportion to the input)"
		if len(bad) > 0 {
			c.Fail("D.alloc", anchor, claim, sites, strings.Join(bad, "\n"))
		} else {
			c.Pass("D.alloc", anchor, claim, sites+1, k.g.Pos(f.Decl.Pos()))
		}
	}
	c.Floor("D.alloc.append", "append calls in the decode call tree (the only way the output grows)", nAppend, 2)
	// positive control: the classifier rejects a header-driven size and accepts a length-driven one
	ctl := `package p
func f(dst, src []byte, size uint64) []byte {
	a := make([]byte, 0, len(dst)+int(size))
	b := make([]byte, len(src)+4)
	_ = b
	return a
}`
	bads, goods := c17AllocControl(ctl)
	c.Check(bads == 1 && goods == 1, "D.alloc.control", "control program", "positive control: the size classifier reports make(…, len(dst)+int(size)) and accepts make(…, len(src)+4)", 2, "")
}

// c17AllocControl type-checks a tiny program and applies the same classifier.
func c17AllocControl(src string) (bad, good int) {
	fset := token.NewFileSet()
	f, err := parserParseFile(fset, src)
	if err != nil {
		return -1, -1
	}
	info := &types.Info{Types: map[ast.Expr]types.TypeAndValue{}, Uses: map[*ast.Ident]types.Object{}, Defs: map[*ast.Ident]types.Object{}}
	conf := types.Config{}
	if _, err := conf.Check("p", fset, []*ast.File{f}, info); err != nil {
		return -1, -1
	}
	var ok func(e ast.Expr) bool
	ok = func(e ast.Expr) bool {
		e = ast.Unparen(e)
		if tv, has := info.Types[e]; has && tv.Value != nil {
			return true
		}
		switch x := e.(type) {
		case *ast.CallExpr:
			if id, isId := x.Fun.(*ast.Ident); isId && (id.Name == "len" || id.Name == "cap") && len(x.Args) == 1 {
				_, isB := info.Uses[id].(*types.Builtin)
				return isB
			}
			if tv, isT := info.Types[x.Fun]; isT && tv.IsType() && len(x.Args) == 1 {
				return ok(x.Args[0])
			}
		case *ast.BinaryExpr:
			if x.Op == token.ADD || x.Op == token.SUB {
				return ok(x.X) && ok(x.Y)
			}
		}
		return false
	}
	ast.Inspect(f, func(n ast.Node) bool {
		call, isCall := n.(*ast.CallExpr)
		if !isCall {
			return true
		}
		if id, isId := call.Fun.(*ast.Ident); isId && id.Name == "make" {
			all := true
			for _, a := range call.Args[1:] {
				if !ok(a) {
					all = false
				}
			}
			if all {
				good++
			} else {
				bad++
			}
		}
		return true
	})
	return bad, good
}
