package main

// C15, family N: the per-node validation clauses of rNode.valid, decided
// structurally against the byte layout of doc/spec/rac-spec.md ("Branch
// Nodes", "Checksum", "Branch Node Validation").
//
// Two ingredients:
//   * index expressions are evaluated to LINEAR FORMS c + i·I + a·A over the
//     loop variable I and the arity A (through single-definition locals such as
//     size = 16·arity+16, base = 8·arity+8), and each loop's iteration range
//     [lo, hi] is itself a pair of linear forms in A; the set of offsets a loop
//     touches is then {off(lo), off(lo)+stride, …, off(hi)} and is compared with
//     the specification's layout;
//   * every rejecting test is an E1 obligation phrased as a *scenario*: assume
//     the node violates the clause (e.g. "the reserved byte is non-zero",
//     "curr < prev", "cPtr > cPtrMax and TTag != 0xFD", each over all concrete
//     values the scenario allows) — then every condition edge that is infeasible
//     under all those valuations discharges the path, and no path may reach the
//     next iteration / the accepting return undischarged. Conditions are
//     evaluated in three-valued logic over && || ! and comparisons, so `if bad
//     {return false}`, `if ok {continue}`, merged or split tests and mirrored
//     operands are all the same to the rule.

import (
	"fmt"
	"go/ast"
	"go/constant"
	"go/token"
	"go/types"
	"strings"

	"wv/core"
)

// c15Lin is c + i·I + a·A.
type c15Lin struct{ c, i, a int64 }

func (l c15Lin) String() string {
	var parts []string
	if l.a != 0 {
		parts = append(parts, fmt.Sprintf("%d·arity", l.a))
	}
	if l.i != 0 {
		parts = append(parts, fmt.Sprintf("%d·i", l.i))
	}
	if l.c != 0 || len(parts) == 0 {
		parts = append(parts, fmt.Sprintf("%d", l.c))
	}
	return strings.Join(parts, "+")
}

func (l c15Lin) add(m c15Lin, sign int64) c15Lin {
	return c15Lin{l.c + sign*m.c, l.i + sign*m.i, l.a + sign*m.a}
}
func (l c15Lin) scale(k int64) c15Lin { return c15Lin{l.c * k, l.i * k, l.a * k} }
func (l c15Lin) isConst() bool        { return l.i == 0 && l.a == 0 }

// at substitutes I := v (a linear form in A).
func (l c15Lin) at(v c15Lin) c15Lin {
	return c15Lin{l.c + l.i*v.c, 0, l.a + l.i*v.a}
}

// c15NodeCtx is the analysis context of rNode.valid.
type c15NodeCtx struct {
	x    *c15x
	fl   *core.Flow
	info *types.Info
	recv types.Object
	u48  *types.Func
}

func (nc *c15NodeCtx) isRecvExpr(e ast.Expr) bool {
	e = ast.Unparen(e)
	if s, ok := e.(*ast.StarExpr); ok {
		e = ast.Unparen(s.X)
	}
	id, ok := e.(*ast.Ident)
	return ok && nc.info.Uses[id] == nc.recv
}

// soleDef returns the right-hand side of a local's only definition.
func (nc *c15NodeCtx) soleDef(e ast.Expr) (ast.Expr, *types.Var) {
	v := c15LocalVar(nc.fl, e)
	if v == nil {
		return nil, nil
	}
	defs := c15Defs(nc.fl, v)
	if len(defs) != 1 || defs[0].Rhs == nil {
		return nil, v
	}
	return defs[0].Rhs, v
}

// lin evaluates an integer expression to a linear form; iv is the loop
// variable in scope (may be nil).
func (nc *c15NodeCtx) lin(e ast.Expr, iv *types.Var) (c15Lin, bool) {
	return nc.lin1(e, iv, 0)
}

func (nc *c15NodeCtx) lin1(e ast.Expr, iv *types.Var, depth int) (c15Lin, bool) {
	if depth > 6 {
		return c15Lin{}, false
	}
	e = c15Strip(nc.info, e)
	if v, ok := core.ConstInt64(nc.info, e); ok {
		return c15Lin{c: v}, true
	}
	switch t := e.(type) {
	case *ast.Ident:
		v := c15LocalVar(nc.fl, t)
		if v == nil {
			return c15Lin{}, false
		}
		if iv != nil && v == iv {
			return c15Lin{i: 1}, true
		}
		if rhs, _ := nc.soleDef(t); rhs != nil {
			return nc.lin1(rhs, iv, depth+1)
		}
	case *ast.IndexExpr:
		// int(b[3]) is the arity.
		if nc.isRecvExpr(t.X) {
			if k, ok := core.ConstInt64(nc.info, t.Index); ok && k == 3 {
				return c15Lin{a: 1}, true
			}
		}
	case *ast.BinaryExpr:
		l, lok := nc.lin1(t.X, iv, depth+1)
		r, rok := nc.lin1(t.Y, iv, depth+1)
		if !lok || !rok {
			return c15Lin{}, false
		}
		switch t.Op {
		case token.ADD:
			return l.add(r, 1), true
		case token.SUB:
			return l.add(r, -1), true
		case token.MUL:
			if l.isConst() {
				return r.scale(l.c), true
			}
			if r.isConst() {
				return l.scale(r.c), true
			}
		case token.SHL:
			if r.isConst() && r.c >= 0 && r.c < 32 {
				return l.scale(1 << uint(r.c)), true
			}
		}
	}
	return c15Lin{}, false
}

// byteAt: e denotes one byte of the node (b[off], possibly through a
// single-definition local such as `tTag := b[8*i+7]`); returns the offset.
func (nc *c15NodeCtx) byteAt(e ast.Expr, iv *types.Var) (c15Lin, bool) {
	for d := 0; d < 3; d++ {
		e = c15Strip(nc.info, e)
		if ix, ok := e.(*ast.IndexExpr); ok && nc.isRecvExpr(ix.X) {
			return nc.lin(ix.Index, iv)
		}
		rhs, _ := nc.soleDef(e)
		if rhs == nil {
			return c15Lin{}, false
		}
		e = rhs
	}
	return c15Lin{}, false
}

// wordAt: e denotes u48LE(b[off:]) (possibly through a single-definition local).
func (nc *c15NodeCtx) wordAt(e ast.Expr, iv *types.Var) (c15Lin, bool) {
	for d := 0; d < 3; d++ {
		e = ast.Unparen(e)
		if call, ok := e.(*ast.CallExpr); ok {
			if !core.IsCallTo(nc.info, call, nc.u48) || len(call.Args) != 1 {
				return c15Lin{}, false
			}
			sl, ok := ast.Unparen(call.Args[0]).(*ast.SliceExpr)
			if !ok || !nc.isRecvExpr(sl.X) || sl.High != nil || sl.Low == nil {
				return c15Lin{}, false
			}
			return nc.lin(sl.Low, iv)
		}
		rhs, _ := nc.soleDef(e)
		if rhs == nil {
			return c15Lin{}, false
		}
		e = rhs
	}
	return c15Lin{}, false
}

// ---- scenarios --------------------------------------------------------------

// c15Val is one symbolic quantity of a scenario with the concrete values it may take.
type c15Val struct {
	match func(e ast.Expr) bool
	vals  []int64
}

// c15Rel is an ordered pair of quantities with the possible signs of (x − y).
type c15Rel struct {
	x, y  func(e ast.Expr) bool
	signs []int
}

type c15Scenario struct {
	vals  []c15Val
	rels  []c15Rel
	bools map[types.Object]bool
}

// eval3 evaluates cond under one valuation (choice[k] indexes vals[k].vals,
// rsign[k] indexes rels[k].signs).
func (nc *c15NodeCtx) eval3(e ast.Expr, s *c15Scenario, choice, rsign []int) (bool, bool) {
	e = ast.Unparen(e)
	switch v := e.(type) {
	case *ast.Ident:
		if b, ok := s.bools[nc.fl.Obj(v)]; ok {
			return b, true
		}
		if tv, ok := nc.info.Types[v]; ok && tv.Value != nil && tv.Value.Kind() == constant.Bool {
			return constant.BoolVal(tv.Value), true
		}
	case *ast.UnaryExpr:
		if v.Op == token.NOT {
			b, ok := nc.eval3(v.X, s, choice, rsign)
			return !b, ok
		}
	case *ast.BinaryExpr:
		switch v.Op {
		case token.LAND:
			l, lok := nc.eval3(v.X, s, choice, rsign)
			r, rok := nc.eval3(v.Y, s, choice, rsign)
			if (lok && !l) || (rok && !r) {
				return false, true
			}
			return true, lok && rok
		case token.LOR:
			l, lok := nc.eval3(v.X, s, choice, rsign)
			r, rok := nc.eval3(v.Y, s, choice, rsign)
			if (lok && l) || (rok && r) {
				return true, true
			}
			return false, lok && rok
		case token.LSS, token.LEQ, token.GTR, token.GEQ, token.EQL, token.NEQ:
			for k, r := range s.rels {
				if r.x(v.X) && r.y(v.Y) {
					return c15RelEval(v.Op, int64(r.signs[rsign[k]]), 0), true
				}
				if r.y(v.X) && r.x(v.Y) {
					return c15RelEval(v.Op, int64(-r.signs[rsign[k]]), 0), true
				}
			}
			for k, q := range s.vals {
				if q.match(v.X) {
					if c, ok := core.ConstInt64(nc.info, v.Y); ok {
						return c15RelEval(v.Op, q.vals[choice[k]], c), true
					}
				}
				if q.match(v.Y) {
					if c, ok := core.ConstInt64(nc.info, v.X); ok {
						return c15RelEval(v.Op, c, q.vals[choice[k]]), true
					}
				}
			}
		}
	}
	return false, false
}

func c15RelEval(op token.Token, a, b int64) bool {
	v, _ := relEval(op, a, b)
	return v
}

// infeasible: the event "this edge cannot be followed under ANY valuation of the scenario".
func (nc *c15NodeCtx) infeasible(s *c15Scenario) core.Event {
	return core.Event{Edge: func(cond ast.Expr, ci *core.CondInfo, taken bool) bool {
		if ci != nil && ci.Kind == "tagswitch" {
			return false
		}
		choice := make([]int, len(s.vals))
		rsign := make([]int, len(s.rels))
		var rec func(k int) bool
		rec = func(k int) bool {
			if k < len(s.vals) {
				for j := range s.vals[k].vals {
					choice[k] = j
					if !rec(k + 1) {
						return false
					}
				}
				return true
			}
			kk := k - len(s.vals)
			if kk < len(s.rels) {
				for j := range s.rels[kk].signs {
					rsign[kk] = j
					if !rec(k + 1) {
						return false
					}
				}
				return true
			}
			v, known := nc.eval3(cond, s, choice, rsign)
			return known && v != taken
		}
		return rec(0)
	}}
}

func c15Range(lo, hi int64) []int64 {
	var out []int64
	for v := lo; v <= hi; v++ {
		out = append(out, v)
	}
	return out
}

func c15Except(vals []int64, x int64) []int64 {
	var out []int64
	for _, v := range vals {
		if v != x {
			out = append(out, v)
		}
	}
	return out
}

// ---- the rule family ----------------------------------------------------------

type c15NodeLoop struct {
	fs     *ast.ForStmt
	iv     *types.Var
	lo, hi c15Lin // inclusive range of the loop variable, linear in arity
	up     bool
	why    string // non-empty: range not decided
}

func c15Node(x *c15x) {
	c, k := x.c, x.k
	f := x.byObj[x.mValid]
	if f == nil {
		c.Undecided("N", c15Rac+".(*rNode).valid", "rNode.valid is found", "not found")
		return
	}
	fl := x.flow(f)
	u48 := k.fn("N", c15Rac, "", "u48LE")
	magic := k.obj("N", c15Rac, "magic")
	if fl.Recv() == nil || u48 == nil || magic == nil {
		c.Undecided("N", f.Name(), "receiver, u48LE and magic resolve", "anchor missing")
		return
	}
	nc := &c15NodeCtx{x: x, fl: fl, info: f.Info(), recv: fl.Recv(), u48: u48}
	info := nc.info
	anchor := f.Name()
	magicStr := ""
	if mc, ok := magic.(*types.Const); ok {
		magicStr = constStringVal(mc)
	}
	if len(magicStr) != 3 || magicStr != "\x72\xC3\x63" {
		c.Fail("N.magic.const", c15Rac+".magic", "the magic constant is the specification's three bytes 72 C3 63", 1, fmt.Sprintf("magic = % X", magicStr))
	} else {
		c.Pass("N.magic.const", c15Rac+".magic", "the magic constant is the specification's three bytes 72 C3 63", 3, "72 C3 63")
	}

	isAccept := func(n ast.Node) bool {
		r, ok := n.(*ast.ReturnStmt)
		if !ok || len(r.Results) != 1 {
			return false
		}
		tv, ok := info.Types[r.Results[0]]
		return !(ok && tv.Value != nil && tv.Value.String() == "false")
	}

	// N.result: the accepting return is codec().Valid().
	nAccept := 0
	ast.Inspect(f.Decl.Body, func(n ast.Node) bool {
		r, ok := n.(*ast.ReturnStmt)
		if !ok || !isAccept(r) {
			return true
		}
		nAccept++
		okRes := false
		for _, a := range flattenAnd(r.Results[0]) {
			if call, ok := ast.Unparen(a).(*ast.CallExpr); ok {
				fn := core.Callee(info, call)
				if fn != nil && fn.Name() == "Valid" && fn.Pkg() != nil && fn.Pkg().Path() == core.Mod+"/"+c15Rac {
					if inner, ok := ast.Unparen(core.RecvOf(call)).(*ast.CallExpr); ok {
						cfn := core.Callee(info, inner)
						if cfn != nil && cfn.Name() == "codec" && nc.isRecvExpr(core.RecvOf(inner)) {
							okRes = true
						}
					}
				}
			}
		}
		c.Check(okRes, "N.result", anchor, "the only non-false result of valid() is (a conjunction containing) b.codec().Valid(): a node whose codec byte / long-codec element is malformed is invalid", 1,
			k.g.Pos(r.Pos())+": `"+core.Src(k.g.Fset, r)+"`")
		return true
	})
	c.Floor("N.result", "accepting returns of rNode.valid", nAccept, 1)

	fq := func(s *c15Scenario) core.Query {
		return core.Query{Exit: isAccept, FuncEnd: true, Events: []core.Event{nc.infeasible(s)}}
	}
	byteOff := func(iv *types.Var, pred func(l c15Lin) bool) func(ast.Expr) bool {
		return func(e ast.Expr) bool {
			l, ok := nc.byteAt(e, iv)
			return ok && pred(l)
		}
	}
	wordOff := func(iv *types.Var, pred func(l c15Lin) bool) func(ast.Expr) bool {
		return func(e ast.Expr) bool {
			l, ok := nc.wordAt(e, iv)
			return ok && pred(l)
		}
	}
	eqLin := func(want c15Lin) func(c15Lin) bool { return func(l c15Lin) bool { return l == want } }
	nonzero := c15Range(1, 255)

	// ---- function-level clauses ----
	for kx := 0; kx < 3; kx++ {
		kk := int64(kx)
		want := int64(magicStrByte(magicStr, kx))
		isMagic := func(e ast.Expr) bool {
			e = c15Strip(info, e)
			if ix, ok := e.(*ast.IndexExpr); ok {
				if fl.Obj(ix.X) == magic {
					if v, ok := core.ConstInt64(info, ix.Index); ok && v == kk {
						return true
					}
				}
				return false
			}
			v, ok := core.ConstInt64(info, e)
			return ok && v == want
		}
		k.mustPass("N.magic", fmt.Sprintf("%s[byte %d]", anchor, kx),
			fmt.Sprintf("a node whose byte %d differs from magic[%d] is rejected on every path to the accepting return", kx, kx),
			fl, fq(&c15Scenario{rels: []c15Rel{{x: byteOff(nil, eqLin(c15Lin{c: kk})), y: isMagic, signs: []int{-1, 1}}}}))
	}
	arityIs := func(e ast.Expr) bool {
		if l, ok := nc.byteAt(e, nil); ok && l == (c15Lin{c: 3}) {
			return true
		}
		l, ok := nc.lin(e, nil)
		return ok && l == c15Lin{a: 1}
	}
	k.mustPass("N.arity.nonzero", anchor, "a node with Arity == 0 is rejected (spec: 'the two Arity values match and are non-zero')",
		fl, fq(&c15Scenario{vals: []c15Val{{match: arityIs, vals: []int64{0}}}}))
	k.mustPass("N.arity.copy", anchor, "a node whose Arity byte (offset 3) differs from its copy in the last byte (offset 16·arity+15) is rejected",
		fl, fq(&c15Scenario{rels: []c15Rel{{x: arityIs, y: byteOff(nil, eqLin(c15Lin{c: 15, a: 16})), signs: []int{-1, 1}}}}))
	k.mustPass("N.reserved.final", anchor, "a node whose Reserved byte next to DPtrMax (offset 8·arity+6) is non-zero is rejected",
		fl, fq(&c15Scenario{vals: []c15Val{{match: byteOff(nil, eqLin(c15Lin{c: 6, a: 8})), vals: nonzero}}}))
	k.mustPass("N.version", anchor, "a node whose Version byte (offset 16·arity+14) is zero is rejected",
		fl, fq(&c15Scenario{vals: []c15Val{{match: byteOff(nil, eqLin(c15Lin{c: 14, a: 16})), vals: []int64{0}}}}))

	// ---- checksum ----
	nc.checksum(anchor, isAccept)

	// ---- loops ----
	var loops []*c15NodeLoop
	ast.Inspect(f.Decl.Body, func(n ast.Node) bool {
		if fs, ok := n.(*ast.ForStmt); ok {
			loops = append(loops, nc.loopRange(fs))
		}
		return true
	})
	classify := func(lp *c15NodeLoop) string {
		hasD, hasC, hasE := false, false, false
		ast.Inspect(lp.fs.Body, func(n ast.Node) bool {
			e, ok := n.(ast.Expr)
			if !ok {
				return true
			}
			switch e.(type) {
			case *ast.CallExpr:
				if l, ok := nc.wordAt(e, lp.iv); ok && l.i != 0 {
					if l.a == 0 {
						hasD = true
					} else {
						hasC = true
					}
				}
			case *ast.IndexExpr:
				if l, ok := nc.byteAt(e, lp.iv); ok && l.i != 0 && l.a == 0 {
					hasE = true
				}
			}
			return true
		})
		switch {
		case hasD && !hasC:
			return "dptr"
		case hasC && !hasD:
			return "cptr"
		case hasD && hasC:
			return "mixed"
		case hasE:
			return "entries"
		}
		return ""
	}
	byKind := map[string]*c15NodeLoop{}
	for i, lp := range loops {
		kind := classify(lp)
		if kind == "" || kind == "mixed" || byKind[kind] != nil {
			c.Undecided("N.loops", fmt.Sprintf("%s[loop #%d]", anchor, i+1), "each loop of valid() is the entries loop (Reserved/TTag), the DPtr sortedness loop or the CPtr loop, once each",
				k.g.Pos(lp.fs.Pos())+": classified as `"+kind+"`")
			continue
		}
		byKind[kind] = lp
	}
	c.Floor("N.loops", "loops of rNode.valid recognised (entries, dptr, cptr)", len(byKind), 3)

	wired := func(lp *c15NodeLoop, name string) {
		k.mustPass("N.wired", fmt.Sprintf("%s[%s loop]", anchor, name), "the "+name+" loop lies on every path to the accepting return",
			fl, core.Query{Exit: isAccept, FuncEnd: true, Events: []core.Event{{Node: func(n ast.Node) bool { return n == ast.Node(lp.fs.Cond) }}}})
	}
	// offsets touched by a read with form `off` over the loop's range
	span := func(rule, what string, lp *c15NodeLoop, off c15Lin, first, last c15Lin, stride int64) {
		a := fmt.Sprintf("%s[%s]", anchor, what)
		claim := fmt.Sprintf("the loop reads %s at offsets %s, %s+%d, …, %s (spec layout), i.e. its range and index expression together cover exactly the specified entries", what, first, first, stride, last)
		if lp.why != "" {
			c.Undecided(rule, a, claim, k.g.Pos(lp.fs.Pos())+": iteration range not decided: "+lp.why)
			return
		}
		gotFirst, gotLast := off.at(lp.lo), off.at(lp.hi)
		st := off.i
		if st < 0 {
			gotFirst, gotLast, st = gotLast, gotFirst, -st
		}
		ok := gotFirst == first && gotLast == last && st == stride
		c.Check(ok, rule, a, claim, 3, fmt.Sprintf("%s: i ranges over [%s, %s]; index %s gives offsets %s … %s step %d; the specification requires %s … %s step %d",
			k.g.Pos(lp.fs.Pos()), lp.lo, lp.hi, off, gotFirst, gotLast, st, first, last, stride))
	}
	lq := func(lp *c15NodeLoop, evs ...core.Event) core.Query {
		return core.Query{Region: core.RegionOf(lp.fs.Body), FallOut: true, Exit: isAccept, Events: evs}
	}
	firstRead := func(lp *c15NodeLoop, word bool, pred func(c15Lin) bool) (c15Lin, bool) {
		var out c15Lin
		found := false
		ast.Inspect(lp.fs.Body, func(n ast.Node) bool {
			e, ok := n.(ast.Expr)
			if !ok || found {
				return !found
			}
			var l c15Lin
			var lok bool
			switch e.(type) {
			case *ast.CallExpr:
				if word {
					l, lok = nc.wordAt(e, lp.iv)
				}
			case *ast.IndexExpr:
				if !word {
					l, lok = nc.byteAt(e, lp.iv)
				}
			}
			if lok && pred(l) {
				out, found = l, true
			}
			return !found
		})
		return out, found
	}
	mod8 := func(r int64) func(c15Lin) bool {
		return func(l c15Lin) bool { return l.i != 0 && ((l.c%8)+8)%8 == r }
	}

	// entries loop
	if lp := byKind["entries"]; lp != nil {
		wired(lp, "entries")
		if off, ok := firstRead(lp, false, func(l c15Lin) bool { return mod8(6)(l) && l.a == 0 }); ok {
			span("N.range.entries", "Reserved[i]", lp, off, c15Lin{c: 6}, c15Lin{c: -2, a: 8}, 8)
			k.mustPass("N.entry.reserved", anchor+"[entries loop]", "an entry whose Reserved byte (offset 8i+6) is non-zero is rejected before the next iteration",
				fl, lq(lp, nc.infeasible(&c15Scenario{vals: []c15Val{{match: byteOff(lp.iv, eqLin(off)), vals: nonzero}}})))
		} else {
			c.Undecided("N.entry.reserved", anchor+"[entries loop]", "the entries loop reads Reserved[i] at 8i+6", "no such read")
		}
		toff, ok := firstRead(lp, false, func(l c15Lin) bool { return mod8(7)(l) && l.a == 0 })
		if !ok {
			c.Undecided("N.entry.ttag", anchor+"[entries loop]", "the entries loop reads TTag[i] at 8i+7", "no such read")
		} else {
			span("N.range.entries", "TTag[i]", lp, toff, c15Lin{c: 7}, c15Lin{c: -1, a: 8}, 8)
			isT := byteOff(lp.iv, eqLin(toff))
			k.mustPass("N.entry.ttag", anchor+"[entries loop]", "an entry whose TTag lies in the reserved range [0xC0, 0xFD) is rejected before the next iteration (all 61 values)",
				fl, lq(lp, nc.infeasible(&c15Scenario{vals: []c15Val{{match: isT, vals: c15Range(0xC0, 0xFC)}}})))
			nc.children(anchor, lp, isT, isAccept)
		}
	}
	// dptr loop
	if lp := byKind["dptr"]; lp != nil {
		wired(lp, "DPtr")
		nc.sorted(anchor, lp, span, lq)
	}
	// cptr loop
	if lp := byKind["cptr"]; lp != nil {
		wired(lp, "CPtr")
		if off, ok := firstRead(lp, true, func(l c15Lin) bool { return l.i != 0 && l.a != 0 }); ok {
			span("N.range.cptr", "CPtr[i]", lp, off, c15Lin{c: 8, a: 8}, c15Lin{a: 16}, 8)
			isC := wordOff(lp.iv, eqLin(off))
			isMax := func(e ast.Expr) bool {
				l, ok := nc.wordAt(e, nil)
				if !ok || l != (c15Lin{c: 8, a: 16}) {
					return false
				}
				// a local holding it must not be defined inside the loop from something else
				return true
			}
			// the TTag consulted must be the same entry's: offset = CPtr offset − (8·arity+8) + 7
			wantT := off.add(c15Lin{c: -1, a: -8}, 1)
			isT := byteOff(lp.iv, eqLin(wantT))
			k.mustPass("N.cptr.max", anchor+"[CPtr loop]",
				"an entry with CPtr[i] > CPtrMax (u48LE at 16·arity+8) whose own TTag (8i+7) is not 0xFD is rejected before the next iteration (all 255 TTag values)",
				fl, lq(lp, nc.infeasible(&c15Scenario{
					rels: []c15Rel{{x: isC, y: isMax, signs: []int{1}}},
					vals: []c15Val{{match: isT, vals: c15Except(c15Range(0, 255), 0xFD)}},
				})))
		} else {
			c.Undecided("N.cptr.max", anchor+"[CPtr loop]", "the CPtr loop reads CPtr[i] = u48LE(b[8i+8·arity+8:])", "no such read")
		}
	}
}

func constStringVal(c *types.Const) string {
	if c.Val().Kind() != constant.String {
		return ""
	}
	return constant.StringVal(c.Val())
}

func magicStrByte(s string, k int) byte {
	if k < len(s) {
		return s[k]
	}
	return 0
}

// loopRange decides the inclusive range of a counting loop as linear forms in arity.
func (nc *c15NodeCtx) loopRange(fs *ast.ForStmt) *c15NodeLoop {
	lp := &c15NodeLoop{fs: fs}
	fail := func(s string) *c15NodeLoop { lp.why = s; return lp }
	as, ok := fs.Init.(*ast.AssignStmt)
	if !ok || len(as.Lhs) != 1 || len(as.Rhs) != 1 || as.Tok != token.DEFINE {
		return fail("init is not `i := <expr>`")
	}
	id, _ := as.Lhs[0].(*ast.Ident)
	if id == nil {
		return fail("init does not define a variable")
	}
	iv, _ := nc.info.Defs[id].(*types.Var)
	if iv == nil {
		return fail("loop variable not resolved")
	}
	lp.iv = iv
	init, ok := nc.lin(as.Rhs[0], nil)
	if !ok || init.i != 0 {
		return fail("initial value is not linear in arity")
	}
	// step
	step := int64(0)
	switch p := fs.Post.(type) {
	case *ast.IncDecStmt:
		if c15LocalVar(nc.fl, p.X) == iv {
			if p.Tok == token.INC {
				step = 1
			} else {
				step = -1
			}
		}
	case *ast.AssignStmt:
		if len(p.Lhs) == 1 && len(p.Rhs) == 1 && c15LocalVar(nc.fl, p.Lhs[0]) == iv {
			if v, ok := core.ConstInt64(nc.info, p.Rhs[0]); ok {
				switch p.Tok {
				case token.ADD_ASSIGN:
					step = v
				case token.SUB_ASSIGN:
					step = -v
				}
			}
		}
	}
	if step != 1 && step != -1 {
		return fail("the post statement is not i++ / i-- (step ±1)")
	}
	// the loop variable is written nowhere else
	for _, d := range c15Defs(nc.fl, iv) {
		if d.Node != ast.Node(as) && d.Node != ast.Node(fs.Post) {
			return fail("the loop variable is written inside the body")
		}
	}
	if fs.Cond == nil {
		return fail("no loop condition")
	}
	l, r, op, ok := c15Cmp(fs.Cond)
	if !ok {
		return fail("the loop condition is not a comparison")
	}
	ll, lok := nc.lin(l, iv)
	rl, rok := nc.lin(r, iv)
	if !lok || !rok {
		return fail("the loop condition is not linear in (i, arity)")
	}
	// normalise to  i OP bound  with coefficient +1 on i on the left
	d := ll.add(rl, -1) // d OP 0
	if d.i == -1 {
		d = d.scale(-1)
		op = mirror(op)
	}
	if d.i != 1 {
		return fail("the loop variable does not occur with coefficient ±1 in the condition")
	}
	bound := c15Lin{c: -d.c, a: -d.a} // i OP bound
	// arity-dependent parts of the bound must not change in the loop: arity is a
	// single-definition local / b[3], which lin() already guarantees.
	switch {
	case step == 1 && op == token.LSS:
		lp.lo, lp.hi, lp.up = init, bound.add(c15Lin{c: 1}, -1), true
	case step == 1 && op == token.LEQ:
		lp.lo, lp.hi, lp.up = init, bound, true
	case step == -1 && op == token.GTR:
		lp.lo, lp.hi, lp.up = bound.add(c15Lin{c: 1}, 1), init, false
	case step == -1 && op == token.GEQ:
		lp.lo, lp.hi, lp.up = bound, init, false
	default:
		return fail("direction of the step and of the comparison do not form a bounded counting loop (e.g. `i != n`)")
	}
	return lp
}

// children: the hasChildren flag.
func (nc *c15NodeCtx) children(anchor string, lp *c15NodeLoop, isT func(ast.Expr) bool, isAccept func(ast.Node) bool) {
	c, k, fl, info := nc.x.c, nc.x.k, nc.fl, nc.info
	// the flag: a bool local assigned `true` inside the entries loop
	var flag *types.Var
	var sets []ast.Node
	ast.Inspect(lp.fs.Body, func(n ast.Node) bool {
		as, ok := n.(*ast.AssignStmt)
		if !ok || len(as.Lhs) != 1 || len(as.Rhs) != 1 {
			return true
		}
		if tv, ok := info.Types[as.Rhs[0]]; ok && tv.Value != nil && tv.Value.String() == "true" {
			if v := c15LocalVar(fl, as.Lhs[0]); v != nil {
				flag = v
			}
		}
		return true
	})
	if flag == nil {
		c.Undecided("N.children", anchor, "the entries loop records whether any entry is a child (TTag != 0xFD) in a boolean flag", "no `flag = true` in the entries loop")
		return
	}
	okDefs := true
	for _, d := range c15Defs(fl, flag) {
		tv, ok := info.Types[d.Rhs]
		switch {
		case d.Rhs == nil || !ok || tv.Value == nil:
			okDefs = false
		case tv.Value.String() == "true":
			if d.Node.Pos() >= lp.fs.Body.Pos() && d.Node.End() <= lp.fs.Body.End() {
				sets = append(sets, d.Node)
			} else {
				okDefs = false
			}
		case tv.Value.String() == "false":
			if !(d.Node.End() <= lp.fs.Pos()) {
				okDefs = false
			}
		}
	}
	c.Check(okDefs && len(sets) > 0, "N.children.defs", anchor, "the has-children flag starts false before the entries loop and is only ever set to true inside it", len(sets)+1,
		k.g.Pos(lp.fs.Pos())+": unexpected definition of "+flag.Name())
	for i, s := range sets {
		sn := s
		k.mustPass("N.children.set", fmt.Sprintf("%s[set #%d]", anchor, i+1),
			"the has-children flag is set only for an entry whose TTag is not 0xFD (a Codec Element is an attribute, not a child)",
			fl, core.Query{Region: core.RegionOf(lp.fs.Body), Exit: func(n ast.Node) bool { return n == sn },
				Events: []core.Event{nc.infeasible(&c15Scenario{vals: []c15Val{{match: isT, vals: []int64{0xFD}}}})}})
	}
	k.mustPass("N.children.guard", anchor, "a node without any child (flag still false) is rejected on every path to the accepting return",
		fl, core.Query{Exit: isAccept, FuncEnd: true, Events: []core.Event{nc.infeasible(&c15Scenario{bools: map[types.Object]bool{flag: false}})}})
}

// sorted: the DPtr loop.
func (nc *c15NodeCtx) sorted(anchor string, lp *c15NodeLoop,
	span func(rule, what string, lp *c15NodeLoop, off c15Lin, first, last c15Lin, stride int64),
	lq func(lp *c15NodeLoop, evs ...core.Event) core.Query) {
	c, k, fl, info := nc.x.c, nc.x.k, nc.fl, nc.info
	a := anchor + "[DPtr loop]"
	// curr: the u48LE read depending on i
	var off c15Lin
	found := false
	ast.Inspect(lp.fs.Body, func(n ast.Node) bool {
		if e, ok := n.(*ast.CallExpr); ok && !found {
			if l, ok := nc.wordAt(e, lp.iv); ok && l.i != 0 && l.a == 0 {
				off, found = l, true
			}
		}
		return !found
	})
	if !found {
		c.Undecided("N.sorted", a, "the loop reads DPtr[i] = u48LE(b[8i:])", "read not found")
		return
	}
	span("N.range.dptr", "DPtr[i]", lp, off, c15Lin{c: 8}, c15Lin{a: 8}, 8)
	if !lp.up && lp.why == "" {
		c.Undecided("N.sorted", a, "the sortedness loop ascends (prev is the previous, smaller-index DPtr)", "descending loop: prev/curr roles are not decided")
		return
	}
	isCurr := func(e ast.Expr) bool {
		l, ok := nc.wordAt(e, lp.iv)
		return ok && l == off
	}
	// prev: a local with exactly two definitions: the constant 0 before the loop
	// (DPtr[0] is implicitly zero) and `prev = curr` inside it.
	var prev *types.Var
	var upd ast.Node
	ast.Inspect(lp.fs.Body, func(n ast.Node) bool {
		as, ok := n.(*ast.AssignStmt)
		if ok && as.Tok == token.ASSIGN && len(as.Lhs) == 1 && len(as.Rhs) == 1 && isCurr(as.Rhs[0]) {
			if v := c15LocalVar(fl, as.Lhs[0]); v != nil {
				prev, upd = v, as
			}
		}
		return true
	})
	if prev == nil {
		c.Fail("N.sorted.prev", a, "the previous DPtr is carried in a variable that is set to the current DPtr in every iteration", 1,
			k.g.Pos(lp.fs.Pos())+": no `prev = curr` in the loop body")
		return
	}
	okDefs, nInit := true, 0
	for _, d := range c15Defs(fl, prev) {
		if d.Node == upd {
			continue
		}
		v, isC := int64(-1), false
		if d.Rhs != nil {
			v, isC = core.ConstInt64(info, c15Strip(info, d.Rhs))
		}
		if isC && v == 0 && d.Node.End() <= lp.fs.Pos() {
			nInit++
		} else {
			okDefs = false
		}
	}
	c.Check(okDefs && nInit == 1, "N.sorted.init", a, "prev starts as 0 (the implicit DPtr[0]) and is written only by `prev = curr`", 2,
		k.g.Pos(lp.fs.Pos())+": unexpected definitions of "+prev.Name())
	isPrev := func(e ast.Expr) bool { return c15LocalVar(fl, e) == prev }
	k.mustPass("N.sorted.prev", a, "prev is updated to curr on every path that continues to the next iteration (otherwise later DPtrs are compared with a stale value)",
		fl, lq(lp, core.Event{Node: func(n ast.Node) bool { return n == upd }}))
	k.mustPass("N.sorted.lt", a, "a DPtr smaller than its predecessor (curr < prev) is rejected before the next iteration: DOff values are non-decreasing up to and including DPtrMax",
		fl, lq(lp, nc.infeasible(&c15Scenario{rels: []c15Rel{{x: isCurr, y: isPrev, signs: []int{-1}}}})))
	// Codec Elements have empty DRanges (spec: "a Codec Element attribute, whose
	// DRange must be empty"). At iteration i the pair (prev, curr) = (DPtr[i-1],
	// DPtr[i]) is the DRange of element i-1, so the TTag to consult is TTag[i-1],
	// one byte below curr's offset: off − 8 + 7.
	wantT := off.add(c15Lin{c: -1}, 1)
	tOK := func(l c15Lin) bool { return l == wantT }
	var otherT []string
	ast.Inspect(lp.fs.Body, func(n ast.Node) bool {
		if e, ok := n.(*ast.IndexExpr); ok {
			if l, ok := nc.byteAt(e, lp.iv); ok && l.i != 0 && !tOK(l) {
				otherT = append(otherT, fmt.Sprintf("%s reads byte %s (TTag of a different element; element i-1's TTag is at %s)", k.g.Pos(e.Pos()), l, wantT))
			}
		}
		return true
	})
	isT := func(e ast.Expr) bool {
		l, ok := nc.byteAt(e, lp.iv)
		return ok && tOK(l)
	}
	k.mustPass("N.sorted.codec", a, "an element with a non-empty DRange (DPtr[i] > DPtr[i-1]) that is a 0xFD Codec Element — TTag[i-1], the byte just below DPtr[i] — is rejected: Codec Elements have empty DRanges; they are also exempt from CPtr <= CPtrMax, so accepting one as a chunk yields a primary range with low > high",
		fl, lq(lp, nc.infeasible(&c15Scenario{
			rels: []c15Rel{{x: isCurr, y: isPrev, signs: []int{1}}},
			vals: []c15Val{{match: isT, vals: []int64{0xFD}}},
		})))
	if len(otherT) > 0 {
		c.Info("N.sorted.codec", a, strings.Join(otherT, "; "))
	}
}

// checksum: crc32.ChecksumIEEE(b[6:size]) folded by c ^= c>>16, compared with bytes 4 and 5.
func (nc *c15NodeCtx) checksum(anchor string, isAccept func(ast.Node) bool) {
	c, k, fl, info := nc.x.c, nc.x.k, nc.fl, nc.info
	var ck *types.Var
	var crcDef, foldDef ast.Node
	bad := ""
	ast.Inspect(fl.F.Decl.Body, func(n ast.Node) bool {
		call, ok := n.(*ast.CallExpr)
		if !ok {
			return true
		}
		fn := core.Callee(info, call)
		if fn == nil || fn.FullName() != "hash/crc32.ChecksumIEEE" || len(call.Args) != 1 {
			return true
		}
		sl, ok := ast.Unparen(call.Args[0]).(*ast.SliceExpr)
		if !ok || !nc.isRecvExpr(sl.X) || sl.Low == nil || sl.High == nil {
			bad = "crc32.ChecksumIEEE is not applied to b[lo:hi]"
			return true
		}
		lo, lok := nc.lin(sl.Low, nil)
		hi, hok := nc.lin(sl.High, nil)
		if !lok || !hok || lo != (c15Lin{c: 6}) || hi != (c15Lin{c: 16, a: 16}) {
			bad = fmt.Sprintf("the checksummed range is [%s, %s), the specification's is [6, 16·arity+16)", lo, hi)
		}
		return true
	})
	// the variable holding it
	for obj, rhss := range fl.Defs() {
		for _, r := range rhss {
			if call, ok := c15Strip(info, r).(*ast.CallExpr); ok {
				if fn := core.Callee(info, call); fn != nil && fn.FullName() == "hash/crc32.ChecksumIEEE" {
					ck, _ = obj.(*types.Var)
				}
			}
		}
	}
	if ck == nil {
		c.Undecided("N.checksum", anchor, "the CRC-32 of the node is held in a local variable", "no `x := crc32.ChecksumIEEE(…)`")
		return
	}
	isCK := func(e ast.Expr) bool { return c15LocalVar(fl, ast.Unparen(e)) == ck }
	shrOf := func(e ast.Expr, s int64) bool {
		be, ok := ast.Unparen(e).(*ast.BinaryExpr)
		if !ok || be.Op != token.SHR || !isCK(be.X) {
			return false
		}
		v, ok := core.ConstInt64(info, be.Y)
		return ok && v == s
	}
	okDefs := true
	for _, d := range c15Defs(fl, ck) {
		as, _ := d.Node.(*ast.AssignStmt)
		switch {
		case d.Rhs != nil && as != nil && (as.Tok == token.DEFINE || as.Tok == token.ASSIGN) && func() bool {
			call, ok := c15Strip(info, d.Rhs).(*ast.CallExpr)
			if !ok {
				return false
			}
			fn := core.Callee(info, call)
			return fn != nil && fn.FullName() == "hash/crc32.ChecksumIEEE"
		}():
			crcDef = d.Node
		case as != nil && as.Tok == token.XOR_ASSIGN && len(as.Rhs) == 1 && shrOf(as.Rhs[0], 16):
			foldDef = d.Node
		case as != nil && as.Tok == token.ASSIGN && d.Rhs != nil && func() bool {
			be, ok := ast.Unparen(d.Rhs).(*ast.BinaryExpr)
			return ok && be.Op == token.XOR && ((isCK(be.X) && shrOf(be.Y, 16)) || (isCK(be.Y) && shrOf(be.X, 16)))
		}():
			foldDef = d.Node
		default:
			okDefs = false
		}
	}
	c.Check(bad == "" && okDefs && crcDef != nil && foldDef != nil, "N.checksum.value", anchor,
		"the checksum is crc32.ChecksumIEEE(b[6 : 16·arity+16]) folded once by c ^= c >> 16 (spec: low 16 bits XOR high 16 bits of the CRC-32 of the (16·arity+10) bytes after the Checksum), and nothing else writes it", 3,
		k.g.Pos(fl.F.Decl.Pos())+": "+bad+map[bool]string{true: "", false: " unexpected or missing definition of the checksum variable"}[okDefs && crcDef != nil && foldDef != nil])
	if crcDef == nil || foldDef == nil {
		return
	}
	// fold after crc; comparisons after fold
	k.mustPass("N.checksum.order", anchor+"[fold]", "the fold happens after the CRC is computed", fl,
		core.Query{Exit: func(n ast.Node) bool { return c15Within(n, foldDef) && !c15IsCompound(n) }, Events: []core.Event{{Node: func(n ast.Node) bool { return c15Within(n, crcDef) && !c15IsCompound(n) }}}})
	part := func(s int64) func(ast.Expr) bool {
		return func(e ast.Expr) bool {
			e = ast.Unparen(e)
			// uint8(ck >> s) / byte(ck >> s) / uint8(ck) for s == 0
			if call, ok := e.(*ast.CallExpr); ok && len(call.Args) == 1 {
				if tv, ok := info.Types[call.Fun]; ok && tv.IsType() {
					if bt, ok := tv.Type.Underlying().(*types.Basic); ok && bt.Kind() == types.Uint8 {
						return shrOf(call.Args[0], s) || (s == 0 && isCK(call.Args[0]))
					}
				}
				return false
			}
			// (ck >> s) & 0xFF
			if be, ok := e.(*ast.BinaryExpr); ok && be.Op == token.AND {
				for _, pr := range [][2]ast.Expr{{be.X, be.Y}, {be.Y, be.X}} {
					if v, ok := core.ConstInt64(info, pr[1]); ok && v == 0xFF && (shrOf(pr[0], s) || (s == 0 && isCK(pr[0]))) {
						return true
					}
				}
			}
			return false
		}
	}
	byteIs := func(off int64) func(ast.Expr) bool {
		return func(e ast.Expr) bool {
			// allow a widening conversion around b[off] when compared with the & 0xFF form
			l, ok := nc.byteAt(e, nil)
			return ok && l == c15Lin{c: off}
		}
	}
	for _, h := range []struct {
		rule string
		off  int64
		sh   int64
	}{{"N.checksum.lo", 4, 0}, {"N.checksum.hi", 5, 8}} {
		k.mustPass(h.rule, anchor, fmt.Sprintf("a node whose byte %d differs from bits %d..%d of the folded checksum is rejected on every path to the accepting return", h.off, h.sh, h.sh+7),
			fl, core.Query{Exit: isAccept, FuncEnd: true, Events: []core.Event{nc.infeasible(&c15Scenario{rels: []c15Rel{{x: byteIs(h.off), y: part(h.sh), signs: []int{-1, 1}}}})}})
	}
	// the comparisons use the folded value: every condition mentioning the checksum variable comes after the fold
	k.mustPass("N.checksum.order", anchor+"[compare]", "every test that reads the checksum variable comes after the fold", fl,
		core.Query{Exit: func(n ast.Node) bool {
			if c15Within(n, foldDef) || c15Within(n, crcDef) {
				return false
			}
			e, ok := n.(ast.Expr)
			return ok && core.Mentions(info, e, ck)
		}, Events: []core.Event{{Node: func(n ast.Node) bool { return c15Within(n, foldDef) && !c15IsCompound(n) }}}})
}
