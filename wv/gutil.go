package main

import (
	"fmt"
	"go/ast"
	"go/constant"
	"go/token"
	"go/types"
	"sort"
	"strings"

	"wv/core"
)

// gctx: shared helpers for tier-G (Go program) rules.
type gctx struct {
	c     *core.Ctx
	g     *core.GoProg
	flows map[string]*core.Flow
}

func newG(c *core.Ctx, patterns ...string) *gctx {
	g := c.LoadGo(patterns...)
	names := []string{}
	nfun := 0
	for _, p := range g.ModulePkgs() {
		names = append(names, strings.TrimPrefix(p.PkgPath, core.Mod+"/"))
		nfun += len(g.AllFuncs(p))
	}
	c.Analysed("go_packages", names)
	c.Analysed("go_functions_loaded", nfun)
	return &gctx{c: c, g: g, flows: map[string]*core.Flow{}}
}

// flow resolves a function and builds its CFG; a missing anchor is recorded
// as undecided under the given rule and nil is returned.
func (k *gctx) flow(rule, rel, recv, name string) *core.Flow {
	key := rel + "|" + recv + "|" + name
	if fl, ok := k.flows[key]; ok {
		return fl
	}
	f := k.g.FindFunc(rel, recv, name)
	if f == nil {
		anchor := rel + "." + name
		if recv != "" {
			anchor = rel + ".(" + recv + ")." + name
		}
		k.c.Undecided(rule, anchor, "anchor function exists", "anchor function not found in /repo's working tree: the obligation cannot be located")
		k.flows[key] = nil
		return nil
	}
	fl := core.NewFlow(f)
	k.flows[key] = fl
	return fl
}

// fn resolves a function object (for use as a required callee).
func (k *gctx) fn(rule, rel, recv, name string) *types.Func {
	fl := k.flow(rule, rel, recv, name)
	if fl == nil {
		return nil
	}
	return fl.F.Obj
}

// obj resolves a package-level object; records undecided when missing.
func (k *gctx) obj(rule, rel, name string) types.Object {
	o := k.g.LookupObj(rel, name)
	if o == nil {
		k.c.Undecided(rule, rel+"."+name, "anchor object exists", "package-level object not found")
	}
	return o
}

// mustPass evaluates an E1 query and records the verdict.
func (k *gctx) mustPass(rule, anchor, claim string, fl *core.Flow, q core.Query) bool {
	if fl == nil {
		return false
	}
	esc, sites := fl.Escapes(q)
	if len(esc) == 0 {
		if sites == 0 {
			k.c.Undecided(rule, anchor, claim, "the region/start of this obligation matched no CFG node (vacuous)")
			return false
		}
		k.c.Pass(rule, anchor, claim, sites, fmt.Sprintf("%s: all paths discharge the obligation (%d CFG nodes/exits examined)", k.g.Pos(fl.F.Decl.Pos()), sites))
		return true
	}
	var lines []string
	for _, e := range esc {
		lines = append(lines, e.String())
	}
	k.c.Fail(rule, anchor, claim, sites, fmt.Sprintf("in %s (%s):\n%s", fl.F.Name(), k.g.Pos(fl.F.Decl.Pos()), strings.Join(lines, "\n")))
	return false
}

// bigVarVal: value of a package-level *big.Int variable initialised with
// big.NewInt(<const>) (the repository's idiom for small constants).
func (k *gctx) bigVarVal(obj types.Object) (int64, bool) {
	v, ok := obj.(*types.Var)
	if !ok || v.Pkg() == nil {
		return 0, false
	}
	p := k.g.ByPth[v.Pkg().Path()]
	if p == nil {
		return 0, false
	}
	for _, f := range p.Syntax {
		for _, d := range f.Decls {
			gd, ok := d.(*ast.GenDecl)
			if !ok || gd.Tok != token.VAR {
				continue
			}
			for _, s := range gd.Specs {
				vs := s.(*ast.ValueSpec)
				for i, id := range vs.Names {
					if p.TypesInfo.Defs[id] != obj || i >= len(vs.Values) {
						continue
					}
					return bigNewIntVal(p.TypesInfo, vs.Values[i])
				}
			}
		}
	}
	return 0, false
}

// bigNewIntVal: e is big.NewInt(<const int>).
func bigNewIntVal(info *types.Info, e ast.Expr) (int64, bool) {
	call, ok := ast.Unparen(e).(*ast.CallExpr)
	if !ok || len(call.Args) != 1 {
		return 0, false
	}
	fn := core.Callee(info, call)
	if fn == nil || fn.FullName() != "math/big.NewInt" {
		return 0, false
	}
	return core.ConstInt64(info, call.Args[0])
}

// ---- condition patterns ----

// flattenOr splits a || b || c (through parentheses).
func flattenOr(e ast.Expr) []ast.Expr {
	e = ast.Unparen(e)
	if b, ok := e.(*ast.BinaryExpr); ok && b.Op == token.LOR {
		return append(flattenOr(b.X), flattenOr(b.Y)...)
	}
	return []ast.Expr{e}
}

func flattenAnd(e ast.Expr) []ast.Expr {
	e = ast.Unparen(e)
	if b, ok := e.(*ast.BinaryExpr); ok && b.Op == token.LAND {
		return append(flattenAnd(b.X), flattenAnd(b.Y)...)
	}
	return []ast.Expr{e}
}

// relEval evaluates `a REL b` for small ints.
func relEval(op token.Token, a, b int64) (bool, bool) {
	switch op {
	case token.LSS:
		return a < b, true
	case token.LEQ:
		return a <= b, true
	case token.GTR:
		return a > b, true
	case token.GEQ:
		return a >= b, true
	case token.EQL:
		return a == b, true
	case token.NEQ:
		return a != b, true
	}
	return false, false
}

func mirror(op token.Token) token.Token {
	switch op {
	case token.LSS:
		return token.GTR
	case token.LEQ:
		return token.GEQ
	case token.GTR:
		return token.LSS
	case token.GEQ:
		return token.LEQ
	}
	return op
}

// signSet: cond is `T.Sign() REL k` (either operand order) where T satisfies
// target. Returns the set of sign values {-1,0,+1} for which cond is true,
// as a string like "-0" / "-" / "0+" ….
func signSet(fl *core.Flow, cond ast.Expr, target core.ExprPred) (string, bool) {
	info := fl.F.Info()
	b, ok := ast.Unparen(cond).(*ast.BinaryExpr)
	if !ok {
		return "", false
	}
	x, y, op := ast.Unparen(b.X), ast.Unparen(b.Y), b.Op
	isSign := func(e ast.Expr) bool {
		call, ok := e.(*ast.CallExpr)
		if !ok {
			return false
		}
		fn := core.Callee(info, call)
		if fn == nil || fn.FullName() != "(*math/big.Int).Sign" {
			return false
		}
		r := core.RecvOf(call)
		return r != nil && target(r)
	}
	var kexpr ast.Expr
	switch {
	case isSign(x):
		kexpr = y
	case isSign(y):
		kexpr = x
		op = mirror(op)
	default:
		return "", false
	}
	kv, ok := core.ConstInt64(info, kexpr)
	if !ok {
		return "", false
	}
	out := ""
	for i, s := range []int64{-1, 0, 1} {
		t, ok := relEval(op, s, kv)
		if !ok {
			return "", false
		}
		if t {
			out += string("-0+"[i])
		}
	}
	return out, true
}

// boundElem: e is V[i] with V satisfying v and constant index i.
func boundElem(fl *core.Flow, e ast.Expr, v core.ExprPred, i int64) bool {
	ix, ok := ast.Unparen(e).(*ast.IndexExpr)
	if !ok || !v(ix.X) {
		return false
	}
	k, ok := core.ConstInt64(fl.F.Info(), ix.Index)
	return ok && k == i
}

// cmpAtom: e is `A.Cmp(B) REL 0` (or `0 REL A.Cmp(B)`); returns A, B and the
// relation REL such that the atom means `A REL B`.
func cmpAtom(fl *core.Flow, e ast.Expr) (a, b ast.Expr, rel token.Token, ok bool) {
	info := fl.F.Info()
	be, isb := ast.Unparen(e).(*ast.BinaryExpr)
	if !isb {
		return nil, nil, 0, false
	}
	x, y, op := ast.Unparen(be.X), ast.Unparen(be.Y), be.Op
	getCmp := func(e ast.Expr) (ast.Expr, ast.Expr, bool) {
		call, ok := e.(*ast.CallExpr)
		if !ok || len(call.Args) != 1 {
			return nil, nil, false
		}
		fn := core.Callee(info, call)
		if fn == nil || fn.FullName() != "(*math/big.Int).Cmp" {
			return nil, nil, false
		}
		return core.RecvOf(call), call.Args[0], true
	}
	if ca, cb, ok := getCmp(x); ok {
		if k, isk := core.ConstInt64(info, y); isk && k == 0 {
			return ca, cb, op, true
		}
		return nil, nil, 0, false
	}
	if ca, cb, ok := getCmp(y); ok {
		if k, isk := core.ConstInt64(info, x); isk && k == 0 {
			return ca, cb, mirror(op), true
		}
	}
	return nil, nil, 0, false
}

// containmentViolated: cond is a disjunction containing an atom equivalent to
// inner[0] < outer[0] and an atom equivalent to inner[1] > outer[1].
func containmentViolated(fl *core.Flow, cond ast.Expr, inner, outer core.ExprPred) bool {
	lo, hi := false, false
	for _, at := range flattenOr(cond) {
		a, b, rel, ok := cmpAtom(fl, at)
		if !ok {
			continue
		}
		// inner[0] < outer[0]  or  outer[0] > inner[0]
		if (rel == token.LSS && boundElem(fl, a, inner, 0) && boundElem(fl, b, outer, 0)) ||
			(rel == token.GTR && boundElem(fl, a, outer, 0) && boundElem(fl, b, inner, 0)) {
			lo = true
		}
		if (rel == token.GTR && boundElem(fl, a, inner, 1) && boundElem(fl, b, outer, 1)) ||
			(rel == token.LSS && boundElem(fl, a, outer, 1) && boundElem(fl, b, inner, 1)) {
			hi = true
		}
	}
	return lo && hi
}

// nilTest: cond is `X == nil` (eq=true) or `X != nil` (eq=false), X satisfying p.
func nilTest(fl *core.Flow, cond ast.Expr, p core.ExprPred, eq bool) bool {
	b, ok := ast.Unparen(cond).(*ast.BinaryExpr)
	if !ok {
		return false
	}
	want := token.NEQ
	if eq {
		want = token.EQL
	}
	if b.Op != want {
		return false
	}
	info := fl.F.Info()
	if core.IsNilIdent(info, b.Y) {
		return p(b.X)
	}
	if core.IsNilIdent(info, b.X) {
		return p(b.Y)
	}
	return false
}

// eqTest: cond is `X == Y` / `X != Y` with X,Y satisfying p and q in either order.
func eqTest(fl *core.Flow, cond ast.Expr, p, q core.ExprPred, eq bool) bool {
	b, ok := ast.Unparen(cond).(*ast.BinaryExpr)
	if !ok {
		return false
	}
	want := token.NEQ
	if eq {
		want = token.EQL
	}
	if b.Op != want {
		return false
	}
	return (p(b.X) && q(b.Y)) || (p(b.Y) && q(b.X))
}

// localOfType returns the variables among objs whose type string ends with suffix.
func varsOfType(objs []types.Object, suffix string) []types.Object {
	var out []types.Object
	for _, o := range objs {
		if strings.HasSuffix(types.Unalias(o.Type()).String(), suffix) {
			out = append(out, o)
		}
	}
	sort.Slice(out, func(i, j int) bool { return out[i].Pos() < out[j].Pos() })
	return out
}

// anyOf builds a predicate matching any of the objects.
func anyOf(fl *core.Flow, objs []types.Object) core.ExprPred {
	return func(e ast.Expr) bool {
		o := fl.Obj(e)
		if o == nil {
			return false
		}
		for _, x := range objs {
			if x == o {
				return true
			}
		}
		return false
	}
}

// constStr / constInt of a package-level constant object.
func constOf(o types.Object) constant.Value {
	if c, ok := o.(*types.Const); ok {
		return c.Val()
	}
	return nil
}

// errVarFrom returns a predicate for `err` variables defined by a call
// satisfying pred (e.g. `err := q.foo(…)` or `if err := …`).
func errVarFrom(fl *core.Flow, pred func(*ast.CallExpr) bool) core.ExprPred {
	vars := fl.VarsDenoting(func(e ast.Expr) bool {
		call, ok := ast.Unparen(e).(*ast.CallExpr)
		return ok && pred(call)
	})
	var errs []types.Object
	for _, v := range vars {
		if v.Type().String() == "error" {
			errs = append(errs, v)
		}
	}
	return anyOf(fl, errs)
}

// passChecked records two obligations for "call X happens on every path to an
// exit, and its error result is tested (non-nil ⇒ the path does not continue)":
//
//	<rule>.call  — must-pass-through X;
//	<rule>.err   — from X, every path to an exit passes the false edge of
//	               `err != nil` (err defined by X), or X sits in a return.
func (k *gctx) passChecked(rule, anchor, claim string, fl *core.Flow, q core.Query, call func(*ast.CallExpr) bool) bool {
	if fl == nil {
		return false
	}
	q1 := q
	q1.Events = append(append([]core.Event{}, q.Events...), core.CallEvent(call))
	ok1 := k.mustPass(rule+".call", anchor, claim, fl, q1)
	errv := errVarFrom(fl, call)
	q2 := q
	q2.Start = func(n ast.Node) bool {
		if _, isRet := n.(*ast.ReturnStmt); isRet {
			return false // `return X(…)`: the caller sees the error
		}
		return core.Guaranteed(n, call)
	}
	q2.Events = []core.Event{{Edge: func(cond ast.Expr, ci *core.CondInfo, taken bool) bool {
		return !taken && nilTest(fl, cond, errv, false)
	}}}
	esc, sites := fl.Escapes(q2)
	claim2 := claim + " — and a non-nil error from it stops the path"
	if len(esc) == 0 {
		k.c.Pass(rule+".err", anchor, claim2, sites, "error result tested on every continuation")
		return ok1
	}
	var lines []string
	for _, e := range esc {
		lines = append(lines, e.String())
	}
	k.c.Fail(rule+".err", anchor, claim2, sites, fmt.Sprintf("in %s:\n%s", fl.F.Name(), strings.Join(lines, "\n")))
	return false
}
