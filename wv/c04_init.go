package main

// Z1.init (C04): "zero-initialised variables". Wuffs gives every local
// variable the value zero at function entry; cgen implements that by emitting
// every `v_x` declaration with an initialiser (`= 0`, `= {0}`, `= NULL`,
// `= wuffs_base__make_…(…)`). A declaration without one leaves the local with
// whatever the C stack holds: the function then computes from garbage on the
// paths that read the local before writing it (independently seeded change
// C04-3 dropped `= {0}` for array locals that are saved across suspensions:
// "they are memcpy'ed from the saved copy anyway" — but only on resume).
// Decided on the statement trees of every generated function of std and the
// corpora; nothing is executed.

import (
	"fmt"
	"regexp"
	"strings"

	"wv/core"
)

var reLocalName = regexp.MustCompile(`^v_[A-Za-z0-9_]+$`)

// localDecl: the statement declares a v_ local; returns its name and whether
// the declaration has an initialiser.
func localDecl(s *core.CStmt) (name string, hasInit bool, ok bool) {
	if s.Kind != "expr" || len(s.Toks) < 2 {
		return "", false, false
	}
	k := -1
	for i, t := range s.Toks {
		if reLocalName.MatchString(t.Text) {
			k = i
			break
		}
		// everything before the name must be type tokens
		switch {
		case t.Text == "*" || t.Text == "const" || t.Text == "struct" || t.Text == "unsigned" || t.Text == "volatile":
		case regexp.MustCompile(`^[A-Za-z_][A-Za-z0-9_]*$`).MatchString(t.Text):
		default:
			return "", false, false
		}
	}
	if k <= 0 {
		return "", false, false // not found, or the statement starts with the variable (an assignment)
	}
	// the token right before the name must be a type word or `*`
	j := k + 1
	for j+2 < len(s.Toks) && s.Toks[j].Text == "[" { // array dimensions
		d := j + 1
		for d < len(s.Toks) && s.Toks[d].Text != "]" {
			d++
		}
		j = d + 1
	}
	if j >= len(s.Toks) {
		return s.Toks[k].Text, false, true
	}
	if s.Toks[j].Text == "=" {
		return s.Toks[k].Text, j+1 < len(s.Toks), true
	}
	// something else follows (e.g. a call through a macro): not a plain declaration
	return "", false, false
}

type initStats struct{ decls, funcs int }

func checkLocalInit(c *core.Ctx, fn *c08fn, st *initStats) {
	var bad []string
	n := 0
	var walk func(list []*core.CStmt)
	walk = func(list []*core.CStmt) {
		for _, s := range list {
			if name, hasInit, ok := localDecl(s); ok {
				n++
				if !hasInit {
					bad = append(bad, fmt.Sprintf("line %d: `%s` declares %s without an initialiser", s.Line, s.Text(), name))
				}
			}
			walk(s.Body)
			walk(s.Else)
		}
	}
	walk(fn.stmts)
	if n == 0 {
		return
	}
	st.decls += n
	st.funcs++
	c.Check(len(bad) == 0, "Z1.init", "generated C "+fn.cname,
		"every Wuffs local (v_…) is declared with an initialiser, which is how the generated C implements 'variables are zero-initialised at function entry'; an uninitialised declaration makes the result depend on stack garbage on every path that reads the local before writing it",
		n, strings.Join(bad, "\n"))
}
