package main

import (
	"fmt"
	"go/ast"
	"go/token"
	"go/types"
	"math/big"
	"regexp"
	"sort"
	"strconv"
	"strings"

	"wv/core"
)

func init() {
	register("C01", core.Spec{
		Decides:    "the obligation structure of the Wuffs bounds checker (lang/check): on every control-flow path of the named checker functions, each construct that cgen emits unchecked (index, slice, call argument, divide/modulus, shift, bitwise op, nullable receiver, unchecked I/O built-ins) passes through its specific proof call or range guard before any accepting exit; the built-in pre-condition tables (ioMethodAdvances, the cpu_arch slice suffix switch, numTypeBounds/numShiftBounds) agree with the operations they guard and with cgen's sibling tables; the safety phases are wired into check.Check; public-function argument re-validation is emitted for every pointer/refined parameter class",
		NotDecided: "that the *values* proved are right — interval results (C06), facts.refine arithmetic, aliasing between a slice and its source array, staleness of facts (C02); the accepted-unsafe programs listed in the property text exploit those and are invisible to these rules. This is a necessary-condition check of checker structure, not a soundness proof of the checker",
		Assumptions: []string{"go/types, go/cfg (x/tools v0.29.0) model Go control flow faithfully",
			"error-return idioms enumerated in core.IsErrorReturn (fmt.Errorf, errors.New, package-level error vars, `return err` under `if err != nil`)",
			"an obligation whose anchor or idiom is not recognised fails as undecided"},
	}, runC01)
}

const relCheck = "lang/check"

func runC01(c *core.Ctx) {
	k := newG(c, "./lang/check", "./internal/cgen", "./lang/parse")
	g := k.g
	tok := func(name string) types.Object { return k.obj("anchors", "lang/token", name) }

	proveRR := k.fn("anchors", relCheck, "", "proveReasonRequirement")
	proveRRLen := k.fn("anchors", relCheck, "", "proveReasonRequirementForRHSLength")
	proveNotNull := k.fn("anchors", relCheck, "checker", "proveRecvNotEqNullptr")
	bcheckExpr := k.fn("anchors", relCheck, "checker", "bcheckExpr")
	bcheckExpr1 := k.fn("anchors", relCheck, "checker", "bcheckExpr1")
	bcheckTypeExpr := k.fn("anchors", relCheck, "checker", "bcheckTypeExpr")
	bcheckAssignment1 := k.fn("anchors", relCheck, "checker", "bcheckAssignment1")
	bcheckExprCall := k.fn("anchors", relCheck, "checker", "bcheckExprCall")
	proveBinaryOp := k.fn("anchors", relCheck, "checker", "proveBinaryOp")
	zeroExpr := k.obj("anchors", relCheck, "zeroExpr")
	makeSliceLength := k.fn("anchors", relCheck, "", "makeSliceLength")

	// ---------------- O1: bcheckExpr containment ----------------
	if fl := k.flow("O1", relCheck, "checker", "bcheckExpr"); fl != nil {
		n := fl.Param(0)
		nbVars := varsOfType(fl.VarsDenoting(func(e ast.Expr) bool {
			call, ok := ast.Unparen(e).(*ast.CallExpr)
			return ok && fl.Call(bcheckExpr1, fl.Is(n))(call)
		}), "IntRange")
		tbVars := varsOfType(fl.VarsDenoting(func(e ast.Expr) bool {
			call, ok := ast.Unparen(e).(*ast.CallExpr)
			return ok && fl.Call(bcheckTypeExpr, fl.MethodChain(fl.Is(n), "MType"))(call)
		}), "IntRange")
		anchor := fl.F.Name() + "[after bcheckExpr1]"
		if len(nbVars) == 0 || len(tbVars) == 0 {
			c.Undecided("O1", anchor, "computed bounds nb (from bcheckExpr1) and type bounds tb (from bcheckTypeExpr(n.MType())) exist", "could not identify nb/tb")
		} else {
			nb, tb := anyOf(fl, nbVars), anyOf(fl, tbVars)
			setM := func(call *ast.CallExpr) bool {
				fn := core.Callee(fl.F.Info(), call)
				return fn != nil && fn.Name() == "SetMBounds" && fl.Is(n)(core.RecvOf(call))
			}
			k.mustPass("O1.containment", anchor,
				"every path from the range computation to n.SetMBounds(nb) or to a success return takes the false branch of a guard that tests nb[0] < tb[0] || nb[1] > tb[1] (tb = bounds of n's type)",
				fl, core.Query{
					Start: func(x ast.Node) bool {
						return core.Guaranteed(x, fl.Call(bcheckExpr1, fl.Is(n)))
					},
					Events: []core.Event{{Edge: func(cond ast.Expr, ci *core.CondInfo, taken bool) bool {
						return !taken && containmentViolated(fl, cond, nb, tb)
					}}},
					Exit: func(x ast.Node) bool {
						return fl.SuccessReturn(x) || core.Guaranteed(x, setM)
					},
					FuncEnd: true,
				})
			// The cached / const early exits are the only success exits that precede the computation.
			k.mustPass("O1.compute", fl.F.Name()+"[cache miss]",
				"a success return is reached only through the MBounds cache hit, the constant case, or bcheckExpr1",
				fl, core.Query{
					Events: []core.Event{core.CallEvent(fl.Call(bcheckExpr1, fl.Is(n)))},
					Exit:   fl.SuccessReturn,
					Exempt: func(cond ast.Expr, ci *core.CondInfo, taken bool) bool {
						// `b[0] != nil` (cache hit) and `n.ConstValue() != nil` (constant).
						if !taken {
							return false
						}
						if nilTest(fl, cond, fl.MethodChain(fl.Is(n), "ConstValue"), false) {
							return true
						}
						return nilTest(fl, cond, func(e ast.Expr) bool {
							ix, ok := ast.Unparen(e).(*ast.IndexExpr)
							return ok && fl.Denotes(fl.MethodChain(fl.Is(n), "MBounds"))(ix.X)
						}, false)
					},
				})
		}
		// Depth guard lives under C11.
	}

	// ---------------- O2: bcheckAssignment1 containment ----------------
	if fl := k.flow("O2", relCheck, "checker", "bcheckAssignment1"); fl != nil {
		lTyp := fl.Param(1)
		rhs := fl.Param(3)
		lbVars := varsOfType(fl.VarsDenoting(func(e ast.Expr) bool {
			call, ok := ast.Unparen(e).(*ast.CallExpr)
			return ok && fl.Call(bcheckTypeExpr, fl.Is(lTyp))(call)
		}), "IntRange")
		rbVars := varsOfType(fl.VarsDenoting(func(e ast.Expr) bool {
			call, ok := ast.Unparen(e).(*ast.CallExpr)
			return ok && fl.Call(bcheckExpr, fl.Is(rhs))(call)
		}), "IntRange")
		anchor := fl.F.Name()
		if len(lbVars) == 0 || len(rbVars) == 0 {
			c.Undecided("O2", anchor, "lb (from bcheckTypeExpr(lTyp)) and rb (from bcheckExpr(rhs)) exist", "could not identify lb/rb")
		} else {
			lb, rb := anyOf(fl, lbVars), anyOf(fl, rbVars)
			k.mustPass("O2.containment", anchor,
				"every success return takes the false branch of a guard `lTyp != nil && (rb[0] < lb[0] || rb[1] > lb[1])`: an assigned/passed/returned value fits the destination type",
				fl, core.Query{
					Events: []core.Event{{Edge: func(cond ast.Expr, ci *core.CondInfo, taken bool) bool {
						if taken {
							return false
						}
						parts := flattenAnd(cond)
						switch len(parts) {
						case 1:
							return containmentViolated(fl, parts[0], rb, lb)
						case 2:
							return nilTest(fl, parts[0], fl.Is(lTyp), false) && containmentViolated(fl, parts[1], rb, lb)
						}
						return false
					}}},
					Exit:    fl.SuccessReturn,
					FuncEnd: true,
				})
			// lb is computed whenever lTyp != nil.
			k.passChecked("O2.typebounds", anchor,
				"when lTyp != nil its bounds are computed by bcheckTypeExpr(lTyp)",
				fl, core.Query{
					Exit:    fl.SuccessReturn,
					FuncEnd: true,
					Exempt: func(cond ast.Expr, ci *core.CondInfo, taken bool) bool {
						return !taken && nilTest(fl, cond, fl.Is(lTyp), false) && len(flattenAnd(cond)) == 1
					},
				}, fl.Call(bcheckTypeExpr, fl.Is(lTyp)))
		}
	}

	// ---------------- O3 / O4 / call case in bcheckExprOther ----------------
	if fl := k.flow("O3", relCheck, "checker", "bcheckExprOther"); fl != nil {
		n := fl.Param(0)
		nOp := func(e ast.Expr) bool { return fl.MethodChain(fl.Is(n), "Operator")(e) }
		lhsP := fl.Denotes(fl.MethodChain(fl.Is(n), "LHS", "AsExpr"))
		mhsP := fl.Denotes(fl.MethodChain(fl.Is(n), "MHS", "AsExpr"))
		rhsP := fl.Denotes(fl.MethodChain(fl.Is(n), "RHS", "AsExpr"))
		// lengthExpr: a local with a definition makeSliceLength(lhs) or ….ArrayLength().
		lenDef := func(e ast.Expr) bool {
			call, ok := ast.Unparen(e).(*ast.CallExpr)
			if !ok {
				return false
			}
			if fl.Call(makeSliceLength, lhsP)(call) {
				return true
			}
			fn := core.Callee(fl.F.Info(), call)
			return fn != nil && fn.Name() == "ArrayLength"
		}
		lenVars := fl.VarsDenoting(lenDef)
		// lengthExpr: declared inside the case, has a length definition, and is not
		// the variable first defined as n.RHS()/n.MHS() (which may later be assigned lengthExpr).
		isLenVar := func(region core.Region) core.ExprPred {
			return func(e ast.Expr) bool {
				o := fl.Obj(e)
				if o == nil || !region.Contains(o.Pos()) {
					return false
				}
				fd := firstDef(fl, o)
				if fl.MethodChain(fl.Is(n), "RHS", "AsExpr")(fd) || fl.MethodChain(fl.Is(n), "MHS", "AsExpr")(fd) {
					return false
				}
				for _, v := range lenVars {
					if v == o {
						return true
					}
				}
				return false
			}
		}

		exitQ := func(region core.Region) core.Query {
			return core.Query{Region: region, Exit: fl.SuccessReturn, FallOut: true}
		}

		// Index.
		if region, cc := fl.CaseRegion(tok("IDOpenBracket"), nOp); cc == nil {
			c.Undecided("O3", fl.F.Name()+"[case IDOpenBracket]", "the index case exists", "no `case t.IDOpenBracket` in a switch on n.Operator()")
		} else {
			anchor := fl.F.Name() + "[case IDOpenBracket]"
			lenP := isLenVar(region)
			k.passChecked("O3.lower", anchor, "x[i]: proveReasonRequirement(q, IDXBinaryLessEq, zeroExpr, i) on every accepting path (0 <= i)",
				fl, exitQ(region), fl.Call(proveRR, nil, fl.Is(tok("IDXBinaryLessEq")), fl.Is(zeroExpr), rhsP))
			k.passChecked("O3.upper", anchor, "x[i]: proveReasonRequirementForRHSLength(q, IDXBinaryLessThan, i, length) on every accepting path (i < len)",
				fl, exitQ(region), fl.Call(proveRRLen, nil, fl.Is(tok("IDXBinaryLessThan")), rhsP, lenP))
			k.passChecked("O3.sub.lhs", anchor, "x[i]: the indexed operand is itself bounds-checked", fl, exitQ(region), fl.Call(bcheckExpr, lhsP))
			k.passChecked("O3.sub.rhs", anchor, "x[i]: the index operand is itself bounds-checked", fl, exitQ(region), fl.Call(bcheckExpr, rhsP))
			// Length expression is the array length for arrays / pointer-to-array, the slice length otherwise:
			// every path assigns lengthExpr before the proofs.
			q := exitQ(region)
			q.Events = []core.Event{{Node: func(x ast.Node) bool {
				as, ok := x.(*ast.AssignStmt)
				if !ok || as.Tok != token.ASSIGN || len(as.Lhs) != 1 || len(as.Rhs) != 1 {
					return false
				}
				return lenP(as.Lhs[0]) && lenDef(as.Rhs[0])
			}}}
			k.mustPass("O3.length", anchor, "x[i]: the length compared against is x's array length or x.length() on every path", fl, q)
			// nptr array pointer ⇒ proveRecvNotEqNullptr.
			var ptrIf *ast.IfStmt
			ast.Inspect(cc, func(m ast.Node) bool {
				if is, ok := m.(*ast.IfStmt); ok && ptrIf == nil {
					if core.AnyCall(is.Cond, func(call *ast.CallExpr) bool {
						fn := core.Callee(fl.F.Info(), call)
						return fn != nil && fn.Name() == "IsPointerType"
					}) {
						ptrIf = is
					}
				}
				return true
			})
			if ptrIf == nil {
				c.Undecided("O3.nptr", anchor, "pointer-to-array indexing is handled", "no branch testing IsPointerType() in the index case")
			} else {
				q := core.Query{Region: core.RegionOf(ptrIf.Body), FallOut: true, Exit: fl.SuccessReturn,
					Exempt: func(cond ast.Expr, ci *core.CondInfo, taken bool) bool {
						// Decorator() == IDPtr: a non-null pointer needs no proof.
						return (taken && eqTest(fl, cond, func(e ast.Expr) bool { return fl.MethodChain(core.Any, "Decorator")(e) }, fl.Is(tok("IDPtr")), true)) ||
							(!taken && eqTest(fl, cond, func(e ast.Expr) bool { return fl.MethodChain(core.Any, "Decorator")(e) }, fl.Is(tok("IDPtr")), false))
					}}
				k.passChecked("O3.nptr", anchor+"[pointer to array]", "indexing through an nptr array pointer requires proveRecvNotEqNullptr(lhs)", fl, q, fl.Call(proveNotNull, lhsP))
			}
		}

		// Slice.
		if region, cc := fl.CaseRegion(tok("IDDotDot"), nOp); cc == nil {
			c.Undecided("O4", fl.F.Name()+"[case IDDotDot]", "the slice case exists", "no `case t.IDDotDot`")
		} else {
			anchor := fl.F.Name() + "[case IDDotDot]"
			lenP := isLenVar(region)
			// mhs/rhs in this case are reassigned (`mhs = zeroExpr`, `rhs = lengthExpr`): match by object.
			mhsObj := objsIn(fl, region, fl.MethodChain(fl.Is(n), "MHS", "AsExpr"))
			rhsObj := objsIn(fl, region, fl.MethodChain(fl.Is(n), "RHS", "AsExpr"))
			mhsV, rhsV := anyOf(fl, mhsObj), anyOf(fl, rhsObj)
			bothNil := func(cond ast.Expr, ci *core.CondInfo, taken bool) bool {
				if !taken {
					return false
				}
				parts := flattenAnd(cond)
				if len(parts) != 2 {
					return false
				}
				return (nilTest(fl, parts[0], mhsV, true) && nilTest(fl, parts[1], rhsV, true)) ||
					(nilTest(fl, parts[1], mhsV, true) && nilTest(fl, parts[0], rhsV, true))
			}
			or := func(fs ...func(ast.Expr, *core.CondInfo, bool) bool) func(ast.Expr, *core.CondInfo, bool) bool {
				return func(cond ast.Expr, ci *core.CondInfo, taken bool) bool {
					for _, f := range fs {
						if f(cond, ci, taken) {
							return true
						}
					}
					return false
				}
			}
			q := exitQ(region)
			q.Exempt = or(bothNil, func(cond ast.Expr, ci *core.CondInfo, taken bool) bool {
				return !taken && eqTest(fl, cond, mhsV, fl.Is(zeroExpr), false) // mhs == zeroExpr: 0 <= 0
			})
			k.passChecked("O4.lower", anchor, "x[i..j]: LessEq(zeroExpr, i) unless i is the literal zeroExpr or both bounds are absent", fl, q,
				fl.Call(proveRR, nil, fl.Is(tok("IDXBinaryLessEq")), fl.Is(zeroExpr), mhsV))
			q = exitQ(region)
			q.Exempt = bothNil
			k.passChecked("O4.order", anchor, "x[i..j]: LessEq(i, j) on every accepting path (both-absent exempt)", fl, q,
				fl.Call(proveRR, nil, fl.Is(tok("IDXBinaryLessEq")), mhsV, rhsV))
			q = exitQ(region)
			q.Exempt = or(bothNil, func(cond ast.Expr, ci *core.CondInfo, taken bool) bool {
				return !taken && eqTest(fl, cond, rhsV, lenP, false) // rhs == lengthExpr: len <= len
			})
			k.passChecked("O4.upper", anchor, "x[i..j]: LessEq(j, length) unless j is the length expression itself or both bounds are absent", fl, q,
				fl.Call(proveRRLen, nil, fl.Is(tok("IDXBinaryLessEq")), rhsV, lenP))
			q = exitQ(region)
			k.passChecked("O4.sub.lhs", anchor, "x[i..j]: the sliced operand is bounds-checked", fl, q, fl.Call(bcheckExpr, lhsP))
			q = exitQ(region)
			q.Exempt = func(cond ast.Expr, ci *core.CondInfo, taken bool) bool {
				return !taken && nilTest(fl, cond, mhsV, false)
			}
			k.passChecked("O4.sub.mhs", anchor, "x[i..j]: i is bounds-checked when present", fl, q, fl.Call(bcheckExpr, mhsV))
			q = exitQ(region)
			q.Exempt = func(cond ast.Expr, ci *core.CondInfo, taken bool) bool {
				return !taken && nilTest(fl, cond, rhsV, false)
			}
			k.passChecked("O4.sub.rhs", anchor, "x[i..j]: j is bounds-checked when present", fl, q, fl.Call(bcheckExpr, rhsV))
			_ = mhsP
		}

		// Call.
		if region, cc := fl.CaseRegion(tok("IDOpenParen"), nOp); cc == nil {
			c.Undecided("O5", fl.F.Name()+"[case IDOpenParen]", "the call case exists", "no `case t.IDOpenParen`")
		} else {
			anchor := fl.F.Name() + "[case IDOpenParen]"
			k.passChecked("O5.wired", anchor, "a call expression passes through bcheckExprCall(n) before any accepting exit", fl, exitQ(region), fl.Call(bcheckExprCall, fl.Is(n)))
			k.passChecked("O5.recv", anchor, "the callee expression (receiver chain) is bounds-checked", fl, exitQ(region), fl.Call(bcheckExpr, lhsP))
			spec := k.fn("O7", relCheck, "checker", "bcheckExprCallSpecialCases")
			q := exitQ(region)
			k.mustPass("O7.wired", anchor, "a call expression passes through bcheckExprCallSpecialCases(n) before falling back to its declared type bounds", fl,
				core.Query{Region: q.Region, Exit: q.Exit, FallOut: true, Events: []core.Event{core.CallEvent(fl.Call(spec, fl.Is(n)))}})
			// Only errNotASpecialCase may be swallowed.
			errNot := k.obj("O7", relCheck, "errNotASpecialCase")
			errv := errVarFrom(fl, fl.Call(spec, fl.Is(n)))
			k.mustPass("O7.err", anchor, "an error from bcheckExprCallSpecialCases other than errNotASpecialCase is returned, not dropped", fl,
				core.Query{Region: region, FallOut: true,
					Start: func(x ast.Node) bool { return core.Guaranteed(x, fl.Call(spec, fl.Is(n))) },
					Events: []core.Event{{Edge: func(cond ast.Expr, ci *core.CondInfo, taken bool) bool {
						// falling out is fine only when err == errNotASpecialCase
						return (!taken && eqTest(fl, cond, errv, fl.Is(errNot), false)) || (taken && eqTest(fl, cond, errv, fl.Is(errNot), true))
					}}},
				})
		}
	}

	// ---------------- O5: bcheckExprCall ----------------
	if fl := k.flow("O5", relCheck, "checker", "bcheckExprCall"); fl != nil {
		n := fl.Param(0)
		anchor := fl.F.Name()
		// The argument loop.
		var loop *ast.RangeStmt
		ast.Inspect(fl.F.Decl.Body, func(m ast.Node) bool {
			if rs, ok := m.(*ast.RangeStmt); ok && loop == nil && fl.Denotes(fl.MethodChain(fl.Is(n), "Args"))(rs.X) {
				loop = rs
			}
			return true
		})
		if loop == nil {
			c.Undecided("O5.args", anchor, "a loop over n.Args() exists", "no range over n.Args()")
		} else {
			key := fl.Obj(loop.Key)
			val := fl.Obj(loop.Value)
			paramType := func(e ast.Expr) bool {
				// inFields[i].AsField().XType()
				return fl.MethodChain(func(b ast.Expr) bool {
					ix, ok := ast.Unparen(b).(*ast.IndexExpr)
					return ok && key != nil && fl.Is(key)(ix.Index) && fl.Denotes(fl.MethodChain(core.Any, "In", "Fields"))(ix.X)
				}, "AsField", "XType")(e)
			}
			argVal := fl.MethodChain(fl.Is(val), "AsArg", "Value")
			k.passChecked("O5.args", anchor+"[range n.Args()]",
				"every argument is checked against its parameter's (possibly refined) type: bcheckAssignment1(nil, inFields[i].AsField().XType(), IDEq, arg.Value())",
				fl, core.Query{Region: core.RegionOf(loop.Body), FallOut: true, Exit: fl.SuccessReturn},
				fl.Call(bcheckAssignment1, core.IsNilExpr(fl.F.Info()), paramType, fl.Is(tok("IDEq")), argVal))
			// The loop is reached on every accepting path.
			k.mustPass("O5.loop", anchor, "the argument loop is on every accepting path", fl, core.Query{
				Exit: fl.SuccessReturn, FuncEnd: true,
				Events: []core.Event{{Node: func(x ast.Node) bool {
					return x == loop.X || x == ast.Node(loop) || (x.Pos() >= loop.Pos() && x.End() <= loop.End())
				}}},
			})
		}
		recvP := fl.Denotes(fl.MethodChain(fl.Denotes(fl.MethodChain(fl.Is(n), "LHS", "AsExpr")), "LHS", "AsExpr"))
		dec := func(e ast.Expr) bool { return fl.MethodChain(recvP, "MType", "Decorator")(e) }
		k.mustPass("O5.nptr", anchor, "a call through a nullable (nptr) receiver requires proveRecvNotEqNullptr(recv)", fl, core.Query{
			Exit: fl.SuccessReturn, FuncEnd: true,
			Events: []core.Event{core.CallEvent(fl.Call(proveNotNull, recvP))},
			Exempt: func(cond ast.Expr, ci *core.CondInfo, taken bool) bool {
				return (taken && eqTest(fl, cond, dec, fl.Is(tok("IDNptr")), false)) || (!taken && eqTest(fl, cond, dec, fl.Is(tok("IDNptr")), true))
			},
		})
	}

	// ---------------- O6: bcheckExprBinaryOp1 ----------------
	if fl := k.flow("O6", relCheck, "checker", "bcheckExprBinaryOp1"); fl != nil {
		op := fl.Param(0)
		lbP := fl.Is(fl.Param(2))
		rhs := fl.Param(3)
		rbVars := varsOfType(fl.VarsDenoting(func(e ast.Expr) bool {
			call, ok := ast.Unparen(e).(*ast.CallExpr)
			return ok && fl.Call(bcheckExpr, fl.Is(rhs))(call)
		}), "IntRange")
		rbP := anyOf(fl, rbVars)
		elem0 := func(v core.ExprPred) core.ExprPred {
			return func(e ast.Expr) bool { return boundElem(fl, e, v, 0) }
		}
		signGuard := func(v core.ExprPred, want string) core.Event {
			return core.Event{Edge: func(cond ast.Expr, ci *core.CondInfo, taken bool) bool {
				if taken {
					return false
				}
				s, ok := signSet(fl, cond, elem0(v))
				return ok && s == want
			}}
		}
		opIs := func(e ast.Expr) bool { return fl.Is(op)(e) }
		type sg struct {
			rule, konst, claim string
			v                  core.ExprPred
			want               string
		}
		for _, r := range []sg{
			{"O6a.lhs", "IDXBinarySlash", "x / y and x % y: a possibly negative dividend (lb[0].Sign() < 0) is rejected", lbP, "-"},
			{"O6a.rhs", "IDXBinarySlash", "x / y and x % y: a possibly zero or negative divisor (rb[0].Sign() <= 0) is rejected — no division by zero", rbP, "-0"},
			{"O6c.lhs", "IDXBinaryAmp", "x & y, x | y, x ^ y: a possibly negative left operand is rejected", lbP, "-"},
			{"O6c.rhs", "IDXBinaryAmp", "x & y, x | y, x ^ y: a possibly negative right operand is rejected", rbP, "-"},
		} {
			region, cc := fl.CaseRegion(tok(r.konst), opIs)
			anchor := fl.F.Name() + "[case " + r.konst + "]"
			if cc == nil {
				c.Undecided(r.rule, anchor, r.claim, "case clause not found")
				continue
			}
			k.mustPass(r.rule, anchor, r.claim, fl, core.Query{Region: region, Exit: fl.SuccessReturn, FallOut: true, Events: []core.Event{signGuard(r.v, r.want)}})
		}
		// The divide clause must list both Slash and Percent; the bitwise clause Amp, Pipe, Hat; shifts all three.
		for _, grp := range [][]string{{"IDXBinarySlash", "IDXBinaryPercent"}, {"IDXBinaryAmp", "IDXBinaryPipe", "IDXBinaryHat"},
			{"IDXBinaryShiftL", "IDXBinaryTildeModShiftL", "IDXBinaryShiftR"}} {
			_, cc0 := fl.CaseRegion(tok(grp[0]), opIs)
			okAll := cc0 != nil
			for _, name := range grp[1:] {
				_, cc := fl.CaseRegion(tok(name), opIs)
				if cc != cc0 {
					okAll = false
				}
			}
			c.Check(okAll, "O6.group", fl.F.Name()+"[case "+strings.Join(grp, ",")+"]", "these operators share one guarded case clause", len(grp), "")
		}
		// Shifts.
		if region, cc := fl.CaseRegion(tok("IDXBinaryShiftL"), opIs); cc == nil {
			c.Undecided("O6b", fl.F.Name()+"[case IDXBinaryShiftL]", "shift case exists", "case clause not found")
		} else {
			anchor := fl.F.Name() + "[case IDXBinaryShiftL]"
			numShift := k.obj("O6b", relCheck, "numShiftBounds")
			sbVars := fl.VarsDenoting(func(e ast.Expr) bool {
				ix, ok := ast.Unparen(e).(*ast.IndexExpr)
				return ok && fl.Is(numShift)(ix.X)
			})
			sbP := anyOf(fl, sbVars)
			k.mustPass("O6b.unsigned", anchor, "a shift whose left operand has no entry in numShiftBounds (not an unsigned integer type) is rejected", fl,
				core.Query{Region: region, Exit: fl.SuccessReturn, FallOut: true, Events: []core.Event{{Edge: func(cond ast.Expr, ci *core.CondInfo, taken bool) bool {
					return !taken && nilTest(fl, cond, elem0(sbP), true)
				}}}})
			k.mustPass("O6b.range", anchor, "a shift amount not contained in [0, width-1] is rejected: guard !shiftBounds.ContainsIntRange(rb)", fl,
				core.Query{Region: region, Exit: fl.SuccessReturn, FallOut: true, Events: []core.Event{{Edge: func(cond ast.Expr, ci *core.CondInfo, taken bool) bool {
					e := ast.Unparen(cond)
					neg := false
					if u, ok := e.(*ast.UnaryExpr); ok && u.Op == token.NOT {
						neg = true
						e = ast.Unparen(u.X)
					}
					call, ok := e.(*ast.CallExpr)
					if !ok || !fl.CallNamed("lib/interval", "ContainsIntRange", rbP)(call) || !sbP(core.RecvOf(call)) {
						return false
					}
					return taken != neg // continue only when contained
				}}}})
		}
	}

	// ---------------- O7: special cases ----------------
	runC01Special(k, tok)

	// ---------------- O8: phases ----------------
	runC01Phases(k)

	// ---------------- O9: struct fields ----------------
	if fl := k.flow("O9", relCheck, "Checker", "checkStructFields"); fl != nil {
		checkFields := k.fn("O9", relCheck, "Checker", "checkFields")
		n := 0
		okArgs := false
		ast.Inspect(fl.F.Decl.Body, func(m ast.Node) bool {
			if call, ok := m.(*ast.CallExpr); ok && core.IsCallTo(fl.F.Info(), call, checkFields) && len(call.Args) == 5 {
				n++
				v := func(i int) string {
					if cv := core.ConstVal(fl.F.Info(), call.Args[i]); cv != nil {
						return cv.ExactString()
					}
					return "?"
				}
				okArgs = v(3) == "true" && v(4) == "true"
			}
			return true
		})
		c.Check(n == 1 && okArgs, "O9.args", fl.F.Name(), "struct fields are checked with banPtrTypes=true and checkDefaultZeroValue=true", n, "")
	}
	if fl := k.flow("O9", relCheck, "Checker", "checkFields"); fl != nil {
		var loop *ast.RangeStmt
		ast.Inspect(fl.F.Decl.Body, func(m ast.Node) bool {
			if rs, ok := m.(*ast.RangeStmt); ok && loop == nil && fl.Is(fl.Param(0))(rs.X) {
				loop = rs
			}
			return true
		})
		if loop == nil {
			c.Undecided("O9", fl.F.Name(), "loop over fields", "not found")
		} else {
			region := core.RegionOf(loop.Body)
			banPtr, chkZero := fl.Param(3), fl.Param(4)
			zero := k.obj("O9", relCheck, "zero")
			k.mustPass("O9.ptr", fl.F.Name()+"[range fields]", "with banPtrTypes, a field whose type HasPointers() is rejected", fl, core.Query{
				Region: region, FallOut: true,
				Events: []core.Event{{Edge: func(cond ast.Expr, ci *core.CondInfo, taken bool) bool {
					parts := flattenAnd(cond)
					return !taken && len(parts) == 2 && fl.Is(banPtr)(parts[0]) && fl.MethodChain(core.Any, "XType", "HasPointers")(parts[1])
				}}},
			})
			k.mustPass("O9.zero", fl.F.Name()+"[range fields]", "with checkDefaultZeroValue, a field whose (refined) bounds exclude the zero value is rejected (zero < fb[0] || zero > fb[1])", fl, core.Query{
				Region: region, FallOut: true,
				Exempt: func(cond ast.Expr, ci *core.CondInfo, taken bool) bool { return !taken && fl.Is(chkZero)(cond) },
				Events: []core.Event{{Edge: func(cond ast.Expr, ci *core.CondInfo, taken bool) bool {
					if taken {
						return false
					}
					lo, hi := false, false
					for _, at := range flattenOr(cond) {
						a, b, rel, ok := cmpAtom(fl, at)
						if !ok {
							continue
						}
						fbElem := func(e ast.Expr, i int64) bool {
							return boundElem(fl, e, func(v ast.Expr) bool {
								return fl.Denotes(fl.MethodChain(core.Any, "MBounds"))(v)
							}, i)
						}
						if (rel == token.LSS && fl.Is(zero)(a) && fbElem(b, 0)) || (rel == token.GTR && fbElem(a, 0) && fl.Is(zero)(b)) {
							lo = true
						}
						if (rel == token.GTR && fl.Is(zero)(a) && fbElem(b, 1)) || (rel == token.LSS && fbElem(a, 1) && fl.Is(zero)(b)) {
							hi = true
						}
					}
					return lo && hi
				}}},
			})
		}
	}

	// ---------------- more obligations ----------------
	runC01More(k)
	runC01ArgChecks(k)
	runC01IterJump(k)
	runC01AsMask(k)
	runErrDrop(k, "lang/check")
	runC01Choose(k)
	runC02Simplify(k)
	runC02Facts(k) // a false fact is an unsafe accepted program: the fact discipline is a C01 mechanism too

	// ---------------- tables ----------------
	runC01Tables(k)
	runC02Tables(k) // facts.refine, proveBinaryOpConstValues etc. are C01 mechanisms too
	_ = g
	_ = proveBinaryOp
}

func firstDef(fl *core.Flow, o types.Object) ast.Expr {
	ds := fl.Defs()[o]
	if len(ds) == 0 {
		return &ast.BadExpr{}
	}
	return ds[0]
}

// objsIn: local variables declared inside region with a definition satisfying p.
func objsIn(fl *core.Flow, region core.Region, p core.ExprPred) []types.Object {
	var out []types.Object
	for _, o := range fl.VarsDenoting(p) {
		if region.Contains(o.Pos()) {
			out = append(out, o)
		}
	}
	return out
}

// ---------- O7 ----------

func runC01Special(k *gctx, tok func(string) types.Object) {
	c := k.c
	fl := k.flow("O7", relCheck, "checker", "bcheckExprCallSpecialCases")
	if fl == nil {
		return
	}
	info := fl.F.Info()
	n := fl.Param(0)
	errNot := k.obj("O7", relCheck, "errNotASpecialCase")
	optimize := k.fn("O7", relCheck, "checker", "optimizeIOMethodAdvance")
	canUndo := k.fn("O7", relCheck, "checker", "canUndoByte")
	canCopy := k.fn("O7", relCheck, "checker", "canLimitedCopyU32FromHistoryFast")
	proveBinaryOp := k.fn("O7", relCheck, "checker", "proveBinaryOp")
	anchorF := fl.F.Name()

	// Accepting exits of this function: last result nil or errNotASpecialCase.
	accept := func(x ast.Node) bool {
		r, ok := x.(*ast.ReturnStmt)
		if !ok || len(r.Results) == 0 {
			return false
		}
		last := r.Results[len(r.Results)-1]
		return core.IsNilIdent(info, last) || fl.Is(errNot)(last)
	}
	// advance / advanceExpr variables: the *big.Int and *a.Expr arguments 2 and 3 of optimizeIOMethodAdvance.
	var advObj, advExprObj, updObj types.Object
	ast.Inspect(fl.F.Decl.Body, func(m ast.Node) bool {
		if call, ok := m.(*ast.CallExpr); ok && core.IsCallTo(info, call, optimize) && len(call.Args) == 4 {
			advObj, advExprObj, updObj = fl.Obj(call.Args[1]), fl.Obj(call.Args[2]), fl.Obj(call.Args[3])
		}
		return true
	})
	if advObj == nil || advExprObj == nil {
		c.Undecided("O7.advance", anchorF, "optimizeIOMethodAdvance(subject, advance, advanceExpr, update) call exists", "call not found")
		return
	}
	_ = updObj
	assignsAdv := func(x ast.Node) bool {
		as, ok := x.(*ast.AssignStmt)
		if !ok || as.Tok != token.ASSIGN {
			return false
		}
		for _, l := range as.Lhs {
			if o := fl.Obj(l); o == advObj || o == advExprObj {
				return true
			}
		}
		return false
	}
	okVar := func(e ast.Expr) bool {
		o := fl.Obj(e)
		if o == nil || o.Type().String() != "bool" {
			return false
		}
		for _, d := range fl.Defs()[o] {
			if call, ok := ast.Unparen(d).(*ast.CallExpr); ok && core.IsCallTo(info, call, optimize) {
				return true
			}
		}
		return false
	}
	k.mustPass("O7.advance", anchorF+"[advance set]",
		"once a byte advance (constant or expression) has been determined for an unchecked I/O / SIMD built-in, the call is accepted only if optimizeIOMethodAdvance proved `subject.length() >= advance` (false branch of `!ok`); the only bypass is advance == nil && advanceExpr == nil",
		fl, core.Query{
			Start: assignsAdv,
			Exit:  accept, FuncEnd: true,
			Events: []core.Event{{Edge: func(cond ast.Expr, ci *core.CondInfo, taken bool) bool {
				e := ast.Unparen(cond)
				if u, ok := e.(*ast.UnaryExpr); ok && u.Op == token.NOT {
					return !taken && okVar(u.X)
				}
				return taken && okVar(e)
			}}},
			Exempt: func(cond ast.Expr, ci *core.CondInfo, taken bool) bool {
				if taken {
					return false
				}
				parts := flattenOr(cond)
				if len(parts) != 2 {
					return false
				}
				a := func(o types.Object) core.ExprPred { return fl.Is(o) }
				return (nilTest(fl, parts[0], a(advObj), false) && nilTest(fl, parts[1], a(advExprObj), false)) ||
					(nilTest(fl, parts[1], a(advObj), false) && nilTest(fl, parts[0], a(advExprObj), false))
			},
		})
	// The optimize error is propagated.
	k.passChecked("O7.advance.err", anchorF+"[advance set]", "optimizeIOMethodAdvance is called with (subject, advance, advanceExpr, update) whenever an advance is set", fl,
		core.Query{Start: assignsAdv, Exit: accept, FuncEnd: true,
			Exempt: func(cond ast.Expr, ci *core.CondInfo, taken bool) bool {
				return !taken && len(flattenOr(cond)) == 2 && nilTest(fl, flattenOr(cond)[0], fl.Is(advObj), false)
			}},
		fl.Call(optimize, nil, fl.Is(advObj), fl.Is(advExprObj), nil))

	// Method-specific branches: find the if statement whose condition compares `method` with the constant.
	method := fl.VarsDenoting(func(e ast.Expr) bool { return fl.MethodChain(core.Any, "Ident")(e) })
	methodP := anyOf(fl, method)
	recvP := fl.Denotes(fl.MethodChain(fl.Denotes(fl.MethodChain(fl.Is(n), "LHS", "AsExpr")), "LHS", "AsExpr"))
	findIf := func(consts ...string) (*ast.IfStmt, bool) {
		var found *ast.IfStmt
		all := false
		ast.Inspect(fl.F.Decl.Body, func(m ast.Node) bool {
			is, ok := m.(*ast.IfStmt)
			if !ok || found != nil {
				return true
			}
			parts := flattenOr(is.Cond)
			matched := 0
			for _, cn := range consts {
				for _, p := range parts {
					if eqTest(fl, p, methodP, fl.Is(tok(cn)), true) {
						matched++
						break
					}
				}
			}
			if matched > 0 && len(parts) == len(consts) {
				found = is
				all = matched == len(consts)
			}
			return true
		})
		return found, all
	}
	type fam struct {
		rule   string
		consts []string
		adj    [3]string // expected big var values for args 2,3,4: "8", "nil", …
	}
	for _, f := range []fam{
		{"O7.copy.8dist1", []string{"IDLimitedCopyU32FromHistory8ByteChunksDistance1Fast", "IDLimitedCopyU32FromHistory8ByteChunksDistance1FastReturnCusp"}, [3]string{"8", "nil", "1"}},
		{"O7.copy.8", []string{"IDLimitedCopyU32FromHistory8ByteChunksFast", "IDLimitedCopyU32FromHistory8ByteChunksFastReturnCusp"}, [3]string{"8", "8", "nil"}},
		{"O7.copy", []string{"IDLimitedCopyU32FromHistoryFast", "IDLimitedCopyU32FromHistoryFastReturnCusp"}, [3]string{"nil", "1", "nil"}},
	} {
		is, all := findIf(f.consts...)
		anchor := anchorF + "[method == " + f.consts[0] + "]"
		if is == nil || !all {
			c.Undecided(f.rule, anchor, "a branch for exactly these methods exists", "if-statement comparing method with these constants not found")
			continue
		}
		bigArg := func(want string) core.ExprPred {
			return func(e ast.Expr) bool {
				if want == "nil" {
					return core.IsNilIdent(info, e)
				}
				v, ok := k.bigVarVal(fl.Obj(e))
				return ok && strconv.FormatInt(v, 10) == want
			}
		}
		k.passChecked(f.rule, anchor,
			fmt.Sprintf("this unchecked history copy requires canLimitedCopyU32FromHistoryFast(recv, n.Args(), adj=%s, minDistance=%s, exactDistance=%s) — the pre-conditions stated in io-private.h", f.adj[0], f.adj[1], f.adj[2]),
			fl, core.Query{Region: core.RegionOf(is.Body), FallOut: true, Exit: accept},
			fl.Call(canCopy, recvP, fl.MethodChain(fl.Is(n), "Args"), bigArg(f.adj[0]), bigArg(f.adj[1]), bigArg(f.adj[2])))
	}
	// undo_byte.
	if is, all := findIf("IDUndoByte", "IDPeekUndoByte"); is == nil || !all {
		c.Undecided("O7.undo", anchorF+"[method == IDUndoByte]", "a branch for undo_byte / peek_undo_byte exists", "not found")
	} else {
		k.passChecked("O7.undo", anchorF+"[method == IDUndoByte]", "undo_byte / peek_undo_byte require a can_undo_byte() fact (canUndoByte)", fl,
			core.Query{Region: core.RegionOf(is.Body), FallOut: true, Exit: accept}, fl.Call(canUndo, recvP))
	}
	// skip_u32_fast.
	if is, all := findIf("IDSkipU32Fast"); is == nil || !all {
		c.Undecided("O7.skip", anchorF+"[method == IDSkipU32Fast]", "a branch for skip_u32_fast exists", "not found")
	} else {
		anchor := anchorF + "[method == IDSkipU32Fast]"
		argsP := fl.Denotes(fl.MethodChain(fl.Is(n), "Args"))
		argN := func(i int64) core.ExprPred {
			return fl.Denotes(fl.MethodChain(func(b ast.Expr) bool {
				ix, ok := ast.Unparen(b).(*ast.IndexExpr)
				if !ok || !argsP(ix.X) {
					return false
				}
				v, ok := core.ConstInt64(info, ix.Index)
				return ok && v == i
			}, "AsArg", "Value"))
		}
		actual, worst := argN(0), argN(1)
		call := fl.Call(proveBinaryOp, fl.Is(tok("IDXBinaryLessEq")), actual, worst)
		eqEdge := func(cond ast.Expr, ci *core.CondInfo, taken bool) bool {
			cl, ok := ast.Unparen(cond).(*ast.CallExpr)
			if !ok || !taken {
				return false
			}
			fn := core.Callee(info, cl)
			if fn == nil || fn.Name() != "Eq" || len(cl.Args) != 1 {
				return false
			}
			r := core.RecvOf(cl)
			return (actual(r) && worst(cl.Args[0])) || (worst(r) && actual(cl.Args[0]))
		}
		region := core.RegionOf(is.Body)
		q := core.Query{Region: region, FallOut: true, Exit: accept, Exempt: eqEdge}
		k.passChecked("O7.skip", anchor, "skip_u32_fast(actual, worst_case) requires actual == worst_case syntactically or a proof of actual <= worst_case", fl, q, call)
		k.mustPass("O7.skip.advance", anchor, "skip_u32_fast always sets an advance (worst_case constant or the actual expression), so the length pre-condition O7.advance applies", fl,
			core.Query{Region: region, FallOut: true, Events: []core.Event{{Node: assignsAdv}}})
	}
	// peek_u8_at / peek_u64le_at.
	if is, all := findIf("IDPeekU8At", "IDPeekU64LEAt"); is == nil || !all {
		c.Undecided("O7.peekat", anchorF+"[method == IDPeekU8At]", "a branch for peek_u8_at / peek_u64le_at exists", "not found")
	} else {
		anchor := anchorF + "[method == IDPeekU8At]"
		region := core.RegionOf(is.Body)
		k.mustPass("O7.peekat.advance", anchor, "peek_uxx_at(offset) sets an advance", fl,
			core.Query{Region: region, FallOut: true, Events: []core.Event{{Node: assignsAdv}}})
		// Constants: adv := 1, or 8 when method == IDPeekU64LEAt, plus the constant offset.
		vals := map[string]bool{}
		has64 := false
		addOff := false
		ast.Inspect(is.Body, func(m ast.Node) bool {
			switch x := m.(type) {
			case *ast.AssignStmt:
				for i, l := range x.Lhs {
					if id, ok := l.(*ast.Ident); ok && id.Name != "_" && i < len(x.Rhs) {
						if o := fl.Obj(l); o != nil && o.Type().String() == "int64" {
							if call, ok := ast.Unparen(x.Rhs[i]).(*ast.CallExpr); ok && len(call.Args) == 1 {
								if v, ok := core.ConstInt64(info, call.Args[0]); ok {
									vals[strconv.FormatInt(v, 10)] = true
								}
							} else if v, ok := core.ConstInt64(info, x.Rhs[i]); ok {
								vals[strconv.FormatInt(v, 10)] = true
							}
						}
					}
				}
			case *ast.IfStmt:
				if eqTest(fl, x.Cond, methodP, fl.Is(tok("IDPeekU64LEAt")), true) {
					has64 = true
				}
			case *ast.CallExpr:
				if fn := core.Callee(info, x); fn != nil && fn.FullName() == "(*math/big.Int).Add" && len(x.Args) == 2 {
					if fl.Is(advObj)(core.RecvOf(x)) && fl.Is(advObj)(x.Args[0]) && fl.MethodChain(core.Any, "ConstValue")(x.Args[1]) {
						addOff = true
					}
				}
			}
			return true
		})
		c.Check(vals["1"] && vals["8"] && has64 && addOff, "O7.peekat.size", anchor,
			"peek_u8_at needs offset+1 bytes, peek_u64le_at offset+8: advance = {1 | 8 when method == IDPeekU64LEAt} + offset.ConstValue()", 4,
			fmt.Sprintf("sizes seen %v, u64 branch %v, offset added %v", keys(vals), has64, addOff))
		k.mustPass("O7.peekat.const", anchor, "a non-constant offset is rejected", fl, core.Query{Region: region, FallOut: true, Exit: accept,
			Events: []core.Event{{Edge: func(cond ast.Expr, ci *core.CondInfo, taken bool) bool {
				return !taken && nilTest(fl, cond, fl.MethodChain(core.Any, "ConstValue"), true)
			}}}})
	}

	// canLimitedCopyU32FromHistoryFast: each of the labelled searches must succeed.
	if fc := k.flow("O7.copy.checks", relCheck, "checker", "canLimitedCopyU32FromHistoryFast"); fc != nil {
		labels := []string{}
		ast.Inspect(fc.F.Decl.Body, func(m ast.Node) bool {
			if ls, ok := m.(*ast.LabeledStmt); ok {
				labels = append(labels, ls.Label.Name)
			}
			return true
		})
		minD, exactD := fc.Param(3), fc.Param(4)
		for _, lb := range labels {
			lb := lb
			k.mustPass("O7.copy.checks", fc.F.Name()+"["+lb+"]",
				"success (`return nil`) is reachable only by finding a matching fact (`break "+lb+"`); the distance checks are skipped only when their bound parameter is nil", fc,
				core.Query{Exit: fc.SuccessReturn, FuncEnd: true,
					Events: []core.Event{{Node: func(x ast.Node) bool {
						b := fc.Branch(x)
						return b != nil && b.Tok == token.BREAK && b.Label != nil && b.Label.Name == lb
					}}},
					Exempt: func(cond ast.Expr, ci *core.CondInfo, taken bool) bool {
						if taken || ci == nil || ci.Kind != "for" {
							return false
						}
						fs, _ := ci.Stmt.(*ast.ForStmt)
						// only the loop carrying this label
						ok := false
						ast.Inspect(fc.F.Decl.Body, func(m ast.Node) bool {
							if ls, isl := m.(*ast.LabeledStmt); isl && ls.Label.Name == lb && ls.Stmt == ast.Stmt(fs) {
								ok = true
							}
							return true
						})
						// the loop may be skipped only for the bound parameter that its body compares against
						return ok && ((nilTest(fc, cond, fc.Is(minD), false) && core.Mentions(fc.F.Info(), fs.Body, minD)) ||
							(nilTest(fc, cond, fc.Is(exactD), false) && core.Mentions(fc.F.Info(), fs.Body, exactD)))
					}})
		}
		c.Floor("O7.copy.checks", "labelled fact searches in canLimitedCopyU32FromHistoryFast (upTo>=1, upTo+adj<=length, distance>=min, distance==exact, distance<=history_length)", len(labels), 5)
	}
}

func keys(m map[string]bool) []string {
	var out []string
	for k := range m {
		out = append(out, k)
	}
	sort.Strings(out)
	return out
}

// ---------- O8 ----------

func runC01Phases(k *gctx) {
	c := k.c
	p := k.g.Pkg(relCheck)
	var lit *ast.CompositeLit
	for _, f := range p.Syntax {
		for _, d := range f.Decls {
			if gd, ok := d.(*ast.GenDecl); ok && gd.Tok == token.VAR {
				for _, s := range gd.Specs {
					vs := s.(*ast.ValueSpec)
					for i, id := range vs.Names {
						if id.Name == "phases" && i < len(vs.Values) {
							lit, _ = vs.Values[i].(*ast.CompositeLit)
						}
					}
				}
			}
		}
	}
	if lit == nil {
		c.Undecided("O8", relCheck+".phases", "the phases table exists", "composite literal not found")
		return
	}
	var order []string
	kinds := map[string]string{}
	for _, e := range lit.Elts {
		cl, ok := e.(*ast.CompositeLit)
		if !ok || len(cl.Elts) != 2 {
			continue
		}
		// (*Checker).checkX
		if sel, ok := ast.Unparen(cl.Elts[1]).(*ast.SelectorExpr); ok {
			if fn, ok := p.TypesInfo.Uses[sel.Sel].(*types.Func); ok {
				order = append(order, fn.Name())
				kinds[fn.Name()] = core.Src(k.g.Fset, cl.Elts[0])
			}
		}
	}
	idx := func(name string) int {
		for i, n := range order {
			if n == name {
				return i
			}
		}
		return -1
	}
	need := []struct{ name, kind, why string }{
		{"checkStructCycles", "a.KInvalid", "no struct cycles (finite object size)"},
		{"checkStructFields", "a.KStruct", "field types checked (O9)"},
		{"checkFuncSignature", "a.KFunc", "parameter types checked"},
		{"checkFuncBody", "a.KFunc", "every function body type- and bounds-checked"},
		{"checkNoRecursiveFuncs", "a.KFunc", "no recursion"},
		{"checkAllTypeChecked", "a.KInvalid", "final pass: every node typed and bounded"},
	}
	for _, n := range need {
		i := idx(n.name)
		c.Check(i >= 0 && kinds[n.name] == n.kind, "O8.wired", relCheck+".phases["+n.name+"]", "phase is wired into check.Check for kind "+n.kind+": "+n.why, 1,
			fmt.Sprintf("phases order: %v", order))
	}
	c.Check(idx("checkFuncBody") >= 0 && idx("checkFuncBody") < idx("checkAllTypeChecked") && idx("checkStructFields") < idx("checkFuncBody") && idx("checkFuncSignature") < idx("checkFuncBody"),
		"O8.order", relCheck+".phases", "struct fields and signatures are checked before bodies, and bodies before the all-type-checked pass", len(order), fmt.Sprintf("%v", order))
	// Check iterates the whole table for every top-level declaration of the matching kind.
	if fl := k.flow("O8", relCheck, "", "Check"); fl != nil {
		var loop *ast.RangeStmt
		phasesObj := k.g.LookupObj(relCheck, "phases")
		ast.Inspect(fl.F.Decl.Body, func(m ast.Node) bool {
			if rs, ok := m.(*ast.RangeStmt); ok && fl.Is(phasesObj)(rs.X) {
				loop = rs
			}
			return true
		})
		if loop == nil {
			c.Undecided("O8.loop", fl.F.Name(), "Check ranges over phases", "no range over phases")
		} else {
			ph := fl.Obj(loop.Value)
			callsCheck := func(call *ast.CallExpr) bool {
				sel, ok := ast.Unparen(call.Fun).(*ast.SelectorExpr)
				return ok && sel.Sel.Name == "check" && fl.Is(ph)(sel.X)
			}
			n := core.CountCalls(loop.Body, callsCheck)
			errv := func(e ast.Expr) bool { o := fl.Obj(e); return o != nil && o.Type().String() == "error" }
			esc, sites := fl.Escapes(core.Query{Region: core.RegionOf(loop.Body), FallOut: true,
				Start: func(x ast.Node) bool { return core.Guaranteed(x, callsCheck) },
				Events: []core.Event{{Edge: func(cond ast.Expr, ci *core.CondInfo, taken bool) bool {
					return !taken && nilTest(fl, cond, errv, false)
				}}}})
			c.Check(n >= 2 && len(esc) == 0, "O8.loop", fl.F.Name()+"[range phases]", "every phase is invoked (per declaration, or once for KInvalid) and its error is returned", sites, fmt.Sprintf("%d phase.check call sites; escapes: %v", n, esc))
			// success return only after the loop
			k.mustPass("O8.return", fl.F.Name(), "Check returns success only after the phases loop", fl, core.Query{
				Exit: fl.SuccessReturn, FuncEnd: true,
				Events: []core.Event{{Node: func(x ast.Node) bool { return x.Pos() >= loop.Pos() && x.End() <= loop.End() }}}})
		}
	}
	// checkFuncBody: tcheckStatement for every statement, then bcheckBlock(body).
	if fl := k.flow("O8", relCheck, "Checker", "checkFuncBody"); fl != nil {
		tcheckStatement := k.fn("O8", relCheck, "checker", "tcheckStatement")
		bcheckBlock := k.fn("O8", relCheck, "checker", "bcheckBlock")
		tcheckVars := k.fn("O8", relCheck, "checker", "tcheckVars")
		body := fl.MethodChain(core.Any, "Body")
		exempt := func(cond ast.Expr, ci *core.CondInfo, taken bool) bool {
			// len(n.Body()) == 0
			b, ok := ast.Unparen(cond).(*ast.BinaryExpr)
			if !ok || !taken || b.Op != token.EQL {
				return false
			}
			call, ok := ast.Unparen(b.X).(*ast.CallExpr)
			if !ok {
				return false
			}
			id, ok := call.Fun.(*ast.Ident)
			v, isk := core.ConstInt64(fl.F.Info(), b.Y)
			return ok && id.Name == "len" && len(call.Args) == 1 && body(call.Args[0]) && isk && v == 0
		}
		q := core.Query{Exit: fl.SuccessReturn, FuncEnd: true, Exempt: exempt}
		k.passChecked("O8.body.bounds", fl.F.Name(), "a non-empty function body is bounds-checked: bcheckBlock(n.Body())", fl, q, fl.Call(bcheckBlock, fl.Denotes(body)))
		k.passChecked("O8.body.vars", fl.F.Name(), "local variable types are collected: tcheckVars", fl, q, fl.Call(tcheckVars, nil, fl.Denotes(body)))
		var loop *ast.RangeStmt
		ast.Inspect(fl.F.Decl.Body, func(m ast.Node) bool {
			if rs, ok := m.(*ast.RangeStmt); ok && loop == nil && fl.Denotes(body)(rs.X) {
				loop = rs
			}
			return true
		})
		if loop == nil {
			c.Undecided("O8.body.types", fl.F.Name(), "loop over body statements", "not found")
		} else {
			k.passChecked("O8.body.types", fl.F.Name()+"[range n.Body()]", "every top-level statement is type-checked: tcheckStatement(o)", fl,
				core.Query{Region: core.RegionOf(loop.Body), FallOut: true}, fl.Call(tcheckStatement, fl.Is(fl.Obj(loop.Value))))
		}
	}
	// checkNoRecursiveFuncs1: temporary mark ⇒ error.
	if fl := k.flow("O8", relCheck, "Checker", "checkNoRecursiveFuncs1"); fl != nil {
		// case temporary: must not fall out / return success.
		var tempConst types.Object
		ast.Inspect(fl.F.Decl.Body, func(m ast.Node) bool {
			if vs, ok := m.(*ast.ValueSpec); ok {
				for _, id := range vs.Names {
					if id.Name == "temporary" {
						tempConst = fl.F.Info().Defs[id]
					}
				}
			}
			return true
		})
		if tempConst == nil {
			c.Undecided("O8.recursion", fl.F.Name(), "temporary mark constant", "not found")
		} else {
			region, cc := fl.CaseRegion(tempConst, nil)
			if cc == nil {
				c.Undecided("O8.recursion", fl.F.Name()+"[case temporary]", "case for a function already on the DFS stack", "not found")
			} else {
				k.mustPass("O8.recursion", fl.F.Name()+"[case temporary]", "re-entering a function that is on the DFS stack (a recursive call chain) is an error on every path", fl,
					core.Query{Region: region, Exit: fl.SuccessReturn, FallOut: true, Events: []core.Event{}})
			}
			// marks: set temporary before the walk, permanent after.
			nset := 0
			ast.Inspect(fl.F.Decl.Body, func(m ast.Node) bool {
				if as, ok := m.(*ast.AssignStmt); ok && len(as.Lhs) == 1 && len(as.Rhs) == 1 {
					if ix, ok := as.Lhs[0].(*ast.IndexExpr); ok && strings.HasSuffix(core.Src(k.g.Fset, ix.X), "noRecursiveMarks") {
						nset++
					}
				}
				return true
			})
			c.Check(nset >= 2, "O8.recursion.marks", fl.F.Name(), "the DFS sets the temporary and the permanent mark", nset, "")
		}
	}
}

// ---------- tables ----------

var reIO = regexp.MustCompile(`^(peek|poke|write)_u(8|16|24|32|40|48|56|64)(be|le)?(_as_u(16|32|64))?(_fast)?$`)

func runC01Tables(k *gctx) {
	c := k.c
	pc := k.g.Pkg(relCheck)
	// token ID constant value -> name, from lang/token builtInsByID.
	pt := k.g.Pkg("lang/token")
	idName := map[int64]string{}
	if pt == nil {
		c.Undecided("T1", "lang/token", "token package loaded", "missing")
		return
	}
	for _, f := range pt.Syntax {
		ast.Inspect(f, func(m ast.Node) bool {
			vs, ok := m.(*ast.ValueSpec)
			if !ok || len(vs.Names) != 1 || vs.Names[0].Name != "builtInsByID" || len(vs.Values) != 1 {
				return true
			}
			if cl, ok := vs.Values[0].(*ast.CompositeLit); ok {
				for _, e := range cl.Elts {
					if kv, ok := e.(*ast.KeyValueExpr); ok {
						kk, ok1 := core.ConstInt64(pt.TypesInfo, kv.Key)
						vv := core.ConstVal(pt.TypesInfo, kv.Value)
						if ok1 && vv != nil {
							s, _ := strconv.Unquote(vv.ExactString())
							idName[kk] = s
						}
					}
				}
			}
			return false
		})
	}
	if len(idName) < 300 {
		c.Undecided("T1", "lang/token.builtInsByID", "built-in name table parsed", fmt.Sprintf("only %d entries", len(idName)))
		return
	}
	base, _ := func() (int64, bool) {
		o := k.g.LookupObj("lang/token", "IDPeekU8")
		if cv := constOf(o); cv != nil {
			return core.ConstValInt(cv)
		}
		return 0, false
	}()
	expected := func(name string) (adv int64, upd bool, ok bool) {
		switch name {
		case "write_simple_token_fast", "write_extended_token_fast":
			return 1, true, true
		}
		m := reIO.FindStringSubmatch(name)
		if m == nil {
			return 0, false, false
		}
		bits, _ := strconv.Atoi(m[2])
		switch m[1] {
		case "peek":
			if m[6] != "" {
				return 0, false, false
			}
			return int64(bits / 8), false, true
		case "poke":
			if m[4] != "" || m[6] != "" {
				return 0, false, false
			}
			return int64(bits / 8), false, true
		case "write":
			if m[6] == "" || m[4] != "" {
				return 0, false, false // write_u8 (suspending) is checked at run time
			}
			return int64(bits / 8), true, true
		}
		return 0, false, false
	}
	// Parse ioMethodAdvances.
	got := map[int64][2]string{}
	var lit *ast.CompositeLit
	for _, f := range pc.Syntax {
		ast.Inspect(f, func(m ast.Node) bool {
			vs, ok := m.(*ast.ValueSpec)
			if ok && len(vs.Names) == 1 && vs.Names[0].Name == "ioMethodAdvances" && len(vs.Values) == 1 {
				lit, _ = vs.Values[0].(*ast.CompositeLit)
			}
			return true
		})
	}
	if lit == nil {
		c.Undecided("T1", relCheck+".ioMethodAdvances", "table exists", "not found")
		return
	}
	for _, e := range lit.Elts {
		kv, ok := e.(*ast.KeyValueExpr)
		if !ok {
			c.Undecided("T1", relCheck+".ioMethodAdvances", "keyed entries", "unkeyed element")
			return
		}
		off, ok1 := core.ConstInt64(pc.TypesInfo, kv.Key)
		cl, ok2 := kv.Value.(*ast.CompositeLit)
		if !ok1 || !ok2 || len(cl.Elts) != 2 {
			c.Undecided("T1", relCheck+".ioMethodAdvances", "entries are {advance, update}", core.Src(k.g.Fset, e))
			return
		}
		var advObj types.Object
		switch x := cl.Elts[0].(type) {
		case *ast.Ident:
			advObj = pc.TypesInfo.Uses[x]
		}
		av, okv := k.bigVarVal(advObj)
		uv := core.ConstVal(pc.TypesInfo, cl.Elts[1])
		if !okv || uv == nil {
			c.Undecided("T1", relCheck+".ioMethodAdvances", "entry values resolve to constants", core.Src(k.g.Fset, e))
			return
		}
		got[off] = [2]string{strconv.FormatInt(av, 10), uv.ExactString()}
	}
	// cgen sibling: peekMethods {size, n, endianness}.
	cg := k.g.Pkg("internal/cgen")
	cgenN := map[int64]int64{}
	if cg != nil {
		for _, f := range cg.Syntax {
			ast.Inspect(f, func(m ast.Node) bool {
				vs, ok := m.(*ast.ValueSpec)
				if ok && len(vs.Names) == 1 && vs.Names[0].Name == "peekMethods" && len(vs.Values) == 1 {
					if cl, ok := vs.Values[0].(*ast.CompositeLit); ok {
						for _, e := range cl.Elts {
							if kv, ok := e.(*ast.KeyValueExpr); ok {
								off, ok1 := core.ConstInt64(cg.TypesInfo, kv.Key)
								if v, ok := kv.Value.(*ast.CompositeLit); ok && ok1 && len(v.Elts) == 3 {
									if nbits, ok := core.ConstInt64(cg.TypesInfo, v.Elts[1]); ok {
										cgenN[off] = nbits
									}
								}
							}
						}
					}
				}
				return true
			})
		}
	}
	// Every built-in in the table's range with an unchecked name has the right entry; nothing else has one.
	maxOff := int64(0)
	for id := range idName {
		if id-base > maxOff {
			maxOff = id - base
		}
	}
	nChecked := 0
	for id, name := range idName {
		off := id - base
		if off < 0 {
			continue
		}
		adv, upd, need := expected(name)
		g, has := got[off]
		anchor := relCheck + ".ioMethodAdvances[" + name + "]"
		if need {
			nChecked++
			want := [2]string{strconv.FormatInt(adv, 10), strconv.FormatBool(upd)}
			switch {
			case !has:
				c.Fail("T1.entry", anchor, fmt.Sprintf("unchecked built-in %s needs pre-condition length >= %d (update=%v)", name, adv, upd), 1,
					fmt.Sprintf("%s: no entry for t.ID %s (offset %d): the checker proves no length pre-condition for this method, while cgen emits it without a bounds check", k.g.Pos(lit.Pos()), name, off))
			case g != want:
				c.Fail("T1.entry", anchor, fmt.Sprintf("unchecked built-in %s needs pre-condition length >= %d (update=%v)", name, adv, upd), 1,
					fmt.Sprintf("%s: entry is {%s, %s}, expected {%s, %s}", k.g.Pos(lit.Pos()), g[0], g[1], want[0], want[1]))
			default:
				c.Pass("T1.entry", anchor, fmt.Sprintf("unchecked built-in %s needs pre-condition length >= %d (update=%v)", name, adv, upd), 1, "")
			}
			if nb, ok := cgenN[off]; ok {
				c.Check(nb == adv*8, "T1.cgen", anchor, "cgen's peekMethods reads the same number of bits the checker requires", 1, fmt.Sprintf("cgen reads %d bits, checker requires %d bytes", nb, adv))
			}
		} else if has {
			c.Fail("T1.extra", anchor, "only unchecked peek/poke/write_fast built-ins have advance entries", 1, fmt.Sprintf("unexpected entry {%s,%s} for %s", g[0], g[1], name))
		}
	}
	for off := range cgenN {
		name := idName[base+off]
		if _, _, need := expected(name); !need {
			c.Fail("T1.cgen", relCheck+".ioMethodAdvances["+name+"]", "every method cgen lowers through peekMethods (no bounds check) is a method the checker guards", 1, "cgen peekMethods has an entry for "+name+" which the naming rule does not classify as unchecked")
		}
	}
	c.Floor("T1", "unchecked I/O built-ins (peek_*, poke_*, write_*_fast) with a length pre-condition", nChecked, 57)

	// T2: the cpu_arch make_/store_ *_sliceN suffix switch in bcheckExprCallSpecialCases.
	if fl := k.flow("T2", relCheck, "checker", "bcheckExprCallSpecialCases"); fl != nil {
		info := fl.F.Info()
		type ent struct {
			suffix string
			val    int64
		}
		var ents []ent
		hasCatch := false
		ast.Inspect(fl.F.Decl.Body, func(m ast.Node) bool {
			cc, ok := m.(*ast.CaseClause)
			if !ok || len(cc.List) != 1 {
				return true
			}
			call, ok := cc.List[0].(*ast.CallExpr)
			if !ok || len(call.Args) != 2 {
				return true
			}
			fn := core.Callee(info, call)
			if fn == nil {
				return true
			}
			sv := core.ConstVal(info, call.Args[1])
			if sv == nil {
				return true
			}
			s, _ := strconv.Unquote(sv.ExactString())
			switch fn.FullName() {
			case "strings.HasSuffix":
				for _, st := range cc.Body {
					if as, ok := st.(*ast.AssignStmt); ok && len(as.Rhs) == 1 {
						if v, ok := k.bigVarVal(fl.Obj(as.Rhs[0])); ok {
							ents = append(ents, ent{s, v})
						}
					}
				}
			case "strings.Contains":
				if s == "_slice" {
					for _, st := range cc.Body {
						if r, ok := st.(*ast.ReturnStmt); ok && fl.IsErrorReturn(r) {
							hasCatch = true
						}
					}
				}
			}
			return true
		})
		re1 := regexp.MustCompile(`^_slice(\d+)$`)
		re2 := regexp.MustCompile(`^_slice_u16lex(\d+)$`)
		for _, e := range ents {
			want := int64(-1)
			unit := "bytes"
			if m := re1.FindStringSubmatch(e.suffix); m != nil {
				b, _ := strconv.Atoi(m[1])
				want = int64(b / 8)
			} else if m := re2.FindStringSubmatch(e.suffix); m != nil {
				b, _ := strconv.Atoi(m[1])
				want = int64(b) // slice of u16: length counted in elements
				unit = "u16 elements"
			}
			c.Check(want == e.val, "T2.entry", relCheck+".cpuArchSliceAdvance["+e.suffix+"]", fmt.Sprintf("SIMD load/store %s touches %d %s, which is the required slice length", e.suffix, want, unit), 1, fmt.Sprintf("table says %d", e.val))
		}
		c.Check(hasCatch, "T2.catchall", relCheck+".cpuArchSliceAdvance[_slice*]", "any other make_/store_ method mentioning _slice is rejected (no unguarded SIMD memory access)", 1, "")
		c.Floor("T2", "cpu_arch slice suffix entries", len(ents), 8)
	}

	// T3: numTypeBounds / numShiftBounds vs their mathematical definition and cgen's copy.
	runC01NumBounds(k)
}

func runC01NumBounds(k *gctx) {
	c := k.c
	pc := k.g.Pkg(relCheck)
	info := pc.TypesInfo
	find := func(name string) *ast.CompositeLit {
		var lit *ast.CompositeLit
		for _, f := range pc.Syntax {
			ast.Inspect(f, func(m ast.Node) bool {
				vs, ok := m.(*ast.ValueSpec)
				if ok && len(vs.Names) == 1 && vs.Names[0].Name == name && len(vs.Values) == 1 {
					lit, _ = vs.Values[0].(*ast.CompositeLit)
				}
				return true
			})
		}
		return lit
	}
	// evaluate a *big.Int expression of the forms used: zero/one vars, big.NewInt(k), big.NewInt(0).SetUint64(k)
	var eval func(e ast.Expr) (string, bool)
	eval = func(e ast.Expr) (string, bool) {
		e = ast.Unparen(e)
		switch x := e.(type) {
		case *ast.Ident:
			if v, ok := k.bigVarVal(info.Uses[x]); ok {
				return strconv.FormatInt(v, 10), true
			}
		case *ast.CallExpr:
			if v, ok := bigNewIntVal(info, x); ok {
				return strconv.FormatInt(v, 10), true
			}
			if fn := core.Callee(info, x); fn != nil && fn.FullName() == "(*math/big.Int).SetUint64" && len(x.Args) == 1 {
				if cv := core.ConstVal(info, x.Args[0]); cv != nil {
					return cv.ExactString(), true
				}
			}
		}
		return "", false
	}
	pow2 := func(n int) *big.Int { return new(big.Int).Lsh(big.NewInt(1), uint(n)) }
	sub1 := func(x *big.Int) *big.Int { return new(big.Int).Sub(x, big.NewInt(1)) }
	negb := func(x *big.Int) *big.Int { return new(big.Int).Neg(x) }
	for _, tab := range []string{"numTypeBounds", "numShiftBounds"} {
		lit := find(tab)
		if lit == nil {
			c.Undecided("T3", relCheck+"."+tab, "table exists", "not found")
			continue
		}
		n := 0
		for _, e := range lit.Elts {
			kv, ok := e.(*ast.KeyValueExpr)
			if !ok {
				continue
			}
			sel, ok := kv.Key.(*ast.SelectorExpr)
			v, ok2 := kv.Value.(*ast.CompositeLit)
			if !ok || !ok2 || len(v.Elts) != 2 {
				continue
			}
			name := sel.Sel.Name // IDU8 …
			lo, ok1 := eval(v.Elts[0])
			hi, ok3 := eval(v.Elts[1])
			if !ok1 || !ok3 {
				c.Undecided("T3.entry", relCheck+"."+tab+"["+name+"]", "entry evaluates", core.Src(k.g.Fset, e))
				continue
			}
			var wlo, whi string
			switch {
			case name == "IDBool":
				wlo, whi = "0", "1"
			case strings.HasPrefix(name, "IDU"):
				bits, _ := strconv.Atoi(name[3:])
				if tab == "numShiftBounds" {
					wlo, whi = "0", strconv.Itoa(bits-1)
				} else {
					wlo, whi = "0", sub1(pow2(bits)).String()
				}
			case strings.HasPrefix(name, "IDI"):
				bits, _ := strconv.Atoi(name[3:])
				wlo, whi = negb(pow2(bits-1)).String(), sub1(pow2(bits-1)).String()
			}
			n++
			c.Check(lo == wlo && hi == whi, "T3.entry", relCheck+"."+tab+"["+name+"]", fmt.Sprintf("%s[%s] = [%s, %s]", tab, name, wlo, whi), 1, fmt.Sprintf("table says [%s, %s]", lo, hi))
		}
		floor := 9
		if tab == "numShiftBounds" {
			floor = 4
		}
		c.Floor("T3."+tab, "entries of "+tab, n, floor)
	}
}
