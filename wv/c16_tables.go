package main

// C16 rule family T — RFC 1951 constants (engine E3). Expected values are
// generated here from the RFC's rules; the repository's values are read by
// evaluating composite literals and constant expressions through go/types.

import (
	"fmt"
	"go/ast"
	"go/token"
	"go/types"
	"math"
	"sort"
	"strings"

	"wv/core"
)

type c16Tables struct {
	sentinel int64
	tables   map[string]c16TableVals
}

// c16EvalArray evaluates a package-level array variable initialised by a
// composite literal of constants (positional or keyed elements).
func c16EvalArray(k *gctx, rel, name string) (vals []int64, pos token.Pos, elem types.Type, ok bool) {
	p := k.g.Pkg(rel)
	obj := k.g.LookupObj(rel, name)
	if p == nil || obj == nil {
		return nil, token.NoPos, nil, false
	}
	arr, isArr := obj.Type().Underlying().(*types.Array)
	if !isArr {
		return nil, obj.Pos(), nil, false
	}
	for _, f := range p.Syntax {
		for _, d := range f.Decls {
			gd, isGd := d.(*ast.GenDecl)
			if !isGd || gd.Tok != token.VAR {
				continue
			}
			for _, s := range gd.Specs {
				vs := s.(*ast.ValueSpec)
				for i, id := range vs.Names {
					if p.TypesInfo.Defs[id] != obj || i >= len(vs.Values) {
						continue
					}
					cl, isCl := ast.Unparen(vs.Values[i]).(*ast.CompositeLit)
					if !isCl {
						return nil, id.Pos(), arr.Elem(), false
					}
					vals = make([]int64, arr.Len())
					next := int64(0)
					for _, e := range cl.Elts {
						val := e
						if kv, isKv := e.(*ast.KeyValueExpr); isKv {
							kx, okk := core.ConstInt64(p.TypesInfo, kv.Key)
							if !okk {
								return nil, e.Pos(), arr.Elem(), false
							}
							next = kx
							val = kv.Value
						}
						v, okv := core.ConstInt64(p.TypesInfo, val)
						if !okv || next < 0 || next >= arr.Len() {
							return nil, e.Pos(), arr.Elem(), false
						}
						vals[next] = v
						next++
					}
					return vals, cl.Pos(), arr.Elem(), true
				}
			}
		}
	}
	return nil, obj.Pos(), arr.Elem(), false
}

// RFC 1951 §3.2.5: length codes 257..285.
func c16RfcLengths() (base, extra []int64) {
	b := int64(3)
	for i := 0; i < 28; i++ { // codes 257..284
		e := int64(0)
		if i/4 >= 1 {
			e = int64(i/4 - 1)
		}
		base, extra = append(base, b), append(extra, e)
		b += 1 << uint(e)
	}
	// b is now 259; the RFC gives length 258 its own code 285 with no extra bits.
	return append(base, 258), append(extra, 0)
}

// RFC 1951 §3.2.5: distance codes 0..29.
func c16RfcDistances() (base, extra []int64) {
	b := int64(1)
	for i := 0; i < 30; i++ {
		e := int64(0)
		if i/2 >= 1 {
			e = int64(i/2 - 1)
		}
		base, extra = append(base, b), append(extra, e)
		b += 1 << uint(e)
	}
	return base, extra // b == 32769: distances 1..32768
}

// RFC 1951 §3.2.7.
var c16RfcCodeOrder = []int64{16, 17, 18, 0, 8, 7, 9, 6, 10, 5, 11, 4, 12, 3, 13, 2, 14, 1, 15}

func c16CmpTable(got, want []int64, name func(i int) string) (int, string) {
	var diffs []string
	n := len(got)
	if len(want) > n {
		n = len(want)
	}
	for i := 0; i < n; i++ {
		switch {
		case i >= len(got):
			diffs = append(diffs, fmt.Sprintf("%s missing (expected %d)", name(i), want[i]))
		case i >= len(want):
			diffs = append(diffs, fmt.Sprintf("%s = %d is beyond the expected table", name(i), got[i]))
		case got[i] != want[i]:
			diffs = append(diffs, fmt.Sprintf("%s = %d, RFC 1951 says %d", name(i), got[i], want[i]))
		}
	}
	if len(diffs) > 6 {
		diffs = append(diffs[:6], fmt.Sprintf("… %d more", len(diffs)-6))
	}
	return n, strings.Join(diffs, "; ")
}

func runC16Tables(k *gctx) *c16Tables {
	c := k.c
	g := k.g
	out := &c16Tables{tables: map[string]c16TableVals{}}
	sobj := k.obj("T.sentinel", c16RelFlate, "mostNegativeInt32")
	cv := constOf(sobj)
	if cv == nil {
		c.Undecided("T.sentinel", c16RelFlate+".mostNegativeInt32", "the sentinel is a constant", "not a constant")
		return nil
	}
	sv, _ := core.ConstValInt(cv)
	out.sentinel = sv
	c.Check(sv == math.MinInt32, "T.sentinel", c16RelFlate+".mostNegativeInt32", "the sentinel is the most negative int32, so adding any table base or header offset (< 2^30) keeps it negative", 1,
		fmt.Sprintf("%s: value is %d, expected %d", g.Pos(sobj.Pos()), sv, int64(math.MinInt32)))

	pos := map[string]token.Pos{}
	elemT := map[string]types.Type{}
	for _, name := range []string{"codeOrder", "lBases", "lExtras", "dBases", "dExtras"} {
		vals, p, et, ok := c16EvalArray(k, c16RelFlate, name)
		pos[name], elemT[name] = p, et
		out.tables[name] = c16TableVals{vals, ok}
		if !ok {
			c.Undecided("T."+name, c16RelFlate+"."+name, "the table is a package-level array literal of constants", g.Pos(p)+": not evaluable")
		}
	}
	// codeOrder
	if t := out.tables["codeOrder"]; t.ok {
		n, d := c16CmpTable(t.vals, c16RfcCodeOrder, func(i int) string { return fmt.Sprintf("codeOrder[%d]", i) })
		c.Check(d == "", "T.codeOrder", c16RelFlate+".codeOrder", "the order in which code length code lengths are transmitted is RFC 1951 §3.2.7's 16,17,18,0,8,7,9,6,10,5,11,4,12,3,13,2,14,1,15", n, g.Pos(pos["codeOrder"])+": "+d)
	}
	// length tables, biased by 256
	wantSlots := func(base, extra []int64, bias, size int) (wb, we []int64) {
		wb, we = make([]int64, size), make([]int64, size)
		for i := range wb {
			wb[i] = sv
		}
		for i := range base {
			if bias+i < size {
				wb[bias+i], we[bias+i] = base[i], extra[i]
			}
		}
		return
	}
	lb, le := c16RfcLengths()
	db, de := c16RfcDistances()
	type tb struct {
		bname, ename string
		base, extra  []int64
		bias         int   // slot of the first RFC entry
		symbol0      int   // symbol number of slot 0
		minSize      int64 // static alphabet size reaching the table
	}
	for _, t := range []tb{
		{"lBases", "lExtras", lb, le, 1, 256, 288 - 256},
		{"dBases", "dExtras", db, de, 0, 0, 32},
	} {
		bt, et := out.tables[t.bname], out.tables[t.ename]
		if !bt.ok || !et.ok {
			continue
		}
		wb, we := wantSlots(t.base, t.extra, t.bias, len(bt.vals))
		nm := func(tab string) func(int) string {
			return func(i int) string { return fmt.Sprintf("%s[%d] (symbol %d)", tab, i, t.symbol0+i) }
		}
		n, d := c16CmpTable(bt.vals, wb, nm(t.bname))
		c.Check(d == "", "T."+t.bname, c16RelFlate+"."+t.bname,
			fmt.Sprintf("%s holds RFC 1951 §3.2.5's base values (base[k+1] = base[k] + 2^extra[k]; anchors %d…%d) at symbol-%d slots and the sentinel in every slot that is not a valid symbol", t.bname, t.base[0], t.base[len(t.base)-1], t.symbol0), n, g.Pos(pos[t.bname])+": "+d)
		we = we[:min(len(we), len(et.vals))]
		if len(et.vals) > len(we) {
			we = append(we, make([]int64, len(et.vals)-len(we))...)
		}
		n, d = c16CmpTable(et.vals, we, nm(t.ename))
		c.Check(d == "", "T."+t.ename, c16RelFlate+"."+t.ename,
			fmt.Sprintf("%s holds RFC 1951 §3.2.5's extra-bit counts, and 0 in unused slots", t.ename), n, g.Pos(pos[t.ename])+": "+d)
		// sizes: symbols up to the static alphabet index these tables
		c.Check(int64(len(bt.vals)) >= t.minSize && len(bt.vals) == len(et.vals), "T.size", c16RelFlate+"."+t.bname,
			fmt.Sprintf("%s and %s have one slot for every symbol the fixed Huffman alphabet can produce (>= %d slots): a decoded symbol is always a valid index", t.bname, t.ename, t.minSize), len(bt.vals),
			fmt.Sprintf("%s: len(%s) = %d, len(%s) = %d", g.Pos(pos[t.bname]), t.bname, len(bt.vals), t.ename, len(et.vals)))
		if b, ok := elemT[t.bname].Underlying().(*types.Basic); !ok || b.Kind() != types.Int32 {
			c.Fail("T.sentinel", c16RelFlate+"."+t.bname, "base tables are int32 so that the sentinel survives the addition", 1, g.Pos(pos[t.bname])+": element type is "+elemT[t.bname].String())
		}
	}
	// Tables are read-only and indexed with the expected bias.
	p := g.Pkg(c16RelFlate)
	tabObjs := map[types.Object]string{}
	for _, name := range []string{"codeOrder", "lBases", "lExtras", "dBases", "dExtras"} {
		if o := g.LookupObj(c16RelFlate, name); o != nil {
			tabObjs[o] = name
		}
	}
	var bad []string
	nIdx := 0
	rootTable := func(info *types.Info, e ast.Expr) string {
		for {
			switch x := ast.Unparen(e).(type) {
			case *ast.IndexExpr:
				e = x.X
				continue
			case *ast.SliceExpr:
				e = x.X
				continue
			case *ast.Ident:
				return tabObjs[info.Uses[x]]
			}
			return ""
		}
	}
	for _, f := range g.AllFuncs(p) {
		info := f.Info()
		ast.Inspect(f.Decl.Body, func(n ast.Node) bool {
			switch x := n.(type) {
			case *ast.AssignStmt:
				for _, l := range x.Lhs {
					if t := rootTable(info, l); t != "" {
						bad = append(bad, fmt.Sprintf("%s: table %s is written", g.Pos(x.Pos()), t))
					}
				}
			case *ast.IncDecStmt:
				if t := rootTable(info, x.X); t != "" {
					bad = append(bad, fmt.Sprintf("%s: table %s is written", g.Pos(x.Pos()), t))
				}
			case *ast.UnaryExpr:
				if x.Op == token.AND {
					if t := rootTable(info, x.X); t != "" {
						bad = append(bad, fmt.Sprintf("%s: address of table %s escapes", g.Pos(x.Pos()), t))
					}
				}
			case *ast.IndexExpr:
				id, ok := ast.Unparen(x.X).(*ast.Ident)
				if !ok {
					return true
				}
				t := tabObjs[info.Uses[id]]
				if t == "" {
					return true
				}
				nIdx++
				// l-tables: index is `symbol - 256`; d-tables and codeOrder: a bare variable.
				wantBias := int64(0)
				if t == "lBases" || t == "lExtras" {
					wantBias = 256
				}
				bias := int64(-1)
				switch ix := ast.Unparen(x.Index).(type) {
				case *ast.Ident:
					bias = 0
				case *ast.BinaryExpr:
					if ix.Op == token.SUB {
						if v, ok := core.ConstInt64(info, ix.Y); ok {
							if _, isId := ast.Unparen(ix.X).(*ast.Ident); isId {
								bias = v
							}
						}
					}
				}
				if bias != wantBias {
					bad = append(bad, fmt.Sprintf("%s: %s is indexed by `%s`; the table's slots are for symbol-%d", g.Pos(x.Pos()), t, core.Src(g.Fset, x.Index), wantBias))
				}
			}
			return true
		})
	}
	c.Check(len(bad) == 0, "T.access", c16RelFlate+"[RFC tables]", "the RFC tables are never written, and are indexed by symbol-256 (length tables) or by the symbol (distance tables, codeOrder)", nIdx, strings.Join(bad, "\n"))
	c.Floor("T.access", "index expressions on the RFC tables", nIdx, 7)

	runC16Static(k)
	return out
}

// ---------------------------------------------------------------------
// T.static: the fixed Huffman code lengths (RFC 1951 §3.2.6).

func runC16Static(k *gctx) {
	c := k.c
	g := k.g
	f := g.FindFunc(c16RelFlate, "cutter", "doStaticHuffman")
	anchor := c16RelFlate + ".(*cutter).doStaticHuffman"
	if f == nil {
		c.Undecided("T.static", anchor, "anchor function exists", "not found")
		return
	}
	info := f.Info()
	doHuffman := g.FindFunc(c16RelFlate, "cutter", "doHuffman")
	var lengths types.Object
	var arr []int64
	cursor := map[types.Object]int64{}
	und := func(n ast.Node, why string) {
		c.Undecided("T.static", anchor, "the fixed code lengths are filled by counted loops `for ; i < K; i++ { lengths[i] = V }` over a make([]uint32, N) slice", g.Pos(n.Pos())+": "+why)
	}
	var split, total int64 = -1, -1
	for _, st := range f.Decl.Body.List {
		switch s := st.(type) {
		case *ast.DeclStmt:
			continue // local constants
		case *ast.AssignStmt:
			if len(s.Lhs) != 1 || len(s.Rhs) != 1 {
				und(s, "unrecognised assignment")
				return
			}
			o := c16ObjOf(info, s.Lhs[0])
			if call, ok := ast.Unparen(s.Rhs[0]).(*ast.CallExpr); ok {
				if id, ok := call.Fun.(*ast.Ident); ok {
					if b, ok := info.Uses[id].(*types.Builtin); ok && b.Name() == "make" && len(call.Args) == 2 {
						n, ok := core.ConstInt64(info, call.Args[1])
						if !ok || n <= 0 || n > 4096 {
							und(s, "make size is not a small constant")
							return
						}
						lengths, arr, total = o, make([]int64, n), n
						continue
					}
				}
			}
			if v, ok := core.ConstInt64(info, s.Rhs[0]); ok && o != nil {
				cursor[o] = v
				continue
			}
			und(s, "unrecognised assignment")
			return
		case *ast.ForStmt:
			var iv types.Object
			if s.Init != nil {
				as, ok := s.Init.(*ast.AssignStmt)
				if !ok || len(as.Lhs) != 1 || len(as.Rhs) != 1 {
					und(s, "loop init not recognised")
					return
				}
				v, ok := core.ConstInt64(info, as.Rhs[0])
				if !ok {
					und(s, "loop init is not constant")
					return
				}
				iv = c16ObjOf(info, as.Lhs[0])
				cursor[iv] = v
			}
			be, ok := ast.Unparen(c16OrBad(s.Cond)).(*ast.BinaryExpr)
			if !ok {
				und(s, "loop condition not recognised")
				return
			}
			o := c16ObjOf(info, be.X)
			bound, okb := core.ConstInt64(info, be.Y)
			if o == nil || !okb || (iv != nil && iv != o) {
				und(s, "loop condition is not `i < K`")
				return
			}
			switch be.Op {
			case token.LSS:
			case token.LEQ:
				bound++
			default:
				und(s, "loop condition is not `i < K`")
				return
			}
			inc, ok := s.Post.(*ast.IncDecStmt)
			if !ok || inc.Tok != token.INC || c16ObjOf(info, inc.X) != o {
				und(s, "loop post statement is not i++")
				return
			}
			if len(s.Body.List) != 1 {
				und(s, "loop body is not a single store")
				return
			}
			as, ok := s.Body.List[0].(*ast.AssignStmt)
			if !ok || as.Tok != token.ASSIGN || len(as.Lhs) != 1 || len(as.Rhs) != 1 {
				und(s, "loop body is not a single store")
				return
			}
			ix, ok := ast.Unparen(as.Lhs[0]).(*ast.IndexExpr)
			val, okv := core.ConstInt64(info, as.Rhs[0])
			if !ok || !okv || lengths == nil || c16ObjOf(info, ix.X) != lengths || c16ObjOf(info, ix.Index) != o {
				und(s, "loop body is not `lengths[i] = V`")
				return
			}
			start, known := cursor[o]
			if !known {
				und(s, "loop variable has no known start")
				return
			}
			for i := start; i < bound; i++ {
				if i < 0 || i >= int64(len(arr)) {
					c.Fail("T.static", anchor, "fixed code length stores stay inside the lengths slice", 1, fmt.Sprintf("%s: store to lengths[%d] with len %d", g.Pos(s.Pos()), i, len(arr)))
					return
				}
				arr[i] = val
			}
			if bound > start {
				cursor[o] = bound
			}
		case *ast.ReturnStmt:
			if len(s.Results) != 1 {
				und(s, "return not recognised")
				return
			}
			call, ok := ast.Unparen(s.Results[0]).(*ast.CallExpr)
			if !ok || doHuffman == nil || !core.IsCallTo(info, call, doHuffman.Obj) || len(call.Args) != 3 {
				und(s, "does not return c.doHuffman(isFirstBlock, lengths[:n], lengths[n:])")
				return
			}
			a, ok1 := ast.Unparen(call.Args[1]).(*ast.SliceExpr)
			b, ok2 := ast.Unparen(call.Args[2]).(*ast.SliceExpr)
			if !ok1 || !ok2 || c16ObjOf(info, a.X) != lengths || c16ObjOf(info, b.X) != lengths || a.Low != nil || a.High == nil || b.Low == nil || b.High != nil {
				und(s, "doHuffman arguments are not lengths[:n], lengths[n:]")
				return
			}
			h, okh := core.ConstInt64(info, a.High)
			l, okl := core.ConstInt64(info, b.Low)
			if !okh || !okl || h != l {
				und(s, "literal/length and distance code lengths do not split the slice at one constant")
				return
			}
			split = h
		default:
			und(st, "unrecognised statement")
			return
		}
	}
	if split < 0 || arr == nil {
		und(f.Decl, "no lengths slice / doHuffman call found")
		return
	}
	// RFC 1951 §3.2.6.
	var want []int64
	for i := 0; i < 288; i++ {
		switch {
		case i <= 143:
			want = append(want, 8)
		case i <= 255:
			want = append(want, 9)
		case i <= 279:
			want = append(want, 7)
		default:
			want = append(want, 8)
		}
	}
	nLit := len(want)
	for i := 0; i < 32; i++ { // distance codes 0-31: 5 bits
		want = append(want, 5)
	}
	runs := func(a []int64) string {
		var out []string
		for i := 0; i < len(a); {
			j := i
			for j < len(a) && a[j] == a[i] {
				j++
			}
			out = append(out, fmt.Sprintf("%d×%d", j-i, a[i]))
			i = j
		}
		return strings.Join(out, ", ")
	}
	n, d := c16CmpTable(arr, want, func(i int) string { return fmt.Sprintf("lengths[%d]", i) })
	ok := d == "" && split == int64(nLit) && total == int64(len(want))
	c.Check(ok, "T.static", anchor, "the fixed Huffman code lengths are RFC 1951 §3.2.6's 144×8, 112×9, 24×7, 8×8 for the 288 literal/length codes and 32×5 for the distance codes, split at 288", n,
		fmt.Sprintf("%s: code runs are [%s | split at %d of %d], expected [%s | split at %d of %d]; %s", g.Pos(f.Decl.Pos()), runs(arr), split, total, runs(want), nLit, len(want), d))
}

// ---------------------------------------------------------------------
// T.limits: dynamic block header (RFC 1951 §3.2.7).

type c16TakeDef struct {
	obj   types.Object
	add   int64
	nbits int64
	pos   token.Pos
	node  ast.Node
}

func runC16Dynamic(k *gctx) {
	c := k.c
	g := k.g
	fl := k.flow("T.limits", c16RelFlate, "cutter", "doDynamicHuffman")
	take := k.fn("T.limits", c16RelFlate, "bitstream", "take")
	doHuffman := k.fn("T.limits", c16RelFlate, "cutter", "doHuffman")
	if fl == nil || take == nil || doHuffman == nil {
		return
	}
	info := fl.F.Info()
	anchor := fl.F.Name()
	// K + take(N) (either operand order), or take(N) alone.
	takeExpr := func(e ast.Expr) (add, nbits int64, ok bool) {
		e = ast.Unparen(e)
		var asTake func(x ast.Expr, depth int) (int64, bool)
		asTake = func(x ast.Expr, depth int) (int64, bool) {
			x = ast.Unparen(x)
			if id, ok := x.(*ast.Ident); ok && depth < 3 {
				// a local defined once as c.bits.take(N)
				if ds := fl.Defs()[c16ObjOf(info, id)]; len(ds) == 1 {
					return asTake(ds[0], depth+1)
				}
				return 0, false
			}
			ce, ok := x.(*ast.CallExpr)
			if !ok || !core.IsCallTo(info, ce, take) || len(ce.Args) != 1 {
				return 0, false
			}
			return core.ConstInt64(info, ce.Args[0])
		}
		if n, ok := asTake(e, 0); ok {
			return 0, n, true
		}
		if be, ok := e.(*ast.BinaryExpr); ok && be.Op == token.ADD {
			if kx, ok := core.ConstInt64(info, be.X); ok {
				if n, ok := asTake(be.Y, 0); ok {
					return kx, n, true
				}
			}
			if kx, ok := core.ConstInt64(info, be.Y); ok {
				if n, ok := asTake(be.X, 0); ok {
					return kx, n, true
				}
			}
		}
		return 0, 0, false
	}
	defOf := func(o types.Object) (c16TakeDef, bool) {
		ds := fl.Defs()[o]
		if o == nil || len(ds) != 1 {
			return c16TakeDef{}, false
		}
		a, n, ok := takeExpr(ds[0])
		return c16TakeDef{obj: o, add: a, nbits: n, pos: ds[0].Pos()}, ok
	}
	// Roles: the doHuffman call splits lengths at numLCodes; make's size is numLCodes+numDCodes.
	var hcall *ast.CallExpr
	var mk *ast.CallExpr
	ast.Inspect(fl.F.Decl.Body, func(n ast.Node) bool {
		if ce, ok := n.(*ast.CallExpr); ok {
			if core.IsCallTo(info, ce, doHuffman) {
				hcall = ce
			}
			if id, ok := ce.Fun.(*ast.Ident); ok {
				if b, ok := info.Uses[id].(*types.Builtin); ok && b.Name() == "make" && len(ce.Args) == 2 && mk == nil {
					mk = ce
				}
			}
		}
		return true
	})
	if hcall == nil || mk == nil || len(hcall.Args) != 3 {
		c.Undecided("T.limits", anchor, "lengths := make([]uint32, numLCodes+numDCodes) … c.doHuffman(isFirstBlock, lengths[:numLCodes], lengths[numLCodes:])", "make / doHuffman call not found")
		return
	}
	var nL, nD types.Object
	if a, ok := ast.Unparen(hcall.Args[1]).(*ast.SliceExpr); ok && a.High != nil {
		nL = c16ObjOf(info, a.High)
		if b, ok := ast.Unparen(hcall.Args[2]).(*ast.SliceExpr); !ok || b.Low == nil || c16ObjOf(info, b.Low) != nL {
			nL = nil
		}
	}
	if sum, ok := ast.Unparen(mk.Args[1]).(*ast.BinaryExpr); ok && sum.Op == token.ADD && nL != nil {
		x, y := c16ObjOf(info, sum.X), c16ObjOf(info, sum.Y)
		switch {
		case x == nL:
			nD = y
		case y == nL:
			nD = x
		}
	}
	// numCodeLengths: bound of the for loop whose body indexes codeOrder.
	codeOrder := g.LookupObj(c16RelFlate, "codeOrder")
	var nC types.Object
	var clLoop *ast.ForStmt
	var clStrict bool
	ast.Inspect(fl.F.Decl.Body, func(n ast.Node) bool {
		fs, ok := n.(*ast.ForStmt)
		if !ok || fs.Cond == nil {
			return true
		}
		uses := c16NodeHas(fs.Body, func(m ast.Node) bool {
			ix, ok := m.(*ast.IndexExpr)
			return ok && codeOrder != nil && fl.Is(codeOrder)(ix.X)
		})
		if !uses {
			return true
		}
		if be, ok := ast.Unparen(fs.Cond).(*ast.BinaryExpr); ok {
			switch be.Op {
			case token.LSS:
				nC, clStrict = c16ObjOf(info, be.Y), true
			case token.LEQ:
				nC, clStrict = c16ObjOf(info, be.Y), false
			case token.GTR:
				nC, clStrict = c16ObjOf(info, be.X), true
			case token.GEQ:
				nC, clStrict = c16ObjOf(info, be.X), false
			}
			clLoop = fs
		}
		return true
	})
	dL, okL := defOf(nL)
	dD, okD := defOf(nD)
	dC, okC := defOf(nC)
	if !okL || !okD || !okC || clLoop == nil {
		c.Undecided("T.limits", anchor, "numLCodes, numDCodes, numCodeLengths are each defined once as K + c.bits.take(N)", fmt.Sprintf("%s: roles found: numLCodes %v, numDCodes %v, numCodeLengths %v", g.Pos(fl.F.Decl.Pos()), okL, okD, okC))
		return
	}
	type fld struct {
		name       string
		d          c16TakeDef
		add, nbits int64
	}
	for _, f := range []fld{{"HLIT", dL, 257, 5}, {"HDIST", dD, 1, 5}, {"HCLEN", dC, 4, 4}} {
		c.Check(f.d.add == f.add && f.d.nbits == f.nbits, "T.limits.field", anchor+"["+f.name+"]",
			fmt.Sprintf("%s is a %d-bit field offset by %d (RFC 1951 §3.2.7)", f.name, f.nbits, f.add), 1,
			fmt.Sprintf("%s: %s = %d + take(%d)", g.Pos(f.d.pos), f.d.obj.Name(), f.d.add, f.d.nbits))
	}
	c.Check(dL.pos < dD.pos && dD.pos < dC.pos && c16TopLevel(fl.F.Decl.Body, dL.pos) && c16TopLevel(fl.F.Decl.Body, dD.pos) && c16TopLevel(fl.F.Decl.Body, dC.pos),
		"T.limits.field", anchor+"[order]", "the fields are read in the order HLIT, HDIST, HCLEN by consecutive top-level statements", 3, g.Pos(dL.pos))

	// Limits 286 / 30 before the lengths slice is made and before doHuffman.
	exit := func(n ast.Node) bool {
		return c16NodeHas(n, func(m ast.Node) bool { return m == ast.Node(mk) || m == ast.Node(hcall) })
	}
	k.c16MustEstablish("T.limits.hlit", anchor+"[numLCodes <= 286]", "numLCodes > 286 is rejected before the code lengths are allocated and decoded (RFC 1951 §3.2.5: literal/length codes 286 and 287 never occur)", fl,
		c16LinConst(286).plus(c16LinVar(c16LinKey{obj: nL}), -1), exit)
	k.c16MustEstablish("T.limits.hdist", anchor+"[numDCodes <= 30]", "numDCodes > 30 is rejected (RFC 1951 §3.2.5: distance codes 30 and 31 never occur)", fl,
		c16LinConst(30).plus(c16LinVar(c16LinKey{obj: nD}), -1), exit)

	// HCLEN maximum indexes codeOrder.
	maxC := dC.add + (int64(1) << uint(dC.nbits)) - 1
	maxIdx := maxC - 1
	if !clStrict {
		maxIdx = maxC
	}
	lenCO := int64(-1)
	if codeOrder != nil {
		if a, ok := codeOrder.Type().Underlying().(*types.Array); ok {
			lenCO = a.Len()
		}
	}
	c.Check(lenCO == 19 && maxIdx < lenCO, "T.limits.hclen", anchor+"[codeOrder[i]]",
		"the largest numCodeLengths (4 + 15 = 19) keeps the loop index inside codeOrder's 19 entries", 1,
		fmt.Sprintf("%s: loop index reaches %d, len(codeOrder) = %d", g.Pos(clLoop.Pos()), maxIdx, lenCO))
	// code length code lengths are 3 bits each
	nb := int64(-1)
	ast.Inspect(clLoop.Body, func(n ast.Node) bool {
		if e, ok := n.(ast.Expr); ok {
			if a, n3, ok := takeExpr(e); ok && a == 0 {
				if _, isCall := ast.Unparen(e).(*ast.CallExpr); isCall {
					nb = n3
				}
			}
		}
		return true
	})
	c.Check(nb == 3, "T.limits.field", anchor+"[code length code length]", "each code length code length is a 3-bit field", 1, fmt.Sprintf("%s: take(%d)", g.Pos(clLoop.Pos()), nb))

	// Repeat codes 16, 17, 18.
	want := map[int64][2]int64{16: {3, 2}, 17: {3, 3}, 18: {11, 7}}
	got := map[int64][2]int64{}
	var swPos token.Pos
	ast.Inspect(fl.F.Decl.Body, func(n ast.Node) bool {
		cc, ok := n.(*ast.CaseClause)
		if !ok || len(cc.List) != 1 {
			return true
		}
		kv, ok := core.ConstInt64(info, cc.List[0])
		if !ok {
			return true
		}
		if _, interesting := want[kv]; !interesting {
			return true
		}
		for _, st := range cc.Body {
			if as, ok := st.(*ast.AssignStmt); ok && len(as.Rhs) == 1 {
				if a, nbits, ok := takeExpr(as.Rhs[0]); ok {
					got[kv] = [2]int64{a, nbits}
					swPos = cc.Pos()
				}
			}
		}
		return true
	})
	var diffs []string
	for _, sym := range []int64{16, 17, 18} {
		if got[sym] != want[sym] {
			diffs = append(diffs, fmt.Sprintf("code %d: repeat count is %d + take(%d), RFC says %d + %d bits", sym, got[sym][0], got[sym][1], want[sym][0], want[sym][1]))
		}
	}
	c.Check(len(diffs) == 0, "T.limits.repeat", anchor+"[switch symbol]", "code length symbols 16, 17, 18 repeat 3–6 (2 bits), 3–10 (3 bits), 11–138 (7 bits) times (RFC 1951 §3.2.7)", 3, g.Pos(swPos)+": "+strings.Join(diffs, "; "))
}

func c16TopLevel(body *ast.BlockStmt, p token.Pos) bool {
	for _, st := range body.List {
		if st.Pos() <= p && p < st.End() {
			switch st.(type) {
			case *ast.AssignStmt, *ast.DeclStmt:
				return true
			}
		}
	}
	return false
}

// ---------------------------------------------------------------------
// T.single: cutSingleBlock's replacement streams.

type c16ByteSym struct {
	isConst bool
	val     int64
	src     types.Object // variable the byte is taken from
	shift   int64
	inv     bool
}

func runC16Single(k *gctx) {
	c := k.c
	g := k.g
	fl := k.flow("T.single", c16RelFlate, "", "cutSingleBlock")
	if fl == nil {
		return
	}
	info := fl.F.Info()
	anchor := fl.F.Name()
	enc, max := fl.Param(0), fl.Param(1)
	// The stored branch: top-level if whose body copies into encoded[H:].
	var stored *ast.IfStmt
	var cp *ast.CallExpr
	for _, st := range fl.F.Decl.Body.List {
		is, ok := st.(*ast.IfStmt)
		if !ok {
			continue
		}
		ast.Inspect(is.Body, func(n ast.Node) bool {
			ce, ok := n.(*ast.CallExpr)
			if !ok || len(ce.Args) != 2 {
				return true
			}
			if id, ok := ce.Fun.(*ast.Ident); ok {
				if b, ok := info.Uses[id].(*types.Builtin); ok && b.Name() == "copy" {
					if s, ok := ast.Unparen(ce.Args[0]).(*ast.SliceExpr); ok && fl.Is(enc)(s.X) {
						stored, cp = is, ce
					}
				}
			}
			return true
		})
	}
	if stored == nil {
		c.Undecided("T.single", anchor, "a branch that re-encodes as one stored block (copy(encoded[5:], …)) exists", g.Pos(fl.F.Decl.Pos())+": not found")
		return
	}
	inStored := core.RegionOf(stored.Body)

	// Symbolic bytes written to encoded[K].
	type write struct {
		idx  int64
		sym  c16ByteSym
		ok   bool
		node ast.Node
	}
	var sw, fw []write // stored / fallback
	var symOf func(e ast.Expr, prev []write, depth int) (c16ByteSym, bool)
	symOf = func(e ast.Expr, prev []write, depth int) (c16ByteSym, bool) {
		e = ast.Unparen(e)
		if v, ok := core.ConstInt64(info, e); ok {
			return c16ByteSym{isConst: true, val: v}, true
		}
		if depth > 6 {
			return c16ByteSym{}, false
		}
		switch x := e.(type) {
		case *ast.Ident:
			if v, ok := c16ObjOf(info, x).(*types.Var); ok {
				return c16ByteSym{src: v}, true
			}
		case *ast.CallExpr: // uint8(…)/byte(…)
			if tv, ok := info.Types[x.Fun]; ok && tv.IsType() && len(x.Args) == 1 {
				return symOf(x.Args[0], prev, depth+1)
			}
		case *ast.UnaryExpr:
			if x.Op == token.XOR {
				s, ok := symOf(x.X, prev, depth+1)
				if ok && !s.isConst {
					s.inv = !s.inv
					return s, true
				}
			}
		case *ast.BinaryExpr:
			if x.Op == token.SHR {
				s, ok := symOf(x.X, prev, depth+1)
				sh, ok2 := core.ConstInt64(info, x.Y)
				if ok && ok2 && !s.isConst && !s.inv {
					s.shift += sh
					return s, true
				}
			}
			if x.Op == token.AND {
				if m, ok := core.ConstInt64(info, x.Y); ok && m == 0xFF {
					return symOf(x.X, prev, depth+1)
				}
			}
		case *ast.IndexExpr:
			if fl.Is(enc)(x.X) {
				if kx, ok := core.ConstInt64(info, x.Index); ok {
					for i := len(prev) - 1; i >= 0; i-- {
						if prev[i].idx == kx && prev[i].ok {
							return prev[i].sym, true
						}
					}
				}
			}
		}
		return c16ByteSym{}, false
	}
	var walk func(list []ast.Stmt)
	walk = func(list []ast.Stmt) {
		for _, st := range list {
			switch s := st.(type) {
			case *ast.AssignStmt:
				for i, l := range s.Lhs {
					ix, ok := ast.Unparen(l).(*ast.IndexExpr)
					if !ok || !fl.Is(enc)(ix.X) || i >= len(s.Rhs) {
						continue
					}
					kx, ok := core.ConstInt64(info, ix.Index)
					if !ok {
						c.Undecided("T.single", anchor, "header bytes are stored at constant indexes", g.Pos(s.Pos())+": non-constant index")
						continue
					}
					if inStored.Contains(s.Pos()) {
						sym, ok := symOf(s.Rhs[i], sw, 0)
						sw = append(sw, write{kx, sym, ok, s})
					} else {
						sym, ok := symOf(s.Rhs[i], fw, 0)
						fw = append(fw, write{kx, sym, ok, s})
					}
				}
			case *ast.IfStmt:
				walk(s.Body.List)
				if b, ok := s.Else.(*ast.BlockStmt); ok {
					walk(b.List)
				}
			case *ast.BlockStmt:
				walk(s.List)
			}
		}
	}
	walk(fl.F.Decl.Body.List)

	// --- stored block: 0x01, LEN lo, LEN hi, ~LEN lo, ~LEN hi, copy at 5, return n+5, n
	cpDst := ast.Unparen(cp.Args[0]).(*ast.SliceExpr)
	H, okH := int64(-1), false
	if cpDst.Low != nil && cpDst.High == nil {
		H, okH = core.ConstInt64(info, cpDst.Low)
	}
	var nObj types.Object
	if s, ok := ast.Unparen(cp.Args[1]).(*ast.SliceExpr); ok && s.Low == nil && s.High != nil {
		nObj = c16ObjOf(info, s.High)
	}
	if !okH || nObj == nil {
		c.Undecided("T.single.stored", anchor+"[stored]", "copy(encoded[H:], buf[:n])", g.Pos(cp.Pos())+": not recognised")
		return
	}
	var diffs []string
	wantStored := []c16ByteSym{
		{isConst: true, val: 0x01},
		{src: nObj.(*types.Var), shift: 0},
		{src: nObj.(*types.Var), shift: 8},
		{src: nObj.(*types.Var), shift: 0, inv: true},
		{src: nObj.(*types.Var), shift: 8, inv: true},
	}
	symStr := func(s c16ByteSym) string {
		if s.isConst {
			return fmt.Sprintf("0x%02X", s.val)
		}
		out := fmt.Sprintf("uint8(%s >> %d)", s.src.Name(), s.shift)
		if s.inv {
			out = "^" + out
		}
		return out
	}
	seen := map[int64]bool{}
	for _, w := range sw {
		if seen[w.idx] {
			diffs = append(diffs, fmt.Sprintf("%s: encoded[%d] stored twice", g.Pos(w.node.Pos()), w.idx))
		}
		seen[w.idx] = true
		switch {
		case w.idx < 0 || w.idx >= int64(len(wantStored)):
			diffs = append(diffs, fmt.Sprintf("%s: unexpected header byte encoded[%d]", g.Pos(w.node.Pos()), w.idx))
		case !w.ok:
			diffs = append(diffs, fmt.Sprintf("%s: value of encoded[%d] not recognised", g.Pos(w.node.Pos()), w.idx))
		case w.sym != wantStored[w.idx]:
			diffs = append(diffs, fmt.Sprintf("%s: encoded[%d] = %s, a final stored block needs %s", g.Pos(w.node.Pos()), w.idx, symStr(w.sym), symStr(wantStored[w.idx])))
		}
	}
	for i := range wantStored {
		if !seen[int64(i)] {
			diffs = append(diffs, fmt.Sprintf("encoded[%d] (%s) is never stored", i, symStr(wantStored[i])))
		}
	}
	if H != int64(len(wantStored)) {
		diffs = append(diffs, fmt.Sprintf("%s: payload copied to encoded[%d:], the stored-block header is %d bytes", g.Pos(cp.Pos()), H, len(wantStored)))
	}
	c.Check(len(diffs) == 0, "T.single.stored", anchor+"[stored]",
		"the replacement stored block is 0x01 (BFINAL=1, BTYPE=00), LEN little-endian, ~LEN little-endian, then LEN bytes at offset 5 (RFC 1951 §3.2.4)", len(sw)+1, strings.Join(diffs, "\n"))
	c.Floor("T.single.stored", "stored-block header byte stores", len(sw), 5)

	// n = max - H, clamped to 0xFFFF, before make; guard c16Implies max - H >= 0; returns (n+H, n, nil).
	nV := c16LinVar(c16LinKey{obj: nObj})
	maxV := c16LinVar(c16LinKey{obj: max})
	var mk *ast.CallExpr
	ast.Inspect(stored.Body, func(n ast.Node) bool {
		if ce, ok := n.(*ast.CallExpr); ok && mk == nil {
			if id, ok := ce.Fun.(*ast.Ident); ok {
				if b, ok := info.Uses[id].(*types.Builtin); ok && b.Name() == "make" && len(ce.Args) == 2 && fl.Is(nObj)(ce.Args[1]) {
					mk = ce
				}
			}
		}
		return true
	})
	if mk == nil {
		c.Undecided("T.single.len", anchor+"[stored]", "buf := make([]byte, n)", g.Pos(stored.Pos())+": not found")
	} else {
		atMake := func(n ast.Node) bool { return c16NodeHas(n, func(m ast.Node) bool { return m == ast.Node(mk) }) }
		k.c16MustEstablish("T.single.len", anchor+"[n <= 0xFFFF]", "the stored block's LEN is capped at 0xFFFF before the buffer is made (LEN is a 16-bit field)", fl, c16LinConst(0xFFFF).plus(nV, -1), atMake)
		k.c16MustEstablish("T.single.len", anchor+"[n <= maxEncodedLen-5]", "the stored payload plus its 5-byte header fits in maxEncodedLen", fl, maxV.plus(nV, -1).plus(c16LinConst(H), -1), atMake)
		// n >= 0 at make: n starts as maxEncodedLen-H under a guard that makes it non-negative; other values are non-negative constants.
		var defNode ast.Node
		nonneg := true
		for _, b := range fl.G.Blocks {
			for _, nd := range b.Nodes {
				o, rhs := c16SingleAssign(info, nd)
				if o != nObj || rhs == nil {
					continue
				}
				e, ok := c16LinExpr(info, rhs)
				switch {
				case ok && e.equal(maxV.plus(c16LinConst(H), -1)):
					defNode = nd
				case ok && e.isConst() && e.c >= 0:
				default:
					nonneg = false
				}
			}
		}
		if defNode == nil || !nonneg {
			c.Undecided("T.single.len", anchor+"[n >= 0]", "n is maxEncodedLen-5 or a non-negative constant", g.Pos(mk.Pos())+": definitions of n not recognised")
		} else {
			k.c16MustEstablish("T.single.len", anchor+"[n >= 0]", "n := maxEncodedLen-5 is computed only when maxEncodedLen >= 5: make([]byte, n) cannot panic", fl, maxV.plus(c16LinConst(H), -1),
				func(n ast.Node) bool { return n == defNode })
		}
		// the n of the header is io.ReadFull's count into that buffer
		readOK := false
		for _, b := range fl.G.Blocks {
			for _, nd := range b.Nodes {
				as, ok := nd.(*ast.AssignStmt)
				if !ok || len(as.Lhs) != 2 || len(as.Rhs) != 1 || c16ObjOf(info, as.Lhs[0]) != nObj {
					continue
				}
				ce, ok := ast.Unparen(as.Rhs[0]).(*ast.CallExpr)
				if !ok || len(ce.Args) != 2 {
					continue
				}
				fn := core.Callee(info, ce)
				if fn == nil || fn.FullName() != "io.ReadFull" {
					continue
				}
				bufObj := c16ObjOf(info, ce.Args[1])
				ds := fl.Defs()[bufObj]
				if bufObj != nil && len(ds) == 1 && ast.Unparen(ds[0]) == ast.Expr(mk) {
					if s, ok := ast.Unparen(cp.Args[1]).(*ast.SliceExpr); ok && c16ObjOf(info, s.X) == bufObj {
						readOK = true
					}
				}
			}
		}
		c.Check(readOK, "T.single.len", anchor+"[n = io.ReadFull(…, buf)]", "LEN is the number of bytes io.ReadFull put into that buffer, and the same buffer prefix is copied after the header", 1, g.Pos(mk.Pos())+": n, err := io.ReadFull(r, buf) with buf := make([]byte, n) not recognised")
	}
	// returns
	var rets []*ast.ReturnStmt
	ast.Inspect(fl.F.Decl.Body, func(n ast.Node) bool {
		if r, ok := n.(*ast.ReturnStmt); ok && len(r.Results) == 3 && core.IsNilIdent(info, r.Results[2]) {
			rets = append(rets, r)
		}
		return true
	})
	var rdiffs []string
	nStoredRet, nFallRet := 0, 0
	maxF := int64(-1)
	for _, w := range fw {
		if w.idx > maxF {
			maxF = w.idx
		}
	}
	for _, r := range rets {
		l0, ok0 := c16LinExpr(info, r.Results[0])
		l1, ok1 := c16LinExpr(info, r.Results[1])
		if !ok0 || !ok1 {
			rdiffs = append(rdiffs, g.Pos(r.Pos())+": return values not recognised")
			continue
		}
		if inStored.Contains(r.Pos()) {
			nStoredRet++
			if !l0.equal(nV.plus(c16LinConst(H), 1)) || !l1.equal(nV) {
				rdiffs = append(rdiffs, fmt.Sprintf("%s: stored block returns (%s, %s), expected (n+%d, n)", g.Pos(r.Pos()), l0, l1, H))
			}
		} else {
			nFallRet++
			if !l0.equal(c16LinConst(maxF+1)) || !l1.equal(c16LinConst(0)) {
				rdiffs = append(rdiffs, fmt.Sprintf("%s: empty block returns (%s, %s), expected (%d, 0)", g.Pos(r.Pos()), l0, l1, maxF+1))
			}
		}
	}
	c.Check(len(rdiffs) == 0 && nStoredRet == 1 && nFallRet == 1, "T.single.ret", anchor+"[returns]", "the reported lengths are (LEN+5, LEN) for the stored block and (2, 0) for the empty block", len(rets), strings.Join(rdiffs, "\n"))

	// --- fallback: 0x03 0x00
	var fd []string
	wantF := map[int64]int64{0: 0x03, 1: 0x00}
	seenF := map[int64]bool{}
	for _, w := range fw {
		v, known := wantF[w.idx]
		seenF[w.idx] = true
		switch {
		case !known:
			fd = append(fd, fmt.Sprintf("%s: unexpected store to encoded[%d]", g.Pos(w.node.Pos()), w.idx))
		case !w.ok || !w.sym.isConst || w.sym.val != v:
			fd = append(fd, fmt.Sprintf("%s: encoded[%d] is not 0x%02X", g.Pos(w.node.Pos()), w.idx, v))
		}
	}
	for i := range wantF {
		if !seenF[i] {
			fd = append(fd, fmt.Sprintf("encoded[%d] is never stored", i))
		}
	}
	c.Check(len(fd) == 0, "T.single.empty", anchor+"[empty]", "the zero-length replacement is 0x03 0x00: BFINAL=1, BTYPE=01 (fixed Huffman), the 7-bit end-of-block code 0000000, zero padding (RFC 1951 §3.2.6)", len(fw), strings.Join(fd, "\n"))
	// its 2 bytes are covered by the panic threshold
	if p, ok := c16SingleBlockPrecondition(k); ok {
		c.Check(p >= maxF+1, "T.single.empty", anchor+"[threshold]", "the function's pre-condition (maxEncodedLen >= threshold, with maxEncodedLen <= len(encoded) from Cut) covers the bytes the empty block writes unconditionally", 1,
			fmt.Sprintf("threshold %d, bytes written %d", p, maxF+1))
	}
	_ = sort.Ints
}
