package main

// Contract rows: io_reader.match7, the unchecked peek/poke family and the numeric helpers.

import "fmt"

func bMatchRows() []bRow {
	return []bRow{{fn: "wuffs_private_impl__io_reader__match7", rule: "B.bounded.match7",
		reason: "domain: n = 1..7, 0..9 bytes available, r NULL / open / closed, every match/mismatch pattern of the compared bytes (low-bit and high-bit differences), junk in the ignored high bits of a",
		run: func(x *bx) {
			for n := int64(1); n <= 7; n++ {
				for avail := int64(0); avail <= 9; avail++ {
					m := n
					if avail < m {
						m = avail
					}
					for rmode := 0; rmode < 3; rmode++ { // 0: r == NULL, 1: open, 2: closed
						for mask := 0; mask < 1<<uint(m); mask++ {
							for flavour := 0; flavour < 2; flavour++ {
								if mask == 0 && flavour == 1 {
									continue
								}
								for junk := 0; junk < 2; junk++ {
									if junk == 1 && n == 7 {
										continue
									}
									if x.done() {
										return
									}
									w := x.win(avail)
									a := uint64(n)
									for j := int64(0); j < n; j++ {
										pb := byte(0x41 + 3*j)
										a |= uint64(pb) << uint(8*(j+1))
										if j < avail {
											db := pb
											if mask&(1<<uint(j)) != 0 {
												if flavour == 0 {
													db ^= 0x01
												} else {
													db ^= 0x80
												}
											}
											w.b.data[w.lo+j] = db
										}
									}
									if junk == 1 {
										a |= ^uint64(0) << uint(8*(n+1))
									}
									var r cval
									rt := x.m.ptrTo(x.m.types["wuffs_base__io_buffer"])
									if rmode == 0 {
										r = cval{ty: rt}
									} else {
										closed := uint64(0)
										if rmode == 2 {
											closed = 1
										}
										bc := x.cell(x.structVal("wuffs_base__io_buffer", x.slice(w.b, w.lo, uint64(avail)),
											x.structVal("wuffs_base__io_buffer_meta", x.sz(uint64(avail)), x.sz(0), x.u64(0), x.iv("bool", closed))))
										r = x.pcell(bc)
									}
									n, avail, rmode, mask, a := n, avail, rmode, mask, a
									x.begin(func() string {
										return fmt.Sprintf("n=%d a=%#x, %d bytes available, mismatch mask %#b, r %s", n, a, avail, mask, [...]string{"NULL", "open", "closed"}[rmode])
									})
									ret, ok := x.call(x.p8(w.b, w.lo), x.p8(w.b, w.hi), r, x.u64(a))
									if !ok {
										continue
									}
									want := uint64(0)
									switch {
									case mask != 0:
										want = 2
									case n <= avail:
										want = 0
									case rmode == 2:
										want = 2
									default:
										want = 1
									}
									x.expect(ret.u == want, "returned %d, want %d (0 match, 1 inconclusive = $short read, 2 failure)", ret.u, want)
									x.expectReadsWithin("reader", w.b, w.lo, w.hi)
									x.expectNoWrites("reader", w.b)
								}
							}
						}
					}
				}
			}
		}}}
}

func bPeekPokeRows() []bRow {
	var rows []bRow
	tyOf := func(bitsN int) string {
		switch {
		case bitsN <= 8:
			return "uint8_t"
		case bitsN <= 16:
			return "uint16_t"
		case bitsN <= 32:
			return "uint32_t"
		}
		return "uint64_t"
	}
	// byte patterns: all distinct, then 0xFF / 0x80 / 0x01 alone at each position
	patterns := func(nb int) [][]byte {
		var out [][]byte
		p := make([]byte, nb)
		for k := range p {
			p[k] = byte(0x12 + 0x23*k)
		}
		out = append(out, p)
		all := make([]byte, nb)
		for k := range all {
			all[k] = 0xFF
		}
		out = append(out, all)
		for k := 0; k < nb; k++ {
			for _, v := range []byte{0xFF, 0x80, 0x01} {
				q := make([]byte, nb)
				q[k] = v
				out = append(out, q)
			}
		}
		return out
	}
	compose := func(p []byte, le bool) uint64 {
		var u uint64
		for k, b := range p {
			sh := uint(8 * k)
			if !le {
				sh = uint(8 * (len(p) - 1 - k))
			}
			u |= uint64(b) << sh
		}
		return u
	}
	for bitsN := 8; bitsN <= 64; bitsN += 8 {
		for _, en := range []string{"be", "le"} {
			if bitsN == 8 && en == "le" {
				continue
			}
			suffix := fmt.Sprintf("u%d%s", bitsN, en)
			if bitsN == 8 {
				suffix = "u8"
			}
			nb, le, bitsN := bitsN/8, en == "le", bitsN
			order := "big"
			if le {
				order = "little"
			}
			rows = append(rows, bRow{fn: "wuffs_base__peek_" + suffix + "__no_bounds_check", rule: "B.bounded.peekpoke",
				reason: fmt.Sprintf("reads exactly p[0 .. %d) and returns the %s-endian value — domain: %d byte patterns", nb, order, 2+3*nb),
				run: func(x *bx) {
					for _, p := range patterns(nb) {
						if x.done() {
							return
						}
						w := x.win(int64(nb))
						copy(w.b.data[w.lo:], p)
						p := p
						x.begin(func() string { return fmt.Sprintf("p -> % x (a %d-byte window)", p, nb) })
						ret, ok := x.call(x.p8(w.b, w.lo))
						if !ok {
							continue
						}
						want := compose(p, le)
						x.expect(ret.u == want, "returned %#x, want %#x", ret.u, want)
						x.expectReadsWithin("*p", w.b, w.lo, w.hi)
						x.expectNoWrites("*p", w.b)
					}
				}})
			rows = append(rows, bRow{fn: "wuffs_base__poke_" + suffix + "__no_bounds_check", rule: "B.bounded.peekpoke",
				reason: fmt.Sprintf("writes exactly p[0 .. %d) with the %s-endian bytes of x — domain: %d values", nb, order, 2+3*nb),
				run: func(x *bx) {
					for _, p := range patterns(nb) {
						if x.done() {
							return
						}
						w := x.win(int64(nb))
						v := compose(p, le)
						p := p
						x.begin(func() string { return fmt.Sprintf("x=%#x into a %d-byte window", v, nb) })
						if _, ok := x.call(x.p8(w.b, w.lo), x.iv(tyOf(bitsN), v)); !ok {
							continue
						}
						x.expectWritten("*p", w.b, w.lo, w.hi)
						for k := 0; k < nb; k++ {
							x.expect(w.b.data[w.lo+int64(k)] == p[k], "p[%d] = %#x, want %#x", k, w.b.data[w.lo+int64(k)], p[k])
						}
					}
				}})
		}
	}
	return rows
}

func bNumRows() []bRow {
	var rows []bRow
	ops := []struct {
		name string
		f    func(a, b, max uint64) uint64
		doc  string
	}{
		{"min", func(a, b, _ uint64) uint64 { return bMin(a, b) }, "min(x, y)"},
		{"max", func(a, b, _ uint64) uint64 {
			if a > b {
				return a
			}
			return b
		}, "max(x, y)"},
		{"sat_add", func(a, b, max uint64) uint64 {
			if a > max-b {
				return max
			}
			return a + b
		}, "min(x + y, MAX) without wrap-around"},
		{"sat_sub", func(a, b, _ uint64) uint64 {
			if a < b {
				return 0
			}
			return a - b
		}, "max(x - y, 0) without wrap-around"},
	}
	for _, bitsN := range []int{8, 16, 32, 64} {
		bitsN := bitsN
		tn := fmt.Sprintf("uint%d_t", bitsN)
		max := ^uint64(0) >> uint(64-bitsN)
		var vals []uint64
		rule := "B.bounded.num"
		dom := "boundary grid {0..3, MAX/2-1..MAX/2+1, MAX-3..MAX, two mid values}²"
		if bitsN == 8 {
			rule = "B.exact.num"
			dom = "all 65536 argument pairs"
			for v := uint64(0); v <= 255; v++ {
				vals = append(vals, v)
			}
		} else {
			h := max/2 + 1
			vals = bDedup([]uint64{0, 1, 2, 3, h - 2, h - 1, h, h + 1, max - 3, max - 2, max - 1, max, 0x1234567890ABCDEF & max, 0xFEDCBA0987654321 & max})
		}
		grid := bDedup([]uint64{0, 1, 2, max/2 + 1, max - 1, max, 0x5A5A5A5A5A5A5A5A & max})
		for _, op := range ops {
			op := op
			rows = append(rows, bRow{fn: fmt.Sprintf("wuffs_base__u%d__%s", bitsN, op.name), rule: rule, only64: true,
				reason: fmt.Sprintf("u%d %s = %s — domain: %s", bitsN, op.name, op.doc, dom),
				run: func(x *bx) {
					for _, a := range vals {
						for _, b := range vals {
							if x.done() {
								return
							}
							a, b := a, b
							x.begin(func() string { return fmt.Sprintf("x=%d y=%d", a, b) })
							ret, ok := x.call(x.iv(tn, a), x.iv(tn, b))
							if !ok {
								continue
							}
							want := op.f(a, b, max)
							x.expect(ret.u == want, "returned %d, want %d", ret.u, want)
						}
					}
				}})
			if op.name == "sat_add" || op.name == "sat_sub" {
				rows = append(rows, bRow{fn: fmt.Sprintf("wuffs_private_impl__u%d__%s_indirect", bitsN, op.name), rule: "B.bounded.num", only64: true,
					reason: fmt.Sprintf("*x = u%d %s(*x, y) — domain: boundary grid", bitsN, op.name),
					run: func(x *bx) {
						for _, a := range grid {
							for _, b := range grid {
								if x.done() {
									return
								}
								a, b := a, b
								c := x.cell(x.iv(tn, a))
								x.begin(func() string { return fmt.Sprintf("*x=%d y=%d", a, b) })
								if _, ok := x.call(x.pcell(c), x.iv(tn, b)); !ok {
									continue
								}
								want := op.f(a, b, max)
								x.expect(c.v.u == want, "*x became %d, want %d", c.v.u, want)
							}
						}
					}})
			}
		}
	}
	return rows
}
