package main

// C17, rule family K5.carry — rangeEncoder.shiftLow.
//
// The range encoder keeps a 33-bit `low` (32 value bits plus one carry bit),
// one pending byte `pendingHead` and a count `pendingExtra` of pending 0xFF
// bytes behind it. shiftLow moves the top byte of low out. Which of three things
// has to happen is fixed by the arithmetic of the number being written:
//
//	class A  low <  0xFF00_0000            top byte < 0xFF, no carry: the pending
//	                                       bytes are final: emit head, 0xFF × extra;
//	                                       the top byte becomes the new head
//	class B  0xFF00_0000 <= low < 2^32     top byte = 0xFF, no carry: still
//	                                       undecided, one more pending 0xFF
//	class C  2^32 <= low (< 2^33)          carry: emit head+1, 0x00 × extra; the top
//	                                       byte of the low 32 bits is the new head
//
// and in every class low' = (low mod 2^24) << 8. The checker enumerates the
// paths of shiftLow's statement tree, computes for each path the exact set of
// entry values of `low` that take it (comparisons of bit fields of low against
// constants, decided on interval sets over [0, 2^33)), summarises the path's
// effect on (dst, pendingHead, pendingExtra, low) and compares, for every
// class, the effect of each path that values of that class can take with the
// table above. Nothing is compared textually: the partition is decided on
// values, the bit-field expressions on their GF(2) images (c17_bits.go).

import (
	"fmt"
	"go/ast"
	"go/token"
	"go/types"
	"strings"

	"wv/core"
)

const (
	carryDomBits = 33 // low < 2^33: see the claim of K5.carry.split
	carryTopByte = 24 // the byte shifted out is bits [24,32)
	carryBit     = 32
)

// bterm: a byte value  (hasH ? entry pendingHead : 0) + k + field(entry low)  mod 256.
type bterm struct {
	hasH bool
	k    uint64
	fld  []uint64 // images (already masked to 8 bits) or nil
}

// xterm: pendingExtra as  (hasX ? entry pendingExtra : 0) + k.
type xterm struct {
	hasX bool
	k    int64
	bad  bool
}

type cEmit struct {
	run   bool
	val   bterm
	count xterm
	pos   token.Pos
}

type cstate struct {
	set    ivset
	low    []uint64                  // current low, per basis vector (len carryDomBits+1; last = image of 0)
	loc    map[types.Object][]uint64 // locals that are linear images of the entry low
	lconst map[types.Object]uint64
	lbyte  map[types.Object]bterm
	head   bterm
	extra  xterm
	emits  []cEmit
	trail  []string
	bad    string
}

func (s *cstate) clone() *cstate {
	o := *s
	o.low = append([]uint64(nil), s.low...)
	o.loc = map[types.Object][]uint64{}
	for k, v := range s.loc {
		o.loc[k] = v
	}
	o.lconst = map[types.Object]uint64{}
	for k, v := range s.lconst {
		o.lconst[k] = v
	}
	o.lbyte = map[types.Object]bterm{}
	for k, v := range s.lbyte {
		o.lbyte[k] = v
	}
	o.emits = append([]cEmit(nil), s.emits...)
	o.trail = append([]string(nil), s.trail...)
	return &o
}

type carryAn struct {
	r    *c17
	fl   *core.Flow
	info *types.Info
	recv types.Object

	fLow, fHead, fExtra, fDst *types.Var
	paths                     []*cstate
	atoms                     int
}

func (a *carryAn) pos(p token.Pos) string { return a.r.k.g.Pos(p) }
func (a *carryAn) src(n ast.Node) string  { return core.Src(a.r.k.g.Fset, n) }

func (a *carryAn) isField(e ast.Expr, f *types.Var) bool {
	sel, ok := ast.Unparen(e).(*ast.SelectorExpr)
	if !ok || a.info.Uses[sel.Sel] != f {
		return false
	}
	id, ok := ast.Unparen(sel.X).(*ast.Ident)
	return ok && a.info.Uses[id] == a.recv
}

func (a *carryAn) localObj(e ast.Expr) types.Object {
	id, ok := ast.Unparen(e).(*ast.Ident)
	if !ok {
		return nil
	}
	if o := a.info.Uses[id]; o != nil {
		return o
	}
	return a.info.Defs[id]
}

// images folds e for every basis vector of the entry low.
func (a *carryAn) images(e ast.Expr, st *cstate) ([]uint64, bool) {
	out := make([]uint64, carryDomBits+1)
	depends := false
	for i := range out {
		le := &linEval{info: a.info, leaf: func(x ast.Expr) (uint64, bool) {
			if a.isField(x, a.fLow) {
				depends = true
				return st.low[i], true
			}
			if o := a.localObj(x); o != nil {
				if img, ok := st.loc[o]; ok {
					depends = true
					return img[i], true
				}
			}
			return 0, false
		}}
		v, ok := le.at(e)
		if !ok {
			return nil, false
		}
		out[i] = v
	}
	if !depends || out[carryDomBits] != 0 {
		return nil, false
	}
	return out, true
}

// condSet: the subset of the domain on which cond is true.
func (a *carryAn) condSet(cond ast.Expr, st *cstate) (ivset, bool) {
	dom := uint64(1) << carryDomBits
	cond = ast.Unparen(cond)
	switch v := cond.(type) {
	case *ast.UnaryExpr:
		if v.Op == token.NOT {
			s, ok := a.condSet(v.X, st)
			if !ok {
				return nil, false
			}
			return s.not(dom), true
		}
	case *ast.BinaryExpr:
		switch v.Op {
		case token.LAND, token.LOR:
			x, okx := a.condSet(v.X, st)
			y, oky := a.condSet(v.Y, st)
			if !okx || !oky {
				return nil, false
			}
			if v.Op == token.LAND {
				return x.and(y), true
			}
			return x.or(y), true
		case token.LSS, token.LEQ, token.GTR, token.GEQ, token.EQL, token.NEQ:
			op := v.Op
			var fe ast.Expr
			var c uint64
			if cv, ok := constU64(a.info, v.Y); ok {
				fe, c = v.X, cv
			} else if cv, ok := constU64(a.info, v.X); ok {
				fe, c, op = v.Y, cv, mirror(op)
			} else {
				return nil, false
			}
			img, ok := a.images(fe, st)
			if !ok {
				return nil, false
			}
			f, ok := fieldOf(img[:carryDomBits])
			if !ok {
				return nil, false
			}
			a.atoms++
			return fieldCmpSet(f, op, c, carryDomBits)
		}
	}
	if tv, ok := a.info.Types[cond]; ok && tv.Value != nil {
		if tv.Value.ExactString() == "true" {
			return ivset{{0, dom}}, true
		}
		return ivset{}, true
	}
	return nil, false
}

// byteOf: a byte-valued expression as a bterm.
func (a *carryAn) byteOf(e ast.Expr, st *cstate) (bterm, bool) {
	e = ast.Unparen(e)
	if c, ok := constU64(a.info, e); ok {
		return bterm{k: c & 0xFF}, true
	}
	if a.isField(e, a.fHead) {
		return st.head, true
	}
	if o := a.localObj(e); o != nil {
		if t, ok := st.lbyte[o]; ok {
			return t, true
		}
	}
	if img, ok := a.images(e, st); ok {
		m := make([]uint64, len(img))
		for i, v := range img {
			m[i] = v & 0xFF
		}
		return bterm{fld: m}, true
	}
	switch v := e.(type) {
	case *ast.CallExpr: // integer conversion: the value is reduced mod 256 at the end anyway
		if tv, ok := a.info.Types[v.Fun]; ok && tv.IsType() && len(v.Args) == 1 {
			if bits, _, okb := typeBits(tv.Type); okb && bits >= 8 {
				return a.byteOf(v.Args[0], st)
			}
		}
	case *ast.BinaryExpr:
		if v.Op == token.ADD || v.Op == token.SUB {
			if bits, _, okb := typeBits(a.info.TypeOf(e)); !okb || bits < 8 {
				return bterm{}, false
			}
			x, okx := a.byteOf(v.X, st)
			y, oky := a.byteOf(v.Y, st)
			if !okx || !oky {
				return bterm{}, false
			}
			if v.Op == token.SUB {
				if y.hasH || y.fld != nil {
					return bterm{}, false
				}
				x.k = (x.k + 256 - y.k) & 0xFF
				return x, true
			}
			if (x.hasH && y.hasH) || (x.fld != nil && y.fld != nil) {
				return bterm{}, false
			}
			out := bterm{hasH: x.hasH || y.hasH, k: (x.k + y.k) & 0xFF, fld: x.fld}
			if y.fld != nil {
				out.fld = y.fld
			}
			return out, true
		}
	}
	return bterm{}, false
}

func (a *carryAn) extraOf(e ast.Expr, st *cstate) xterm {
	e = ast.Unparen(e)
	if c, ok := constU64(a.info, e); ok && c < 1<<31 {
		return xterm{k: int64(c)}
	}
	if a.isField(e, a.fExtra) {
		return st.extra
	}
	if v, ok := e.(*ast.BinaryExpr); ok && (v.Op == token.ADD || v.Op == token.SUB) {
		x, y := a.extraOf(v.X, st), a.extraOf(v.Y, st)
		if x.bad || y.bad || (x.hasX && y.hasX) || (v.Op == token.SUB && y.hasX) {
			return xterm{bad: true}
		}
		if v.Op == token.SUB {
			return xterm{hasX: x.hasX, k: x.k - y.k}
		}
		return xterm{hasX: x.hasX || y.hasX, k: x.k + y.k}
	}
	return xterm{bad: true}
}

// appendArgs: s is `R.dst = append(R.dst, e…)`.
func (a *carryAn) appendArgs(s ast.Stmt) ([]ast.Expr, bool) {
	as, ok := s.(*ast.AssignStmt)
	if !ok || as.Tok != token.ASSIGN || len(as.Lhs) != 1 || len(as.Rhs) != 1 || !a.isField(as.Lhs[0], a.fDst) {
		return nil, false
	}
	call, ok := ast.Unparen(as.Rhs[0]).(*ast.CallExpr)
	if !ok || len(call.Args) < 2 || call.Ellipsis.IsValid() || !a.isField(call.Args[0], a.fDst) {
		return nil, false
	}
	id, ok := ast.Unparen(call.Fun).(*ast.Ident)
	if !ok {
		return nil, false
	}
	if b, ok := a.info.Uses[id].(*types.Builtin); !ok || b.Name() != "append" {
		return nil, false
	}
	return call.Args[1:], true
}

func isMarker(s ast.Stmt) bool {
	es, ok := s.(*ast.ExprStmt)
	if !ok {
		return false
	}
	_, isLit := es.X.(*ast.BasicLit)
	return isLit
}

// runLoop: `for ; X > 0; X-- { R.dst = append(R.dst, b) }` (X = R.pendingExtra,
// unsigned; the test may be spelt X != 0, 0 < X, X >= 1; the decrement may be
// the last body statement). Emits b once per pending byte and leaves X == 0.
func (a *carryAn) runLoop(f *ast.ForStmt, st *cstate) bool {
	if f.Init != nil || f.Cond == nil {
		return false
	}
	cb, ok := ast.Unparen(f.Cond).(*ast.BinaryExpr)
	if !ok {
		return false
	}
	op, xe, ce := cb.Op, cb.X, cb.Y
	if _, isC := constU64(a.info, xe); isC {
		xe, ce, op = cb.Y, cb.X, mirror(op)
	}
	c, okc := constU64(a.info, ce)
	if !okc || !a.isField(xe, a.fExtra) {
		return false
	}
	if _, signed, okb := typeBits(a.fExtra.Type()); !okb || signed {
		return false
	}
	positive := (op == token.GTR && c == 0) || (op == token.NEQ && c == 0) || (op == token.GEQ && c == 1)
	if !positive {
		return false
	}
	isDec := func(s ast.Stmt) bool {
		switch v := s.(type) {
		case *ast.IncDecStmt:
			return v.Tok == token.DEC && a.isField(v.X, a.fExtra)
		case *ast.AssignStmt:
			if v.Tok == token.SUB_ASSIGN && len(v.Lhs) == 1 && a.isField(v.Lhs[0], a.fExtra) {
				d, ok := constU64(a.info, v.Rhs[0])
				return ok && d == 1
			}
		}
		return false
	}
	var body []ast.Stmt
	for _, s := range f.Body.List {
		if !isMarker(s) {
			body = append(body, s)
		}
	}
	switch {
	case f.Post != nil && isDec(f.Post) && len(body) == 1:
	case f.Post == nil && len(body) == 2 && isDec(body[1]):
		body = body[:1]
	default:
		return false
	}
	args, ok := a.appendArgs(body[0])
	if !ok || len(args) != 1 {
		return false
	}
	b, ok := a.byteOf(args[0], st)
	if !ok || b.hasH {
		return false
	}
	st.emits = append(st.emits, cEmit{run: true, val: b, count: st.extra, pos: f.Pos()})
	st.extra = xterm{}
	return true
}

func (a *carryAn) assign(lhs, rhs ast.Expr, tok token.Token, st *cstate) string {
	// compound assignment: build the value from the current one
	switch {
	case a.isField(lhs, a.fLow):
		var img []uint64
		var ok bool
		switch tok {
		case token.ASSIGN:
			img, ok = a.images(rhs, st)
		case token.SHL_ASSIGN, token.SHR_ASSIGN, token.AND_ASSIGN:
			c, okc := constU64(a.info, rhs)
			if okc {
				img = make([]uint64, len(st.low))
				bits, _, _ := typeBits(a.fLow.Type())
				for i, v := range st.low {
					switch tok {
					case token.SHL_ASSIGN:
						img[i] = truncBits(v<<c, bits)
					case token.SHR_ASSIGN:
						img[i] = v >> c
					default:
						img[i] = v & c
					}
				}
				ok = tok == token.AND_ASSIGN || c < 64
			}
		}
		if !ok {
			return "assignment to low is not a shift/mask/conversion of low"
		}
		st.low = img
		return ""
	case a.isField(lhs, a.fHead):
		if tok != token.ASSIGN {
			return "compound assignment to pendingHead"
		}
		t, ok := a.byteOf(rhs, st)
		if !ok {
			return "value stored into pendingHead not recognised"
		}
		st.head = t
		return ""
	case a.isField(lhs, a.fExtra):
		var t xterm
		switch tok {
		case token.ASSIGN:
			t = a.extraOf(rhs, st)
		case token.ADD_ASSIGN, token.SUB_ASSIGN:
			d := a.extraOf(rhs, st)
			t = st.extra
			if d.bad || d.hasX {
				t.bad = true
			} else if tok == token.ADD_ASSIGN {
				t.k += d.k
			} else {
				t.k -= d.k
			}
		default:
			t.bad = true
		}
		if t.bad {
			return "value stored into pendingExtra not recognised"
		}
		st.extra = t
		return ""
	}
	if o := a.localObj(lhs); o != nil {
		if v, isVar := o.(*types.Var); isVar && !v.IsField() && v.Parent() != v.Pkg().Scope() && (tok == token.ASSIGN || tok == token.DEFINE) {
			delete(st.loc, o)
			delete(st.lconst, o)
			delete(st.lbyte, o)
			if img, ok := a.images(rhs, st); ok {
				st.loc[o] = img
				return ""
			}
			if t, ok := a.byteOf(rhs, st); ok {
				st.lbyte[o] = t
				return ""
			}
			return "local definition is neither a bit field of low nor a byte term"
		}
	}
	return "assignment to an untracked location"
}

func (a *carryAn) exec(s ast.Stmt, st *cstate) {
	fail := func(why string) {
		if st.bad == "" {
			st.bad = a.pos(s.Pos()) + ": `" + a.src(s) + "`: " + why
		}
	}
	switch v := s.(type) {
	case *ast.EmptyStmt:
	case *ast.ExprStmt:
		if !isMarker(v) {
			fail("expression statement")
		}
	case *ast.AssignStmt:
		if args, ok := a.appendArgs(v); ok {
			for _, e := range args {
				b, okb := a.byteOf(e, st)
				if !okb {
					fail("appended value not recognised")
					return
				}
				st.emits = append(st.emits, cEmit{val: b, pos: v.Pos()})
			}
			return
		}
		if len(v.Lhs) != 1 || len(v.Rhs) != 1 {
			fail("multi-value assignment")
			return
		}
		if why := a.assign(v.Lhs[0], v.Rhs[0], v.Tok, st); why != "" {
			fail(why)
		}
	case *ast.IncDecStmt:
		if !a.isField(v.X, a.fExtra) {
			fail("++/-- of something other than pendingExtra")
			return
		}
		if v.Tok == token.INC {
			st.extra.k++
		} else {
			st.extra.k--
		}
	case *ast.ForStmt:
		if !a.runLoop(v, st) {
			fail("loop is not the recognised `for ; pendingExtra > 0; pendingExtra-- { dst = append(dst, <byte>) }` idiom")
		}
	case *ast.DeclStmt:
		gd, ok := v.Decl.(*ast.GenDecl)
		if !ok || gd.Tok != token.VAR {
			if ok && gd.Tok == token.CONST {
				return
			}
			fail("declaration")
			return
		}
		for _, sp := range gd.Specs {
			vs := sp.(*ast.ValueSpec)
			if len(vs.Values) != len(vs.Names) {
				fail("var declaration without initialiser")
				return
			}
			for i, id := range vs.Names {
				if why := a.assign(id, vs.Values[i], token.DEFINE, st); why != "" {
					fail(why)
				}
			}
		}
	default:
		fail(fmt.Sprintf("statement %T is outside the recognised shape", s))
	}
}

// seq walks a statement list, forking at every if / tagless switch.
func (a *carryAn) seq(list []ast.Stmt, st *cstate, done func(*cstate, bool)) {
	dom := uint64(1) << carryDomBits
	for i, s := range list {
		if st.bad != "" {
			break
		}
		rest := list[i+1:]
		next := func(q *cstate, ret bool) {
			if ret {
				done(q, true)
			} else {
				a.seq(rest, q, done)
			}
		}
		switch v := s.(type) {
		case *ast.BlockStmt:
			a.seq(v.List, st, next)
			return
		case *ast.ReturnStmt:
			if len(v.Results) != 0 {
				st.bad = a.pos(v.Pos()) + ": return with results"
			}
			done(st, true)
			return
		case *ast.IfStmt:
			if v.Init != nil {
				a.exec(v.Init, st)
			}
			T, ok := a.condSet(v.Cond, st)
			if !ok {
				st.bad = a.pos(v.Cond.Pos()) + ": condition `" + a.src(v.Cond) + "` is not a boolean combination of comparisons between a bit field of low and a constant"
				done(st, false)
				return
			}
			pt, pe := st.clone(), st.clone()
			pt.set, pe.set = st.set.and(T), st.set.and(T.not(dom))
			pt.trail = append(pt.trail, a.src(v.Cond)+"=true")
			pe.trail = append(pe.trail, a.src(v.Cond)+"=false")
			if !pt.set.empty() {
				a.seq(v.Body.List, pt, next)
			}
			if !pe.set.empty() {
				switch e := v.Else.(type) {
				case nil:
					next(pe, false)
				case *ast.BlockStmt:
					a.seq(e.List, pe, next)
				case *ast.IfStmt:
					a.seq([]ast.Stmt{e}, pe, next)
				}
			}
			return
		case *ast.SwitchStmt:
			if v.Tag != nil || v.Init != nil {
				st.bad = a.pos(v.Pos()) + ": switch with a tag or init statement"
				done(st, false)
				return
			}
			remaining := st.set
			var deflt *ast.CaseClause
			for _, cl := range v.Body.List {
				cc := cl.(*ast.CaseClause)
				if cc.List == nil {
					deflt = cc
					continue
				}
				T := ivset{}
				for _, ce := range cc.List {
					s1, ok := a.condSet(ce, st)
					if !ok {
						st.bad = a.pos(ce.Pos()) + ": case `" + a.src(ce) + "` is not a recognised comparison"
						done(st, false)
						return
					}
					T = T.or(s1)
				}
				p := st.clone()
				p.set = remaining.and(T)
				p.trail = append(p.trail, "case "+a.src(cc.List[0]))
				remaining = remaining.and(T.not(dom))
				for _, bs := range cc.Body {
					if br, ok := bs.(*ast.BranchStmt); ok && br.Tok == token.FALLTHROUGH {
						st.bad = a.pos(br.Pos()) + ": fallthrough"
					}
				}
				if !p.set.empty() {
					a.seq(cc.Body, p, next)
				}
			}
			p := st.clone()
			p.set = remaining
			p.trail = append(p.trail, "default")
			if !p.set.empty() {
				if deflt != nil {
					a.seq(deflt.Body, p, next)
				} else {
					next(p, false)
				}
			}
			return
		default:
			a.exec(s, st)
		}
	}
	done(st, false)
}

// onSet: value of a field term on set S, when constant there.
func fldOnSet(img []uint64, S ivset) (uint64, bool) {
	if img == nil {
		return 0, true
	}
	minBit := -1
	for i := 0; i < carryDomBits; i++ {
		if img[i] != 0 {
			minBit = i
			break
		}
	}
	val := func(v uint64) uint64 {
		var out uint64
		for i := 0; i < carryDomBits; i++ {
			if v>>uint(i)&1 == 1 {
				out ^= img[i]
			}
		}
		return out & 0xFF
	}
	if minBit < 0 {
		return 0, true
	}
	var first uint64
	for n, x := range S {
		if x.a>>uint(minBit) != (x.b-1)>>uint(minBit) {
			return 0, false
		}
		if n == 0 {
			first = val(x.a)
		} else if val(x.a) != first {
			return 0, false
		}
	}
	return first, true
}

func (t bterm) on(S ivset) (hasH bool, k uint64, ok bool) {
	f, ok := fldOnSet(t.fld, S)
	if !ok {
		return false, 0, false
	}
	return t.hasH, (t.k + f) & 0xFF, true
}

func (t bterm) String() string {
	var p []string
	if t.hasH {
		p = append(p, "pendingHead")
	}
	if t.k != 0 || (!t.hasH && t.fld == nil) {
		p = append(p, fmt.Sprintf("%#x", t.k))
	}
	if t.fld != nil {
		p = append(p, "low."+imgString(t.fld[:carryDomBits]))
	}
	return strings.Join(p, "+")
}

func (t xterm) String() string {
	if t.hasX {
		return fmt.Sprintf("pendingExtra%+d", t.k)
	}
	return fmt.Sprintf("%d", t.k)
}

type carryClass struct {
	name    string
	set     ivset
	emit    bool
	headAdd uint64 // emitted head = pendingHead + headAdd
	fill    uint64 // pending bytes are emitted as this value
	what    string
}

// behaves: does path p, restricted to S, have the effect of class k?
// Returns per-component verdicts (emit, head, pending, low) and a description.
func (a *carryAn) behaves(p *cstate, S ivset, k carryClass) (okEmit, okHead, okPend, okLow bool, desc string) {
	var ed []string
	for _, e := range p.emits {
		h, v, ok := e.val.on(S)
		s := e.val.String()
		if ok {
			s = fmt.Sprintf("%#x", v)
			if h {
				s = fmt.Sprintf("pendingHead+%#x", v)
			}
		}
		if e.run {
			s += "×(" + e.count.String() + ")"
		}
		ed = append(ed, s)
	}
	desc = fmt.Sprintf("emits [%s]; pendingHead' = %s; pendingExtra' = %s; low' = low.%s", strings.Join(ed, ", "), p.head, p.extra, imgString(p.low[:carryDomBits]))
	if k.emit {
		if len(p.emits) == 2 && !p.emits[0].run && p.emits[1].run {
			h0, v0, ok0 := p.emits[0].val.on(S)
			h1, v1, ok1 := p.emits[1].val.on(S)
			c := p.emits[1].count
			okEmit = ok0 && ok1 && h0 && v0 == k.headAdd && !h1 && v1 == k.fill && c.hasX && c.k == 0
		}
		want := make([]uint64, carryDomBits+1)
		for i := carryTopByte; i < carryBit; i++ {
			want[i] = 1 << uint(i-carryTopByte)
		}
		okHead = !p.head.hasH && p.head.k == 0 && p.head.fld != nil && sameImg(p.head.fld, want)
		okPend = !p.extra.hasX && p.extra.k == 0
	} else {
		okEmit = len(p.emits) == 0
		okHead = p.head.hasH && p.head.k == 0 && p.head.fld == nil
		okPend = p.extra.hasX && p.extra.k == 1
	}
	wantLow := make([]uint64, carryDomBits+1)
	for i := 0; i < carryTopByte; i++ {
		wantLow[i] = 1 << uint(i+8)
	}
	okLow = sameImg(p.low, wantLow)
	return
}

func (r *c17) carry() {
	c, g := r.c, r.k.g
	fl := r.k.flow("K5.carry", relLzma, "rangeEncoder", "shiftLow")
	stObj := g.LookupObj(relLzma, "rangeEncoder")
	if fl == nil || stObj == nil {
		return
	}
	anchor := fl.F.Name()
	a := &carryAn{r: r, fl: fl, info: fl.F.Info(), recv: fl.Recv()}
	a.fLow, a.fHead, a.fExtra, a.fDst = core.LookupField(stObj, "low"), core.LookupField(stObj, "pendingHead"), core.LookupField(stObj, "pendingExtra"), core.LookupField(stObj, "dst")
	shape := "shiftLow is a method on *rangeEncoder whose fields low (uint64), pendingHead (uint8), pendingExtra and dst ([]byte) resolve, and its body is a decision tree over comparisons of bit fields of low with constants whose leaves are assignments, appends to dst and the pending-run loop"
	if a.recv == nil || a.fLow == nil || a.fHead == nil || a.fExtra == nil || a.fDst == nil {
		c.Undecided("K5.carry", anchor, shape, "receiver or one of the fields low/pendingHead/pendingExtra/dst not found")
		return
	}
	if bits, signed, ok := typeBits(a.fLow.Type()); !ok || signed || bits < 64 {
		c.Undecided("K5.carry", anchor, shape, "low is not a uint64 (the carry bit needs bit 32)")
		return
	}
	if bits, signed, ok := typeBits(a.fHead.Type()); !ok || signed || bits != 8 {
		c.Undecided("K5.carry", anchor, shape, "pendingHead is not a uint8")
		return
	}
	if len(fl.F.Decl.Type.Params.List) != 0 {
		c.Undecided("K5.carry", anchor, shape, "shiftLow takes parameters")
		return
	}
	dom := uint64(1) << carryDomBits
	init := &cstate{set: ivset{{0, dom}}, low: make([]uint64, carryDomBits+1), loc: map[types.Object][]uint64{}, lconst: map[types.Object]uint64{}, lbyte: map[types.Object]bterm{},
		head: bterm{hasH: true}, extra: xterm{hasX: true}}
	for i := 0; i < carryDomBits; i++ {
		init.low[i] = 1 << uint(i)
	}
	a.seq(fl.F.Decl.Body.List, init, func(p *cstate, _ bool) { a.paths = append(a.paths, p) })
	for _, p := range a.paths {
		if p.bad != "" {
			c.Undecided("K5.carry", anchor, shape, p.bad+" (path: "+strings.Join(p.trail, " ; ")+")")
			return
		}
	}
	c.Floor("K5.carry", "paths of shiftLow with a non-empty set of low values", len(a.paths), 2)
	c.Floor("K5.carry", "comparisons of low against a constant decided on interval sets", a.atoms, 2)

	top := uint64(0xFF) << carryTopByte
	classes := []carryClass{
		{"no carry, top byte < 0xFF", ivset{{0, top}}, true, 0, 0xFF, "the pending bytes are final as they stand"},
		{"no carry, top byte = 0xFF", ivset{{top, 1 << carryBit}}, false, 0, 0, "a later carry could still ripple through this byte"},
		{"carry", ivset{{1 << carryBit, dom}}, true, 1, 0x00, "the carry ripples through the pending 0xFF run into the head"},
	}
	for ci, k := range classes {
		ca := fmt.Sprintf("%s[low in %s: %s]", anchor, k.set, k.name)
		var splitBad, emitBad, headBad, pendBad, lowBad []string
		n := 0
		for _, p := range a.paths {
			S := p.set.and(k.set)
			if S.empty() {
				continue
			}
			n++
			oe, oh, op, ol, desc := a.behaves(p, S, k)
			where := fmt.Sprintf("%s: low in %s takes the path [%s], which %s", g.Pos(fl.F.Decl.Pos()), S, strings.Join(p.trail, " ; "), desc)
			if oe && oh && op && ol {
				continue
			}
			// does the path behave exactly like another class? then the partition is wrong, not the arm
			other := ""
			for cj, k2 := range classes {
				if cj == ci {
					continue
				}
				if e2, h2, p2, l2, _ := a.behaves(p, S, k2); e2 && h2 && p2 && l2 {
					other = k2.name
				}
			}
			if other != "" {
				splitBad = append(splitBad, where+" — that is the arm for `"+other+"`")
				continue
			}
			if !oe {
				emitBad = append(emitBad, where)
			}
			if !oh {
				headBad = append(headBad, where)
			}
			if !op {
				pendBad = append(pendBad, where)
			}
			if !ol {
				lowBad = append(lowBad, where)
			}
		}
		if n == 0 {
			c.Undecided("K5.carry.split", ca, "some path of shiftLow handles these values", "no path covers this class")
			continue
		}
		c.Check(len(splitBad) == 0, "K5.carry.split", ca,
			"shiftLow's branch conditions send exactly these values of the 33-bit low to the arm for `"+k.name+"` (boundaries 0xFF00_0000 = 0xFF<<24 and 2^32, decided on the sets of values each condition accepts; low < 2^33 because low < 2^32 after every shiftLow and encodeBit keeps low+width from growing): a value on the wrong side is written as the wrong bytes — at 2^32 a carry is dropped, at 0xFF00_0000 a byte that a later carry must still ripple through is made final — so the payload no longer decodes to the input", n,
			strings.Join(splitBad, "\n"))
		want := "nothing"
		if k.emit {
			want = fmt.Sprintf("pendingHead+%d, then %#02x once per pending byte (pendingExtra times)", k.headAdd, k.fill)
		}
		c.Check(len(emitBad) == 0, "K5.carry.emit", ca, "for these values shiftLow appends to dst exactly: "+want+" ("+k.what+"); any other byte, order or count changes the number the decoder reads", n, strings.Join(emitBad, "\n"))
		if k.emit {
			c.Check(len(headBad) == 0, "K5.carry.head", ca, "the new pending head is bits [24,32) of low (the byte being shifted out of the 32-bit window)", n, strings.Join(headBad, "\n"))
			c.Check(len(pendBad) == 0, "K5.carry.pending", ca, "after flushing, no 0xFF byte is pending (pendingExtra = 0, by assignment or because the flush loop ran it down)", n, strings.Join(pendBad, "\n"))
		} else {
			c.Check(len(headBad) == 0, "K5.carry.head", ca, "the pending head is kept (it may still receive a carry)", n, strings.Join(headBad, "\n"))
			c.Check(len(pendBad) == 0, "K5.carry.pending", ca, "exactly one more 0xFF byte becomes pending (pendingExtra + 1)", n, strings.Join(pendBad, "\n"))
		}
		c.Check(len(lowBad) == 0, "K5.carry.low", ca, "low' = (low mod 2^24) << 8: the top byte and the carry bit leave the window, the rest moves up one byte (so low < 2^32 again)", n, strings.Join(lowBad, "\n"))
	}
	r.carryWriters(a)
}

// carryWriters: low / pendingHead / pendingExtra are written only where the
// rules look: shiftLow (all three), encodeBit (low, decided by M1.enc.low).
func (r *c17) carryWriters(a *carryAn) {
	c, g := r.c, r.k.g
	p := g.Pkg(relLzma)
	if p == nil {
		return
	}
	encodeBit := g.LookupMethod(relLzma, "prob", "encodeBit")
	var stray []string
	n := 0
	for _, f := range g.AllFuncs(p) {
		info := f.Info()
		note := func(e ast.Expr, at ast.Node) {
			sel, ok := ast.Unparen(e).(*ast.SelectorExpr)
			if !ok {
				return
			}
			fv := info.Uses[sel.Sel]
			if fv != types.Object(a.fLow) && fv != types.Object(a.fHead) && fv != types.Object(a.fExtra) {
				return
			}
			n++
			switch {
			case f.Obj == a.fl.F.Obj:
			case f.Obj == encodeBit && fv == types.Object(a.fLow):
			default:
				stray = append(stray, fmt.Sprintf("%s: %s writes %s", g.Pos(at.Pos()), f.Name(), fv.Name()))
			}
		}
		ast.Inspect(f.Decl.Body, func(m ast.Node) bool {
			switch v := m.(type) {
			case *ast.AssignStmt:
				for _, l := range v.Lhs {
					note(l, v)
				}
			case *ast.IncDecStmt:
				note(v.X, v)
			case *ast.UnaryExpr:
				if v.Op == token.AND {
					note(v.X, v)
				}
			}
			return true
		})
	}
	c.Check(len(stray) == 0, "K5.carry.writers", relLzma, "the carry state (low, pendingHead, pendingExtra) is written only by shiftLow, and low additionally by encodeBit's `low += threshold` (M1.enc.low): the three-way split is only right for a state no one else moves", n, strings.Join(stray, "\n"))
	c.Floor("K5.carry.writers", "assignments to low/pendingHead/pendingExtra in the package", n, 4)
}
