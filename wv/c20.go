package main

// C20 — compilation is deterministic (static clauses 1–3 of DESIGN §4 "C20").
//
//   M1  map iteration (engine E6): every `range` over a map in the packages on
//       the compile path is classified by the effects of its body.
//   N1  other nondeterminism sources: who-may-call from cgen.Do, generate.Do,
//       `wuffs gen`/genrelease and `wuffs-c genrelease` to clock, random,
//       pid/host/environment readers, goroutines, select.
//   N2  sub-processes: only the language back end and `git` under TZ=UTC.
//   S1  sorted enumeration: unsorted directory listings never leave the
//       collecting helpers unsorted; genIncludes sorts; TopologicalSortStructs
//       follows slice order and uses its maps for lookup only.
//
// Clause 4 (build reproduction against the committed snapshot) is built
// elsewhere and is to be merged into runC20 next to runC20Static.

import (
	"fmt"
	"go/ast"
	"go/token"
	"go/types"
	"os"
	"sort"
	"strings"
	"time"

	"golang.org/x/tools/go/callgraph"
	"golang.org/x/tools/go/callgraph/cha"
	"golang.org/x/tools/go/callgraph/vta"
	"golang.org/x/tools/go/packages"
	"golang.org/x/tools/go/ssa"
	"golang.org/x/tools/go/ssa/ssautil"

	"wv/core"
)

func init() {
	register("C20", core.Spec{
		Decides: "(4, build-reproduction, not a static analysis of the generator) the C regenerated from std/ by the working tree's compiler in a scratch copy equals the committed release/c/wuffs-unsupported-snapshot.c byte for byte, and lang/check/data.go and lib/lowleveljpeg/data.go equal what `go run gen.go` produces; and the static clauses of C20 (deterministic compilation), for every run of `wuffs gen` / `wuffs-c gen` / `wuffs-c genrelease` on a fixed ordered input: " +
			"(1) every `range` over a map in the module packages on the compile path (cmd/wuffs, cmd/wuffs-c and everything they reach) has a body whose effects are insensitive to iteration order — keyed writes, commutative aggregation, max/min under a total order, collect-then-sort, per-element sort, error-only early return, or a search with loop-independent result; calls in such bodies are decided by interprocedural write-effect summaries on go/ssa; the same for the //go:build ignore generator lang/check/gen.go, type-checked on its own; generate.Do stops on an error from check.Check or the generator before writing anything (so error-only loops cannot influence output); " +
			"(2) no function reachable (VTA call graph over a CHA seed) from cgen.Do, generate.Do, cmd/wuffs doGen/genrelease or cmd/wuffs-c doGenrelease calls or references time.Now/Since/…, math/rand, crypto/rand, os.Getpid/Hostname/Getenv/Environ/Getwd/TempDir/…, runtime.NumCPU/GOMAXPROCS/…, go/build.Default, starts a goroutine or selects — apart from two frozen exceptions (lang/wuffsroot locating the tree; `git` under TZ=UTC for three version-metadata lines) — and sub-processes are only the language back end and that git call; " +
			"(3) directory listings obtained with (*os.File).Readdir/Readdirnames/ReadDir are sorted with a total order on every path before any use outside side-effect-free collecting helpers; cgen.genIncludes sorts its use list before emitting it; ast.TopologicalSortStructs ranges only over slices and uses its maps for lookup only",
		NotDecided: "that sort comparators named LessThan/Less/Cmp are total orders; that an error returned from a map loop prevents any C from being written (idiom v relies on generate.Do returning before the generator runs); address-dependent output (%p, unsafe pointers as integers); nondeterminism inside the Go standard library or in the sub-processes themselves (PATH lookup of wuffs-c and git); os.ReadDir and filepath.Walk are taken as sorted by their documentation; lib/lowleveljpeg/gen.go (another ignored generator) is not examined",
		Assumptions: []string{
			"go/types, go/cfg, go/ssa and the VTA call graph (x/tools v0.29.0) model the program faithfully; function values that VTA cannot resolve are reported, not ignored",
			"standard-library functions listed in c20_effects.go (fmt.Sprintf/Errorf, strings.*, strconv.*, filepath.Join, (*big.Int).Cmp, …) do not write through their arguments; error.Error / fmt.Stringer.String / fs.FileInfo methods are observers",
			"a method `func (T) LessThan(T) bool` (or Less/Before/Cmp) implements a strict total order on distinct values; map keys are distinct",
			"an anchor or idiom that is not recognised fails as undecided",
		},
	}, runC20)
}

func runC20(c *core.Ctx) {
	runC20Static(c)
	runC20Fresh(c)
}

type c20 struct {
	c    *core.Ctx
	k    *gctx
	prog *ssa.Program
	cg   *callgraph.Graph
	all  map[*ssa.Function]bool
	fx   *fxAn // write effects
	fxIO *fxAn // write effects, read-only file system calls allowed

	reach      map[*ssa.Function]bool
	reachRoots []string
}

func inModule(pkgPath string) bool {
	return pkgPath == core.Mod || strings.HasPrefix(pkgPath, core.Mod+"/")
}

func runC20Static(c *core.Ctx) {
	k := newG(c, "./cmd/wuffs", "./cmd/wuffs-c", "go/format") // go/format: imported by the //go:build ignore generator lang/check/gen.go
	st := &c20{c: c, k: k}
	dbg := func(what string) {
		if os.Getenv("WV_DEBUG") != "" {
			fmt.Fprintf(os.Stderr, "c20: %-12s %.1fs\n", what, time.Since(c.Start).Seconds())
		}
	}
	dbg("packages")
	st.prog, _ = k.g.SSA()
	dbg("ssa")
	st.all = ssautil.AllFunctions(st.prog)
	st.cg = vta.CallGraph(st.all, cha.CallGraph(st.prog))
	dbg("callgraph")
	st.fx = newFx(st.prog, st.cg, inModule, k.g.Pos)
	st.fx.indexSites(st.all)
	st.fxIO = newFx(st.prog, st.cg, inModule, k.g.Pos)
	st.fxIO.readIO = true
	st.fxIO.sites = st.fx.sites
	c.Analysed("ssa_functions", len(st.all))
	c.Analysed("callgraph", "VTA over CHA seed, golang.org/x/tools v0.29.0")

	tick := func(what string) {
		if os.Getenv("WV_DEBUG") != "" {
			fmt.Fprintf(os.Stderr, "c20: %-12s %.1fs\n", what, time.Since(c.Start).Seconds())
		}
	}
	tick("loaded")
	st.mapOrder()
	tick("maporder")
	st.nondet()
	tick("nondet")
	st.subprocess()
	tick("subprocess")
	st.sortedEnum()
	tick("sortedenum")
	st.includesAndToposort()
	tick("includes")
	st.generator()
	tick("generator")
}

func (st *c20) ssaPkg(rel string) *ssa.Package {
	p := st.k.g.Pkg(rel)
	if p == nil {
		return nil
	}
	return st.prog.Package(p.Types)
}

// reach: functions reachable from roots over call-graph edges. With modOnly,
// traversal does not continue inside non-module functions. Anonymous
// functions of a reached function are reached too (they may be invoked by
// library code such as sort.Slice).
func reachFrom(cg *callgraph.Graph, roots []*ssa.Function, cont func(*ssa.Function) bool) map[*ssa.Function]bool {
	seen := map[*ssa.Function]bool{}
	var work []*ssa.Function
	push := func(f *ssa.Function) {
		if f != nil && !seen[f] {
			seen[f] = true
			work = append(work, f)
		}
	}
	for _, r := range roots {
		push(r)
	}
	for len(work) > 0 {
		f := work[len(work)-1]
		work = work[:len(work)-1]
		if cont != nil && !cont(f) {
			continue
		}
		for _, a := range f.AnonFuncs {
			push(a)
		}
		if n := cg.Nodes[f]; n != nil {
			for _, e := range n.Out {
				push(e.Callee.Func)
			}
		}
	}
	return seen
}

func declNameOf(p *packages.Package, d *ast.FuncDecl) string {
	return (&core.Func{Pkg: p, Decl: d}).Name()
}

// ======================= M1: map iteration =======================

// Frozen table: the map ranges confirmed by reading (DESIGN §4 C20 clause 1).
// Rows are keyed by function and idiom class, not by line or variable name.
var c20MapTable = []struct {
	fn    string
	class string
	n     int
	why   string
}{
	{"lang/check.Check", "collect-sorted", 1, "builtInInterfaceFuncs → builtInInterfaces[qid] = append(…): every slice of the map is sorted by the next loop before any use"},
	{"lang/check.Check", "elem-sort", 1, "range builtInInterfaces: sort.Slice(qqids, LessThan) on each value"},
	{"lang/check.(*Checker).checkInterfacesSatisfied", "aggregate", 1, "largest key by QQID.LessThan (with its interface) — only chooses the error message"},
	{"lang/check.(*Checker).checkAllTypeChecked", "error-exit", 4, "consts / funcs / statuses / structs: read-only walk, early return of the error only"},
	{"lang/check.(*checker).tcheckTypeExpr", "search", 1, "existential search over c.structs leaving via `break swtch`"},
	{"internal/cgen.expandBangInsert", "collect-sorted", 1, "keys of the insert table → sort.Strings(keys) (error message path)"},
}

const c20MapFloor = 9

func (st *c20) mapOrder() {
	c, k := st.c, st.k
	var roots []*ssa.Function
	for _, rel := range []string{"cmd/wuffs", "cmd/wuffs-c"} {
		sp := st.ssaPkg(rel)
		if sp == nil || sp.Func("main") == nil {
			c.Undecided("M1.roots", rel+".main", "the command's main function is loaded", "package or main not found")
			continue
		}
		roots = append(roots, sp.Func("main"), sp.Func("init"))
	}
	reach := reachFrom(st.cg, roots, nil)
	pkgReached := map[string]int{}
	for f := range reach {
		if pp := fnPkgPath(f); inModule(pp) {
			pkgReached[pp]++
		}
	}
	// Package initialisers run whenever the package is linked in.
	var pkgNames []string
	for pp := range pkgReached {
		pkgNames = append(pkgNames, strings.TrimPrefix(pp, core.Mod+"/"))
	}
	sort.Strings(pkgNames)
	c.Analysed("compile_path_packages", pkgNames)
	c.Floor("M1.packages", "module packages reachable from cmd/wuffs.main and cmd/wuffs-c.main", len(pkgNames), 10)

	type found struct {
		lp     *moLoop
		env    *moEnv
		res    *moResult
		anchor string
	}
	var all []found
	nRanges := 0
	for _, rel := range pkgNames {
		p := k.g.Pkg(rel)
		if p == nil {
			continue
		}
		env := &moEnv{prog: k.g, pkg: p, fx: st.fx, flows: map[ast.Node]*core.Flow{}, result: map[*moLoop]*moResult{}}
		env.collectLoops(p.Syntax, func(d *ast.FuncDecl) string { return declNameOf(p, d) })
		nRanges += len(env.loops)
		ord := map[string]int{}
		for _, lp := range env.loops {
			if !lp.isMap {
				continue
			}
			base := lp.enclName + "[range " + core.Src(k.g.Fset, lp.rs.X) + "]"
			ord[base]++
			anchor := base
			if ord[base] > 1 {
				anchor = fmt.Sprintf("%s#%d", base, ord[base])
			}
			all = append(all, found{lp, env, env.classify(lp), anchor})
		}
	}
	c.Analysed("range_statements_scanned", nRanges)
	var listing []string
	perFnClass := map[string]map[string]int{}
	for _, f := range all {
		claim := "the state after this loop over a map does not depend on the iteration order: its body only performs keyed writes, commutative aggregation, collect-then-sort, per-element sorts, error-only returns or a search with loop-independent result"
		where := k.g.Pos(f.lp.rs.Pos())
		if len(f.res.problems) == 0 {
			c.Pass("M1.maprange", f.anchor, claim, f.res.stmts, fmt.Sprintf("%s: classified %s; %d call(s) in the body decided write-free over %d callee function bodies", where, f.res.classList(), f.res.calls, f.res.callees))
			if perFnClass[f.lp.enclName] == nil {
				perFnClass[f.lp.enclName] = map[string]int{}
			}
			for cl := range f.res.classes {
				perFnClass[f.lp.enclName][cl]++
			}
		} else {
			c.Fail("M1.maprange", f.anchor, claim, f.res.stmts, fmt.Sprintf("%s: range over map %s in %s:\n%s", where, core.Src(k.g.Fset, f.lp.rs.X), f.lp.enclName, strings.Join(f.res.problems, "\n")))
		}
		listing = append(listing, fmt.Sprintf("%s %s: %s (calls decided: %d over %d callee bodies)", where, f.anchor, f.res.classList(), f.res.calls, f.res.callees))
	}
	sort.Strings(listing)
	c.Analysed("map_ranges", listing)
	c.Floor("M1", "`range` statements over maps on the compile path (confirmed by reading: check.go ×7, type.go ×1, cgen.go ×1)", len(all), c20MapFloor)

	// The frozen rows must still be there with the idiom that was confirmed.
	covered := map[string]int{}
	for _, row := range c20MapTable {
		got := perFnClass[row.fn][row.class]
		anchor := row.fn + "[" + row.class + "]"
		if got >= row.n {
			c.Pass("M1.table", anchor, fmt.Sprintf("the map range(s) confirmed by reading are present and classified %s (%s)", row.class, row.why), got, "")
		} else {
			c.Undecided("M1.table", anchor, fmt.Sprintf("the map range(s) confirmed by reading are present and classified %s (%s)", row.class, row.why),
				fmt.Sprintf("expected %d loop(s) of class %s in %s, found %d: the loop was removed, moved, or no longer has the confirmed shape — re-confirm by reading and update c20MapTable", row.n, row.class, row.fn, got))
		}
		covered[row.fn] += row.n
	}
	// Map ranges beyond the confirmed table were classified by the generic rules; say so.
	perFn := map[string]int{}
	for _, f := range all {
		perFn[f.lp.enclName]++
	}
	for _, f := range all {
		if perFn[f.lp.enclName] > covered[f.lp.enclName] && len(f.res.problems) == 0 {
			c.Info("M1.extra", f.anchor, fmt.Sprintf("%s: %s has %d map range(s) but the confirmed table lists %d; this one was decided by the generic effect rules as %s — confirm by reading and extend c20MapTable",
				k.g.Pos(f.lp.rs.Pos()), f.lp.enclName, perFn[f.lp.enclName], covered[f.lp.enclName], f.res.classList()))
		}
	}

	st.errorPath()
	st.mapOrderControl()
}

// errorPath: idiom (v) accepts loops whose only order-dependent outcome is
// *which* error is returned. That is harmless only if an error stops the
// driver before anything is written: in generate.Do, an error from
// check.Check or from the generator callback is tested and returned on every
// path to os.Stdout.Write (and to a successful return).
func (st *c20) errorPath() {
	c, k := st.c, st.k
	fl := k.flow("M1.errorpath", "lang/generate", "", "Do")
	if fl == nil {
		return
	}
	info := fl.F.Info()
	checkFn := k.fn("M1.errorpath", "lang/check", "", "Check")
	gen := types.Object(nil)
	if ps := fl.F.Decl.Type.Params.List; len(ps) > 0 {
		last := ps[len(ps)-1]
		if len(last.Names) > 0 {
			gen = info.Defs[last.Names[len(last.Names)-1]]
		}
	}
	if gen == nil || !isFuncType(gen.Type()) {
		c.Undecided("M1.errorpath", fl.F.Name(), "the generator callback parameter of generate.Do exists", "last parameter is not a function")
		return
	}
	writes := func(x *ast.CallExpr) bool {
		fn := core.Callee(info, x)
		if fn == nil || fn.Pkg() == nil {
			return false
		}
		switch fn.FullName() {
		case "(*os.File).Write", "(*os.File).WriteString", "os.WriteFile", "fmt.Print", "fmt.Printf", "fmt.Println", "fmt.Fprint", "fmt.Fprintf", "fmt.Fprintln", "(io.Writer).Write":
			return true
		}
		return false
	}
	exit := func(n ast.Node) bool { return fl.SuccessReturn(n) || core.Guaranteed(n, writes) }
	nw := 0
	ast.Inspect(fl.F.Decl.Body, func(m ast.Node) bool {
		if call, ok := m.(*ast.CallExpr); ok && writes(call) {
			nw++
		}
		return true
	})
	if nw == 0 {
		c.Undecided("M1.errorpath", fl.F.Name(), "the driver's output statement exists", "no write to os.Stdout found in generate.Do")
		return
	}
	for _, src := range []struct {
		what string
		pred func(*ast.CallExpr) bool
	}{
		{"check.Check", func(x *ast.CallExpr) bool { return core.IsCallTo(info, x, checkFn) }},
		{"the generator callback", func(x *ast.CallExpr) bool {
			id, ok := ast.Unparen(x.Fun).(*ast.Ident)
			return ok && info.Uses[id] == gen
		}},
	} {
		src := src
		errv := errVarFrom(fl, src.pred)
		ncalls := core.CountCalls(fl.F.Decl.Body, src.pred)
		anchor := fl.F.Name() + "[" + src.what + "]"
		if ncalls == 0 {
			c.Undecided("M1.errorpath", anchor, "the call exists in generate.Do", "not found")
			continue
		}
		k.mustPass("M1.errorpath", anchor,
			"an error from "+src.what+" is tested and stops generate.Do before anything is written to standard output: map loops that only choose which error is reported (idiom v) cannot influence generated C",
			fl, core.Query{
				Start: func(n ast.Node) bool {
					if _, isRet := n.(*ast.ReturnStmt); isRet {
						return false
					}
					return core.Guaranteed(n, src.pred)
				},
				Events: []core.Event{{Edge: func(cond ast.Expr, ci *core.CondInfo, taken bool) bool {
					return !taken && nilTest(fl, cond, errv, false)
				}}},
				Exit:    exit,
				FuncEnd: true,
			})
	}
}

// ======================= N1: other nondeterminism sources =======================

var c20ForbiddenPkgs = map[string]string{
	"math/rand": "pseudo-random numbers", "math/rand/v2": "pseudo-random numbers", "crypto/rand": "random bytes",
	"os/user": "the invoking user", "os/signal": "asynchronous signals", "net": "the network",
}

var c20ForbiddenFuncs = map[string]string{
	"time.Now": "the wall clock", "time.Since": "the wall clock", "time.Until": "the wall clock",
	// file modification times: output that depends on them depends on the history of the tree, not on its contents
	"(*os.fileStat).ModTime": "file modification times", "(io/fs.FileInfo).ModTime": "file modification times", "os.Chtimes": "file modification times",
	"time.Sleep": "timing", "time.After": "timing", "time.AfterFunc": "timing", "time.Tick": "timing",
	"time.NewTimer": "timing", "time.NewTicker": "timing",
	"os.Getpid": "the process id", "os.Getppid": "the parent process id", "os.Getuid": "the user id", "os.Geteuid": "the user id",
	"os.Getgid": "the group id", "os.Getegid": "the group id", "os.Hostname": "the host name",
	"os.Getenv": "the environment", "os.LookupEnv": "the environment", "os.Environ": "the environment", "os.ExpandEnv": "the environment",
	"os.Getwd": "the working directory", "os.UserHomeDir": "the environment", "os.UserCacheDir": "the environment",
	"os.UserConfigDir": "the environment", "os.TempDir": "the environment", "os.MkdirTemp": "a random name",
	"os.CreateTemp": "a random name", "os.Executable": "the installation path",
	"runtime.NumCPU": "the machine", "runtime.GOMAXPROCS": "the scheduler configuration", "runtime.NumGoroutine": "the scheduler",
	"runtime.Caller": "the build's file paths", "runtime.Callers": "the build's file paths", "runtime.Stack": "goroutine state",
	"runtime.ReadMemStats":        "allocator state",
	"(*go/build.Context).SrcDirs": "GOPATH/GOROOT from the environment",
	// Unordered map enumeration that is not a `range` statement (invisible to M1).
	"(reflect.Value).MapKeys": "map iteration order", "(reflect.Value).MapRange": "map iteration order",
	"maps.Keys": "map iteration order", "maps.Values": "map iteration order", "maps.All": "map iteration order",
	"golang.org/x/exp/maps.Keys": "map iteration order", "golang.org/x/exp/maps.Values": "map iteration order",
	"(*sync.Map).Range": "map iteration order",
}

var c20ForbiddenGlobals = map[string]string{
	"go/build.Default": "GOPATH/GOROOT from the environment",
	"time.Local":       "the local time zone",
}

// Frozen exceptions: (package of the referring function, forbidden object) with reason.
var c20NondetExceptions = map[[2]string]string{
	{"lang/wuffsroot", "os.Getwd"}:                    "the initial working directory is used only to locate wuffs-root-directory.txt, i.e. which tree is compiled, not what is emitted for it",
	{"lang/wuffsroot", "go/build.Default"}:            "fallback search for the tree under GOPATH/GOROOT when the working directory is outside it: selects the tree, not the output",
	{"lang/wuffsroot", "(*go/build.Context).SrcDirs"}: "same fallback search",
}

type c20Finding struct {
	pos  token.Pos
	fn   *ssa.Function
	what string // forbidden object or construct
	why  string
}

// scanNondet lists, for the functions in reach (module functions only), every
// call of or reference to a forbidden function/global, every go statement and
// every select.
func scanNondet(cg *callgraph.Graph, reach map[*ssa.Function]bool, inMod func(string) bool) (out []c20Finding, ninstr int) {
	forb := func(f *ssa.Function) (string, string, bool) {
		if f == nil {
			return "", "", false
		}
		name := fnFullName(f)
		if why, ok := c20ForbiddenFuncs[name]; ok {
			return name, why, true
		}
		if o := f.Object(); o != nil && o.Pkg() != nil {
			if why, ok := c20ForbiddenPkgs[o.Pkg().Path()]; ok {
				return name, why, true
			}
		}
		return "", "", false
	}
	var fns []*ssa.Function
	for f := range reach {
		if inMod(fnPkgPath(f)) && len(f.Blocks) > 0 {
			fns = append(fns, f)
		}
	}
	sort.Slice(fns, func(i, j int) bool { return fns[i].Pos() < fns[j].Pos() })
	for _, f := range fns {
		seenAt := map[string]bool{}
		add := func(pos token.Pos, what, why string) {
			if !pos.IsValid() {
				pos = f.Pos()
			}
			key := fmt.Sprintf("%d|%s", pos, what)
			if seenAt[key] {
				return
			}
			seenAt[key] = true
			out = append(out, c20Finding{pos, f, what, why})
		}
		for _, b := range f.Blocks {
			for _, ins := range b.Instrs {
				ninstr++
				switch x := ins.(type) {
				case *ssa.Go:
					add(x.Pos(), "go statement", "goroutine scheduling")
				case *ssa.Select:
					add(x.Pos(), "select statement", "channel readiness order")
				}
				var ops []*ssa.Value
				for _, op := range ins.Operands(ops) {
					if op == nil || *op == nil {
						continue
					}
					switch v := (*op).(type) {
					case *ssa.Function:
						if name, why, ok := forb(v); ok {
							add(ins.Pos(), name, why)
						}
					case *ssa.Global:
						if v.Pkg != nil {
							name := v.Pkg.Pkg.Path() + "." + v.Name()
							if why, ok := c20ForbiddenGlobals[name]; ok {
								add(ins.Pos(), name, why)
							}
						}
					}
				}
			}
		}
		// Dynamic calls resolved by the call graph.
		if n := cg.Nodes[f]; n != nil {
			for _, e := range n.Out {
				if name, why, ok := forb(e.Callee.Func); ok {
					add(e.Pos(), name, why)
				}
			}
		}
	}
	return out, ninstr
}

func (st *c20) findSSAFunc(rel, recv, name string) *ssa.Function {
	f := st.k.g.FindFunc(rel, recv, name)
	if f == nil || f.Obj == nil {
		return nil
	}
	return st.prog.FuncValue(f.Obj)
}

func (st *c20) genRoots(rule string) (roots []*ssa.Function, names []string) {
	c := st.c
	for _, r := range []struct{ rel, recv, name, why string }{
		{"internal/cgen", "", "Do", "wuffs-c gen"},
		{"lang/generate", "", "Do", "shared driver: parse, check, generate"},
		{"cmd/wuffs", "", "doGen", "wuffs gen"},
		{"cmd/wuffs", "", "genrelease", "wuffs gen: release assembly"},
		{"cmd/wuffs-c", "", "doGenrelease", "wuffs-c genrelease"},
	} {
		fn := st.findSSAFunc(r.rel, r.recv, r.name)
		if fn == nil {
			c.Undecided(rule, r.rel+"."+r.name, "root of the generation path exists ("+r.why+")", "function not found")
			continue
		}
		roots = append(roots, fn)
		names = append(names, r.rel+"."+r.name)
	}
	return roots, names
}

func (st *c20) genReach(rule string) (map[*ssa.Function]bool, []string) {
	if st.reach != nil {
		return st.reach, st.reachRoots
	}
	reach, names := st.genReach1(rule)
	st.reach, st.reachRoots = reach, names
	return reach, names
}

func (st *c20) genReach1(rule string) (map[*ssa.Function]bool, []string) {
	roots, names := st.genRoots(rule)
	cont := func(f *ssa.Function) bool { return inModule(fnPkgPath(f)) }
	reach := reachFrom(st.cg, roots, cont)
	// Package initialisers of every module package touched run before main.
	pk := map[*ssa.Package]bool{}
	for f := range reach {
		if f.Pkg != nil && inModule(f.Pkg.Pkg.Path()) {
			pk[f.Pkg] = true
		}
	}
	var inits []*ssa.Function
	for p := range pk {
		if in := p.Func("init"); in != nil {
			inits = append(inits, in)
		}
	}
	for f := range reachFrom(st.cg, inits, cont) {
		reach[f] = true
	}
	return reach, names
}

func (st *c20) nondet() {
	c, k := st.c, st.k
	reach, rootNames := st.genReach("N1.roots")
	nmod := 0
	for f := range reach {
		if inModule(fnPkgPath(f)) && len(f.Blocks) > 0 {
			nmod++
		}
	}
	c.Analysed("generation_path_roots", rootNames)
	c.Analysed("generation_path_functions", nmod)
	c.Floor("N1.reach", "module functions reachable from the generation roots (cgen.Do, generate.Do, doGen, genrelease, doGenrelease) and their package initialisers", nmod, 600)

	finds, ninstr := scanNondet(st.cg, reach, inModule)
	claim := "no function on the generation path calls or references a clock, random source, pid/host/environment reader, or starts a goroutine / selects: generated bytes are a function of the ordered input files only"
	nbad := 0
	for _, f := range finds {
		rel := strings.TrimPrefix(fnPkgPath(f.fn), core.Mod+"/")
		fname := strings.ReplaceAll(f.fn.String(), core.Mod+"/", "")
		if why, ok := c20NondetExceptions[[2]string{rel, f.what}]; ok {
			c.Pass("N1.exception", rel+"["+f.what+"]", "frozen exception: "+why, 1, k.g.Pos(f.pos)+": "+fname)
			continue
		}
		nbad++
		c.Fail("N1.forbidden", fname+"["+f.what+"]", claim, 1,
			fmt.Sprintf("%s: %s uses %s (%s); it is reachable from %v, so the generated output may differ between runs or machines", k.g.Pos(f.pos), fname, f.what, f.why, rootNames))
	}
	if nbad == 0 {
		c.Pass("N1.forbidden", "generation path", claim, ninstr, fmt.Sprintf("%d SSA instructions of %d functions examined; %d frozen exception site(s)", ninstr, nmod, len(finds)))
	}
	st.nondetControl()
}

// ======================= N2: sub-processes =======================

func (st *c20) subprocess() {
	c, k := st.c, st.k
	reach, _ := st.genReach("N2.roots")
	reachObj := map[types.Object]bool{}
	for f := range reach {
		g := f
		for g.Parent() != nil {
			g = g.Parent()
		}
		if o := g.Object(); o != nil {
			reachObj[o] = true
		}
	}
	spawn := map[string]bool{"os/exec.Command": true, "os/exec.CommandContext": true, "os.StartProcess": true, "syscall.Exec": true, "syscall.ForkExec": true, "syscall.StartProcess": true}
	nsites, nbackend, ngit := 0, 0, 0
	for _, p := range k.g.ModulePkgs() {
		for _, f := range k.g.AllFuncs(p) {
			if f.Obj == nil || !reachObj[f.Obj] {
				continue
			}
			var fl *core.Flow
			ast.Inspect(f.Decl.Body, func(n ast.Node) bool {
				call, ok := n.(*ast.CallExpr)
				if !ok {
					return true
				}
				fn := core.Callee(p.TypesInfo, call)
				if fn == nil || !spawn[fn.FullName()] {
					return true
				}
				nsites++
				if fl == nil {
					fl = k.flow("N2", strings.TrimPrefix(p.PkgPath, core.Mod+"/"), strings.TrimPrefix(recvNameOf(f.Decl), "*"), f.Decl.Name.Name)
				}
				anchor := f.Name() + "[" + core.Src(k.g.Fset, call.Fun) + "]"
				if fn.FullName() != "os/exec.Command" || len(call.Args) == 0 || fl == nil {
					c.Fail("N2.spawn", anchor, "sub-processes on the generation path are only the language back end and git", 1, k.g.Pos(call.Pos())+": "+core.Src(k.g.Fset, call))
					return true
				}
				name := call.Args[0]
				// "wuffs-" + lang  (possibly through a local variable)
				isBackend := fl.Denotes(func(e ast.Expr) bool {
					b, ok := ast.Unparen(e).(*ast.BinaryExpr)
					if !ok || b.Op != token.ADD {
						return false
					}
					v := core.ConstVal(p.TypesInfo, b.X)
					return v != nil && v.ExactString() == `"wuffs-"`
				})(name)
				cv := core.ConstVal(p.TypesInfo, name)
				switch {
				case isBackend:
					nbackend++
					c.Pass("N2.backend", anchor, "the sub-process is the language back end `wuffs-<lang>` (for C: cmd/wuffs-c, itself analysed by M1/N1)", 1, k.g.Pos(call.Pos()))
				case cv != nil && cv.ExactString() == `"git"`:
					ngit++
					st.gitUnderUTC(fl, p, call, anchor)
				default:
					c.Fail("N2.spawn", anchor, "sub-processes on the generation path are only the language back end and git", 1,
						k.g.Pos(call.Pos())+": runs "+core.Src(k.g.Fset, name)+": its output would flow into generated files")
				}
				return true
			})
		}
	}
	c.Floor("N2", "process-spawning call sites on the generation path (genDir, genreleaseLang, genlibAffected: back end; runGitCommand: git)", nsites, 4)
	if ngit == 0 {
		c.Undecided("N2.git", "cmd/wuffs.runGitCommand", "the git call for version metadata exists and runs under TZ=UTC", "no exec.Command(\"git\", …) found on the generation path")
	}
	_ = nbackend
}

func recvNameOf(d *ast.FuncDecl) string {
	if d.Recv == nil || len(d.Recv.List) == 0 {
		return ""
	}
	t := d.Recv.List[0].Type
	if s, ok := t.(*ast.StarExpr); ok {
		t = s.X
	}
	if id, ok := t.(*ast.Ident); ok {
		return id.Name
	}
	return ""
}

// gitUnderUTC: every path from exec.Command("git", …) to running it assigns
// cmd.Env a literal list of constants containing "TZ=UTC" (so the commit date
// is not formatted in the invoking user's time zone and nothing else of the
// environment is inherited), and the helper is called only from genrelease.
func (st *c20) gitUnderUTC(fl *core.Flow, p *packages.Package, call *ast.CallExpr, anchor string) {
	c, k := st.c, st.k
	info := p.TypesInfo
	isThis := func(x *ast.CallExpr) bool { return x == call }
	cmdVars := fl.VarsDenoting(func(e ast.Expr) bool { return ast.Unparen(e) == ast.Expr(call) })
	cmdP := anyOf(fl, cmdVars)
	runs := func(x *ast.CallExpr) bool {
		fn := core.Callee(info, x)
		if fn == nil || fn.Pkg() == nil || fn.Pkg().Path() != "os/exec" {
			return false
		}
		switch fn.Name() {
		case "Output", "CombinedOutput", "Run", "Start":
			r := core.RecvOf(x)
			return r != nil && cmdP(r)
		}
		return false
	}
	setsEnv := func(n ast.Node) bool {
		as, ok := n.(*ast.AssignStmt)
		if !ok || as.Tok != token.ASSIGN || len(as.Lhs) != len(as.Rhs) {
			return false
		}
		for i, l := range as.Lhs {
			sel, ok := ast.Unparen(l).(*ast.SelectorExpr)
			if !ok || !cmdP(sel.X) {
				continue
			}
			fld, ok := info.Uses[sel.Sel].(*types.Var)
			if !ok || !fld.IsField() || fld.Name() != "Env" || fld.Pkg() == nil || fld.Pkg().Path() != "os/exec" {
				continue
			}
			lit, ok := ast.Unparen(as.Rhs[i]).(*ast.CompositeLit)
			if !ok {
				continue
			}
			hasTZ, allConst := false, true
			for _, el := range lit.Elts {
				v := core.ConstVal(info, el)
				if v == nil {
					allConst = false
					continue
				}
				if v.ExactString() == `"TZ=UTC"` {
					hasTZ = true
				}
			}
			if hasTZ && allConst {
				return true
			}
		}
		return false
	}
	k.mustPass("N2.git", anchor,
		"git (revision, commit date, commit count for three version-metadata lines) runs with cmd.Env = a constant list containing \"TZ=UTC\": the `--date=format-local` commit date does not depend on the invoking user's time zone or environment",
		fl, core.Query{
			Start:  func(n ast.Node) bool { return core.Guaranteed(n, isThis) },
			Events: []core.Event{{Node: setsEnv}},
			Exit:   func(n ast.Node) bool { return core.Guaranteed(n, runs) },
		})
	// Callers.
	var callers []string
	if fn := st.prog.FuncValue(fl.F.Obj); fn != nil {
		if n := st.cg.Nodes[fn]; n != nil {
			seen := map[string]bool{}
			for _, e := range n.In {
				nm := strings.ReplaceAll(e.Caller.Func.String(), core.Mod+"/", "")
				if !seen[nm] {
					seen[nm] = true
					callers = append(callers, nm)
				}
			}
		}
	}
	sort.Strings(callers)
	okCallers := len(callers) > 0
	for _, cl := range callers {
		if cl != "cmd/wuffs.genrelease" {
			okCallers = false
		}
	}
	c.Check(okCallers, "N2.git.callers", fl.F.Name(), "the git helper is called only from cmd/wuffs.genrelease (version metadata of the release file; empty in a tree without .git)", len(callers), fmt.Sprintf("callers: %v", callers))
}

// ======================= S1: sorted enumeration =======================

var c20Enumerators = map[string]bool{
	"(*os.File).Readdir": true, "(*os.File).Readdirnames": true, "(*os.File).ReadDir": true,
}

type s1Func struct {
	f      *core.Func
	p      *packages.Package
	reason string
}

func (st *c20) sortedEnum() {
	c, k := st.c, st.k
	type fkey = *types.Func
	decls := map[fkey]*core.Func{}
	var allFuncs []*core.Func
	for _, p := range k.g.ModulePkgs() {
		for _, f := range k.g.AllFuncs(p) {
			if f.Obj != nil {
				decls[f.Obj] = f
				allFuncs = append(allFuncs, f)
			}
		}
	}
	envs := map[*packages.Package]*moEnv{}
	envOf := func(p *packages.Package) *moEnv {
		if e, ok := envs[p]; ok {
			return e
		}
		e := &moEnv{prog: k.g, pkg: p, fx: st.fxIO, flows: map[ast.Node]*core.Flow{}, result: map[*moLoop]*moResult{}, byX: map[ast.Expr]*moLoop{}}
		envs[p] = e
		return e
	}
	contained := func(f *core.Func) []string {
		fn := st.prog.FuncValue(f.Obj)
		if fn == nil {
			return []string{"no SSA function"}
		}
		eff, _ := st.fxIO.effectsFrom([]*ssa.Function{fn}, 4)
		return eff
	}

	// T: functions through which an unsorted listing may flow. Seed: direct callers of an enumerator.
	T := map[fkey]string{}
	var order []fkey
	nsrc := 0
	for _, f := range allFuncs {
		ast.Inspect(f.Decl.Body, func(n ast.Node) bool {
			call, ok := n.(*ast.CallExpr)
			if !ok {
				return true
			}
			fn := core.Callee(f.Info(), call)
			if fn != nil && c20Enumerators[fn.FullName()] {
				nsrc++
				if _, has := T[f.Obj]; !has {
					T[f.Obj] = fmt.Sprintf("calls %s at %s", fn.FullName(), k.g.Pos(call.Pos()))
					order = append(order, f.Obj)
				}
			}
			return true
		})
	}
	if nsrc == 0 {
		c.Undecided("S1.sources", "cmd/wuffs.appendDir", "the directory enumeration (*os.File).Readdir exists", "no call of Readdir/Readdirnames/ReadDir in the module: the anchor of this rule has moved (os.ReadDir and filepath.Walk return sorted names and are not sources)")
		return
	}
	for _, o := range order {
		f := decls[o]
		if eff := contained(f); len(eff) > 0 {
			c.Fail("S1.contained", f.Name(), "a function that reads a directory in file-system order has no effect other than returning the names (so the order cannot leak before its callers sort)", len(eff),
				fmt.Sprintf("%s: %s reads a directory unsorted and also: %s", k.g.Pos(f.Decl.Pos()), f.Name(), strings.Join(eff, "; ")))
		}
	}
	nSorted := 0
	for i := 0; i < len(order); i++ {
		U := order[i]
		for _, K := range allFuncs {
			if _, inT := T[K.Obj]; inT {
				continue
			}
			env := envOf(K.Pkg)
			var sites []*ast.CallExpr
			ast.Inspect(K.Decl.Body, func(n ast.Node) bool {
				if call, ok := n.(*ast.CallExpr); ok && core.IsCallTo(K.Info(), call, U) {
					sites = append(sites, call)
				}
				return true
			})
			if len(sites) == 0 {
				continue
			}
			var escapesMsg []string
			type okb struct {
				anchor string
				sites  int
				pos    token.Pos
			}
			var okBindings []okb
			for _, call := range sites {
				bind := bindingOf(K.Decl.Body, call)
				if bind == nil {
					escapesMsg = append(escapesMsg, fmt.Sprintf("%s: the results of %s are used directly in an expression", k.g.Pos(call.Pos()), core.Src(k.g.Fset, call.Fun)))
					continue
				}
				fl := env.flowFor(K.Decl)
				for i, l := range bind {
					if l == nil {
						continue
					}
					lv := env.lvalOf(l)
					if !lv.ok() {
						continue
					}
					if isErrorIface(lv.root.Type()) {
						continue
					}
					if _, isSlice := lv.root.Type().Underlying().(*types.Slice); !isSlice {
						if _, isBool := lv.root.Type().Underlying().(*types.Basic); isBool {
							// a scalar derived from an unsorted listing cannot be sorted: treat as a use
						}
					}
					theCall := call
					msg, n := env.sortedBefore(fl,
						func(n ast.Node) bool {
							return core.Guaranteed(n, func(x *ast.CallExpr) bool { return x == theCall })
						},
						lv, nil, env.outlives(K.Decl, lv), nil)
					anchor := fmt.Sprintf("%s[%s from %s]", K.Name(), lv, decls[U].Name())
					if msg == "" {
						okBindings = append(okBindings, okb{anchor, n, call.Pos()})
					} else {
						escapesMsg = append(escapesMsg, fmt.Sprintf("result #%d %s of %s: %s", i, lv, decls[U].Name(), msg))
					}
				}
			}
			if len(escapesMsg) == 0 {
				for _, b := range okBindings {
					nSorted++
					c.Pass("S1.sorted", b.anchor, "names obtained in file-system order are sorted (sort.Strings or an equivalent total order) on every path before any other use or successful return", b.sites, k.g.Pos(b.pos))
				}
				continue
			}
			// K passes the listing on unsorted: acceptable only if K itself has no other effect; then its callers are examined.
			if eff := contained(K); len(eff) == 0 {
				T[K.Obj] = fmt.Sprintf("passes on the unsorted results of %s (%s)", decls[U].Name(), escapesMsg[0])
				order = append(order, K.Obj)
				continue
			} else {
				c.Fail("S1.unsorted", K.Name()+"["+decls[U].Name()+"]",
					"names obtained in file-system order are sorted on every path before any use outside the side-effect-free collecting helpers", len(escapesMsg),
					fmt.Sprintf("%s: %s receives a directory listing in file-system order from %s (%s) and uses it unsorted:\n%s\n%s is not a pure collecting helper (%s), so the order reaches the generated output",
						k.g.Pos(K.Decl.Pos()), K.Name(), decls[U].Name(), T[U], strings.Join(escapesMsg, "\n"), K.Name(), strings.Join(eff, "; ")))
			}
		}
	}
	var names []string
	for _, o := range order {
		names = append(names, decls[o].Name()+": "+T[o])
	}
	c.Analysed("unsorted_listing_helpers", names)
	c.Floor("S1.sources", "calls of (*os.File).Readdir / Readdirnames / ReadDir in the module (cmd/wuffs.appendDir)", nsrc, 1)
	c.Floor("S1.helpers", "side-effect-free helpers that hand on an unsorted listing (appendDir, findFiles1)", len(order), 2)
	c.Floor("S1.sorted", "result bindings that are sorted before use (listDir ×2, findFiles ×1)", nSorted, 3)
	// Every reference to a helper must be one of the static call sites examined above.
	for _, o := range order {
		fn := st.prog.FuncValue(o)
		if fn == nil {
			continue
		}
		for _, f := range allFuncs {
			sf := st.prog.FuncValue(f.Obj)
			if sf == nil {
				continue
			}
			fns := append([]*ssa.Function{sf}, sf.AnonFuncs...)
			for _, g := range fns {
				for _, b := range g.Blocks {
					for _, ins := range b.Instrs {
						var ops []*ssa.Value
						for _, op := range ins.Operands(ops) {
							if op == nil || *op != ssa.Value(fn) {
								continue
							}
							if ci, ok := ins.(ssa.CallInstruction); ok && ci.Common().StaticCallee() == fn {
								continue
							}
							c.Undecided("S1.helpers", decls[o].Name(), "an unsorted-listing helper is only called directly", k.g.Pos(ins.Pos())+": used as a function value in "+f.Name())
						}
					}
				}
			}
		}
	}
}

// bindingOf returns the left-hand sides that receive the results of call
// (nil entries for blank), or nil if the call is not the sole right-hand side
// of an assignment/definition. A bare expression statement returns an empty,
// non-nil slice.
func bindingOf(body *ast.BlockStmt, call *ast.CallExpr) []ast.Expr {
	var out []ast.Expr
	found := false
	ast.Inspect(body, func(n ast.Node) bool {
		if found {
			return false
		}
		switch s := n.(type) {
		case *ast.AssignStmt:
			if len(s.Rhs) == 1 && ast.Unparen(s.Rhs[0]) == ast.Expr(call) {
				found = true
				out = []ast.Expr{}
				for _, l := range s.Lhs {
					if id, ok := l.(*ast.Ident); ok && id.Name == "_" {
						out = append(out, nil)
					} else {
						out = append(out, l)
					}
				}
			}
		case *ast.ValueSpec:
			if len(s.Values) == 1 && ast.Unparen(s.Values[0]) == ast.Expr(call) {
				found = true
				out = []ast.Expr{}
				for _, id := range s.Names {
					if id.Name == "_" {
						out = append(out, nil)
					} else {
						out = append(out, id)
					}
				}
			}
		case *ast.ExprStmt:
			if ast.Unparen(s.X) == ast.Expr(call) {
				found = true
				out = []ast.Expr{}
			}
		}
		return true
	})
	if !found {
		return nil
	}
	return out
}

// ======================= S1.includes / S1.toposort =======================

func (st *c20) includesAndToposort() {
	c, k := st.c, st.k
	// genIncludes: the use list is sorted between the collecting loop and the emitting loop.
	if f := k.g.FindFunc("internal/cgen", "gen", "genIncludes"); f == nil {
		c.Undecided("S1.includes", "internal/cgen.(*gen).genIncludes", "anchor function exists", "not found")
	} else {
		env := &moEnv{prog: k.g, pkg: f.Pkg, fx: st.fx, flows: map[ast.Node]*core.Flow{}, result: map[*moLoop]*moResult{}, byX: map[ast.Expr]*moLoop{}}
		fl := env.flowFor(f.Decl)
		// Local slices that are appended to inside a loop and ranged over later.
		type coll struct {
			lv   lval
			loop ast.Stmt
		}
		var colls []coll
		var loops []ast.Stmt
		var walk func(n ast.Node)
		walk = func(n ast.Node) {
			ast.Inspect(n, func(m ast.Node) bool {
				switch s := m.(type) {
				case *ast.FuncLit:
					return false
				case *ast.RangeStmt:
					loops = append(loops, s)
					walk(s.Body)
					loops = loops[:len(loops)-1]
					return false
				case *ast.ForStmt:
					loops = append(loops, s)
					walk(s.Body)
					loops = loops[:len(loops)-1]
					return false
				case *ast.AssignStmt:
					if len(loops) == 0 || len(s.Lhs) != 1 || len(s.Rhs) != 1 {
						return true
					}
					call, ok := ast.Unparen(s.Rhs[0]).(*ast.CallExpr)
					if !ok || len(call.Args) == 0 {
						return true
					}
					id, ok := ast.Unparen(call.Fun).(*ast.Ident)
					if !ok {
						return true
					}
					if b, ok := f.Info().Uses[id].(*types.Builtin); !ok || b.Name() != "append" {
						return true
					}
					lv := env.lvalOf(s.Lhs[0])
					if lv.ok() && len(lv.path) == 0 && sameLval(lv, env.lvalOf(call.Args[0])) && lv.root.Pos() > f.Decl.Body.Pos() && lv.root.Pos() < loops[0].Pos() {
						colls = append(colls, coll{lv, loops[0]})
					}
				}
				return true
			})
		}
		walk(f.Decl.Body)
		n := 0
		for _, cl := range colls {
			// … and ranged over after the collecting loop.
			emitted := false
			ast.Inspect(f.Decl.Body, func(m ast.Node) bool {
				if rs, ok := m.(*ast.RangeStmt); ok && rs.Pos() > cl.loop.End() && sameLval(env.lvalOf(rs.X), cl.lv) {
					emitted = true
				}
				return true
			})
			if !emitted {
				continue
			}
			n++
			loop := cl.loop
			var startNode ast.Node
			switch s := loop.(type) {
			case *ast.RangeStmt:
				startNode = s.X
			case *ast.ForStmt:
				startNode = s.Cond
			}
			msg, sites := env.sortedBefore(fl,
				func(x ast.Node) bool { return x == startNode },
				cl.lv,
				func(x ast.Node) bool { return x.Pos() >= loop.Pos() && x.End() <= loop.End() },
				false, nil)
			anchor := f.Name() + "[" + cl.lv.String() + "]"
			claim := "the list of used packages collected from the `use` declarations is sorted before the #include lines are emitted from it (canonical order, independent of declaration order across files)"
			if msg == "" {
				c.Pass("S1.includes", anchor, claim, sites, k.g.Pos(loop.Pos()))
			} else {
				c.Fail("S1.includes", anchor, claim, sites, fmt.Sprintf("%s: %s is collected in a loop and %s", k.g.Pos(loop.Pos()), cl.lv, msg))
			}
		}
		if n == 0 {
			c.Undecided("S1.includes", f.Name(), "a slice collected in a loop and emitted by a later loop exists (usesList)", "idiom not found: no local slice is appended to in one loop and ranged over in a later one")
		}
	}

	// TopologicalSortStructs / tssVisit.
	var fs []*core.Func
	for _, name := range []string{"TopologicalSortStructs", "tssVisit"} {
		f := k.g.FindFunc("lang/ast", "", name)
		if f == nil {
			c.Undecided("S1.toposort", "lang/ast."+name, "anchor function exists", "not found")
			continue
		}
		fs = append(fs, f)
	}
	if len(fs) != 2 {
		return
	}
	inSet := func(fn *types.Func) bool { return fn != nil && (fn == fs[0].Obj || fn == fs[1].Obj) }
	nRanges, nMapVars, nMentions, nParamRange := 0, 0, 0, 0
	var bad []string
	for _, f := range fs {
		info := f.Info()
		param0 := types.Object(nil)
		if f == fs[0] && len(f.Decl.Type.Params.List) > 0 && len(f.Decl.Type.Params.List[0].Names) > 0 {
			param0 = info.Defs[f.Decl.Type.Params.List[0].Names[0]]
		}
		mapVars := map[types.Object]bool{}
		ast.Inspect(f.Decl, func(m ast.Node) bool {
			if id, ok := m.(*ast.Ident); ok {
				if v, ok := info.Defs[id].(*types.Var); ok {
					if _, isMap := v.Type().Underlying().(*types.Map); isMap {
						mapVars[v] = true
					}
				}
			}
			return true
		})
		nMapVars += len(mapVars)
		// Allowed positions of a map variable: X of an index expression; argument of a call within the set.
		allowed := map[*ast.Ident]bool{}
		ast.Inspect(f.Decl.Body, func(m ast.Node) bool {
			switch x := m.(type) {
			case *ast.RangeStmt:
				nRanges++
				t := info.TypeOf(x.X)
				switch t.Underlying().(type) {
				case *types.Slice, *types.Array:
				default:
					bad = append(bad, fmt.Sprintf("%s: %s ranges over %s of type %s: the visiting order is no longer the slice order of the input", k.g.Pos(x.Pos()), f.Name(), core.Src(k.g.Fset, x.X), t))
				}
				if id, ok := ast.Unparen(x.X).(*ast.Ident); ok && param0 != nil && info.Uses[id] == param0 {
					nParamRange++
				}
			case *ast.IndexExpr:
				if id, ok := ast.Unparen(x.X).(*ast.Ident); ok {
					allowed[id] = true
				}
			case *ast.CallExpr:
				if inSet(core.Callee(info, x)) {
					for _, a := range x.Args {
						if id, ok := ast.Unparen(a).(*ast.Ident); ok {
							allowed[id] = true
						}
					}
				}
			}
			return true
		})
		ast.Inspect(f.Decl.Body, func(m ast.Node) bool {
			id, ok := m.(*ast.Ident)
			if !ok {
				return true
			}
			o := info.Uses[id]
			if o == nil || !mapVars[o] {
				return true
			}
			nMentions++
			if !allowed[id] {
				bad = append(bad, fmt.Sprintf("%s: %s uses its map %s other than for lookup by key (m[k], m[k] = v) or passing it to the visitor", k.g.Pos(id.Pos()), f.Name(), id.Name))
			}
			return true
		})
	}
	claim := "TopologicalSortStructs visits its input in slice order (ranges only over slices, starting from its parameter) and uses its maps for lookup only: the order of generated struct definitions is a function of the declaration order"
	anchor := "lang/ast.TopologicalSortStructs+tssVisit"
	if nParamRange == 0 {
		bad = append(bad, "no range over the input parameter in TopologicalSortStructs")
	}
	c.Check(len(bad) == 0, "S1.toposort", anchor, claim, nRanges+nMentions, strings.Join(bad, "\n"))
	c.Floor("S1.toposort", "range statements (≥3) and map-variable mentions (≥6) examined in TopologicalSortStructs/tssVisit", nRanges+nMentions, 9)
	_ = nMapVars
}
