package main

// N — possibly-nil children of AST nodes built by the parser.
//
// lang/ast stores the children of a node in three pointer slots (lhs, mhs,
// rhs) shared by all node kinds (`type Expr Node`, `type Assign Node`, …) and
// exposes them through accessors (`(*Assign).LHS()`, `(*TypeExpr).Inner()`).
// Some children are optional: the parser leaves the slot nil (the LHS of an
// expression statement, the inner type of an undecorated type, …).
//
//	N.table    the set of accessors whose slot the parser can leave nil is
//	           DERIVED from the constructor calls in lang/parse and lang/ast
//	           (which argument of which New… call can be nil, by a may-be-nil
//	           classification of the argument expressions with function
//	           summaries) and must be covered by the explicit table below;
//	N.implied  each implication "discriminator non-zero ⇒ child present" the
//	           use rule relies on is verified from the same constructor calls;
//	N.lhs      in lang/parse every dereferencing method call on the result of a
//	           table accessor is dominated by a nil test of that value (or by a
//	           verified implication), decided by a forward dataflow on go/cfg.

import (
	"fmt"
	"go/ast"
	"go/token"
	"go/types"
	"os"
	"sort"
	"strings"

	"golang.org/x/tools/go/packages"

	"wv/core"
)

// c11NilTable: "Type.Accessor" -> the parser construct that leaves the child nil.
// Every row was read; N.table fails (undecided) when the derivation finds an
// accessor that is not listed here.
var c11NilTable = map[string]string{
	"Assign.LHS":              "an expression statement (`f()`, and `x` in `iterate (x)(…)`): parseAssignNode initialises lhs to nil and sets it only when an assignment operator follows; NewAssign(IDEq, nil, rhs)",
	"Expr.LHS":                "identifiers, literals, unary operators, lists and associative operators: NewExpr(…, nil, nil, …)",
	"Expr.MHS":                "everything but `x[i .. j]`; and `x[.. j]` (parseBracket returns a nil low bound)",
	"Expr.RHS":                "identifiers, literals, calls, selectors; and `x[i ..]` (parseBracket returns a nil high bound)",
	"TypeExpr.ArrayLength":    "every type that is not an array: NewTypeExpr(…, nil, …) / the nil-initialised arrayLength of slice and table decorators",
	"TypeExpr.Receiver":       "shares the lhs slot with ArrayLength / Min; nil for every type the parser builds that is not `func (T).name`",
	"TypeExpr.Min":            "unrefined types and `T[..= max]`: parseTypeExpr's lhs stays nil",
	"TypeExpr.Max":            "unrefined types and `T[min ..=]`: parseTypeExpr's mhs stays nil",
	"TypeExpr.Inner":          "undecorated types (`base.u32`, `foo`): NewTypeExpr(0, pkg, name, …, nil)",
	"If.ElseIf":               "an `if` without `else if`: parseIf's elseIf stays nil",
	"Iterate.ElseIterate":     "NewIterate does not set rhs; only a following `else iterate` calls SetElseIterate",
	"IOManip.Arg1":            "`io_forget_history (io: x)` has no second argument",
	"IOManip.HistoryPosition": "`io_limit` and `io_forget_history` have no third argument",
	"Func.Out":                "a function without a return type: parseTopLevelDecl's out stays nil",
}

// c11NilImplied: the child of `acc` is present whenever `disc` is non-zero.
var c11NilImplied = []struct{ typ, acc, disc, why string }{
	{"TypeExpr", "Inner", "Decorator", "every decorated type (ptr, nptr, array, slice, table, …) is built with its inner type: parseTypeExpr passes the checked result of a recursive parseTypeExpr"},
}

type c11Acc struct {
	typ   *types.TypeName
	field *types.Var
}

type c11Lit struct {
	f    *core.Func
	typ  *types.TypeName
	pos  token.Pos
	elts map[*types.Var]ast.Expr
	bad  string
}

type c11FieldWrite struct {
	f     *core.Func
	typ   *types.TypeName
	field *types.Var
	rhs   ast.Expr
	stmt  *ast.AssignStmt
}

type c11SumKey struct {
	fn  *types.Func
	idx int // result index; for parameters: index, -1 = receiver
}

type c11SlotKey struct {
	typ   *types.TypeName
	field *types.Var
}

type c11Ast struct {
	g        *core.GoProg
	pAst     *packages.Package
	pParse   *packages.Package
	node     *types.TypeName
	family   map[*types.TypeName]bool
	slots    map[*types.Var]bool
	ids      map[*types.Var]bool
	casts    map[*types.Func]bool
	acc      map[*types.Func]c11Acc     // child accessors
	disc     map[*types.Func]*types.Var // discriminator accessors (return an id field)
	mutators map[*types.Func]bool
	funcs    map[*types.Func]*core.Func
	order    []*core.Func
	flows    map[*core.Func]*core.Flow
	lits     []c11Lit
	writes   []c11FieldWrite
	defs     map[*core.Func]map[*types.Var][]c11Def

	sum    map[c11SumKey]bool
	par    map[c11SumKey]bool
	slot   map[c11SlotKey]bool
	why    map[c11SlotKey]string
	valued map[*types.Func]bool // functions referenced other than as a callee
}

type c11Def struct {
	rhs  ast.Expr
	idx  int  // >= 0: result idx of a multi-value call
	zero bool // declared without a value
	elem bool // range variable
}

func (A *c11Ast) famOf(t types.Type) *types.TypeName {
	if p, ok := t.(*types.Pointer); ok {
		t = p.Elem()
	}
	if n, ok := t.(*types.Named); ok && A.family[n.Obj()] {
		return n.Obj()
	}
	return nil
}

func (A *c11Ast) isFamPtr(t types.Type) bool {
	p, ok := t.(*types.Pointer)
	return ok && A.famOf(p.Elem()) != nil
}

// strip removes parentheses, nil-transparent casts (x.AsNode(), x.AsExpr(), …)
// and pointer conversions between node types.
func (A *c11Ast) strip(info *types.Info, e ast.Expr) ast.Expr {
	for {
		e = ast.Unparen(e)
		call, ok := e.(*ast.CallExpr)
		if !ok {
			return e
		}
		if tv, ok := info.Types[call.Fun]; ok && tv.IsType() && len(call.Args) == 1 && A.isFamPtr(tv.Type) {
			e = call.Args[0]
			continue
		}
		if fn := core.Callee(info, call); fn != nil && A.casts[fn] {
			if sel, ok := ast.Unparen(call.Fun).(*ast.SelectorExpr); ok {
				e = sel.X
				continue
			}
		}
		return e
	}
}

func newC11Ast(g *core.GoProg, pAst, pParse *packages.Package) *c11Ast {
	A := &c11Ast{g: g, family: map[*types.TypeName]bool{}, slots: map[*types.Var]bool{}, ids: map[*types.Var]bool{},
		casts: map[*types.Func]bool{}, acc: map[*types.Func]c11Acc{}, disc: map[*types.Func]*types.Var{}, mutators: map[*types.Func]bool{},
		funcs: map[*types.Func]*core.Func{}, flows: map[*core.Func]*core.Flow{}, defs: map[*core.Func]map[*types.Var][]c11Def{},
		sum: map[c11SumKey]bool{}, par: map[c11SumKey]bool{}, slot: map[c11SlotKey]bool{}, why: map[c11SlotKey]string{}, valued: map[*types.Func]bool{}}
	A.pAst, A.pParse = pAst, pParse
	if A.pAst == nil || A.pParse == nil {
		return nil
	}
	A.node, _ = A.pAst.Types.Scope().Lookup("Node").(*types.TypeName)
	if A.node == nil {
		return nil
	}
	st, ok := A.node.Type().Underlying().(*types.Struct)
	if !ok {
		return nil
	}
	for i := 0; i < st.NumFields(); i++ {
		f := st.Field(i)
		if p, ok := f.Type().(*types.Pointer); ok {
			if n, ok := p.Elem().(*types.Named); ok && n.Obj() == A.node {
				A.slots[f] = true
			}
		}
		if n, ok := f.Type().(*types.Named); ok && n.Obj().Name() == "ID" {
			if b, ok := n.Underlying().(*types.Basic); ok && b.Info()&types.IsInteger != 0 {
				A.ids[f] = true
			}
		}
	}
	for _, name := range A.pAst.Types.Scope().Names() {
		if tn, ok := A.pAst.Types.Scope().Lookup(name).(*types.TypeName); ok && !tn.IsAlias() {
			if types.Identical(tn.Type().Underlying(), st) {
				A.family[tn] = true
			}
		}
	}
	for _, p := range []*packages.Package{A.pAst, A.pParse} {
		for _, f := range g.AllFuncs(p) {
			if _, dup := A.funcs[f.Obj]; f.Obj != nil && !dup {
				A.funcs[f.Obj] = f
				A.order = append(A.order, f)
			}
		}
	}
	sort.Slice(A.order, func(i, j int) bool { return A.order[i].Name() < A.order[j].Name() })
	// casts, accessors, discriminators (single-return bodies of methods on *X)
	recvOf := func(f *core.Func) (*types.Var, *types.TypeName) {
		if f.Decl.Recv == nil || len(f.Decl.Recv.List) != 1 || len(f.Decl.Recv.List[0].Names) != 1 {
			return nil, nil
		}
		v, _ := f.Info().Defs[f.Decl.Recv.List[0].Names[0]].(*types.Var)
		if v == nil || !A.isFamPtr(v.Type()) {
			return nil, nil
		}
		return v, A.famOf(v.Type())
	}
	single := func(f *core.Func) ast.Expr {
		if len(f.Decl.Body.List) != 1 {
			return nil
		}
		r, ok := f.Decl.Body.List[0].(*ast.ReturnStmt)
		if !ok || len(r.Results) != 1 {
			return nil
		}
		return r.Results[0]
	}
	for _, f := range g.AllFuncs(A.pAst) {
		rv, _ := recvOf(f)
		res := single(f)
		if rv == nil || res == nil || f.Obj == nil {
			continue
		}
		info := f.Info()
		if call, ok := ast.Unparen(res).(*ast.CallExpr); ok && len(call.Args) == 1 {
			if tv, ok := info.Types[call.Fun]; ok && tv.IsType() && A.isFamPtr(tv.Type) {
				if id, ok := ast.Unparen(call.Args[0]).(*ast.Ident); ok && info.Uses[id] == rv {
					A.casts[f.Obj] = true
				}
			}
		}
	}
	for _, f := range g.AllFuncs(A.pAst) {
		rv, tn := recvOf(f)
		res := single(f)
		if rv == nil || res == nil || f.Obj == nil || A.casts[f.Obj] || f.Decl.Type.Params.NumFields() != 0 {
			continue
		}
		info := f.Info()
		sel, ok := A.strip(info, res).(*ast.SelectorExpr)
		if !ok {
			continue
		}
		id, ok := ast.Unparen(sel.X).(*ast.Ident)
		if !ok || info.Uses[id] != rv {
			continue
		}
		fld, _ := info.Uses[sel.Sel].(*types.Var)
		switch {
		case fld != nil && A.slots[fld]:
			A.acc[f.Obj] = c11Acc{tn, fld}
		case fld != nil && A.ids[fld] && ast.Unparen(res) == ast.Expr(sel):
			A.disc[f.Obj] = fld
		}
	}
	// composite literals, field writes, mutators
	for _, f := range A.order {
		f := f
		info := f.Info()
		ast.Inspect(f.Decl.Body, func(n ast.Node) bool {
			switch v := n.(type) {
			case *ast.CompositeLit:
				tv, ok := info.Types[v]
				if !ok {
					return true
				}
				tn := A.famOf(tv.Type)
				if tn == nil {
					return true
				}
				lit := c11Lit{f: f, typ: tn, pos: v.Pos(), elts: map[*types.Var]ast.Expr{}}
				for _, el := range v.Elts {
					kv, ok := el.(*ast.KeyValueExpr)
					if !ok {
						lit.bad = "positional composite literal"
						continue
					}
					if id, ok := kv.Key.(*ast.Ident); ok {
						if fld, ok := info.Uses[id].(*types.Var); ok {
							lit.elts[fld] = kv.Value
						}
					}
				}
				A.lits = append(A.lits, lit)
			case *ast.CallExpr:
				if id, ok := ast.Unparen(v.Fun).(*ast.Ident); ok {
					if b, ok := info.Uses[id].(*types.Builtin); ok && b.Name() == "new" && len(v.Args) == 1 {
						if tv, ok := info.Types[v.Args[0]]; ok {
							if tn := A.famOf(tv.Type); tn != nil {
								A.lits = append(A.lits, c11Lit{f: f, typ: tn, pos: v.Pos(), elts: map[*types.Var]ast.Expr{}})
							}
						}
					}
				}
			case *ast.AssignStmt:
				for i, l := range v.Lhs {
					sel, ok := ast.Unparen(l).(*ast.SelectorExpr)
					if !ok {
						continue
					}
					fld, _ := info.Uses[sel.Sel].(*types.Var)
					if fld == nil || (!A.slots[fld] && !A.ids[fld]) {
						continue
					}
					tv, ok := info.Types[sel.X]
					if !ok {
						continue
					}
					tn := A.famOf(tv.Type)
					if tn == nil {
						continue
					}
					var rhs ast.Expr
					if len(v.Lhs) == len(v.Rhs) && v.Tok == token.ASSIGN {
						rhs = v.Rhs[i]
					}
					A.writes = append(A.writes, c11FieldWrite{f, tn, fld, rhs, v})
					if f.Obj != nil && f.Decl.Recv != nil {
						A.mutators[f.Obj] = true
					}
				}
			}
			return true
		})
	}
	// functions used as values (their parameters are then unconstrained)
	for _, f := range A.order {
		info := f.Info()
		callee := map[*ast.Ident]bool{}
		ast.Inspect(f.Decl.Body, func(n ast.Node) bool {
			if call, ok := n.(*ast.CallExpr); ok {
				switch v := ast.Unparen(call.Fun).(type) {
				case *ast.Ident:
					callee[v] = true
				case *ast.SelectorExpr:
					callee[v.Sel] = true
				}
			}
			return true
		})
		ast.Inspect(f.Decl.Body, func(n ast.Node) bool {
			id, ok := n.(*ast.Ident)
			if !ok || callee[id] {
				return true
			}
			if fn, ok := info.Uses[id].(*types.Func); ok {
				if _, mine := A.funcs[fn]; mine {
					A.valued[fn] = true
				}
			}
			return true
		})
	}
	return A
}

func (A *c11Ast) flow(f *core.Func) *core.Flow {
	if fl, ok := A.flows[f]; ok {
		return fl
	}
	fl := core.NewFlow(f)
	A.flows[f] = fl
	return fl
}

func (A *c11Ast) defsOf(f *core.Func) map[*types.Var][]c11Def {
	if d, ok := A.defs[f]; ok {
		return d
	}
	info := f.Info()
	m := map[*types.Var][]c11Def{}
	vr := func(e ast.Expr) *types.Var {
		id, ok := ast.Unparen(e).(*ast.Ident)
		if !ok {
			return nil
		}
		if v, ok := info.Defs[id].(*types.Var); ok {
			return v
		}
		v, _ := info.Uses[id].(*types.Var)
		return v
	}
	if f.Decl.Type.Results != nil {
		for _, fld := range f.Decl.Type.Results.List {
			for _, id := range fld.Names {
				if v, ok := info.Defs[id].(*types.Var); ok {
					m[v] = append(m[v], c11Def{zero: true, idx: -1}) // named results start as the zero value
				}
			}
		}
	}
	ast.Inspect(f.Decl, func(n ast.Node) bool {
		switch s := n.(type) {
		case *ast.AssignStmt:
			for i, l := range s.Lhs {
				v := vr(l)
				if v == nil {
					continue
				}
				switch {
				case len(s.Lhs) == len(s.Rhs):
					m[v] = append(m[v], c11Def{rhs: s.Rhs[i], idx: -1})
				case len(s.Rhs) == 1:
					m[v] = append(m[v], c11Def{rhs: s.Rhs[0], idx: i})
				}
			}
		case *ast.ValueSpec:
			for i, id := range s.Names {
				v, _ := info.Defs[id].(*types.Var)
				if v == nil {
					continue
				}
				switch {
				case len(s.Values) == 0:
					m[v] = append(m[v], c11Def{zero: true, idx: -1})
				case len(s.Values) == len(s.Names):
					m[v] = append(m[v], c11Def{rhs: s.Values[i], idx: -1})
				case len(s.Values) == 1:
					m[v] = append(m[v], c11Def{rhs: s.Values[0], idx: i})
				}
			}
		case *ast.RangeStmt:
			for _, e := range []ast.Expr{s.Key, s.Value} {
				if e != nil {
					if v := vr(e); v != nil {
						m[v] = append(m[v], c11Def{elem: true, idx: -1})
					}
				}
			}
		}
		return true
	})
	A.defs[f] = m
	return m
}

// paramIndex: the position of v among f's parameters (-1 receiver, -2 not a parameter).
func (A *c11Ast) paramIndex(f *core.Func, v *types.Var) int {
	info := f.Info()
	if f.Decl.Recv != nil {
		for _, fld := range f.Decl.Recv.List {
			for _, id := range fld.Names {
				if info.Defs[id] == v {
					return -1
				}
			}
		}
	}
	k := 0
	for _, fld := range f.Decl.Type.Params.List {
		if len(fld.Names) == 0 {
			k++
		}
		for _, id := range fld.Names {
			if info.Defs[id] == v {
				return k
			}
			k++
		}
	}
	return -2
}

// mayNil: can the value of e (in function f) be a nil pointer on a path that
// did not take an error return? Flow-insensitive; conservative (true) for shapes
// it does not know.
func (A *c11Ast) mayNil(f *core.Func, e ast.Expr, visiting map[*types.Var]bool) bool {
	info := f.Info()
	e = A.strip(info, e)
	switch x := e.(type) {
	case *ast.Ident:
		if core.IsNilIdent(info, x) {
			return true
		}
		v, _ := info.Uses[x].(*types.Var)
		if v == nil {
			v, _ = info.Defs[x].(*types.Var)
		}
		if v == nil {
			return false // a function, constant, type
		}
		if v.IsField() || v.Pkg() == nil || v.Parent() == v.Pkg().Scope() {
			return true
		}
		if pi := A.paramIndex(f, v); pi != -2 {
			if f.Obj == nil || A.valued[f.Obj] {
				return true
			}
			return A.par[c11SumKey{f.Obj, pi}]
		}
		if visiting[v] {
			return false
		}
		visiting[v] = true
		defer delete(visiting, v)
		defs := A.defsOf(f)[v]
		if len(defs) == 0 {
			return true
		}
		for _, d := range defs {
			switch {
			case d.zero:
				return true
			case d.elem:
				// elements of node lists are never nil (every list is filled from checked parse results)
			case d.idx >= 0:
				call, ok := ast.Unparen(d.rhs).(*ast.CallExpr)
				if !ok || A.mayNilCall(f, call, d.idx) {
					return true
				}
			default:
				if A.mayNil(f, d.rhs, visiting) {
					return true
				}
			}
		}
		return false
	case *ast.UnaryExpr:
		if x.Op == token.AND {
			return false
		}
		return true
	case *ast.CompositeLit, *ast.FuncLit:
		return false
	case *ast.CallExpr:
		if id, ok := ast.Unparen(x.Fun).(*ast.Ident); ok {
			if b, ok := info.Uses[id].(*types.Builtin); ok {
				return b.Name() != "new"
			}
		}
		return A.mayNilCall(f, x, 0)
	}
	return true
}

func (A *c11Ast) mayNilCall(f *core.Func, call *ast.CallExpr, idx int) bool {
	fn := core.Callee(f.Info(), call)
	if fn == nil {
		return true
	}
	fn = fn.Origin()
	if a, ok := A.acc[fn]; ok {
		return A.slot[c11SlotKey{a.typ, a.field}]
	}
	if _, ok := A.funcs[fn]; ok {
		return A.sum[c11SumKey{fn, idx}]
	}
	return true
}

// evalSum: result idx of g may be nil on a non-error return.
func (A *c11Ast) evalSum(g *core.Func, idx int) bool {
	fl := A.flow(g)
	sig := g.Obj.Type().(*types.Signature)
	nres := sig.Results().Len()
	out := false
	var walk func(n ast.Node)
	walk = func(n ast.Node) {
		ast.Inspect(n, func(m ast.Node) bool {
			if out {
				return false
			}
			switch r := m.(type) {
			case *ast.FuncLit:
				return false
			case *ast.ReturnStmt:
				if fl.IsErrorReturn(r) {
					return false
				}
				switch {
				case len(r.Results) == nres:
					if A.mayNil(g, r.Results[idx], map[*types.Var]bool{}) {
						out = true
					}
				case len(r.Results) == 1:
					if call, ok := ast.Unparen(r.Results[0]).(*ast.CallExpr); !ok || A.mayNilCall(g, call, idx) {
						out = true
					}
				default:
					out = true // bare return of named results: not examined
				}
				return false
			}
			return true
		})
	}
	walk(g.Decl.Body)
	return out
}

// fix computes the may-be-nil facts to a fixpoint.
func (A *c11Ast) fix() {
	g := A.g
	set := func(m map[c11SumKey]bool, k c11SumKey, ch *bool) {
		if !m[k] {
			m[k] = true
			*ch = true
		}
	}
	setSlot := func(k c11SlotKey, why string, ch *bool) {
		if !A.slot[k] {
			A.slot[k] = true
			A.why[k] = why
			*ch = true
		}
	}
	for iter := 0; iter < 50; iter++ {
		changed := false
		for _, f := range A.order {
			sig := f.Obj.Type().(*types.Signature)
			for i := 0; i < sig.Results().Len(); i++ {
				if A.isFamPtr(sig.Results().At(i).Type()) && !A.sum[c11SumKey{f.Obj, i}] && A.evalSum(f, i) {
					set(A.sum, c11SumKey{f.Obj, i}, &changed)
				}
			}
		}
		for _, f := range A.order {
			f := f
			info := f.Info()
			ast.Inspect(f.Decl.Body, func(n ast.Node) bool {
				call, ok := n.(*ast.CallExpr)
				if !ok {
					return true
				}
				fn := core.Callee(info, call)
				if fn == nil {
					return true
				}
				fn = fn.Origin()
				if _, mine := A.funcs[fn]; !mine {
					return true
				}
				sig := fn.Type().(*types.Signature)
				if sig.Recv() != nil && A.isFamPtr(sig.Recv().Type()) {
					if sel, ok := ast.Unparen(call.Fun).(*ast.SelectorExpr); ok {
						if !A.par[c11SumKey{fn, -1}] && A.mayNil(f, sel.X, map[*types.Var]bool{}) {
							set(A.par, c11SumKey{fn, -1}, &changed)
						}
					}
				}
				for i, a := range call.Args {
					if i < sig.Params().Len() && A.isFamPtr(sig.Params().At(i).Type()) && !A.par[c11SumKey{fn, i}] && A.mayNil(f, a, map[*types.Var]bool{}) {
						set(A.par, c11SumKey{fn, i}, &changed)
					}
				}
				return true
			})
		}
		for _, l := range A.lits {
			for fld := range A.slots {
				k := c11SlotKey{l.typ, fld}
				if A.slot[k] {
					continue
				}
				v, present := l.elts[fld]
				switch {
				case !present:
					setSlot(k, fmt.Sprintf("%s: %s builds a %s without setting %s", g.Pos(l.pos), l.f.Name(), l.typ.Name(), fld.Name()), &changed)
				case A.mayNil(l.f, v, map[*types.Var]bool{}):
					setSlot(k, fmt.Sprintf("%s: %s stores a possibly nil value `%s` in %s.%s: %s", g.Pos(l.pos), l.f.Name(), core.Src(g.Fset, v), l.typ.Name(), fld.Name(), A.nilOrigin(l.f, v)), &changed)
				}
			}
		}
		for _, w := range A.writes {
			if !A.slots[w.field] {
				continue
			}
			k := c11SlotKey{w.typ, w.field}
			if A.slot[k] {
				continue
			}
			if w.rhs == nil || A.mayNil(w.f, w.rhs, map[*types.Var]bool{}) {
				setSlot(k, fmt.Sprintf("%s: %s assigns a possibly nil value to %s.%s", g.Pos(w.stmt.Pos()), w.f.Name(), w.typ.Name(), w.field.Name()), &changed)
			}
		}
		if !changed {
			return
		}
	}
}

// nilOrigin names, for a parameter-fed slot, one call site whose argument may be nil.
func (A *c11Ast) nilOrigin(f *core.Func, e ast.Expr) string {
	info := f.Info()
	id, ok := A.strip(info, e).(*ast.Ident)
	if !ok {
		return "the expression itself"
	}
	v, _ := info.Uses[id].(*types.Var)
	if v == nil {
		return "?"
	}
	pi := A.paramIndex(f, v)
	if pi < 0 || f.Obj == nil {
		return "local value"
	}
	g := A.g
	var found string
	for _, c := range A.order {
		c := c
		ci := c.Info()
		ast.Inspect(c.Decl.Body, func(n ast.Node) bool {
			if found != "" {
				return false
			}
			if call, ok := n.(*ast.CallExpr); ok && pi < len(call.Args) {
				if fn := core.Callee(ci, call); fn != nil && fn.Origin() == f.Obj && A.mayNil(c, call.Args[pi], map[*types.Var]bool{}) {
					found = fmt.Sprintf("e.g. %s: %s passes `%s`", g.Pos(call.Pos()), c.Name(), core.Src(g.Fset, call.Args[pi]))
				}
			}
			return true
		})
	}
	if found == "" {
		return "parameter " + v.Name()
	}
	return found
}

// ---------------------------------------------------------------------------
// The dataflow of N.lhs
// ---------------------------------------------------------------------------

type c11NKey struct {
	base *types.Var
	m    *types.Func
	disc bool
}

type nstate struct {
	bad map[*types.Var]bool // holds an unchecked result of a may-be-nil accessor
	ok  map[c11NKey]bool    // base.m() is known non-nil (disc: base.m() is known non-zero)
}

func (s *nstate) clone() *nstate {
	o := &nstate{bad: map[*types.Var]bool{}, ok: map[c11NKey]bool{}}
	for k := range s.bad {
		o.bad[k] = true
	}
	for k := range s.ok {
		o.ok[k] = true
	}
	return o
}

type c11NSite struct {
	pos  token.Pos
	text string
	bad  string // non-empty: violation
	und  string // non-empty: shape not recognised
}

type nilDom struct {
	A       *c11Ast
	fl      *core.Flow
	info    *types.Info
	derived map[types.Object]bool // accessor results the rule tracks (method set D)
	implied map[*types.Func]*types.Func
	nilable map[*types.Var]bool
	outer   map[*types.Var]bool // nilable variables of the enclosing function (for literals)
	sites   map[token.Pos]*c11NSite
}

func (d *nilDom) Entry() any { return &nstate{bad: map[*types.Var]bool{}, ok: map[c11NKey]bool{}} }

func (d *nilDom) Join(a, b any, widen bool) any {
	x, y := a.(*nstate), b.(*nstate)
	o := &nstate{bad: map[*types.Var]bool{}, ok: map[c11NKey]bool{}}
	for k := range x.bad {
		o.bad[k] = true
	}
	for k := range y.bad {
		o.bad[k] = true
	}
	for k := range x.ok {
		if y.ok[k] {
			o.ok[k] = true
		}
	}
	return o
}

func (d *nilDom) Equal(a, b any) bool {
	x, y := a.(*nstate), b.(*nstate)
	if len(x.bad) != len(y.bad) || len(x.ok) != len(y.ok) {
		return false
	}
	for k := range x.bad {
		if !y.bad[k] {
			return false
		}
	}
	for k := range x.ok {
		if !y.ok[k] {
			return false
		}
	}
	return true
}

func (d *nilDom) localVar(e ast.Expr) *types.Var {
	id, ok := ast.Unparen(e).(*ast.Ident)
	if !ok {
		return nil
	}
	v, _ := d.info.Uses[id].(*types.Var)
	if v == nil {
		v, _ = d.info.Defs[id].(*types.Var)
	}
	if v == nil || v.IsField() || v.Pkg() == nil || v.Parent() == v.Pkg().Scope() {
		return nil
	}
	return v
}

// chain: e (casts stripped) is base.m() with base a local variable and m a
// method of lang/ast without arguments.
func (d *nilDom) chain(e ast.Expr) (base *types.Var, m *types.Func, call *ast.CallExpr) {
	call, ok := d.A.strip(d.info, e).(*ast.CallExpr)
	if !ok || len(call.Args) != 0 {
		return nil, nil, nil
	}
	fn := core.Callee(d.info, call)
	if fn == nil {
		return nil, nil, nil
	}
	sel, ok := ast.Unparen(call.Fun).(*ast.SelectorExpr)
	if !ok {
		return nil, fn.Origin(), call
	}
	return d.localVar(d.A.strip(d.info, sel.X)), fn.Origin(), call
}

// resultNonNil: the call of a tracked accessor is known to return non-nil in s.
func (d *nilDom) resultNonNil(base *types.Var, m *types.Func, s *nstate) bool {
	if base == nil {
		return false
	}
	if s.ok[c11NKey{base, m, false}] {
		return true
	}
	if dm := d.implied[m]; dm != nil && s.ok[c11NKey{base, dm, true}] {
		return true
	}
	return false
}

func (d *nilDom) Refine(e ast.Expr, sa any) (any, any) {
	s := sa.(*nstate)
	b, ok := e.(*ast.BinaryExpr)
	if !ok || (b.Op != token.EQL && b.Op != token.NEQ) {
		return s, s
	}
	for _, pr := range [][2]ast.Expr{{b.X, b.Y}, {b.Y, b.X}} {
		x, y := pr[0], pr[1]
		if core.IsNilIdent(d.info, y) {
			r := s.clone()
			if v := d.localVar(d.A.strip(d.info, x)); v != nil {
				delete(r.bad, v)
			} else if base, m, _ := d.chain(x); base != nil && m != nil {
				r.ok[c11NKey{base, m, false}] = true
			} else {
				return s, s
			}
			if b.Op == token.NEQ {
				return r, s
			}
			return s, r
		}
		if c, isConst := core.ConstInt64(d.info, y); isConst {
			base, m, _ := d.chain(x)
			if base == nil || m == nil {
				continue
			}
			if _, isDisc := d.A.disc[m]; !isDisc {
				continue
			}
			r := s.clone()
			r.ok[c11NKey{base, m, true}] = true
			switch {
			case b.Op == token.EQL && c != 0:
				return r, s
			case b.Op == token.EQL && c == 0:
				return s, r
			case b.Op == token.NEQ && c == 0:
				return r, s
			}
			return s, r // x != C (C non-zero): false means x == C
		}
	}
	return s, s
}

func (d *nilDom) kill(s *nstate, v *types.Var) {
	delete(s.bad, v)
	for k := range s.ok {
		if k.base == v {
			delete(s.ok, k)
		}
	}
}

func (d *nilDom) Effect(n ast.Node, sa any) any {
	s := sa.(*nstate).clone()
	// mutators invalidate what is known about their receiver's children
	ast.Inspect(n, func(m ast.Node) bool {
		switch c := m.(type) {
		case *ast.FuncLit, *ast.BlockStmt:
			return false
		case *ast.CallExpr:
			if fn := core.Callee(d.info, c); fn != nil && d.A.mutators[fn.Origin()] {
				if sel, ok := ast.Unparen(c.Fun).(*ast.SelectorExpr); ok {
					if v := d.localVar(d.A.strip(d.info, sel.X)); v != nil {
						for k := range s.ok {
							if k.base == v {
								delete(s.ok, k)
							}
						}
					}
				}
			}
		}
		return true
	})
	switch st := n.(type) {
	case *ast.AssignStmt:
		type upd struct {
			v   *types.Var
			bad bool
		}
		var ups []upd
		for i, l := range st.Lhs {
			v := d.localVar(l)
			if v == nil {
				continue
			}
			u := upd{v: v}
			if len(st.Lhs) == len(st.Rhs) && (st.Tok == token.ASSIGN || st.Tok == token.DEFINE) {
				rhs := d.A.strip(d.info, st.Rhs[i])
				if w := d.localVar(rhs); w != nil {
					u.bad = sa.(*nstate).bad[w]
				} else if base, m, call := d.chain(rhs); call != nil && m != nil && d.derived[m] {
					u.bad = !d.resultNonNil(base, m, sa.(*nstate))
				}
			}
			ups = append(ups, u)
		}
		for _, u := range ups {
			d.kill(s, u.v)
		}
		for _, u := range ups {
			if u.bad {
				s.bad[u.v] = true
			}
		}
	case *ast.DeclStmt:
		ast.Inspect(st, func(m ast.Node) bool {
			if id, ok := m.(*ast.Ident); ok {
				if v, ok := d.info.Defs[id].(*types.Var); ok {
					d.kill(s, v)
				}
			}
			return true
		})
		if gd, ok := st.Decl.(*ast.GenDecl); ok {
			for _, sp := range gd.Specs {
				if vs, ok := sp.(*ast.ValueSpec); ok && len(vs.Values) == len(vs.Names) {
					for i, id := range vs.Names {
						v, _ := d.info.Defs[id].(*types.Var)
						rhs := d.A.strip(d.info, vs.Values[i])
						if v == nil {
							continue
						}
						if w := d.localVar(rhs); w != nil && sa.(*nstate).bad[w] {
							s.bad[v] = true
						} else if base, m, call := d.chain(rhs); call != nil && m != nil && d.derived[m] && !d.resultNonNil(base, m, sa.(*nstate)) {
							s.bad[v] = true
						}
					}
				}
			}
		}
	}
	return s
}

func (d *nilDom) Range(rs *ast.RangeStmt, sa any) any {
	s := sa.(*nstate).clone()
	for _, e := range []ast.Expr{rs.Key, rs.Value} {
		if e != nil {
			if v := d.localVar(e); v != nil {
				d.kill(s, v)
			}
		}
	}
	return s
}

// Use: a dereferencing method call on a tracked value.
func (d *nilDom) Use(n ast.Node, sa any) {
	call, ok := n.(*ast.CallExpr)
	if !ok {
		return
	}
	fn := core.Callee(d.info, call)
	if fn == nil {
		return
	}
	fn = fn.Origin()
	sig, ok := fn.Type().(*types.Signature)
	if !ok || sig.Recv() == nil || !d.A.isFamPtr(sig.Recv().Type()) || d.A.casts[fn] {
		return
	}
	if fn.Pkg() != d.A.pAst.Types {
		return
	}
	sel, ok := ast.Unparen(call.Fun).(*ast.SelectorExpr)
	if !ok {
		return
	}
	s := sa.(*nstate)
	recv := d.A.strip(d.info, sel.X)
	g := d.A.g
	site := &c11NSite{pos: call.Pos(), text: core.Src(g.Fset, call)}
	if v := d.localVar(recv); v != nil {
		if !d.nilable[v] && !d.outer[v] {
			return
		}
		if d.outer[v] && !d.nilable[v] {
			site.und = "the function literal dereferences `" + v.Name() + "`, a variable of the enclosing function that holds the result of a may-be-nil accessor"
		} else if s.bad[v] {
			site.bad = fmt.Sprintf("`%s` holds the result of a may-be-nil accessor and no nil test of it lies on every path to this call of %s", v.Name(), fn.Name())
		}
	} else if base, m, c2 := d.chain(recv); c2 != nil && m != nil && d.derived[m] {
		if base == nil {
			site.und = fmt.Sprintf("%s is called on the result of %s whose own receiver is not a plain local variable: the nil test that covers it cannot be named", fn.Name(), m.Name())
		} else if !d.resultNonNil(base, m, s) {
			site.bad = fmt.Sprintf("%s is called directly on %s.%s(), which may be nil, with no dominating test `%s.%s() != nil`", fn.Name(), base.Name(), m.Name(), base.Name(), m.Name())
		}
	} else {
		return
	}
	if old, ok := d.sites[site.pos]; ok && (old.bad != "" || old.und != "") {
		return
	}
	d.sites[site.pos] = site
}

// ---------------------------------------------------------------------------
// The rules
// ---------------------------------------------------------------------------

func c11NilResults(k *gctx) {
	c, g := k.c, k.g
	A := newC11Ast(g, g.Pkg("lang/ast"), g.Pkg("lang/parse"))
	tableClaim := "the accessors of lang/ast whose child slot the parser can leave nil (derived from which argument of which New… call in lang/parse and lang/ast may be nil) are exactly covered by the explicit table the nil-dereference rule polices; an optional child outside the table would be dereferenced unchecked"
	if A == nil {
		c.Undecided("N.table", "lang/ast.Node", tableClaim, "lang/ast.Node or lang/parse not found")
		return
	}
	A.fix()
	// ---- N.table ---------------------------------------------------------------
	type row struct {
		name string
		fn   *types.Func
		why  string
	}
	var derived []row
	dset := map[*types.Func]bool{}
	for fn, a := range A.acc {
		if A.slot[c11SlotKey{a.typ, a.field}] {
			derived = append(derived, row{a.typ.Name() + "." + fn.Name(), fn, A.why[c11SlotKey{a.typ, a.field}]})
			dset[fn] = true
		}
	}
	sort.Slice(derived, func(i, j int) bool { return derived[i].name < derived[j].name })
	if os.Getenv("C11_NIL_DUMP") != "" {
		for _, r := range derived {
			fmt.Printf("derived %-28s %s\n", r.name, r.why)
		}
		var ss []string
		for key := range A.sum {
			ss = append(ss, fmt.Sprintf("sum %s #%d", core.FuncFullName(key.fn), key.idx))
		}
		for key := range A.par {
			ss = append(ss, fmt.Sprintf("par %s #%d", core.FuncFullName(key.fn), key.idx))
		}
		sort.Strings(ss)
		fmt.Println(strings.Join(ss, "\n"))
	}
	seen := map[string]bool{}
	nrows := 0
	for _, r := range derived {
		seen[r.name] = true
		if _, ok := c11NilTable[r.name]; ok {
			nrows++
			c.Pass("N.table", "lang/ast.("+r.name+")", tableClaim, 1, "may be nil: "+r.why)
		} else {
			c.Undecided("N.table", "lang/ast.("+r.name+")", tableClaim, "this accessor can return nil for a node the parser builds but is not in the table: "+r.why)
		}
	}
	for name := range c11NilTable {
		if !seen[name] {
			c.Info("N.table", "lang/ast.("+name+")", "table row no longer derivable from the constructor calls (the child is now always present, or the accessor was renamed)")
		}
	}
	for _, l := range A.lits {
		if l.bad != "" {
			c.Undecided("N.table", l.f.Name()+"["+l.typ.Name()+" literal]", tableClaim, g.Pos(l.pos)+": "+l.bad)
		}
	}
	c.Floor("N.table", "may-be-nil child accessors derived from the parser's constructor calls", nrows, 12)
	c.Floor("N.table", "node constructions (composite literals) examined in lang/ast", len(A.lits), 20)
	c.Analysed("N_node_types", len(A.family))
	c.Analysed("N_child_accessors", len(A.acc))
	c.Analysed("N_casts", len(A.casts))

	// ---- N.implied -------------------------------------------------------------
	implied := map[*types.Func]*types.Func{}
	for _, row := range c11NilImplied {
		anchor := "lang/ast.(" + row.typ + ")." + row.acc + " given " + row.disc + " != 0"
		claim := "a " + row.typ + " whose " + row.disc + "() is non-zero always has its " + row.acc + "() child (" + row.why + "): every construction and every later write keeps it so — the parser relies on it when it dereferences " + row.acc + "() after testing only " + row.disc + "()"
		var accFn, discFn *types.Func
		for fn, a := range A.acc {
			if a.typ.Name() == row.typ && fn.Name() == row.acc {
				accFn = fn
			}
		}
		for fn := range A.disc {
			if fn.Name() == row.disc {
				if sig := fn.Type().(*types.Signature); sig.Recv() != nil {
					if tn := A.famOf(sig.Recv().Type()); tn != nil && tn.Name() == row.typ {
						discFn = fn
					}
				}
			}
		}
		if accFn == nil || discFn == nil {
			c.Undecided("N.implied", anchor, claim, "accessor or discriminator not found (or no longer a plain field accessor)")
			continue
		}
		slotF, discF := A.acc[accFn].field, A.disc[discFn]
		tn := A.acc[accFn].typ
		var problems []string
		sites := 0
		for _, l := range A.lits {
			if l.typ != tn && l.typ != A.node {
				continue
			}
			dv, hasD := l.elts[discF]
			sv, hasS := l.elts[slotF]
			if !hasD {
				sites++
				continue // discriminator zero
			}
			if z, ok := core.ConstInt64(l.f.Info(), dv); ok && z == 0 {
				sites++
				continue
			}
			if !hasS {
				problems = append(problems, fmt.Sprintf("%s: %s sets %s but not %s", g.Pos(l.pos), l.f.Name(), discF.Name(), slotF.Name()))
				continue
			}
			// both given: parameters are judged per call site
			info := l.f.Info()
			dp, sp := -2, -2
			if id, ok := A.strip(info, dv).(*ast.Ident); ok {
				if v, ok := info.Uses[id].(*types.Var); ok {
					dp = A.paramIndex(l.f, v)
				}
			}
			if id, ok := A.strip(info, sv).(*ast.Ident); ok {
				if v, ok := info.Uses[id].(*types.Var); ok {
					sp = A.paramIndex(l.f, v)
				}
			}
			if sp < 0 {
				sites++
				if A.mayNil(l.f, sv, map[*types.Var]bool{}) {
					problems = append(problems, fmt.Sprintf("%s: %s may store nil in %s while %s may be non-zero", g.Pos(l.pos), l.f.Name(), slotF.Name(), discF.Name()))
				}
				continue
			}
			for _, cf := range A.order {
				cf := cf
				ci := cf.Info()
				ast.Inspect(cf.Decl.Body, func(n ast.Node) bool {
					call, ok := n.(*ast.CallExpr)
					if !ok {
						return true
					}
					fn := core.Callee(ci, call)
					if fn == nil || fn.Origin() != l.f.Obj || sp >= len(call.Args) {
						return true
					}
					sites++
					if dp >= 0 && dp < len(call.Args) {
						if z, ok := core.ConstInt64(ci, call.Args[dp]); ok && z == 0 {
							return true
						}
					}
					if A.mayNil(cf, call.Args[sp], map[*types.Var]bool{}) {
						problems = append(problems, fmt.Sprintf("%s: %s calls %s with a possibly non-zero %s and a possibly nil %s `%s`", g.Pos(call.Pos()), cf.Name(), l.f.Decl.Name.Name, row.disc, row.acc, core.Src(g.Fset, call.Args[sp])))
					}
					return true
				})
			}
			if l.f.Obj != nil && A.valued[l.f.Obj] {
				problems = append(problems, fmt.Sprintf("%s is used as a function value: its call sites cannot be enumerated", l.f.Name()))
			}
		}
		for _, w := range A.writes {
			if w.typ != tn && w.typ != A.node && w.typ.Name() != "Raw" {
				continue
			}
			switch w.field {
			case slotF:
				sites++
				if w.rhs == nil || A.mayNil(w.f, w.rhs, map[*types.Var]bool{}) {
					problems = append(problems, fmt.Sprintf("%s: %s may assign nil to %s", g.Pos(w.stmt.Pos()), w.f.Name(), slotF.Name()))
				}
			case discF:
				sites++
				if w.rhs != nil {
					if z, ok := core.ConstInt64(w.f.Info(), w.rhs); ok && z == 0 {
						continue
					}
				}
				if !c11WriteKeepsNonZero(A, w) {
					problems = append(problems, fmt.Sprintf("%s: %s assigns %s outside the recognised idiom (inside `switch x.%s { case <non-zero>: x.%s = <non-zero> }`)", g.Pos(w.stmt.Pos()), w.f.Name(), discF.Name(), discF.Name(), discF.Name()))
				}
			}
		}
		if c.Check(len(problems) == 0, "N.implied", anchor, claim, sites, strings.Join(problems, "\n")) {
			implied[accFn] = discFn
		}
		c.Floor("N.implied", "constructions, constructor calls and field writes examined for "+row.typ+"."+row.acc, sites, 6)
	}

	// ---- N.lhs -----------------------------------------------------------------
	useClaim := "in lang/parse a dereferencing method is called on the result of a may-be-nil child accessor (table N.table) only past a nil test of that very value on every path (or past a verified discriminator test): otherwise the source construct that leaves the child nil makes the parser panic with a nil dereference instead of returning a parse error"
	derivedObj := map[types.Object]bool{}
	for fn := range dset {
		if _, listed := c11NilTable[A.acc[fn].typ.Name()+"."+fn.Name()]; listed {
			derivedObj[fn] = true
		}
	}
	total := 0
	// C11_NIL_EXPLORE=lang/check,internal/cgen prints (never as a verdict) what the same rule
	// would say about other packages; it is how the "not covered" statement in the notes was obtained.
	pkgs := []*packages.Package{A.pParse}
	explore := map[*packages.Package]bool{}
	for _, rel := range strings.Split(os.Getenv("C11_NIL_EXPLORE"), ",") {
		if p := g.Pkg(strings.TrimSpace(rel)); p != nil && p != A.pParse {
			pkgs = append(pkgs, p)
			explore[p] = true
		}
	}
	var allFuncs []*core.Func
	exploring := map[*core.Func]bool{}
	for _, p := range pkgs {
		for _, f := range k.g.AllFuncs(p) {
			allFuncs = append(allFuncs, f)
			exploring[f] = explore[p]
		}
	}
	for _, f := range allFuncs {
		for _, u := range A.useUnits(f, derivedObj, implied) {
			if !exploring[f] {
				for _, w := range u.closureWrites {
					c.Undecided("N.lhs", u.name+"[closure write]", useClaim, w)
				}
			}
			if !u.fixpoint {
				c.Undecided("N.lhs", u.name, useClaim, "the dataflow did not reach a fixpoint")
				continue
			}
			if exploring[f] {
				nb := 0
				for _, s := range u.sites {
					if s.bad != "" || s.und != "" {
						nb++
						fmt.Printf("EXPLORE N.lhs %s %s: `%s`: %s%s\n", u.name, g.Pos(s.pos), s.text, s.bad, s.und)
					}
				}
				fmt.Printf("EXPLORE N.lhs %s: %d sites, %d unproven\n", u.name, len(u.sites), nb)
				continue
			}
			if len(u.sites) == 0 {
				continue
			}
			var bad []string
			for _, s := range u.sites {
				switch {
				case s.und != "":
					c.Undecided("N.lhs", u.name+"["+s.text+"]", useClaim, g.Pos(s.pos)+": "+s.und)
				case s.bad != "":
					bad = append(bad, fmt.Sprintf("%s: `%s`: %s", g.Pos(s.pos), s.text, s.bad))
				}
			}
			total += len(u.sites)
			c.Check(len(bad) == 0, "N.lhs", u.name, useClaim, len(u.sites), strings.Join(bad, "\n"))
		}
	}
	c.Floor("N.lhs", "dereferencing calls on may-be-nil accessor results in lang/parse", total, 10)
	c.Analysed("N_lhs_sites", total)
}

// c11NilUnit: the verdicts of N.lhs for one function or function literal.
type c11NilUnit struct {
	name          string
	sites         []*c11NSite
	fixpoint      bool
	closureWrites []string
}

// useUnits runs the N.lhs dataflow over f and over each function literal in it.
func (A *c11Ast) useUnits(f *core.Func, derivedObj map[types.Object]bool, implied map[*types.Func]*types.Func) []c11NilUnit {
	g := A.g
	var out []c11NilUnit
	var units []*core.Flow
	units = append(units, A.flow(f))
	ast.Inspect(f.Decl.Body, func(n ast.Node) bool {
		if lit, ok := n.(*ast.FuncLit); ok {
			units = append(units, core.NewFlowLit(f, lit))
		}
		return true
	})
	outerNilable := map[*types.Var]bool{}
	for ui, fl := range units {
		d := &nilDom{A: A, fl: fl, info: f.Info(), derived: derivedObj, implied: implied, nilable: map[*types.Var]bool{}, outer: map[*types.Var]bool{}, sites: map[token.Pos]*c11NSite{}}
		// variables that ever receive the result of a tracked accessor (or a copy of such a variable)
		for ch := true; ch; {
			ch = false
			ast.Inspect(fl.F.Decl.Body, func(n ast.Node) bool {
				if _, isLit := n.(*ast.FuncLit); isLit && ui == 0 {
					return false
				}
				mark := func(l, r ast.Expr) {
					v := d.localVar(l)
					if v == nil || d.nilable[v] {
						return
					}
					rhs := A.strip(d.info, r)
					if w := d.localVar(rhs); w != nil && d.nilable[w] {
						d.nilable[v], ch = true, true
					} else if _, m, call := d.chain(rhs); call != nil && m != nil && derivedObj[m] {
						d.nilable[v], ch = true, true
					}
				}
				switch st := n.(type) {
				case *ast.AssignStmt:
					if len(st.Lhs) == len(st.Rhs) {
						for i := range st.Lhs {
							mark(st.Lhs[i], st.Rhs[i])
						}
					}
				case *ast.ValueSpec:
					if len(st.Names) == len(st.Values) {
						for i := range st.Names {
							mark(st.Names[i], st.Values[i])
						}
					}
				}
				return true
			})
		}
		u := c11NilUnit{name: f.Name()}
		if ui == 0 {
			outerNilable = d.nilable
		} else {
			u.name = fmt.Sprintf("%s[func literal %d]", f.Name(), ui)
			for v := range outerNilable {
				if !d.nilable[v] {
					d.outer[v] = true
				}
			}
			// a literal that assigns a tracked variable of the enclosing function escapes the per-function dataflow
			ast.Inspect(fl.F.Decl.Body, func(n ast.Node) bool {
				if as, ok := n.(*ast.AssignStmt); ok && as.Tok != token.DEFINE {
					for _, l := range as.Lhs {
						if v := d.localVar(l); v != nil && outerNilable[v] {
							u.closureWrites = append(u.closureWrites, g.Pos(as.Pos())+": a function literal assigns `"+v.Name()+"`, which holds a may-be-nil accessor result in the enclosing function")
						}
					}
				}
				return true
			})
		}
		drv := newC11Driver(fl, d)
		u.fixpoint = drv.run()
		var keys []token.Pos
		for p := range d.sites {
			keys = append(keys, p)
		}
		sort.Slice(keys, func(i, j int) bool { return keys[i] < keys[j] })
		for _, p := range keys {
			u.sites = append(u.sites, d.sites[p])
		}
		out = append(out, u)
	}
	return out
}

// derivedAccessors: the child accessors whose slot may be nil, sorted by "Type.Accessor".
func (A *c11Ast) derivedAccessors() (names []string, byName map[string]*types.Func) {
	byName = map[string]*types.Func{}
	for fn, a := range A.acc {
		if A.slot[c11SlotKey{a.typ, a.field}] {
			n := a.typ.Name() + "." + fn.Name()
			names = append(names, n)
			byName[n] = fn
		}
	}
	sort.Strings(names)
	return
}

// c11WriteKeepsNonZero: the write `x.id0 = C` (C a non-zero constant) sits in a
// case clause of `switch x.id0` all of whose case constants are non-zero: a
// non-zero discriminator is replaced by a non-zero one.
func c11WriteKeepsNonZero(A *c11Ast, w c11FieldWrite) bool {
	info := w.f.Info()
	if w.rhs == nil {
		return false
	}
	if z, ok := core.ConstInt64(info, w.rhs); !ok || z == 0 {
		return false
	}
	var lhsSel *ast.SelectorExpr
	for _, l := range w.stmt.Lhs {
		if sel, ok := ast.Unparen(l).(*ast.SelectorExpr); ok && info.Uses[sel.Sel] == w.field {
			lhsSel = sel
		}
	}
	if lhsSel == nil {
		return false
	}
	baseObj := func(e ast.Expr) types.Object {
		if id, ok := ast.Unparen(e).(*ast.Ident); ok {
			return info.Uses[id]
		}
		return nil
	}
	path := core.PathTo(w.f.Decl.Body, w.stmt)
	for i := len(path) - 1; i >= 1; i-- {
		cc, ok := path[i].(*ast.CaseClause)
		if !ok {
			continue
		}
		// the enclosing switch is two levels up (SwitchStmt > BlockStmt > CaseClause)
		if i < 2 {
			return false
		}
		sw, ok := path[i-2].(*ast.SwitchStmt)
		if !ok || sw.Tag == nil {
			return false
		}
		tag, ok := ast.Unparen(sw.Tag).(*ast.SelectorExpr)
		if !ok || info.Uses[tag.Sel] != w.field || baseObj(tag.X) == nil || baseObj(tag.X) != baseObj(lhsSel.X) {
			return false
		}
		if len(cc.List) == 0 {
			return false // default clause: the old value may be zero
		}
		for _, e := range cc.List {
			if z, ok := core.ConstInt64(info, e); !ok || z == 0 {
				return false
			}
		}
		return true
	}
	return false
}
