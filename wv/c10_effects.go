package main

import (
	"fmt"
	"go/ast"
	"go/token"
	"go/types"
	"os"
	"path/filepath"
	"sort"
	"strings"

	"wv/core"
)

// callNamedOn: e is a call X.name(args…) (callee resolved by go/types to a
// method called name) and recv(X) holds.
func callNamedOn(fl *core.Flow, e ast.Expr, name string, recv core.ExprPred) bool {
	call, ok := ast.Unparen(e).(*ast.CallExpr)
	if !ok {
		return false
	}
	fn := core.Callee(fl.F.Info(), call)
	if fn == nil || fn.Name() != name {
		return false
	}
	r := core.RecvOf(call)
	return r != nil && (recv == nil || recv(r))
}

// boolCond normalises `!X` / `X`: returns X and whether it is negated.
func boolCond(e ast.Expr) (ast.Expr, bool) {
	e = ast.Unparen(e)
	neg := false
	for {
		u, ok := e.(*ast.UnaryExpr)
		if !ok || u.Op != token.NOT {
			break
		}
		neg = !neg
		e = ast.Unparen(u.X)
	}
	return e, neg
}

// selField: e is X.<field name> (field resolved through go/types).
func selField(fl *core.Flow, e ast.Expr, field string) bool {
	sel, ok := ast.Unparen(e).(*ast.SelectorExpr)
	if !ok {
		return false
	}
	o := fl.F.Info().Uses[sel.Sel]
	return o != nil && o.Name() == field
}

func runC10Effects(c *core.Ctx) {
	k := newG(c, "./lang/parse", "./lang/check")
	tok := func(name string) interface{} { return k.obj("anchors", "lang/token", name) }
	_ = tok
	runC10Clone(k)

	// E4b.1 parseAssignNode: the statement's value effect must not exceed the function's.
	if fl := k.flow("P4b.assign", "lang/parse", "parser", "parseAssignNode"); fl != nil {
		k.mustPass("P4b.assign.effect", fl.F.Name(),
			"an assignment/expression statement is accepted only past the guard `p.funcEffect.WeakerThan(rhs.Effect())`: a pure function cannot contain an impure or coroutine call",
			fl, core.Query{Exit: fl.SuccessReturn, FuncEnd: true,
				Events: []core.Event{{Edge: func(cond ast.Expr, ci *core.CondInfo, taken bool) bool {
					x, neg := boolCond(cond)
					call, ok := x.(*ast.CallExpr)
					if !ok || len(call.Args) != 1 || !callNamedOn(fl, x, "WeakerThan", func(r ast.Expr) bool { return selField(fl, r, "funcEffect") }) {
						return false
					}
					if !callNamedOn(fl, call.Args[0], "Effect", nil) {
						return false
					}
					return taken == neg
				}}}})
		// The guard must see the value that is actually stored in the Assign node:
		// after every (re)definition of the variable passed as the right-hand side
		// to a.NewAssign, the guard on that variable is passed before success.
		var valueVars []types.Object
		ast.Inspect(fl.F.Decl.Body, func(m ast.Node) bool {
			call, ok := m.(*ast.CallExpr)
			if ok && nameIs(fl, call, "NewAssign") && len(call.Args) == 3 {
				if o := fl.Obj(call.Args[2]); o != nil {
					valueVars = append(valueVars, o)
				}
			}
			return true
		})
		if len(valueVars) == 0 {
			c.Undecided("P4b.assign.value", fl.F.Name(), "the statement's value is a local passed to a.NewAssign", "no a.NewAssign(op, lhs, <local>) call found")
		}
		nDefs := 0
		for _, v := range valueVars {
			defs := c15Defs(fl, v)
			for _, d := range defs {
				dn := d.Node
				nDefs++
				k.mustPass("P4b.assign.value", fl.F.Name()+"[value defined: "+core.Src(k.g.Fset, dn)+"]",
					"the effect guard is applied to the value that ends up in the Assign node: after each definition of that variable the guard `p.funcEffect.WeakerThan(value.Effect())` is passed before success (a guard that only sees the left-hand side lets `x = this.impure!()` into a pure function)",
					fl, core.Query{
						Start: func(n ast.Node) bool { return c15Within(n, dn) && !c15IsCompound(n) },
						Exit:  fl.SuccessReturn, FuncEnd: true,
						Events: []core.Event{
							{Node: func(n ast.Node) bool {
								for _, d2 := range defs {
									if d2.Node != dn && c15Within(n, d2.Node) && !c15IsCompound(n) {
										return true
									}
								}
								return false
							}},
							{Edge: func(cond ast.Expr, ci *core.CondInfo, taken bool) bool {
								x, neg := boolCond(cond)
								call, ok := x.(*ast.CallExpr)
								if !ok || len(call.Args) != 1 || !callNamedOn(fl, x, "WeakerThan", func(r ast.Expr) bool { return selField(fl, r, "funcEffect") }) {
									return false
								}
								if !callNamedOn(fl, call.Args[0], "Effect", func(r ast.Expr) bool { return fl.Obj(r) == v }) {
									return false
								}
								return taken == neg
							}}}})
			}
		}
		c.Floor("P4b.assign.value", "definitions of the Assign node's value in parseAssignNode", nDefs, 2)
		// LHS rooted at this/args in a non-impure function is rejected.
		var ifCannot *ast.IfStmt
		ast.Inspect(fl.F.Decl.Body, func(m ast.Node) bool {
			if is, ok := m.(*ast.IfStmt); ok && ifCannot == nil && callNamedOn(fl, is.Cond, "IsCannotAssignTo", nil) {
				ifCannot = is
			}
			return true
		})
		if ifCannot == nil {
			c.Undecided("P4b.assign.root", fl.F.Name(), "branch on id.IsCannotAssignTo() exists", "not found")
		} else {
			k.mustPass("P4b.assign.root", fl.F.Name()+"[IsCannotAssignTo]",
				"an assignment whose left side is rooted at this/args (IsCannotAssignTo) is accepted only in an impure function: guard on p.funcEffect.Impure()",
				fl, core.Query{Region: core.RegionOf(ifCannot.Body), FallOut: true, Exit: fl.SuccessReturn,
					Events: []core.Event{{Edge: func(cond ast.Expr, ci *core.CondInfo, taken bool) bool {
						x, neg := boolCond(cond)
						if !callNamedOn(fl, x, "Impure", func(r ast.Expr) bool { return selField(fl, r, "funcEffect") }) {
							return false
						}
						return taken != neg // continue only when Impure() is true
					}}}})
		}
		// the LHS walk visits the whole selector/index chain
		k.mustPass("P4b.assign.lhsfree", fl.F.Name(), "the assignment's left side must itself be effect-free", fl, core.Query{
			Start: func(x ast.Node) bool {
				// after `lhs = rhs` inside the IsAssign branch
				as, ok := x.(*ast.AssignStmt)
				return ok && len(as.Lhs) == 1 && core.Src(k.g.Fset, as.Lhs[0]) == "lhs" && as.Tok == token.ASSIGN
			},
			Exit: fl.SuccessReturn, FuncEnd: true,
			Events: []core.Event{{Edge: func(cond ast.Expr, ci *core.CondInfo, taken bool) bool {
				b, ok := ast.Unparen(cond).(*ast.BinaryExpr)
				if !ok || b.Op != token.NEQ || !callNamedOn(fl, b.X, "Effect", nil) {
					return false
				}
				v, isk := core.ConstInt64(fl.F.Info(), b.Y)
				return !taken && isk && v == 0
			}}}})
	}

	// E4b.2 parseExpr: no effectful sub-expressions.
	if fl := k.flow("P4b.subexpr", "lang/parse", "parser", "parseExpr"); fl != nil {
		k.mustPass("P4b.subexpr", fl.F.Name(), "an expression with an effectful sub-expression is rejected (SubExprHasEffect) — effects occur only at statement level where P4b.assign.effect sees them",
			fl, core.Query{Exit: fl.SuccessReturn, FuncEnd: true,
				Events: []core.Event{{Edge: func(cond ast.Expr, ci *core.CondInfo, taken bool) bool {
					x, neg := boolCond(cond)
					return callNamedOn(fl, x, "SubExprHasEffect", nil) && taken == neg
				}}}})
	}

	// E4b.3 tcheckExprCall: call-site effect == callee effect.
	if fl := k.flow("P4b.call", "lang/check", "checker", "tcheckExprCall"); fl != nil {
		n := fl.Param(0)
		isEff := func(base core.ExprPred) core.ExprPred {
			return fl.Denotes(func(e ast.Expr) bool { return callNamedOn(fl, e, "Effect", base) })
		}
		resolved := fl.VarsDenoting(func(e ast.Expr) bool { return callNamedOn(fl, e, "resolveFunc", nil) })
		k.mustPass("P4b.call.effect", fl.F.Name(), "a call is accepted only when its syntactic effect mark equals the resolved callee's declared effect (`ne != fe` ⇒ error)",
			fl, core.Query{Exit: fl.SuccessReturn, FuncEnd: true,
				Events: []core.Event{{Edge: func(cond ast.Expr, ci *core.CondInfo, taken bool) bool {
					ne, fe := isEff(fl.Is(n)), isEff(anyOf(fl, resolved))
					return (!taken && eqTest(fl, cond, ne, fe, false)) || (taken && eqTest(fl, cond, ne, fe, true))
				}}}})
		k.mustPass("P4b.call.cpuarch", fl.F.Name(), "a function with a `choose cpu_arch` pre-condition cannot be called directly (only selected via choose)",
			fl, core.Query{Exit: fl.SuccessReturn, FuncEnd: true,
				Events: []core.Event{{Edge: func(cond ast.Expr, ci *core.CondInfo, taken bool) bool {
					x, neg := boolCond(cond)
					return callNamedOn(fl, x, "HasChooseCPUArch", anyOf(fl, resolved)) && taken == neg
				}}}})
	}

	// E4b.4 tcheckDot: fields are read-only in pure functions.
	if fl := k.flow("P4b.dot", "lang/check", "checker", "tcheckDot"); fl != nil {
		n := fl.Param(0)
		var fieldIf *ast.IfStmt
		ast.Inspect(fl.F.Decl.Body, func(m ast.Node) bool {
			if is, ok := m.(*ast.IfStmt); ok && fieldIf == nil {
				b, ok := ast.Unparen(is.Cond).(*ast.BinaryExpr)
				if ok && b.Op == token.EQL && callNamedOn(fl, b.X, "Name", nil) && callNamedOn(fl, b.Y, "Ident", fl.Is(n)) {
					fieldIf = is
				}
			}
			return true
		})
		if fieldIf == nil {
			c.Undecided("P4b.dot", fl.F.Name(), "field lookup `f.Name() == n.Ident()` exists", "not found")
		} else {
			k.mustPass("P4b.dot.readonly", fl.F.Name()+"[field found]", "in a pure function a field expression (of this or args) gets the read-only clone of the field's type: n.SetMType(f.XType().CloneReadOnly())",
				fl, core.Query{Region: core.RegionOf(fieldIf.Body), Exit: fl.SuccessReturn, FallOut: true,
					Events: []core.Event{core.CallEvent(func(call *ast.CallExpr) bool {
						fn := core.Callee(fl.F.Info(), call)
						return fn != nil && fn.Name() == "SetMType" && len(call.Args) == 1 && fl.Is(n)(core.RecvOf(call)) &&
							callNamedOn(fl, call.Args[0], "CloneReadOnly", func(r ast.Expr) bool { return callNamedOn(fl, r, "XType", nil) })
					})},
					Exempt: func(cond ast.Expr, ci *core.CondInfo, taken bool) bool {
						x, neg := boolCond(cond)
						return callNamedOn(fl, x, "Pure", func(r ast.Expr) bool { return callNamedOn(fl, r, "Effect", nil) }) && taken == neg
					}})
		}
	}

	// E4b.5 tcheckAssign: no store through a read-only element type.
	if fl := k.flow("P4b.store", "lang/check", "checker", "tcheckAssign"); fl != nil {
		var loop *ast.ForStmt
		ast.Inspect(fl.F.Decl.Body, func(m ast.Node) bool {
			if fs, ok := m.(*ast.ForStmt); ok && loop == nil && core.AnyCall(fs.Body, func(call *ast.CallExpr) bool {
				fn := core.Callee(fl.F.Info(), call)
				return fn != nil && fn.Name() == "IsRecursivelyReadOnly"
			}) {
				loop = fs
			}
			return true
		})
		if loop == nil {
			c.Undecided("P4b.store", fl.F.Name(), "walk over the assignee chain with IsRecursivelyReadOnly", "not found")
		} else {
			tokOB := k.obj("P4b.store", "lang/token", "IDOpenBracket")
			k.mustPass("P4b.store.readonly", fl.F.Name()+"[assignee chain]", "every indexed fragment x[i] of an assignee whose container type is recursively read-only is rejected",
				fl, core.Query{Region: core.RegionOf(loop.Body), FallOut: true,
					Events: []core.Event{{Edge: func(cond ast.Expr, ci *core.CondInfo, taken bool) bool {
						x, neg := boolCond(cond)
						return callNamedOn(fl, x, "IsRecursivelyReadOnly", nil) && taken == neg
					}}},
					Exempt: func(cond ast.Expr, ci *core.CondInfo, taken bool) bool {
						op := func(e ast.Expr) bool { return callNamedOn(fl, e, "Operator", nil) }
						return (taken && eqTest(fl, cond, op, fl.Is(tokOB), false)) || (!taken && eqTest(fl, cond, op, fl.Is(tokOB), true))
					}})
			k.mustPass("P4b.store.loop", fl.F.Name(), "the assignee walk is on every accepting path that has a left-hand side", fl, core.Query{
				Exit: fl.SuccessReturn, FuncEnd: true,
				Events: []core.Event{{Node: func(x ast.Node) bool { return x.Pos() >= loop.Pos() && x.End() <= loop.End() }}},
				Exempt: func(cond ast.Expr, ci *core.CondInfo, taken bool) bool {
					return taken && nilTest(fl, cond, fl.Denotes(func(e ast.Expr) bool { return callNamedOn(fl, e, "LHS", nil) }), true)
				}})
		}
	}
}

// runC10Clone: CloneReadOnly (the type pure methods see fields through) is deep.
func runC10Clone(k *gctx) {
	c := k.c
	fl := k.flow("P4b.clone", "lang/ast", "TypeExpr", "CloneReadOnly")
	if fl == nil {
		return
	}
	name := fl.F.Name()
	isRecStore := func(n ast.Node) bool {
		as, ok := n.(*ast.AssignStmt)
		if !ok || len(as.Lhs) != 1 || len(as.Rhs) != 1 {
			return false
		}
		if !selField(fl, as.Lhs[0], "rhs") {
			return false
		}
		return core.AnyCall(as.Rhs[0], func(call *ast.CallExpr) bool { return nameIs(fl, call, "CloneReadOnly") })
	}
	k.mustPass("P4b.clone.deep", name, "the read-only clone of a container type recurses into its element type on every path (a pure method must not obtain a writable inner array/slice of a field)", fl, core.Query{
		Exit: fl.SuccessReturn, FuncEnd: true,
		Events: []core.Event{{Node: isRecStore}},
		Exempt: func(cond ast.Expr, ci *core.CondInfo, taken bool) bool {
			return !taken && nilTest(fl, cond, func(e ast.Expr) bool { return selField(fl, e, "rhs") }, false)
		}})
	// decorator mapping
	want := map[string]string{"IDArray": "IDRoarray", "IDSlice": "IDRoslice", "IDTable": "IDRotable"}
	got := map[string]string{}
	ast.Inspect(fl.F.Decl.Body, func(m ast.Node) bool {
		cc, ok := m.(*ast.CaseClause)
		if !ok || len(cc.List) != 1 || len(cc.Body) != 1 {
			return true
		}
		as, ok := cc.Body[0].(*ast.AssignStmt)
		if !ok || len(as.Rhs) != 1 {
			return true
		}
		ks, ok1 := ast.Unparen(cc.List[0]).(*ast.SelectorExpr)
		vs, ok2 := ast.Unparen(as.Rhs[0]).(*ast.SelectorExpr)
		if ok1 && ok2 {
			got[ks.Sel.Name] = vs.Sel.Name
		}
		return true
	})
	okMap := len(got) == 3
	for kk, v := range want {
		if got[kk] != v {
			okMap = false
		}
	}
	c.Check(okMap, "P4b.clone.map", name, "array/slice/table become roarray/roslice/rotable", len(got), fmt.Sprintf("%v", got))
}

// runC10Templates: hand-written C templates define no non-const object with
// static storage duration (file scope or `static` local), in any #if arm.
func runC10Templates(c *core.Ctx) {
	dir := filepath.Join(c.Repo, "internal", "cgen", "base")
	ents, err := os.ReadDir(dir)
	if err != nil {
		c.Undecided("P5.templates", "internal/cgen/base", "template directory readable", err.Error())
		return
	}
	var files []string
	for _, e := range ents {
		if strings.HasSuffix(e.Name(), ".c") || strings.HasSuffix(e.Name(), ".h") {
			files = append(files, e.Name())
		}
	}
	sort.Strings(files)
	nObj, nStatic, nFuncs := 0, 0, 0
	for _, fn := range files {
		b, err := os.ReadFile(filepath.Join(dir, fn))
		if err != nil {
			c.Infra("%v", err)
		}
		cf := core.CParseFile(fn, string(b))
		nFuncs += len(cf.Funcs)
		var bad []string
		for _, d := range cf.Decls {
			kind, name := classifyDecl(d.Toks)
			if kind != "object" {
				continue
			}
			nObj++
			if os.Getenv("WV_DEBUG") != "" {
				fmt.Printf("DEBUG object %s:%d %s const=%v\n", fn, d.Line, name, declIsConst(d.Toks))
			}
			if !declIsConst(d.Toks) {
				bad = append(bad, fmt.Sprintf("internal/cgen/base/%s:%d: file-scope object `%s` is not const-qualified", fn, d.Line, name))
			}
		}
		for _, f := range cf.Funcs {
			body := f.Body
			for i := 0; i < len(body); i++ {
				if !body[i].Is("static") {
					continue
				}
				// declaration tokens up to ';' at depth 0
				j, depth := i, 0
				for j < len(body) {
					if body[j].Is("{") || body[j].Is("(") || body[j].Is("[") {
						depth++
					} else if body[j].Is("}") || body[j].Is(")") || body[j].Is("]") {
						depth--
					} else if body[j].Is(";") && depth == 0 {
						break
					}
					j++
				}
				nStatic++
				decl := body[i:j]
				if !declIsConst(decl) {
					_, name := classifyDecl(decl)
					bad = append(bad, fmt.Sprintf("internal/cgen/base/%s:%d: static local `%s` in %s is not const-qualified (writable data with static storage duration)", fn, body[i].Line, name, f.Name))
				}
				i = j
			}
		}
		c.Check(len(bad) == 0, "P5.templates", "internal/cgen/base/"+fn, "every object with static storage duration defined by this hand-written template is const-qualified (no mutable global state in any #if arm)", len(cf.Decls)+len(cf.Funcs), strings.Join(bad, "\n"))
	}
	c.Analysed("template_files", len(files))
	c.Analysed("template_file_scope_objects", nObj)
	c.Analysed("template_static_locals", nStatic)
	c.Floor("P5.objects", "file-scope objects + static locals examined in internal/cgen/base", nObj+nStatic, 24)
	_ = nFuncs
}

// classifyDecl: "object" for an object definition/declaration with static
// storage duration, else "other" (typedef, function prototype, struct/enum
// definition alone, extern "C", using …). name is the declarator identifier.
func classifyDecl(toks []core.CTok) (string, string) {
	if len(toks) == 0 {
		return "other", ""
	}
	// strip brace groups (struct bodies, initializers) and note the '=' position
	var flat []core.CTok
	depth := 0
	eq := -1
	for _, t := range toks {
		switch {
		case t.Is("{"):
			depth++
			continue
		case t.Is("}"):
			depth--
			continue
		}
		if depth > 0 {
			continue
		}
		if t.Is("=") && eq < 0 {
			eq = len(flat)
		}
		flat = append(flat, t)
	}
	head := flat
	if eq >= 0 {
		head = flat[:eq]
	}
	if len(head) == 0 {
		return "other", ""
	}
	for _, t := range head {
		if t.Is("typedef") || t.Is("extern") || t.Is("using") || t.Is("namespace") || t.Is("template") || t.Is("class") {
			return "other", ""
		}
	}
	// function prototype or function pointer: a '(' in the head
	for _, t := range head {
		if t.Is("(") {
			return "other", ""
		}
	}
	// the declarator name: last identifier before any '[' in head
	name := ""
	for i := len(head) - 1; i >= 0; i-- {
		if head[i].Kind == 'i' {
			// skip array sizes
			inBr := 0
			for j := i; j < len(head); j++ {
				if head[j].Is("[") {
					inBr++
				}
			}
			name = head[i].Text
			// if this identifier sits inside brackets, keep looking left
			d := 0
			inside := false
			for j := 0; j < i; j++ {
				if head[j].Is("[") {
					d++
				} else if head[j].Is("]") {
					d--
				}
			}
			inside = d > 0
			if !inside {
				break
			}
		}
	}
	// `struct foo;` / `struct foo {…};` / `enum {…};` alone declare no object
	if len(head) <= 2 && (head[0].Is("struct") || head[0].Is("union") || head[0].Is("enum")) {
		return "other", ""
	}
	if len(head) == 1 {
		return "other", "" // a lone macro invocation
	}
	if eq < 0 && !(flatHas(head, "[") || len(head) >= 2) {
		return "other", ""
	}
	return "object", name
}

func flatHas(toks []core.CTok, s string) bool {
	for _, t := range toks {
		if t.Is(s) {
			return true
		}
	}
	return false
}

// declIsConst: a `const` qualifier applies at the outer level of the declared
// object: for non-pointer declarators any `const` outside braces before the
// name; for pointers a `const` after the last `*`.
func declIsConst(toks []core.CTok) bool {
	depth := 0
	lastStar, lastConst := -1, -1
	k := 0
	for _, t := range toks {
		switch {
		case t.Is("{"):
			depth++
			continue
		case t.Is("}"):
			depth--
			continue
		}
		if depth > 0 {
			continue
		}
		if t.Is("=") {
			break
		}
		if t.Is("*") {
			lastStar = k
		}
		if t.Is("const") {
			lastConst = k
		}
		k++
	}
	if lastConst < 0 {
		return false
	}
	if lastStar >= 0 {
		return lastConst > lastStar
	}
	return true
}
