package main

// C18 header rules (H.*): the byte image Reset hands to Write, per ColorType,
// obtained with the partial evaluator of c18_eval.go, parsed as JPEG marker
// segments (T.81 Annex B) and cross-checked against the other tables.

import (
	"fmt"
	"go/ast"
	"go/token"
	"go/types"
	"sort"
	"strings"

	"wv/core"
)

type sofComp struct{ id, h, v, tq int }
type sosComp struct{ id, td, ta int }

type hdr struct {
	n       int64
	dqt     map[int]bool
	sof     []sofComp
	dht     map[[2]int]bool
	sos     []sosComp
	segs    []string
	nDHTSeg int
}

// parseHeader walks the header bytes. Marker, length and selector bytes must
// be constants; payload bytes may be symbolic.
func (x *c18) parseHeader(buf map[int64]bufByte, n int64, width, height types.Object) (*hdr, []string) {
	h := &hdr{n: n, dqt: map[int]bool{}, dht: map[[2]int]bool{}}
	var errs []string
	bad := func(format string, a ...interface{}) { errs = append(errs, fmt.Sprintf(format, a...)) }
	kb := func(i int64) (int, bool) {
		b, ok := buf[i]
		if !ok || i >= n {
			bad("byte %d is needed but was never written (header is %d bytes)", i, n)
			return 0, false
		}
		if !b.known {
			bad("byte %d (stored at %s) must be a constant to parse the header", i, x.k.g.Pos(b.pos))
			return 0, false
		}
		return int(b.v), true
	}
	for i := int64(0); i < n; i++ {
		if _, ok := buf[i]; !ok {
			bad("byte %d of the %d bytes handed to Write is never stored by this Reset (stale buffer contents would be written)", i, n)
			return h, errs
		}
	}
	b0, _ := kb(0)
	b1, _ := kb(1)
	if b0 != 0xFF || b1 != 0xD8 {
		bad("the header does not start with SOI FF D8 (found %02X %02X)", b0, b1)
		return h, errs
	}
	h.segs = append(h.segs, "SOI")
	i := int64(2)
	for i < n {
		m0, ok0 := kb(i)
		m1, ok1 := kb(i + 1)
		l0, ok2 := kb(i + 2)
		l1, ok3 := kb(i + 3)
		if !(ok0 && ok1 && ok2 && ok3) {
			return h, errs
		}
		if m0 != 0xFF {
			bad("offset %d: expected a marker, found %02X %02X — the previous segment's length field does not match its payload", i, m0, m1)
			return h, errs
		}
		L := int64(l0)<<8 | int64(l1)
		end := i + 2 + L
		if L < 2 || end > n {
			bad("offset %d: segment FF %02X has length field %d which runs past the %d-byte header", i, m1, L, n)
			return h, errs
		}
		p := i + 4
		switch m1 {
		case 0xDB:
			h.segs = append(h.segs, fmt.Sprintf("DQT(%d)", L))
			for p < end {
				pq, ok := kb(p)
				if !ok {
					return h, errs
				}
				if pq>>4 != 0 {
					bad("offset %d: DQT precision nibble %d, baseline needs 0 (8-bit)", p, pq>>4)
				}
				if p+65 > end {
					bad("offset %d: DQT table %d is cut by the segment's length field %d", p, pq&15, L)
					return h, errs
				}
				if h.dqt[pq&15] {
					bad("offset %d: DQT table %d defined twice", p, pq&15)
				}
				h.dqt[pq&15] = true
				p += 65
			}
		case 0xC0:
			h.segs = append(h.segs, fmt.Sprintf("SOF0(%d)", L))
			prec, ok := kb(p)
			nf, ok2 := kb(p + 5)
			if !ok || !ok2 {
				return h, errs
			}
			if prec != 8 {
				bad("SOF0 sample precision %d, baseline needs 8", prec)
			}
			want := []struct {
				o  types.Object
				sh int64
				nm string
			}{{height, 8, "height>>8"}, {height, 0, "height"}, {width, 8, "width>>8"}, {width, 0, "width"}}
			for q, w := range want {
				b := buf[p+1+int64(q)]
				if b.known || b.sym != w.o || b.sh != w.sh {
					bad("SOF0 byte %d (offset %d, stored at %s) must be byte(%s) of Reset's arguments: SOF0 carries Y (number of lines = height) then X (samples per line = width), big-endian", q+1, p+1+int64(q), x.k.g.Pos(b.pos), w.nm)
				}
			}
			if L != int64(8+3*nf) {
				bad("SOF0 length field %d does not equal 8 + 3·Nf with Nf = %d", L, nf)
				return h, errs
			}
			for q := 0; q < nf; q++ {
				ci, okA := kb(p + 6 + int64(3*q))
				hv, okB := kb(p + 7 + int64(3*q))
				tq, okC := kb(p + 8 + int64(3*q))
				if !(okA && okB && okC) {
					return h, errs
				}
				h.sof = append(h.sof, sofComp{ci, hv >> 4, hv & 15, tq})
			}
		case 0xC4:
			h.segs = append(h.segs, fmt.Sprintf("DHT(%d)", L))
			h.nDHTSeg++
			for p < end {
				tcth, ok := kb(p)
				if !ok {
					return h, errs
				}
				if p+17 > end {
					bad("offset %d: DHT table header cut by the segment's length field %d", p, L)
					return h, errs
				}
				total := int64(0)
				for q := int64(0); q < 16; q++ {
					cnt, ok := kb(p + 1 + q)
					if !ok {
						return h, errs
					}
					total += int64(cnt)
				}
				if p+17+total > end {
					bad("offset %d: DHT table (Tc=%d,Th=%d) lists %d symbols but its segment ends %d bytes earlier", p, tcth>>4, tcth&15, total, p+17+total-end)
					return h, errs
				}
				h.dht[[2]int{tcth >> 4, tcth & 15}] = true
				p += 17 + total
			}
		case 0xDA:
			h.segs = append(h.segs, fmt.Sprintf("SOS(%d)", L))
			ns, ok := kb(p)
			if !ok {
				return h, errs
			}
			if L != int64(6+2*ns) {
				bad("SOS length field %d does not equal 6 + 2·Ns with Ns = %d", L, ns)
				return h, errs
			}
			for q := 0; q < ns; q++ {
				cs, okA := kb(p + 1 + int64(2*q))
				tt, okB := kb(p + 2 + int64(2*q))
				if !(okA && okB) {
					return h, errs
				}
				h.sos = append(h.sos, sosComp{cs, tt >> 4, tt & 15})
			}
			ss, _ := kb(p + 1 + int64(2*ns))
			se, _ := kb(p + 2 + int64(2*ns))
			aa, _ := kb(p + 3 + int64(2*ns))
			if ss != 0 || se != 63 || aa != 0 {
				bad("SOS spectral selection/approximation bytes are %d,%d,%d; a baseline scan needs 0,63,0", ss, se, aa)
			}
			if end != n {
				bad("the SOS header ends at offset %d but %d bytes are written: entropy-coded data must follow SOS immediately", end, n)
			}
		default:
			bad("offset %d: unexpected marker FF %02X in the header", i, m1)
		}
		i = end
	}
	return h, errs
}

// encodeBlockUse: for component index comp, which huffmanBitWriters indices
// and which e.quants index encodeBlock uses (constant-propagating its prefix).
type blockUse struct {
	huff  map[int64][]token.Pos // writer index → use sites
	quant map[int64][]token.Pos
	syms  map[[2]int64]token.Pos // (writer index, constant symbol) → site
	err   string
}

func (x *c18) encodeBlockUse(comp int64) blockUse {
	u := blockUse{huff: map[int64][]token.Pos{}, quant: map[int64][]token.Pos{}, syms: map[[2]int64]token.Pos{}}
	k := x.k
	f := k.g.FindFunc(relJPEG, "Encoder", "encodeBlock")
	run := k.fn("H.use", relJPEG, "Encoder", "emitHuffmanRun")
	one := k.fn("H.use", relJPEG, "Encoder", "emitHuffman")
	if f == nil || run == nil || one == nil {
		u.err = "encodeBlock / emitHuffmanRun / emitHuffman not found"
		return u
	}
	ev := &evaluator{x: x, info: f.Info(), bufLen: 1 << 30, hook: map[*types.Func]bool{run: true, one: true}}
	// parameters: (bufIndex int, whichComponent byte, b *BlockI16)
	var params []types.Object
	for _, fld := range f.Decl.Type.Params.List {
		for _, id := range fld.Names {
			params = append(params, f.Info().Defs[id])
		}
	}
	if len(params) != 3 {
		u.err = "encodeBlock does not have three parameters"
		return u
	}
	st := &evState{heap: &evHeap{fields: map[types.Object]pval{}, buf: map[int64]bufByte{}, maxIdx: -1}}
	st.frames = []map[types.Object]pval{{params[1]: pInt(comp)}}
	// Prefix: top-level statements before the first loop.
	cut := len(f.Decl.Body.List)
	for i, s := range f.Decl.Body.List {
		switch s.(type) {
		case *ast.ForStmt, *ast.RangeStmt:
			if i < cut {
				cut = i
			}
		}
	}
	outs := ev.execBlock(f.Decl.Body.List[:cut], st)
	if len(outs) != 1 || outs[0].sig != sigFall || len(ev.bail) > 0 {
		u.err = fmt.Sprintf("the statements of encodeBlock before its coefficient loop do not evaluate to a single state (%d outcomes; %s)", len(outs), strings.Join(ev.bail, "; "))
		return u
	}
	fin := outs[0].st
	// Variables the index expressions depend on must not change after the prefix.
	assignedLater := map[types.Object]bool{}
	for _, s := range f.Decl.Body.List[cut:] {
		ast.Inspect(s, func(m ast.Node) bool {
			switch a := m.(type) {
			case *ast.AssignStmt:
				for _, l := range a.Lhs {
					if id, ok := l.(*ast.Ident); ok {
						if o := f.Info().Uses[id]; o != nil {
							assignedLater[o] = true
						}
						if o := f.Info().Defs[id]; o != nil {
							assignedLater[o] = true
						}
					}
				}
			case *ast.IncDecStmt:
				if id, ok := a.X.(*ast.Ident); ok {
					assignedLater[f.Info().Uses[id]] = true
				}
			}
			return true
		})
	}
	stable := func(e ast.Expr) bool {
		ok := true
		ast.Inspect(e, func(m ast.Node) bool {
			if id, isId := m.(*ast.Ident); isId {
				if o := f.Info().Uses[id]; o != nil && assignedLater[o] {
					ok = false
				}
			}
			return ok
		})
		return ok
	}
	ast.Inspect(f.Decl.Body, func(m ast.Node) bool {
		switch n := m.(type) {
		case *ast.CallExpr:
			fn := core.Callee(f.Info(), n)
			if fn != run && fn != one {
				return true
			}
			if len(n.Args) < 3 {
				return true
			}
			v := ev.eval(n.Args[1], fin)
			if v.kind != pvInt || !stable(n.Args[1]) {
				u.err = k.g.Pos(n.Pos()) + ": the table index passed to " + fn.Name() + " is not a constant function of whichComponent"
				return true
			}
			u.huff[v.i] = append(u.huff[v.i], n.Pos())
			if fn == one {
				if sv, ok := core.ConstInt64(f.Info(), n.Args[2]); ok {
					u.syms[[2]int64{v.i, sv}] = n.Pos()
				}
			}
		case *ast.IndexExpr:
			if ev.encField(n.X) == x.fQuants {
				v := ev.eval(n.Index, fin)
				if v.kind != pvInt || !stable(n.Index) {
					u.err = k.g.Pos(n.Pos()) + ": the index into e.quants is not a constant function of whichComponent"
					return true
				}
				u.quant[v.i] = append(u.quant[v.i], n.Pos())
			}
		}
		return true
	})
	return u
}

// mcuDims reads ColorType.MCUDimensions: value → (w, h).
func (x *c18) mcuDims() map[int64][2]int64 {
	out := map[int64][2]int64{}
	f := x.k.g.FindFunc(relJPEG, "ColorType", "MCUDimensions")
	if f == nil {
		return out
	}
	info := f.Info()
	ast.Inspect(f.Decl.Body, func(m ast.Node) bool {
		cc, ok := m.(*ast.CaseClause)
		if !ok {
			return true
		}
		for _, s := range cc.Body {
			r, ok := s.(*ast.ReturnStmt)
			if !ok || len(r.Results) != 2 {
				continue
			}
			w, ok1 := core.ConstInt64(info, r.Results[0])
			h, ok2 := core.ConstInt64(info, r.Results[1])
			if !ok1 || !ok2 {
				continue
			}
			for _, e := range cc.List {
				if v, ok := core.ConstInt64(info, e); ok {
					out[v] = [2]int64{w, h}
				}
			}
		}
		return true
	})
	return out
}

// ceilDivForm matches conv((P + A) / B) and returns P's object, A, B.
func ceilDivForm(info *types.Info, e ast.Expr) (types.Object, int64, int64, bool) {
	e = ast.Unparen(e)
	for {
		call, ok := e.(*ast.CallExpr)
		if !ok || len(call.Args) != 1 {
			break
		}
		if tv, ok := info.Types[call.Fun]; !ok || !tv.IsType() {
			break
		}
		e = ast.Unparen(call.Args[0])
	}
	q, ok := e.(*ast.BinaryExpr)
	if !ok || q.Op != token.QUO {
		return nil, 0, 0, false
	}
	b, ok := core.ConstInt64(info, q.Y)
	if !ok {
		return nil, 0, 0, false
	}
	s, ok := ast.Unparen(q.X).(*ast.BinaryExpr)
	if !ok || s.Op != token.ADD {
		return nil, 0, 0, false
	}
	pe, ae := s.X, s.Y
	a, ok := core.ConstInt64(info, ae)
	if !ok {
		pe, ae = s.Y, s.X
		if a, ok = core.ConstInt64(info, ae); !ok {
			return nil, 0, 0, false
		}
	}
	id, ok := ast.Unparen(pe).(*ast.Ident)
	if !ok {
		return nil, 0, 0, false
	}
	return info.Uses[id], a, b, true
}

func (x *c18) header() {
	c, k := x.c, x.k
	reset := k.g.FindFunc(relJPEG, "Encoder", "Reset")
	if reset == nil {
		c.Undecided("H.eval", relJPEG+".(*Encoder).Reset", "Reset exists", "not found")
		return
	}
	bufLen, ok := arrayLen(x.fBuf.Type())
	if !ok {
		c.Undecided("H.eval", relJPEG+".Encoder.buf", "buf is an array", "not an array")
		return
	}
	var params []types.Object
	for _, fld := range reset.Decl.Type.Params.List {
		for _, id := range fld.Names {
			params = append(params, reset.Info().Defs[id])
		}
	}
	if len(params) != 5 {
		c.Undecided("H.eval", reset.Name(), "Reset(w, colorType, width, height, options)", "parameter list not recognised")
		return
	}
	pCT, pW, pH := params[1], params[2], params[3]
	dims := x.mcuDims()

	// What encodeBlock indexes, per component index.
	comps := map[int64]bool{}
	for _, s := range x.wc {
		for _, ch := range []byte(s) {
			comps[int64(ch)] = true
		}
	}
	uses := map[int64]blockUse{}
	for cidx := range comps {
		uses[cidx] = x.encodeBlockUse(cidx)
	}

	maxHeader := int64(0)
	evaluated := 0
	for _, ct := range c18SortedKeys(x.ctValues) {
		name := x.ctValues[ct]
		anchor := fmt.Sprintf("%s[colorType=%s]", reset.Name(), name)
		ev := &evaluator{x: x, info: reset.Info(), bufLen: bufLen, hook: map[*types.Func]bool{}}
		outs := ev.runTop(reset, map[types.Object]pval{
			pCT: pInt(ct),
			pW:  {kind: pvSym, sym: pW},
			pH:  {kind: pvSym, sym: pH},
		}, nil)
		var succ []evOut
		for _, o := range outs {
			if o.sig == sigReturn && o.retNil {
				succ = append(succ, o)
			}
		}
		claimEval := "Reset's success path, with the ColorType fixed and width/height symbolic, evaluates (constant propagation over the syntax tree) to a definite sequence of buffer stores followed by exactly one w.Write(e.buf[:n])"
		if len(ev.bail) > 0 || len(succ) == 0 {
			c.Undecided("H.eval", anchor, claimEval, fmt.Sprintf("%s: %d success paths; %s", k.g.Pos(reset.Decl.Pos()), len(succ), strings.Join(ev.bail, "; ")))
			continue
		}
		evaluated++
		c.Pass("H.eval", anchor, claimEval, ev.steps, fmt.Sprintf("%d success paths, %d statements evaluated", len(succ), ev.steps))

		// H.bound.header
		claimB := fmt.Sprintf("every store index, slice bound and copy in Reset and the four header emitters stays inside the %d-byte e.buf (a copy that does not fit would be silently truncated, a store would panic)", bufLen)
		var n int64 = -1
		var problems []string
		problems = append(problems, ev.faults...)
		for _, o := range succ {
			if len(o.st.heap.writes) != 1 {
				problems = append(problems, fmt.Sprintf("a success path hands the buffer to Write %d times", len(o.st.heap.writes)))
				continue
			}
			if n >= 0 && o.st.heap.writes[0] != n {
				problems = append(problems, fmt.Sprintf("success paths write different header lengths (%d, %d)", n, o.st.heap.writes[0]))
			}
			n = o.st.heap.writes[0]
			if o.st.heap.maxIdx >= n {
				problems = append(problems, fmt.Sprintf("a byte is stored at index %d, beyond the %d bytes written", o.st.heap.maxIdx, n))
			}
		}
		c.Check(len(problems) == 0 && n >= 0 && n <= bufLen, "H.bound.header", anchor, claimB, int(n), fmt.Sprintf("%s: header length %d, len(buf) %d; %s", k.g.Pos(reset.Decl.Pos()), n, bufLen, strings.Join(problems, "; ")))
		if len(problems) > 0 || n < 0 {
			continue
		}
		if n > maxHeader {
			maxHeader = n
		}

		// H.segments (all success paths must give the same parse)
		claimS := "the bytes written are SOI, DQT, SOF0, one or more DHT, SOS — every marker where the previous length field says it is, SOF0 carrying height then width from Reset's arguments, nothing left unwritten"
		var h *hdr
		var perr []string
		for _, o := range succ {
			hh, e := x.parseHeader(o.st.heap.buf, n, pW, pH)
			perr = append(perr, e...)
			h = hh
		}
		order := strings.Join(func() []string {
			var s []string
			for _, g := range h.segs {
				s = append(s, strings.SplitN(g, "(", 2)[0])
			}
			return s
		}(), " ")
		if len(perr) == 0 && !(strings.HasPrefix(order, "SOI DQT SOF0 DHT") && strings.HasSuffix(order, "DHT SOS") && strings.Count(order, "SOF0") == 1 && strings.Count(order, "SOS") == 1 && strings.Count(order, "DQT") == 1) {
			perr = append(perr, "segment order is `"+order+"`")
		}
		c.Info("H.segments", anchor, fmt.Sprintf("%d header bytes: %s; DQT ids %v; SOF0 %v; DHT %d tables; SOS %v", n, strings.Join(h.segs, " "), keysOf(h.dqt), h.sof, len(h.dht), h.sos))
		c.Check(len(perr) == 0, "H.segments", anchor, claimS, int(n), k.g.Pos(reset.Decl.Pos())+": "+strings.Join(uniq(sortedCopy(perr)), "; "))
		if len(perr) > 0 {
			continue
		}

		// H.selectors
		var sel []string
		if len(h.sos) != len(h.sof) {
			sel = append(sel, fmt.Sprintf("SOF0 declares %d components, SOS scans %d", len(h.sof), len(h.sos)))
		}
		ids := map[int]bool{}
		for i, sc := range h.sof {
			if ids[sc.id] {
				sel = append(sel, fmt.Sprintf("component id %d declared twice in SOF0", sc.id))
			}
			ids[sc.id] = true
			if !h.dqt[sc.tq] {
				sel = append(sel, fmt.Sprintf("SOF0 component %d selects quantisation table %d, which DQT does not define (defined: %v)", sc.id, sc.tq, keysOf(h.dqt)))
			}
			if sc.h < 1 || sc.h > 4 || sc.v < 1 || sc.v > 4 {
				sel = append(sel, fmt.Sprintf("SOF0 component %d has sampling factors %dx%d outside 1..4", sc.id, sc.h, sc.v))
			}
			if i < len(h.sos) {
				ss := h.sos[i]
				if ss.id != sc.id {
					sel = append(sel, fmt.Sprintf("SOS component %d is id %d but SOF0's is id %d (scan order must follow frame order)", i, ss.id, sc.id))
				}
				if !h.dht[[2]int{0, ss.td}] {
					sel = append(sel, fmt.Sprintf("SOS component id %d selects DC table %d, which the DHT segments written for this ColorType do not define", ss.id, ss.td))
				}
				if !h.dht[[2]int{1, ss.ta}] {
					sel = append(sel, fmt.Sprintf("SOS component id %d selects AC table %d, which the DHT segments written for this ColorType do not define", ss.id, ss.ta))
				}
			}
		}
		for key := range h.dht {
			usedT := false
			for _, ss := range h.sos {
				if (key[0] == 0 && ss.td == key[1]) || (key[0] == 1 && ss.ta == key[1]) {
					usedT = true
				}
			}
			if !usedT {
				sel = append(sel, fmt.Sprintf("DHT table (Tc=%d,Th=%d) is written but no scan component selects it: the gray header must carry exactly the luma half", key[0], key[1]))
			}
		}
		c.Check(len(sel) == 0, "H.selectors", anchor, "every SOF0 quantisation selector names a table DQT defines, every SOS Huffman selector names a table the written DHT segments define, the written DHT tables are exactly the selected ones, and SOS scans SOF0's components in order", len(h.sof)*3+len(h.dht), strings.Join(sel, "; "))

		// H.sampling: sampling factors vs whichComponents, MCUDimensions, numAddsRemaining.
		var sam []string
		pat, okPat := x.wc[ct]
		if !okPat {
			sam = append(sam, "no whichComponents pattern for this ColorType")
		} else {
			blocks := 0
			hmax, vmax := 0, 0
			for _, sc := range h.sof {
				blocks += sc.h * sc.v
				if sc.h > hmax {
					hmax = sc.h
				}
				if sc.v > vmax {
					vmax = sc.v
				}
			}
			if len(h.sof) == 1 { // a single-component scan is not interleaved: one block per MCU
				blocks = 1
			}
			if int64(blocks) != ct || len(pat) != blocks {
				sam = append(sam, fmt.Sprintf("SOF0's sampling factors make %d blocks per MCU, the ColorType's value is %d and the pattern has %d entries", blocks, ct, len(pat)))
			} else {
				pos := 0
				for ci, sc := range h.sof {
					cnt := sc.h * sc.v
					if len(h.sof) == 1 {
						cnt = 1
					}
					for q := 0; q < cnt; q++ {
						if int(pat[pos]) != ci {
							sam = append(sam, fmt.Sprintf("block %d of the MCU belongs to frame component %d (sampling %dx%d) but the pattern says component %d", pos, ci, sc.h, sc.v, pat[pos]))
						}
						pos++
					}
				}
			}
			if d, ok := dims[ct]; !ok || d[0] != int64(8*hmax) || d[1] != int64(8*vmax) {
				sam = append(sam, fmt.Sprintf("MCUDimensions() returns %v for this ColorType, the sampling factors give %d×%d", dims[ct], 8*hmax, 8*vmax))
			}
			// numAddsRemaining = ceil(width/mcuW) * ceil(height/mcuH)
			for _, o := range succ {
				rhs := o.st.heap.lastRHS(x.fCount)
				okForm := false
				if be, ok := ast.Unparen(rhsOrNil(rhs)).(*ast.BinaryExpr); ok && be.Op == token.MUL {
					o1, a1, b1, ok1 := ceilDivForm(reset.Info(), be.X)
					o2, a2, b2, ok2 := ceilDivForm(reset.Info(), be.Y)
					if ok1 && ok2 {
						if o1 == pH && o2 == pW {
							o1, a1, b1, o2, a2, b2 = o2, a2, b2, o1, a1, b1
						}
						okForm = o1 == pW && o2 == pH && a1 == b1-1 && a2 == b2-1 && b1 == int64(8*hmax) && b2 == int64(8*vmax)
					}
				}
				if !okForm {
					where := "?"
					if rhs != nil {
						where = k.g.Pos(rhs.Pos()) + " `" + core.Src(k.g.Fset, rhs) + "`"
					}
					sam = append(sam, fmt.Sprintf("numAddsRemaining is set by %s, not ceil(width/%d)·ceil(height/%d) written as ((width+%d)/%d)·((height+%d)/%d)", where, 8*hmax, 8*vmax, 8*hmax-1, 8*hmax, 8*vmax-1, 8*vmax))
				}
			}
		}
		c.Check(len(sam) == 0, "H.sampling", anchor, "the sampling factors SOF0 declares give as many blocks per MCU, in the component order, as whichComponents encodes (= the ColorType's numeric value), the MCU size MCUDimensions reports, and the MCU count Reset stores in numAddsRemaining", len(h.sof)+2, strings.Join(uniq(sortedCopy(sam)), "; "))

		// H.use: the tables encodeBlock indexes are the ones the header selects.
		var use []string
		sites := 0
		for ci := range h.sof {
			u, ok := uses[int64(ci)]
			if !ok {
				continue // component index never passed to encodeBlock for this pattern
			}
			if u.err != "" {
				use = append(use, u.err)
				continue
			}
			if len(u.huff) == 0 || len(u.quant) == 0 {
				use = append(use, "encodeBlock's table indices were not found")
				continue
			}
			for wi, ps := range u.huff {
				sites += len(ps)
				tc, th := int(wi&1), int(wi>>1)
				want := h.sos[ci].td
				kind := "DC"
				if tc == 1 {
					want, kind = h.sos[ci].ta, "AC"
				}
				if th != want {
					use = append(use, fmt.Sprintf("%s: for component %d encodeBlock codes with huffmanBitWriters[%d] (= DHT %s table %d) but SOS tells the decoder to use %s table %d", k.g.Pos(ps[0]), ci, wi, kind, th, kind, want))
				}
			}
			for qi, ps := range u.quant {
				sites += len(ps)
				if int(qi) != h.sof[ci].tq {
					use = append(use, fmt.Sprintf("%s: for component %d encodeBlock divides by e.quants[%d] but SOF0 tells the decoder to multiply by table %d", k.g.Pos(ps[0]), ci, qi, h.sof[ci].tq))
				}
			}
			for ks, p := range u.syms {
				sites++
				if x.writers != nil && ks[0] >= 0 && ks[0] < int64(len(x.writers)) && x.writers[ks[0]] != nil && ks[1] >= 0 && ks[1] < int64(len(x.writers[ks[0]])) {
					if e := x.writers[ks[0]][ks[1]]; e.ok && e.v == 0 {
						use = append(use, fmt.Sprintf("%s: for component %d the constant symbol 0x%02X is looked up in huffmanBitWriters[%d], which has no code for it (nothing would be emitted)", k.g.Pos(p), ci, ks[1], ks[0]))
					}
				}
			}
		}
		c.Check(len(use) == 0 && sites > 0, "H.use", anchor, "for every component, the huffmanBitWriters indices encodeBlock uses (index = 2·Th + Tc) are the DC/AC tables SOS selects for it, the e.quants index is the table SOF0 selects, and the constant symbols (EOB 0x00, ZRL 0xF0) have codes in the table they are looked up in", sites, strings.Join(uniq(sortedCopy(use)), "\n"))
	}
	c.Floor("H.eval", "ColorTypes whose header was evaluated", evaluated, 3)

	// emitHuffmanRun forwards its table index unchanged.
	if fl := k.flow("H.use.forward", relJPEG, "Encoder", "emitHuffmanRun"); fl != nil {
		one := k.fn("H.use.forward", relJPEG, "Encoder", "emitHuffman")
		n, okF := 0, true
		assigned := false
		ast.Inspect(fl.F.Decl.Body, func(m ast.Node) bool {
			switch s := m.(type) {
			case *ast.CallExpr:
				if core.IsCallTo(fl.F.Info(), s, one) && len(s.Args) == 3 {
					n++
					if !fl.Is(fl.Param(1))(s.Args[1]) {
						okF = false
					}
				}
			case *ast.AssignStmt:
				for _, l := range s.Lhs {
					if fl.Is(fl.Param(1))(l) {
						assigned = true
					}
				}
			}
			return true
		})
		c.Check(n == 1 && okF && !assigned, "H.use.forward", fl.F.Name(), "emitHuffmanRun passes its whichHuffman parameter, unmodified, to emitHuffman (so the index computed in encodeBlock is the one looked up)", n, k.g.Pos(fl.F.Decl.Pos()))
	}

	// H.bound.mcu: len(buf) against the table-derived worst case of one AddN.
	if x.dhtOK && len(x.ctValues) > 0 {
		maxLen, maxCat := 0, 0
		for i := range x.dht {
			for s, cl := range x.dht[i].code {
				if int(cl[1]) > maxLen {
					maxLen = int(cl[1])
				}
				if int(s&15) > maxCat {
					maxCat = int(s & 15)
				}
			}
		}
		ks := c18SortedKeys(x.ctValues)
		nmax := ks[len(ks)-1]
		bitsMax := 7 + nmax*64*int64(maxLen+maxCat) + 7
		need := 2*((bitsMax+7)/8) + 2
		c.Info("H.bound.mcu", relJPEG+".Encoder.buf", fmt.Sprintf("len(buf)=%d, sufficient bound for one AddN=%d (Nmax=%d, longest code=%d, largest category=%d), largest header=%d", bufLen, need, nmax, maxLen, maxCat, maxHeader))
		c.Check(need <= bufLen, "H.bound.mcu", relJPEG+".Encoder.buf", "len(e.buf) is at least the table-derived worst case of one AddN call: 2·ceil((7 + Nmax·64·(longest code + largest category) + 7)/8) + 2 bytes (carry-in bits, one code and its category bits per coefficient for the largest MCU, the 7-bit flush, every byte stuffed, EOI). Assumes, does not check, encodeBlock's one-code-per-coefficient structure", 1,
			fmt.Sprintf("%s: len(buf) = %d, worst case = %d (Nmax=%d blocks, longest code %d bits, largest category %d); header needs %d", k.g.Pos(x.fBuf.Pos()), bufLen, need, nmax, maxLen, maxCat, maxHeader))
	}
}

func rhsOrNil(e ast.Expr) ast.Expr {
	if e == nil {
		return &ast.BadExpr{}
	}
	return e
}

func keysOf(m map[int]bool) []int {
	var out []int
	for k := range m {
		out = append(out, k)
	}
	sort.Ints(out)
	return out
}

func sortedCopy(s []string) []string {
	out := append([]string(nil), s...)
	sort.Strings(out)
	return out
}
