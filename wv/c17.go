package main

// C17 — literal-only LZMA/XZ (lib/litonlylzma). Structural rules only:
//   M1  prob.encodeBit ≅ prob.decodeBit   (E2 twins, plus K1 = the LZMA spec form)
//   M2  byteProbs.encodeByte ≅ decodeByte (E2)
//   M3  encodeUvarint ≅ decodeUvarint     (E2)
//   M4  encodeRaw ≅ decodeRaw context selection and probability initialisation
//   K2… LZMA/XZ framing constants by value (E3)       — c17_fmt.go
//   G   decoder totality guards on constant offsets   — c17_guard.go
// Round trip and conformance are value-level and are not claimed.

import (
	"fmt"
	"go/ast"
	"go/token"
	"go/types"

	"wv/core"
)

const relLzma = "lib/litonlylzma"

func init() {
	register("C17", core.Spec{
		Decides:    "for lib/litonlylzma: (M1) prob.encodeBit and prob.decodeBit carry the same range-coder model — threshold expression, probability and width update in the 0-arm and 1-arm, renormalisation test and shift — term by term, and each equals the LZMA form with probBits=11, adaptation shift 5, top value 1<<24, shift 8 (K1); (M2) encodeByte/decodeByte walk the same bit-tree recurrence (index from 1, index=index<<1|bit, slot probs[index], 8 steps, MSB first); (M3) encodeUvarint/decodeUvarint agree on 7-bit groups, the 0x80 continuation bit, LSB-first order, decoder limit 9 bytes; (M4) encodeRaw/decodeRaw use the same lc/lp/pb context expressions, array sizes, initial probability 1024, initial width 0xFFFFFFFF and 5-byte flush/prime; (K2–K4) the LZMA 13-byte header (0x5D = (pb*5+lp)*9+lc, dictionary bytes, 8-byte LE size), the XZ stream header (magic, flags, both header CRC-32s recomputed from the constant's own bytes), chunk control bytes and size fields, footer layout (CRC range, backward size, flags copy, 'YZ'), exclusive use of hash/crc32.ChecksumIEEE with little-endian serialisation, and 4-byte zero padding are the same constants in encoder and decoder; (K5.carry) rangeEncoder.shiftLow partitions the 33-bit low at exactly 0xFF00_0000 and 2^32 (decided on the sets of values its comparisons accept) and each part has the effect the carry arithmetic demands: emit head / head+1 and the pending run as 0xFF / 0x00, new head = bits [24,32), pending count 0 or +1, low' = (low mod 2^24) << 8, and nothing else writes that state; (K3.split, K3.choice) encodeXz's chunk loop consumes src front to back in chunks of 1..2^16 bytes, the LZMA payload is encodeRaw of the current chunk, and the compressed-vs-stored comparison selects the LZMA arm only when len(payload) fits the 16-bit size-1 field; (G) every constant-offset index/slice of a byte slice in the functions reachable from FileFormat.Decode is dominated by len() tests that imply it is in range",
		NotDecided: "lossless round trip, acceptance by xz / the Wuffs decoders, and the output-size bound are value-level and NOT decided; neither are the range coder's global invariant that a carry never reaches an already emitted byte (low + width <= 2^32 + …, a value argument), that the comparison picks the *smaller* encoding (INFO only), a lower bound on len(payload), the index record/backward-size/unpadded-size arithmetic, variable-offset slice accesses (listed as INFO, not claimed), encodeUvarint's behaviour for x >= 1<<63, or integer-conversion truncation. These are necessary structural conditions of the property, not a proof of it",
		Assumptions: []string{"go/types, go/cfg (x/tools v0.29.0) model Go faithfully",
			"twins are compared after normalisation: constants by value, operands by resolved object/field role, commutative operands sorted, compound assignments expanded, straight-line arms executed symbolically",
			"a function whose shape the extractor does not recognise fails as undecided",
			"the checker computes CRC-32/IEEE of bytes of the repository's header constant itself (a table computation on a constant, not an execution of the analysed code)"},
	}, runC17)
}

type c17 struct {
	k *gctx
	c *core.Ctx
}

func runC17(c *core.Ctx) {
	k := newG(c, "./"+relLzma)
	r := &c17{k: k, c: c}
	r.bitTwins()
	r.byteTwins()
	r.uvarintTwins()
	r.rawTwins()
	r.formatConsts()
	r.carry()       // K5.carry.*  (c17_carry.go)
	r.chunkChoice() // K3.split.*, K3.choice.* (c17_choice.go)
	r.guards()
	r.allocs() // D.alloc (c17_alloc.go)
}

// ---------------------------------------------------------------------------
// M1 / K1: prob.encodeBit ≅ prob.decodeBit

type bitModel struct {
	fl       *core.Flow
	x        *symx
	kW, kP   string // location keys of R.width and *p
	kB, kS   string // decoder: R.bits, R.src
	kL       string // encoder: R.low
	kRes     string // decoder: the named bit result
	arm      [2]symState
	armPos   [2]token.Pos
	condT    string // decoder: the value bits is compared with
	condBad  string // decoder: a recognised but wrong comparison
	condPos  token.Pos
	ren      symState
	renCond  string
	renPos   token.Pos
	renEff   symEffects
	retFirst string // decoder: first result of the final return
}

// extractBit recognises
//
//	[assignments]* ; if C {arm} else {arm} ; if width < TOP {renorm} ; [return]
//
// and executes the pieces symbolically. Initial symbols: W=R.width, P=*p,
// B=R.bits, S=R.src (decoder), L=R.low, BIT=bitValue parameter (encoder).
func (r *c17) extractBit(rule string, dec bool) *bitModel {
	name, st := "encodeBit", "rangeEncoder"
	if dec {
		name, st = "decodeBit", "rangeDecoder"
	}
	fl := r.k.flow(rule, relLzma, "prob", name)
	if fl == nil {
		return nil
	}
	anchor := fl.F.Name()
	und := func(pos token.Pos, why string) *bitModel {
		r.c.Undecided(rule, anchor, "the function has the recognised shape: assignments; if/else arms; renormalisation if; return", r.k.g.Pos(pos)+": "+why)
		return nil
	}
	x := newSymx(fl.F.Info())
	stObj := r.k.g.LookupObj(relLzma, st)
	for _, f := range []string{"width", "bits", "src", "low", "dst"} {
		if v := core.LookupField(stObj, f); v != nil {
			x.fields[v] = f
		}
	}
	recv, rp := fl.Recv(), fl.Param(0)
	if recv == nil || rp == nil || stObj == nil {
		return und(fl.F.Decl.Pos(), "receiver / range-coder parameter / struct type not found")
	}
	if pt, ok := rp.Type().(*types.Pointer); !ok || !types.Identical(pt.Elem(), stObj.Type()) {
		return und(fl.F.Decl.Pos(), "first parameter is not *"+st)
	}
	x.names[rp] = "R"
	m := &bitModel{fl: fl, x: x}
	R := x.oid(rp)
	m.kW, m.kP = R+".width", "*"+x.oid(recv)
	init := symState{m.kW: "W", m.kP: "P"}
	if dec {
		m.kB, m.kS = R+".bits", R+".src"
		init[m.kB], init[m.kS] = "B", "S"
		res := fl.F.Decl.Type.Results
		if res == nil || len(res.List) == 0 || len(res.List[0].Names) == 0 {
			return und(fl.F.Decl.Pos(), "the bit result is not a named result")
		}
		m.kRes = x.oid(fl.F.Info().Defs[res.List[0].Names[0]])
	} else {
		m.kL = R + ".low"
		init[m.kL] = "L"
		bp := fl.Param(1)
		if bp == nil {
			return und(fl.F.Decl.Pos(), "no bit parameter")
		}
		init[x.oid(bp)] = "BIT"
	}
	cur := init.clone()
	phase := 0
	for _, s := range fl.F.Decl.Body.List {
		switch v := s.(type) {
		case *ast.IfStmt:
			if v.Init != nil {
				return und(v.Pos(), "if with init statement")
			}
			switch {
			case phase == 0 && v.Else != nil:
				eb, ok := v.Else.(*ast.BlockStmt)
				be, okc := ast.Unparen(v.Cond).(*ast.BinaryExpr)
				if !ok || !okc {
					return und(v.Pos(), "arms are not if C {…} else {…} with a binary condition")
				}
				sx, sy, op := x.eval(be.X, cur), x.eval(be.Y, cur), be.Op
				if op == token.GTR || op == token.GEQ {
					sx, sy, op = sy, sx, mirror(op)
				}
				thenArm := -1
				if dec {
					switch {
					case op == token.LSS && sx == "B": // bits < T
						thenArm, m.condT = 0, sy
					case op == token.LEQ && sy == "B": // T <= bits
						thenArm, m.condT = 1, sx
					case op == token.LEQ && sx == "B": // bits <= T: off by one at bits == T
						thenArm, m.condT, m.condBad = 0, sy, "bits <= threshold (must be bits < threshold)"
					case op == token.LSS && sy == "B": // T < bits
						thenArm, m.condT, m.condBad = 1, sx, "threshold < bits (must be threshold <= bits)"
					}
				} else if (sx == "BIT" && sy == "#0") || (sx == "#0" && sy == "BIT") {
					switch op {
					case token.EQL:
						thenArm = 0
					case token.NEQ:
						thenArm = 1
					}
				}
				if thenArm < 0 {
					return und(v.Cond.Pos(), "arm condition not recognised: "+x.eval(v.Cond, cur))
				}
				m.condPos = v.Cond.Pos()
				blocks := [2]*ast.BlockStmt{v.Body, eb}
				for i, b := range blocks {
					a := i ^ thenArm // i==0 is the then-block
					stA := cur.clone()
					if err := x.exec(b.List, stA, false, nil); err != nil {
						return und(b.Pos(), "arm is not a straight-line assignment list: "+err.Error())
					}
					m.arm[a], m.armPos[a] = stA, b.Pos()
				}
				phase = 1
			case phase == 1 && v.Else == nil:
				m.renCond, m.renPos = x.eval(v.Cond, init), v.Pos()
				m.ren = init.clone()
				if err := x.exec(v.Body.List, m.ren, true, &m.renEff); err != nil {
					return und(v.Body.Pos(), "renormalisation body not recognised: "+err.Error())
				}
				for _, g := range m.renEff.guards {
					bad := false
					ast.Inspect(g, func(n ast.Node) bool {
						switch n.(type) {
						case *ast.AssignStmt, *ast.IncDecStmt:
							bad = true
						}
						return !bad
					})
					if bad {
						return und(g.Pos(), "guard inside the renormalisation body assigns state")
					}
				}
				phase = 2
			default:
				return und(v.Pos(), "unexpected if statement")
			}
		case *ast.ReturnStmt:
			if phase != 2 {
				return und(v.Pos(), "return before the renormalisation step")
			}
			if len(v.Results) > 0 {
				m.retFirst = x.loc(v.Results[0])
			} else {
				m.retFirst = m.kRes
			}
			phase = 3
		default:
			if phase != 0 {
				return und(s.Pos(), "statement between/after the arms and the renormalisation step")
			}
			if err := x.exec([]ast.Stmt{s}, cur, false, nil); err != nil {
				return und(s.Pos(), "prefix statement not recognised: "+err.Error())
			}
		}
	}
	if phase < 2 {
		return und(fl.F.Decl.Pos(), "arms or renormalisation step not found")
	}
	return m
}

func (r *c17) bitTwins() {
	c, g := r.c, r.k.g
	enc := r.extractBit("M1", false)
	dec := r.extractBit("M1", true)
	if enc == nil || dec == nil {
		return
	}
	ea, da := enc.fl.F.Name(), dec.fl.F.Name()
	both := ea + " ~ " + da
	// The threshold is the value the 0-arm stores into width.
	eT, dT := enc.arm[0][enc.kW], dec.arm[0][dec.kW]
	type term struct {
		id, what string
		e, d     string
		epos     token.Pos
		dpos     token.Pos
		spec     string
	}
	T := mk("mul", "conv:uint32(P)", mk("shr", "W", "#11"))
	terms := []term{
		{"threshold", "threshold = (width >> probBits) * prob (the value the 0-arm stores into width)", eT, dT, enc.armPos[0], dec.armPos[0], T},
		{"arm0.prob", "0-arm probability update p += (2048 - p) >> 5", enc.arm[0][enc.kP], dec.arm[0][dec.kP], enc.armPos[0], dec.armPos[0], mk("add", "P", mk("shr", mk("sub", "#2048", "P"), "#5"))},
		{"arm1.prob", "1-arm probability update p -= p >> 5", enc.arm[1][enc.kP], dec.arm[1][dec.kP], enc.armPos[1], dec.armPos[1], mk("sub", "P", mk("shr", "P", "#5"))},
		{"arm1.width", "1-arm width update width -= threshold", enc.arm[1][enc.kW], dec.arm[1][dec.kW], enc.armPos[1], dec.armPos[1], mk("sub", "W", T)},
		{"renorm.cond", "renormalisation test width < 1<<24", enc.renCond, dec.renCond, enc.renPos, dec.renPos, mk("lt", "W", "#16777216")},
		{"renorm.shift", "renormalisation shift width <<= 8", enc.ren[enc.kW], dec.ren[dec.kW], enc.renPos, dec.renPos, mk("shl", "W", "#8")},
	}
	n := 0
	for _, t := range terms {
		n++
		c.Check(t.e == t.d, "M1."+t.id, both, "encoder and decoder agree on the "+t.what+" (normalised effect on the same symbolic state)", 2,
			fmt.Sprintf("%s: encoder has %s\n%s: decoder has %s", g.Pos(t.epos), t.e, g.Pos(t.dpos), t.d))
		c.Check(t.e == t.spec, "K1.enc."+t.id, ea, "LZMA range coder constant form: "+t.what, 1,
			fmt.Sprintf("%s: found %s, LZMA form is %s", g.Pos(t.epos), t.e, t.spec))
		c.Check(t.d == t.spec, "K1.dec."+t.id, da, "LZMA range coder constant form: "+t.what, 1,
			fmt.Sprintf("%s: found %s, LZMA form is %s", g.Pos(t.dpos), t.d, t.spec))
	}
	c.Floor("M1", "model terms compared between encodeBit and decodeBit", n, 6)

	// Decoder side: arm selection and the code register.
	okc := dec.condBad == "" && dec.condT == dT && dec.arm[0][dec.kRes] == "#0" && dec.arm[1][dec.kRes] == "#1" && dec.retFirst == dec.kRes
	c.Check(okc, "M1.dec.select", da, "the decoder yields bit 0 exactly when bits < threshold (same threshold the 0-arm stores into width), bit 1 otherwise, and returns that bit", 3,
		fmt.Sprintf("%s: bits is compared with %s; threshold is %s; arm results %s/%s %s", g.Pos(dec.condPos), dec.condT, dT, dec.arm[0][dec.kRes], dec.arm[1][dec.kRes], dec.condBad))
	c.Check(dec.arm[0][dec.kB] == "B" && dec.arm[1][dec.kB] == mk("sub", "B", dT), "M1.dec.bits", da,
		"decoder code register: unchanged in the 0-arm, bits -= threshold in the 1-arm (mirror of the encoder's low += threshold)", 2,
		fmt.Sprintf("%s: 0-arm bits=%s; %s: 1-arm bits=%s", g.Pos(dec.armPos[0]), dec.arm[0][dec.kB], g.Pos(dec.armPos[1]), dec.arm[1][dec.kB]))
	c.Check(enc.arm[0][enc.kL] == "L" && enc.arm[1][enc.kL] == mk("add", "L", "conv:uint64("+eT+")"), "M1.enc.low", ea,
		"encoder interval base: unchanged in the 0-arm, low += threshold in the 1-arm", 2,
		fmt.Sprintf("%s: 0-arm low=%s; %s: 1-arm low=%s", g.Pos(enc.armPos[0]), enc.arm[0][enc.kL], g.Pos(enc.armPos[1]), enc.arm[1][enc.kL]))
	wantB := mk("or", "conv:uint32(idx(S,#0))", mk("shl", "B", "#8"))
	c.Check(dec.ren[dec.kB] == wantB && dec.ren[dec.kS] == "slice(S,#1,)" && len(dec.renEff.calls) == 0, "M1.dec.refill", da,
		"decoder renormalisation shifts bits by the same 8 as width, ors in exactly src[0] and consumes exactly one byte", 3,
		fmt.Sprintf("%s: bits=%s src=%s", g.Pos(dec.renPos), dec.ren[dec.kB], dec.ren[dec.kS]))
	shiftLow := g.LookupMethod(relLzma, "rangeEncoder", "shiftLow")
	okS := shiftLow != nil && len(enc.renEff.calls) == 1 && core.IsCallTo(enc.fl.F.Info(), enc.renEff.calls[0], shiftLow) &&
		enc.x.eval(core.RecvOf(enc.renEff.calls[0]), nil) == "R" && len(enc.renEff.guards) == 0 && enc.ren[enc.kL] == "L"
	c.Check(okS, "M1.enc.shiftlow", ea, "encoder renormalisation emits through exactly one rEnc.shiftLow() and touches low nowhere else", 1,
		fmt.Sprintf("%s: %d call statements in the renormalisation body", g.Pos(enc.renPos), len(enc.renEff.calls)))
}
