package main

// E12: a mini evaluator for the C subset used by the hand-written pure helpers
// of internal/cgen/base (fundamental-public.h, fundamental-private.h,
// io-private.h). It evaluates the helper's own *syntax tree* (core.CParseFile /
// core.CParseBody statement trees, expressions parsed here) over argument
// tuples that the contract table (c03_base.go) enumerates. Nothing of /repo is
// compiled or run: this is the C analogue of the operator-table interpreter of
// c02_tables.go.
//
// The model is parameterised by the width of size_t ("mini" = 8 bits, so that
// wrap-around cases lie inside the enumerated domain; 32 and 64 bits for spot
// values). Fixed-width types keep their real widths. Integer promotion follows
// C (types narrower than int become int) except that size_t is never promoted
// (the mini model is "a platform whose size_t is the narrowest unpromoted
// type"); the common type of two operands is the wider one, unsigned on a tie.
// Pointers are (buffer, offset) pairs; every dereference, memmove, memcpy and
// memset is range-checked against the buffer; pointer arithmetic itself is not
// checked (only accesses are). Anything outside the subset raises
// `unsupported`, which the caller turns into an Undecided obligation.

import (
	"fmt"
	"math/bits"
	"sort"
	"strconv"
	"strings"

	"wv/core"
)

// ---------------------------------------------------------------- types

const (
	ctInt = iota
	ctPtr
	ctStruct
	ctVoid
)

type ctype struct {
	kind   int
	name   string
	bits   int
	signed bool
	noProm bool // size_t / ptrdiff_t: exempt from promotion to int
	isBool bool
	elem   *ctype
	fields []cfield
}

type cfield struct {
	name string
	ty   *ctype
}

func (t *ctype) String() string { return t.name }

func (t *ctype) mask() uint64 {
	if t.bits >= 64 {
		return ^uint64(0)
	}
	return (uint64(1) << uint(t.bits)) - 1
}

func (t *ctype) field(name string) int {
	for i, f := range t.fields {
		if f.name == name {
			return i
		}
	}
	return -1
}

// ctref is a model-independent spelling of a type: base name + pointer depth.
type ctref struct {
	base string
	ptr  int
}

func (r ctref) String() string { return r.base + strings.Repeat("*", r.ptr) }

type cmodel struct {
	name     string
	sizeBits int
	types    map[string]*ctype
	ptrs     map[*ctype]*ctype
	tInt     *ctype
	tSize    *ctype
	tPtrdiff *ctype
	tU8      *ctype
	tVoid    *ctype
}

var cKnownTypeNames = map[string]bool{
	"uint8_t": true, "uint16_t": true, "uint32_t": true, "uint64_t": true,
	"int8_t": true, "int16_t": true, "int32_t": true, "int64_t": true,
	"size_t": true, "ptrdiff_t": true, "bool": true, "int": true, "unsigned": true, "char": true, "void": true,
	"wuffs_base__slice_u8": true, "wuffs_base__table_u8": true, "wuffs_base__io_buffer": true,
	"wuffs_base__io_buffer_meta": true, "wuffs_base__empty_struct": true,
	"__uint128_t": true, "long": true, "short": true, "float": true, "double": true,
}

func newCModel(name string, sizeBits int) *cmodel {
	m := &cmodel{name: name, sizeBits: sizeBits, types: map[string]*ctype{}, ptrs: map[*ctype]*ctype{}}
	in := func(n string, b int, s bool) *ctype {
		t := &ctype{kind: ctInt, name: n, bits: b, signed: s}
		m.types[n] = t
		return t
	}
	m.tU8 = in("uint8_t", 8, false)
	in("uint16_t", 16, false)
	in("uint32_t", 32, false)
	in("uint64_t", 64, false)
	in("int8_t", 8, true)
	in("int16_t", 16, true)
	in("int32_t", 32, true)
	in("int64_t", 64, true)
	m.tInt = in("int", 32, true)
	in("unsigned", 32, false)
	in("char", 8, true)
	b := in("bool", 8, false)
	b.isBool = true
	m.tSize = in("size_t", sizeBits, false)
	m.tSize.noProm = true
	m.tPtrdiff = in("ptrdiff_t", 64, true) // the mathematical difference; never narrower than any buffer used
	m.tPtrdiff.noProm = true
	m.tVoid = &ctype{kind: ctVoid, name: "void"}
	m.types["void"] = m.tVoid
	st := func(n string, fs ...cfield) *ctype {
		t := &ctype{kind: ctStruct, name: n, fields: fs}
		m.types[n] = t
		return t
	}
	// Layouts of the structs the helpers touch (fundamental-public.h WUFFS_BASE__SLICE /
	// WUFFS_BASE__TABLE, io-public.h): field names and types are part of the trusted base.
	sl := st("wuffs_base__slice_u8", cfield{"ptr", m.ptrTo(m.tU8)}, cfield{"len", m.tSize})
	st("wuffs_base__table_u8", cfield{"ptr", m.ptrTo(m.tU8)}, cfield{"width", m.tSize}, cfield{"height", m.tSize}, cfield{"stride", m.tSize})
	meta := st("wuffs_base__io_buffer_meta", cfield{"wi", m.tSize}, cfield{"ri", m.tSize}, cfield{"pos", m.types["uint64_t"]}, cfield{"closed", b})
	st("wuffs_base__io_buffer", cfield{"data", sl}, cfield{"meta", meta})
	st("wuffs_base__empty_struct", cfield{"private_impl", m.tU8})
	return m
}

func (m *cmodel) ptrTo(t *ctype) *ctype {
	if p, ok := m.ptrs[t]; ok {
		return p
	}
	p := &ctype{kind: ctPtr, name: t.name + "*", elem: t, bits: 64}
	m.ptrs[t] = p
	return p
}

func (m *cmodel) typ(r ctref) *ctype {
	t := m.types[r.base]
	if t == nil {
		panic(&cerr{kind: "unsupported", msg: "type " + r.base + " is outside the modelled subset"})
	}
	for k := 0; k < r.ptr; k++ {
		t = m.ptrTo(t)
	}
	return t
}

func (m *cmodel) sizeMax() uint64 { return m.tSize.mask() }

// ---------------------------------------------------------------- values and memory

type cbuf struct {
	id     int
	base   uint64
	size   int64
	data   []byte // nil: virtual buffer (ranges only)
	wmask  []bool
	rdLo   int64
	rdHi   int64
	wrLo   int64
	wrHi   int64
	nRead  int
	nWrite int
}

func (b *cbuf) noteRead(lo, hi int64) {
	if b.nRead == 0 || lo < b.rdLo {
		b.rdLo = lo
	}
	if b.nRead == 0 || hi > b.rdHi {
		b.rdHi = hi
	}
	b.nRead++
}

func (b *cbuf) noteWrite(lo, hi int64) {
	if b.nWrite == 0 || lo < b.wrLo {
		b.wrLo = lo
	}
	if b.nWrite == 0 || hi > b.wrHi {
		b.wrHi = hi
	}
	b.nWrite++
	if b.wmask != nil {
		for i := lo; i < hi; i++ {
			b.wmask[i] = true
		}
	}
}

type ccell struct {
	ty *ctype
	v  cval
}

type cval struct {
	ty     *ctype
	u      uint64
	buf    *cbuf
	off    int64
	cellp  *ccell
	fields []*ccell
	undef  bool
}

func (v cval) isNull() bool { return v.buf == nil && v.cellp == nil }

func (v cval) i64() int64 {
	t := v.ty
	if !t.signed || t.bits >= 64 {
		return int64(v.u)
	}
	sh := uint(64 - t.bits)
	return int64(v.u<<sh) >> sh
}

type cerr struct {
	kind string // unsupported | oob | ub | fuel
	msg  string
	line int
}

func (e *cerr) Error() string {
	if e.line > 0 {
		return fmt.Sprintf("%s (line %d): %s", e.kind, e.line, e.msg)
	}
	return e.kind + ": " + e.msg
}

// ---------------------------------------------------------------- expressions

type cexpr struct {
	op   string // lit id un pre post bin cond cast call idx dot arrow asg
	s    string
	u    uint64
	lty  string
	a    *cexpr
	b    *cexpr
	c    *cexpr
	args []*cexpr
	ty   ctref
	line int
}

type cxp struct {
	toks []core.CTok
	i    int
	err  string
}

func (p *cxp) peek() core.CTok {
	if p.i < len(p.toks) {
		return p.toks[p.i]
	}
	return core.CTok{}
}

func (p *cxp) is(s string) bool { return p.i < len(p.toks) && p.toks[p.i].Is(s) }

func (p *cxp) fail(msg string) *cexpr {
	if p.err == "" {
		p.err = fmt.Sprintf("line %d: %s near `%s`", p.peek().Line, msg, p.peek().Text)
	}
	p.i = len(p.toks)
	return &cexpr{op: "bad"}
}

func (p *cxp) expect(s string) {
	if !p.is(s) {
		p.fail("expected `" + s + "`")
		return
	}
	p.i++
}

// cParseTypeAt recognises `[const] T [const] (* [const])*` at toks[i].
func cParseTypeAt(toks []core.CTok, i int) (ctref, int, bool) {
	j := i
	skipQ := func() {
		for j < len(toks) && (toks[j].Is("const") || toks[j].Is("volatile") || toks[j].Is("struct")) {
			j++
		}
	}
	skipQ()
	if j >= len(toks) || toks[j].Kind != 'i' {
		return ctref{}, i, false
	}
	var r ctref
	switch {
	case toks[j].Is("unsigned"):
		r.base = "unsigned"
		j++
		if j < len(toks) && toks[j].Is("int") {
			j++
		} else if j < len(toks) && toks[j].Is("char") {
			r.base = "uint8_t"
			j++
		} else if j < len(toks) && (toks[j].Is("long") || toks[j].Is("short")) {
			r.base = "long" // unsupported on use
			j++
		}
	case cKnownTypeNames[toks[j].Text]:
		r.base = toks[j].Text
		j++
	default:
		return ctref{}, i, false
	}
	skipQ()
	for j < len(toks) && toks[j].Is("*") {
		r.ptr++
		j++
		skipQ()
	}
	return r, j, true
}

var cBinPrec = map[string]int{
	"*": 10, "/": 10, "%": 10, "+": 9, "-": 9, "<<": 8, ">>": 8,
	"<": 7, ">": 7, "<=": 7, ">=": 7, "==": 6, "!=": 6, "&": 5, "^": 4, "|": 3, "&&": 2, "||": 1,
}

var cAsgOps = map[string]bool{"=": true, "+=": true, "-=": true, "*=": true, "/=": true, "%=": true, "<<=": true, ">>=": true, "&=": true, "|=": true, "^=": true}

func (p *cxp) expr() *cexpr { return p.assign() }

func (p *cxp) assign() *cexpr {
	l := p.cond()
	t := p.peek()
	if t.Kind == 'p' && cAsgOps[t.Text] {
		p.i++
		r := p.assign()
		return &cexpr{op: "asg", s: t.Text, a: l, b: r, line: t.Line}
	}
	return l
}

func (p *cxp) cond() *cexpr {
	c := p.bin(1)
	if p.is("?") {
		ln := p.peek().Line
		p.i++
		a := p.expr()
		p.expect(":")
		b := p.cond()
		return &cexpr{op: "cond", a: c, b: a, c: b, line: ln}
	}
	return c
}

func (p *cxp) bin(minPrec int) *cexpr {
	l := p.unary()
	for {
		t := p.peek()
		if t.Kind != 'p' {
			break
		}
		prec := cBinPrec[t.Text]
		if prec == 0 || prec < minPrec {
			break
		}
		p.i++
		r := p.bin(prec + 1)
		l = &cexpr{op: "bin", s: t.Text, a: l, b: r, line: t.Line}
	}
	return l
}

func (p *cxp) unary() *cexpr {
	t := p.peek()
	if t.Kind == 'p' {
		switch t.Text {
		case "(":
			if p.i+1 < len(p.toks) {
				n := p.toks[p.i+1]
				if n.Kind == 'i' && (n.Is("const") || n.Is("unsigned") || n.Is("struct") || cKnownTypeNames[n.Text]) {
					if r, j, ok := cParseTypeAt(p.toks, p.i+1); ok && j < len(p.toks) && p.toks[j].Is(")") {
						p.i = j + 1
						a := p.unary()
						return &cexpr{op: "cast", ty: r, a: a, line: t.Line}
					}
				}
			}
		case "!", "~", "-", "+", "*", "&":
			p.i++
			a := p.unary()
			return &cexpr{op: "un", s: t.Text, a: a, line: t.Line}
		case "++", "--":
			p.i++
			a := p.unary()
			return &cexpr{op: "pre", s: t.Text, a: a, line: t.Line}
		}
	}
	if t.Is("sizeof") {
		return p.fail("sizeof is outside the modelled subset")
	}
	return p.postfix()
}

func (p *cxp) postfix() *cexpr {
	x := p.primary()
	for p.err == "" {
		t := p.peek()
		if t.Kind != 'p' {
			break
		}
		switch t.Text {
		case "(":
			p.i++
			var args []*cexpr
			if !p.is(")") {
				for {
					args = append(args, p.assign())
					if p.is(",") {
						p.i++
						continue
					}
					break
				}
			}
			p.expect(")")
			if x.op != "id" {
				return p.fail("call through an expression")
			}
			x = &cexpr{op: "call", s: x.s, args: args, line: t.Line}
		case "[":
			p.i++
			idx := p.expr()
			p.expect("]")
			x = &cexpr{op: "idx", a: x, b: idx, line: t.Line}
		case ".", "->":
			p.i++
			f := p.peek()
			if f.Kind != 'i' {
				return p.fail("field name expected")
			}
			p.i++
			op := "dot"
			if t.Text == "->" {
				op = "arrow"
			}
			x = &cexpr{op: op, a: x, s: f.Text, line: t.Line}
		case "++", "--":
			p.i++
			x = &cexpr{op: "post", s: t.Text, a: x, line: t.Line}
		default:
			return x
		}
	}
	return x
}

func (p *cxp) primary() *cexpr {
	t := p.peek()
	switch {
	case t.Kind == 'n':
		p.i++
		s := strings.ToLower(t.Text)
		if strings.ContainsAny(s, ".") || (!strings.HasPrefix(s, "0x") && strings.ContainsAny(s, "ep")) {
			return p.fail("floating literal")
		}
		suf := ""
		for len(s) > 0 && (s[len(s)-1] == 'u' || s[len(s)-1] == 'l') {
			suf = string(s[len(s)-1]) + suf
			s = s[:len(s)-1]
		}
		u, err := strconv.ParseUint(s, 0, 64)
		if err != nil {
			return p.fail("integer literal")
		}
		hex := strings.HasPrefix(s, "0x") || (len(s) > 1 && s[0] == '0')
		isU := strings.Contains(suf, "u")
		isL := strings.Contains(suf, "l")
		lty := ""
		switch {
		case !isU && !isL && u <= 0x7FFFFFFF:
			lty = "int"
		case !isL && u <= 0xFFFFFFFF && (isU || hex):
			lty = "unsigned"
		case !isU && u <= 0x7FFFFFFFFFFFFFFF:
			lty = "int64_t"
		default:
			lty = "uint64_t"
		}
		return &cexpr{op: "lit", u: u, lty: lty, line: t.Line}
	case t.Kind == 'i':
		p.i++
		return &cexpr{op: "id", s: t.Text, line: t.Line}
	case t.Is("("):
		p.i++
		x := p.expr()
		p.expect(")")
		return x
	}
	return p.fail("expression expected")
}

func cParseExpr(toks []core.CTok) (*cexpr, error) {
	p := &cxp{toks: toks}
	x := p.expr()
	if p.err == "" && p.i < len(p.toks) {
		p.fail("trailing tokens")
	}
	if p.err != "" {
		return nil, fmt.Errorf("%s", p.err)
	}
	return x, nil
}

// ---------------------------------------------------------------- statements

type cst struct {
	kind string // decl expr if while for return break continue block empty
	name string // decl
	ty   ctref  // decl
	x    *cexpr // decl init / expr / cond / return value
	init *cst
	post *cexpr
	body []*cst
	els  []*cst
	line int
}

func cSplitTop(toks []core.CTok, sep string) [][]core.CTok {
	var out [][]core.CTok
	depth, start := 0, 0
	for i, t := range toks {
		switch {
		case t.Is("(") || t.Is("[") || t.Is("{"):
			depth++
		case t.Is(")") || t.Is("]") || t.Is("}"):
			depth--
		case t.Is(sep) && depth == 0:
			out = append(out, toks[start:i])
			start = i + 1
		}
	}
	return append(out, toks[start:])
}

func cConvSimple(toks []core.CTok, line int) (*cst, error) {
	if len(toks) == 0 {
		return &cst{kind: "empty", line: line}, nil
	}
	if toks[0].Kind == 'i' && (toks[0].Is("const") || toks[0].Is("unsigned") || cKnownTypeNames[toks[0].Text]) {
		if r, j, ok := cParseTypeAt(toks, 0); ok && j < len(toks) && toks[j].Kind == 'i' && (j+1 == len(toks) || toks[j+1].Is("=")) {
			s := &cst{kind: "decl", name: toks[j].Text, ty: r, line: line}
			if j+1 < len(toks) {
				x, err := cParseExpr(toks[j+2:])
				if err != nil {
					return nil, err
				}
				s.x = x
			}
			return s, nil
		}
	}
	x, err := cParseExpr(toks)
	if err != nil {
		return nil, err
	}
	return &cst{kind: "expr", x: x, line: line}, nil
}

func cConvStmts(list []*core.CStmt) ([]*cst, error) {
	var out []*cst
	for _, s := range list {
		switch s.Kind {
		case "expr":
			n, err := cConvSimple(s.Toks, s.Line)
			if err != nil {
				return nil, err
			}
			out = append(out, n)
		case "block":
			b, err := cConvStmts(s.Body)
			if err != nil {
				return nil, err
			}
			out = append(out, &cst{kind: "block", body: b, line: s.Line})
		case "if", "while":
			x, err := cParseExpr(s.Toks)
			if err != nil {
				return nil, err
			}
			b, err := cConvStmts(s.Body)
			if err != nil {
				return nil, err
			}
			n := &cst{kind: s.Kind, x: x, body: b, line: s.Line}
			if s.Else != nil {
				e, err := cConvStmts(s.Else)
				if err != nil {
					return nil, err
				}
				n.els = e
			}
			out = append(out, n)
		case "for":
			parts := cSplitTop(s.Toks, ";")
			if len(parts) != 3 {
				return nil, fmt.Errorf("line %d: for header with %d clauses", s.Line, len(parts))
			}
			n := &cst{kind: "for", line: s.Line}
			in, err := cConvSimple(parts[0], s.Line)
			if err != nil {
				return nil, err
			}
			n.init = in
			if len(parts[1]) > 0 {
				x, err := cParseExpr(parts[1])
				if err != nil {
					return nil, err
				}
				n.x = x
			}
			if len(parts[2]) > 0 {
				x, err := cParseExpr(parts[2])
				if err != nil {
					return nil, err
				}
				n.post = x
			}
			b, err := cConvStmts(s.Body)
			if err != nil {
				return nil, err
			}
			n.body = b
			out = append(out, n)
		case "return":
			n := &cst{kind: "return", line: s.Line}
			if len(s.Toks) > 0 {
				x, err := cParseExpr(s.Toks)
				if err != nil {
					return nil, err
				}
				n.x = x
			}
			out = append(out, n)
		case "break", "continue":
			out = append(out, &cst{kind: s.Kind, line: s.Line})
		default:
			return nil, fmt.Errorf("line %d: statement kind `%s` is outside the modelled subset", s.Line, s.Kind)
		}
	}
	return out, nil
}

// ---------------------------------------------------------------- the library of parsed helpers

type cparam struct {
	name string
	ty   ctref
}

type cfuncDef struct {
	name   string
	file   string // base name of the header
	cf     *core.CFunc
	nDefs  int
	params []cparam
	ret    ctref
	perr   string
	bodies map[string][]*cst // by pre-processor assignment signature
	berrs  map[string]string
}

type cbaseLib struct {
	funcs   map[string]*cfuncDef
	aliases map[string]string // object-like macro whose body is one identifier
	files   []string
}

var cHeadNoise = map[string]bool{"static": true, "inline": true, "extern": true, "WUFFS_BASE__MAYBE_STATIC": true, "WUFFS_BASE__WARN_UNUSED_RESULT": true, "WUFFS_BASE__FORCE_INLINE": true}

func cLoadBaseLib(dir string, names []string, read func(string) ([]byte, error)) (*cbaseLib, error) {
	lib := &cbaseLib{funcs: map[string]*cfuncDef{}, aliases: map[string]string{}, files: names}
	for _, n := range names {
		path := dir + "/" + n
		src, err := read(path)
		if err != nil {
			return nil, err
		}
		cf := core.CParseFile(path, string(src))
		for _, t := range cf.Toks {
			if t.Kind == '#' && strings.HasPrefix(t.Text, "#define ") {
				var f []string
				for _, w := range strings.Fields(t.Text) {
					if w != "\\" {
						f = append(f, w)
					}
				}
				if len(f) == 3 && !strings.Contains(f[1], "(") && isCIdent(f[2]) {
					lib.aliases[f[1]] = f[2]
				}
			}
		}
		for _, fn := range cf.Funcs {
			if d, dup := lib.funcs[fn.Name]; dup {
				d.nDefs++
				continue
			}
			d := &cfuncDef{name: fn.Name, file: n, cf: fn, nDefs: 1, bodies: map[string][]*cst{}, berrs: map[string]string{}}
			// return type
			var head []core.CTok
			for _, t := range fn.Head {
				if !cHeadNoise[t.Text] {
					head = append(head, t)
				}
			}
			if r, j, ok := cParseTypeAt(head, 0); ok && j == len(head) {
				d.ret = r
			} else {
				d.perr = "return type `" + core.CText(fn.Head) + "` is outside the modelled subset"
			}
			// parameters
			if !(len(fn.Params) == 1 && fn.Params[0].Is("void")) && len(fn.Params) > 0 {
				for _, pt := range cSplitTop(fn.Params, ",") {
					r, j, ok := cParseTypeAt(pt, 0)
					if !ok || j != len(pt)-1 || pt[j].Kind != 'i' {
						d.perr = "parameter `" + core.CText(pt) + "` is outside the modelled subset"
						break
					}
					d.params = append(d.params, cparam{pt[j].Text, r})
				}
			}
			lib.funcs[fn.Name] = d
		}
	}
	return lib, nil
}

func isCIdent(s string) bool {
	if s == "" || (s[0] >= '0' && s[0] <= '9') {
		return false
	}
	for _, r := range s {
		if !(r == '_' || (r >= 'a' && r <= 'z') || (r >= 'A' && r <= 'Z') || (r >= '0' && r <= '9')) {
			return false
		}
	}
	return true
}

func (l *cbaseLib) resolve(name string) string {
	for k := 0; k < 4; k++ {
		if a, ok := l.aliases[name]; ok {
			name = a
			continue
		}
		break
	}
	return name
}

// cPPResolve keeps the tokens of the branches selected by `assign` (directive
// text → take the #if branch); unknown directives are recorded in seen and
// take the #else branch.
func cPPResolve(body []core.CTok, assign map[string]bool, seen map[string]bool) ([]core.CTok, error) {
	type frame struct {
		taken, parent bool // the #if branch is selected; tokens were live before the #if
	}
	var st []frame
	active := true
	var out []core.CTok
	for _, t := range body {
		if t.Kind != '#' {
			if active {
				out = append(out, t)
			}
			continue
		}
		d := t.Text
		switch {
		case strings.HasPrefix(d, "#if"):
			seen[d] = true
			st = append(st, frame{taken: assign[d], parent: active})
			active = active && assign[d]
		case strings.HasPrefix(d, "#elif"):
			return nil, fmt.Errorf("line %d: #elif inside a helper body is outside the modelled subset", t.Line)
		case strings.HasPrefix(d, "#else"):
			if len(st) == 0 {
				return nil, fmt.Errorf("line %d: #else without #if", t.Line)
			}
			f := st[len(st)-1]
			active = f.parent && !f.taken
		case strings.HasPrefix(d, "#endif"):
			if len(st) == 0 {
				return nil, fmt.Errorf("line %d: #endif without #if", t.Line)
			}
			active = st[len(st)-1].parent
			st = st[:len(st)-1]
		default:
			// #pragma, #define … inside a body: not expected
			if active && !strings.HasPrefix(d, "#pragma") {
				return nil, fmt.Errorf("line %d: directive `%s` inside a helper body", t.Line, d)
			}
		}
	}
	if len(st) != 0 {
		return nil, fmt.Errorf("unbalanced #if in a helper body")
	}
	return out, nil
}

func cAssignSig(assign map[string]bool) string {
	var ks []string
	for k, v := range assign {
		if v {
			ks = append(ks, k)
		}
	}
	sort.Strings(ks)
	return strings.Join(ks, "\x00")
}

// ---------------------------------------------------------------- evaluator

const (
	cOpMul = 1 << iota
	cOpDiv
	cOpMod
	cOpShl
	cOpShr
)

type ceval struct {
	m      *cmodel
	lib    *cbaseLib
	fuel   int
	ops    uint32
	maxLit uint64
	pp     map[string]bool
	ppSig  string
	ppSeen map[string]bool
	nbuf   int
	depth  int
	line   int
}

type cframe struct {
	vars map[string]*ccell
	fn   *cfuncDef
	ret  cval
}

func newCEval(m *cmodel, lib *cbaseLib, pp map[string]bool) *ceval {
	return &ceval{m: m, lib: lib, pp: pp, ppSig: cAssignSig(pp), ppSeen: map[string]bool{}}
}

func (e *ceval) bad(kind, format string, a ...interface{}) {
	panic(&cerr{kind: kind, msg: fmt.Sprintf(format, a...), line: e.line})
}

func (e *ceval) newBuf(size int64, withData bool) *cbuf {
	e.nbuf++
	b := &cbuf{id: e.nbuf, base: uint64(e.nbuf) << 44, size: size}
	if withData {
		b.data = make([]byte, size)
		b.wmask = make([]bool, size)
		for i := range b.data {
			b.data[i] = byte(0x11 + 7*i + 31*e.nbuf)
		}
	}
	return b
}

func (e *ceval) intVal(t *ctype, u uint64) cval {
	if t.isBool {
		if u != 0 {
			u = 1
		}
		return cval{ty: t, u: u}
	}
	return cval{ty: t, u: u & t.mask()}
}

func (e *ceval) zero(t *ctype, undef bool) cval {
	switch t.kind {
	case ctStruct:
		v := cval{ty: t}
		for _, f := range t.fields {
			v.fields = append(v.fields, &ccell{ty: f.ty, v: e.zero(f.ty, undef)})
		}
		return v
	}
	return cval{ty: t, undef: undef}
}

func (e *ceval) copyVal(v cval) cval {
	if v.ty != nil && v.ty.kind == ctStruct {
		out := cval{ty: v.ty}
		for _, f := range v.fields {
			out.fields = append(out.fields, &ccell{ty: f.ty, v: e.copyVal(f.v)})
		}
		return out
	}
	return v
}

func (e *ceval) checkDef(v cval) cval {
	if v.undef {
		e.bad("ub", "read of an uninitialised object")
	}
	return v
}

// conv converts v to type t as C assignment / cast does.
func (e *ceval) conv(v cval, t *ctype) cval {
	if v.ty == nil {
		e.bad("unsupported", "void value used")
	}
	switch t.kind {
	case ctInt:
		switch v.ty.kind {
		case ctInt:
			e.checkDef(v)
			if t.isBool {
				return e.intVal(t, v.u)
			}
			return e.intVal(t, uint64(v.i64()))
		case ctPtr:
			if t.isBool {
				if v.isNull() {
					return e.intVal(t, 0)
				}
				return e.intVal(t, 1)
			}
		}
	case ctPtr:
		switch v.ty.kind {
		case ctPtr:
			e.checkDef(v)
			out := v
			out.ty = t
			return out
		case ctInt:
			if v.u == 0 {
				return cval{ty: t}
			}
		}
	case ctStruct:
		if v.ty == t {
			return e.copyVal(v)
		}
	case ctVoid:
		return cval{ty: t}
	}
	e.bad("unsupported", "conversion from %s to %s", v.ty, t)
	return cval{}
}

func (e *ceval) promote(v cval) cval {
	if v.ty.kind != ctInt {
		return v
	}
	e.checkDef(v)
	if v.ty.bits < 32 && !v.ty.noProm {
		return e.intVal(e.m.tInt, uint64(v.i64()))
	}
	return v
}

func (e *ceval) common(a, b cval) *ctype {
	ta, tb := a.ty, b.ty
	switch {
	case ta.bits > tb.bits:
		return ta
	case tb.bits > ta.bits:
		return tb
	case !ta.signed:
		return ta
	case !tb.signed:
		return tb
	}
	return ta
}

func (e *ceval) truth(v cval) bool {
	e.checkDef(v)
	switch v.ty.kind {
	case ctInt:
		return v.u != 0
	case ctPtr:
		return !v.isNull()
	}
	e.bad("unsupported", "truth value of %s", v.ty)
	return false
}

func (e *ceval) boolVal(b bool) cval {
	if b {
		return cval{ty: e.m.tInt, u: 1}
	}
	return cval{ty: e.m.tInt}
}

func (e *ceval) addr(v cval) uint64 {
	if v.buf == nil {
		if v.cellp != nil {
			e.bad("unsupported", "address comparison of an object pointer")
		}
		return 0
	}
	return v.buf.base + uint64(v.off)
}

func (e *ceval) ptrAdd(p cval, n cval, neg bool) cval {
	e.checkDef(p)
	n = e.promote(n)
	d := n.i64()
	if !n.ty.signed {
		d = int64(n.u)
	}
	if neg {
		d = -d
	}
	if p.cellp != nil {
		if d != 0 {
			e.bad("unsupported", "arithmetic on a pointer to a single object")
		}
		return p
	}
	if p.buf == nil {
		if d != 0 {
			e.bad("ub", "arithmetic on a NULL pointer (NULL + %d)", d)
		}
		return p
	}
	if p.ty.elem == nil || p.ty.elem.kind != ctInt || p.ty.elem.bits != 8 {
		if p.ty.elem != nil && p.ty.elem.kind == ctVoid {
			e.bad("unsupported", "arithmetic on void*")
		}
		e.bad("unsupported", "pointer arithmetic on %s", p.ty)
	}
	out := p
	out.off = p.off + d
	return out
}

func (e *ceval) binop(op string, a, b cval) cval {
	if a.ty == nil || b.ty == nil {
		e.bad("unsupported", "void operand")
	}
	ak, bk := a.ty.kind, b.ty.kind
	if ak == ctPtr || bk == ctPtr {
		e.checkDef(a)
		e.checkDef(b)
		switch op {
		case "+":
			if ak == ctPtr && bk == ctInt {
				return e.ptrAdd(a, b, false)
			}
			if bk == ctPtr && ak == ctInt {
				return e.ptrAdd(b, a, false)
			}
		case "-":
			if ak == ctPtr && bk == ctInt {
				return e.ptrAdd(a, b, true)
			}
			if ak == ctPtr && bk == ctPtr {
				if a.cellp != nil || b.cellp != nil {
					e.bad("unsupported", "difference of object pointers")
				}
				if a.buf != b.buf {
					e.bad("ub", "difference of pointers into different objects")
				}
				return e.intVal(e.m.tPtrdiff, uint64(a.off-b.off))
			}
		case "==", "!=", "<", "<=", ">", ">=":
			pa, pb := a, b
			if ak == ctInt {
				if a.u != 0 {
					e.bad("unsupported", "pointer compared with a non-zero integer")
				}
				pa = cval{ty: b.ty}
			}
			if bk == ctInt {
				if b.u != 0 {
					e.bad("unsupported", "pointer compared with a non-zero integer")
				}
				pb = cval{ty: a.ty}
			}
			if pa.cellp != nil || pb.cellp != nil {
				switch op {
				case "==":
					return e.boolVal(pa.cellp == pb.cellp && pa.buf == pb.buf)
				case "!=":
					return e.boolVal(!(pa.cellp == pb.cellp && pa.buf == pb.buf))
				}
				e.bad("unsupported", "ordering of object pointers")
			}
			x, y := e.addr(pa), e.addr(pb)
			switch op {
			case "==":
				return e.boolVal(x == y)
			case "!=":
				return e.boolVal(x != y)
			case "<":
				return e.boolVal(x < y)
			case "<=":
				return e.boolVal(x <= y)
			case ">":
				return e.boolVal(x > y)
			case ">=":
				return e.boolVal(x >= y)
			}
		}
		e.bad("unsupported", "operator %s on %s and %s", op, a.ty, b.ty)
	}
	if ak != ctInt || bk != ctInt {
		e.bad("unsupported", "operator %s on %s and %s", op, a.ty, b.ty)
	}
	a, b = e.promote(a), e.promote(b)
	if op == "<<" || op == ">>" {
		t := a.ty
		var n uint64
		if b.ty.signed {
			if b.i64() < 0 {
				e.bad("ub", "shift by a negative count")
			}
			n = uint64(b.i64())
		} else {
			n = b.u
		}
		if n >= uint64(t.bits) {
			e.bad("ub", "shift of a %d-bit value by %d", t.bits, n)
		}
		if op == "<<" {
			e.ops |= cOpShl
			if t.signed {
				if a.i64() < 0 {
					e.bad("ub", "left shift of a negative value")
				}
				r := a.u << n
				if t.bits < 64 && r > t.mask()>>1 || t.bits == 64 && (bits.LeadingZeros64(a.u) <= int(n)) {
					e.bad("ub", "signed left shift overflows")
				}
				return e.intVal(t, r)
			}
			return e.intVal(t, a.u<<n)
		}
		e.ops |= cOpShr
		if t.signed {
			return e.intVal(t, uint64(a.i64()>>n))
		}
		return e.intVal(t, a.u>>n)
	}
	t := e.common(a, b)
	a, b = e.conv(a, t), e.conv(b, t)
	switch op {
	case "==":
		return e.boolVal(a.u == b.u)
	case "!=":
		return e.boolVal(a.u != b.u)
	case "<", "<=", ">", ">=":
		var lt, eq bool
		if t.signed {
			lt, eq = a.i64() < b.i64(), a.u == b.u
		} else {
			lt, eq = a.u < b.u, a.u == b.u
		}
		switch op {
		case "<":
			return e.boolVal(lt)
		case "<=":
			return e.boolVal(lt || eq)
		case ">":
			return e.boolVal(!lt && !eq)
		default:
			return e.boolVal(!lt)
		}
	case "&":
		return e.intVal(t, a.u&b.u)
	case "|":
		return e.intVal(t, a.u|b.u)
	case "^":
		return e.intVal(t, a.u^b.u)
	}
	if !t.signed {
		switch op {
		case "+":
			return e.intVal(t, a.u+b.u)
		case "-":
			return e.intVal(t, a.u-b.u)
		case "*":
			e.ops |= cOpMul
			return e.intVal(t, a.u*b.u)
		case "/":
			e.ops |= cOpDiv
			if b.u == 0 {
				e.bad("ub", "division by zero")
			}
			return e.intVal(t, a.u/b.u)
		case "%":
			e.ops |= cOpMod
			if b.u == 0 {
				e.bad("ub", "remainder by zero")
			}
			return e.intVal(t, a.u%b.u)
		}
	} else {
		x, y := a.i64(), b.i64()
		var r int64
		ovf := false
		switch op {
		case "+":
			r = x + y
			ovf = (y > 0 && r < x) || (y < 0 && r > x)
		case "-":
			r = x - y
			ovf = (y > 0 && r > x) || (y < 0 && r < x)
		case "*":
			e.ops |= cOpMul
			hi, lo := bits.Mul64(uint64(absI64(x)), uint64(absI64(y)))
			if hi != 0 || lo > 1<<63 {
				ovf = true
			}
			r = x * y
		case "/", "%":
			if op == "/" {
				e.ops |= cOpDiv
			} else {
				e.ops |= cOpMod
			}
			if y == 0 {
				e.bad("ub", "division by zero")
			}
			if x == -1<<63 && y == -1 {
				ovf = true
			} else if op == "/" {
				r = x / y
			} else {
				r = x % y
			}
		default:
			e.bad("unsupported", "operator %s", op)
		}
		if !ovf && t.bits < 64 {
			lim := int64(1) << uint(t.bits-1)
			ovf = r < -lim || r >= lim
		}
		if ovf {
			e.bad("ub", "signed overflow in %d %s %d", x, op, y)
		}
		return e.intVal(t, uint64(r))
	}
	e.bad("unsupported", "operator %s", op)
	return cval{}
}

func absI64(x int64) int64 {
	if x < 0 {
		return -x
	}
	return x
}

// cref is an lvalue: an object cell or one byte of a buffer.
type cref struct {
	cell *ccell
	buf  *cbuf
	off  int64
}

func (e *ceval) deref(p cval) cref {
	e.checkDef(p)
	if p.ty.kind != ctPtr {
		e.bad("unsupported", "dereference of %s", p.ty)
	}
	if p.cellp != nil {
		return cref{cell: p.cellp}
	}
	if p.buf == nil {
		e.bad("oob", "dereference of a NULL pointer")
	}
	if p.ty.elem == nil || p.ty.elem.kind != ctInt || p.ty.elem.bits != 8 {
		e.bad("unsupported", "dereference of %s into a byte buffer", p.ty)
	}
	return cref{buf: p.buf, off: p.off}
}

func (e *ceval) load(r cref) cval {
	if r.cell != nil {
		v := r.cell.v
		if v.ty == nil {
			v.ty = r.cell.ty
		}
		if v.ty.kind != ctStruct {
			e.checkDef(v)
		}
		return v
	}
	b := r.buf
	if r.off < 0 || r.off >= b.size {
		e.bad("oob", "read of byte %d of a %d-byte object", r.off, b.size)
	}
	b.noteRead(r.off, r.off+1)
	if b.data == nil {
		e.bad("unsupported", "data read from a range-only buffer")
	}
	return cval{ty: e.m.tU8, u: uint64(b.data[r.off])}
}

func (e *ceval) store(r cref, v cval) {
	if r.cell != nil {
		r.cell.v = e.conv(v, r.cell.ty)
		return
	}
	b := r.buf
	if r.off < 0 || r.off >= b.size {
		e.bad("oob", "write of byte %d of a %d-byte object", r.off, b.size)
	}
	b.noteWrite(r.off, r.off+1)
	if b.data != nil {
		b.data[r.off] = byte(e.conv(v, e.m.tU8).u)
	}
}

func (e *ceval) ref(f *cframe, x *cexpr) cref {
	e.line = x.line
	switch x.op {
	case "id":
		if c, ok := f.vars[x.s]; ok {
			return cref{cell: c}
		}
		e.bad("unsupported", "assignment to unknown identifier %s", x.s)
	case "dot":
		base := e.ref(f, x.a)
		if base.cell == nil || base.cell.ty.kind != ctStruct {
			e.bad("unsupported", "field %s of a non-struct", x.s)
		}
		i := base.cell.ty.field(x.s)
		if i < 0 {
			e.bad("unsupported", "unknown field %s.%s", base.cell.ty, x.s)
		}
		return cref{cell: base.cell.v.fields[i]}
	case "arrow":
		p := e.eval(f, x.a)
		base := e.deref(p)
		if base.cell == nil || base.cell.ty.kind != ctStruct {
			e.bad("unsupported", "field %s through a non-struct pointer", x.s)
		}
		i := base.cell.ty.field(x.s)
		if i < 0 {
			e.bad("unsupported", "unknown field %s->%s", base.cell.ty, x.s)
		}
		return cref{cell: base.cell.v.fields[i]}
	case "un":
		if x.s == "*" {
			return e.deref(e.eval(f, x.a))
		}
	case "idx":
		p := e.eval(f, x.a)
		i := e.eval(f, x.b)
		e.line = x.line
		return e.deref(e.ptrAdd(p, i, false))
	}
	e.bad("unsupported", "expression is not an lvalue of the modelled subset")
	return cref{}
}

func (e *ceval) refType(r cref) *ctype {
	if r.cell != nil {
		return r.cell.ty
	}
	return e.m.tU8
}

func (e *ceval) incdec(f *cframe, x *cexpr, post bool) cval {
	r := e.ref(f, x.a)
	old := e.load(r)
	one := cval{ty: e.m.tInt, u: 1}
	op := "+"
	if x.s == "--" {
		op = "-"
	}
	nv := e.binop(op, old, one)
	e.store(r, nv)
	if post {
		return old
	}
	return e.load(r)
}

var cNamedConst = map[string]struct {
	ty string
	u  uint64
}{
	"UINT8_MAX": {"int", 0xFF}, "UINT16_MAX": {"int", 0xFFFF}, "UINT32_MAX": {"unsigned", 0xFFFFFFFF}, "UINT64_MAX": {"uint64_t", ^uint64(0)},
	"true": {"int", 1}, "false": {"int", 0},
}

func (e *ceval) eval(f *cframe, x *cexpr) cval {
	e.line = x.line
	e.fuel--
	if e.fuel < 0 {
		e.bad("fuel", "evaluation does not finish within the step budget")
	}
	switch x.op {
	case "lit":
		if x.u > e.maxLit {
			e.maxLit = x.u
		}
		return cval{ty: e.m.types[x.lty], u: x.u}
	case "id":
		if c, ok := f.vars[x.s]; ok {
			return e.load(cref{cell: c})
		}
		switch x.s {
		case "NULL":
			return cval{ty: e.m.ptrTo(e.m.tVoid)}
		case "SIZE_MAX":
			return cval{ty: e.m.tSize, u: e.m.sizeMax()}
		}
		if k, ok := cNamedConst[x.s]; ok {
			return cval{ty: e.m.types[k.ty], u: k.u}
		}
		e.bad("unsupported", "unknown identifier %s", x.s)
	case "un":
		switch x.s {
		case "*":
			return e.load(e.deref(e.eval(f, x.a)))
		case "&":
			r := e.ref(f, x.a)
			if r.cell != nil {
				return cval{ty: e.m.ptrTo(r.cell.ty), cellp: r.cell}
			}
			return cval{ty: e.m.ptrTo(e.m.tU8), buf: r.buf, off: r.off}
		case "!":
			return e.boolVal(!e.truth(e.eval(f, x.a)))
		}
		a := e.eval(f, x.a)
		if a.ty == nil || a.ty.kind != ctInt {
			e.bad("unsupported", "unary %s on a non-integer", x.s)
		}
		a = e.promote(a)
		switch x.s {
		case "+":
			return a
		case "~":
			return e.intVal(a.ty, ^a.u)
		case "-":
			if a.ty.signed {
				if a.i64() == -1<<uint(a.ty.bits-1) {
					e.bad("ub", "negation overflows")
				}
				return e.intVal(a.ty, uint64(-a.i64()))
			}
			return e.intVal(a.ty, -a.u)
		}
	case "pre":
		return e.incdec(f, x, false)
	case "post":
		return e.incdec(f, x, true)
	case "bin":
		switch x.s {
		case "&&":
			if !e.truth(e.eval(f, x.a)) {
				return e.boolVal(false)
			}
			return e.boolVal(e.truth(e.eval(f, x.b)))
		case "||":
			if e.truth(e.eval(f, x.a)) {
				return e.boolVal(true)
			}
			return e.boolVal(e.truth(e.eval(f, x.b)))
		}
		a := e.eval(f, x.a)
		b := e.eval(f, x.b)
		e.line = x.line
		return e.binop(x.s, a, b)
	case "cond":
		if e.truth(e.eval(f, x.a)) {
			v := e.eval(f, x.b)
			return e.condType(f, v, x.c)
		}
		v := e.eval(f, x.c)
		return e.condType(f, v, x.b)
	case "cast":
		v := e.eval(f, x.a)
		e.line = x.line
		return e.conv(v, e.m.typ(x.ty))
	case "call":
		return e.call(f, x)
	case "idx", "dot", "arrow":
		if x.op == "dot" {
			// rvalue struct (e.g. a call result): pick the field without needing an lvalue
			if x.a.op == "call" {
				v := e.eval(f, x.a)
				if v.ty == nil || v.ty.kind != ctStruct || v.ty.field(x.s) < 0 {
					e.bad("unsupported", "field %s of a call result", x.s)
				}
				return e.load(cref{cell: v.fields[v.ty.field(x.s)]})
			}
		}
		return e.load(e.ref(f, x))
	case "asg":
		r := e.ref(f, x.a)
		v := e.eval(f, x.b)
		e.line = x.line
		if x.s != "=" {
			old := e.load(r)
			v = e.binop(strings.TrimSuffix(x.s, "="), old, v)
		}
		e.store(r, v)
		return e.load(r)
	}
	e.bad("unsupported", "expression form `%s %s`", x.op, x.s)
	return cval{}
}

// condType gives the selected arm of ?: the C result type when both arms are
// integers (usual arithmetic conversions); the other arm is not evaluated, its
// type is taken from a literal / cast / variable when that is syntactically evident.
func (e *ceval) condType(f *cframe, v cval, other *cexpr) cval {
	if v.ty == nil || v.ty.kind != ctInt {
		return v
	}
	var ot *ctype
	switch other.op {
	case "lit":
		ot = e.m.types[other.lty]
	case "cast":
		ot = e.m.typ(other.ty)
	case "id":
		if c, ok := f.vars[other.s]; ok {
			ot = c.ty
		}
	}
	pv := e.promote(v)
	if ot == nil || ot.kind != ctInt {
		return pv
	}
	po := e.promote(cval{ty: ot})
	return e.conv(pv, e.common(pv, po))
}

func (e *ceval) rangeCheck(what string, p cval, n int64, write bool) (b *cbuf, off int64) {
	if p.buf == nil {
		e.bad("oob", "%s through a NULL pointer (%d bytes)", what, n)
	}
	if p.off < 0 || p.off+n > p.buf.size || p.off+n < p.off {
		e.bad("oob", "%s of bytes [%d, %d) of a %d-byte object", what, p.off, p.off+n, p.buf.size)
	}
	if write {
		p.buf.noteWrite(p.off, p.off+n)
	} else {
		p.buf.noteRead(p.off, p.off+n)
	}
	return p.buf, p.off
}

func (e *ceval) builtin(f *cframe, x *cexpr) (cval, bool) {
	switch x.s {
	case "memmove", "memcpy":
		if len(x.args) != 3 {
			e.bad("unsupported", "%s with %d arguments", x.s, len(x.args))
		}
		d, s := e.eval(f, x.args[0]), e.eval(f, x.args[1])
		nv := e.conv(e.eval(f, x.args[2]), e.m.tSize)
		e.line = x.line
		if d.ty.kind != ctPtr || s.ty.kind != ctPtr {
			e.bad("unsupported", "%s of non-pointers", x.s)
		}
		n := int64(nv.u)
		if nv.u == 0 {
			return d, true
		}
		if nv.u > 1<<40 {
			e.bad("oob", "%s of %d bytes", x.s, nv.u)
		}
		switch {
		case d.cellp == nil && s.cellp == nil:
			sb, so := e.rangeCheck(x.s+" source read", s, n, false)
			db, do := e.rangeCheck(x.s+" destination write", d, n, true)
			if x.s == "memcpy" && sb == db && so < do+n && do < so+n {
				e.bad("ub", "memcpy of overlapping ranges [%d,%d) -> [%d,%d)", so, so+n, do, do+n)
			}
			if sb.data != nil && db.data != nil {
				copy(db.data[do:do+n], append([]byte(nil), sb.data[so:so+n]...))
			} else if db.data != nil {
				e.bad("unsupported", "copy from a range-only buffer into a data buffer")
			}
		case d.cellp != nil && s.cellp == nil:
			c := d.cellp
			if c.ty.kind != ctInt || int64(c.ty.bits/8) < n {
				e.bad("oob", "%s of %d bytes into an object of type %s", x.s, n, c.ty)
			}
			sb, so := e.rangeCheck(x.s+" source read", s, n, false)
			if sb.data == nil {
				e.bad("unsupported", "data read from a range-only buffer")
			}
			var u uint64
			for k := int64(0); k < n; k++ {
				u |= uint64(sb.data[so+k]) << uint(8*k) // little-endian host (the variant is documented as LE-only)
			}
			c.v = e.intVal(c.ty, u)
		case d.cellp == nil && s.cellp != nil:
			c := s.cellp
			if c.ty.kind != ctInt || int64(c.ty.bits/8) < n {
				e.bad("oob", "%s of %d bytes out of an object of type %s", x.s, n, c.ty)
			}
			v := e.load(cref{cell: c})
			db, do := e.rangeCheck(x.s+" destination write", d, n, true)
			if db.data != nil {
				for k := int64(0); k < n; k++ {
					db.data[do+k] = byte(v.u >> uint(8*k))
				}
			}
		default:
			e.bad("unsupported", "%s between two objects", x.s)
		}
		return d, true
	case "memset":
		if len(x.args) != 3 {
			e.bad("unsupported", "memset with %d arguments", len(x.args))
		}
		d := e.eval(f, x.args[0])
		bv := e.conv(e.eval(f, x.args[1]), e.m.tU8)
		nv := e.conv(e.eval(f, x.args[2]), e.m.tSize)
		e.line = x.line
		if nv.u == 0 {
			return d, true
		}
		if d.ty.kind != ctPtr || d.cellp != nil {
			e.bad("unsupported", "memset of an object")
		}
		if nv.u > 1<<40 {
			e.bad("oob", "memset of %d bytes", nv.u)
		}
		db, do := e.rangeCheck("memset write", d, int64(nv.u), true)
		if db.data != nil {
			for k := int64(0); k < int64(nv.u); k++ {
				db.data[do+k] = byte(bv.u)
			}
		}
		return d, true
	case "WUFFS_BASE__LIKELY", "WUFFS_BASE__UNLIKELY":
		if len(x.args) != 1 {
			e.bad("unsupported", "%s arity", x.s)
		}
		return e.boolVal(e.truth(e.eval(f, x.args[0]))), true
	case "__builtin_expect":
		if len(x.args) != 2 {
			e.bad("unsupported", "%s arity", x.s)
		}
		return e.eval(f, x.args[0]), true
	case "_byteswap_ushort", "_byteswap_ulong", "_byteswap_uint64":
		if len(x.args) != 1 {
			e.bad("unsupported", "%s arity", x.s)
		}
		v := e.eval(f, x.args[0])
		switch x.s {
		case "_byteswap_ushort":
			t := e.m.types["uint16_t"]
			return e.intVal(t, uint64(bits.ReverseBytes16(uint16(e.conv(v, t).u)))), true
		case "_byteswap_ulong":
			t := e.m.types["uint32_t"]
			return e.intVal(t, uint64(bits.ReverseBytes32(uint32(e.conv(v, t).u)))), true
		}
		t := e.m.types["uint64_t"]
		return e.intVal(t, bits.ReverseBytes64(e.conv(v, t).u)), true
	}
	return cval{}, false
}

func (e *ceval) call(f *cframe, x *cexpr) cval {
	if v, ok := e.builtin(f, x); ok {
		return v
	}
	name := e.lib.resolve(x.s)
	d := e.lib.funcs[name]
	if d == nil {
		e.bad("unsupported", "call of %s, which is not a function of the modelled base files", x.s)
	}
	var args []cval
	for _, a := range x.args {
		args = append(args, e.eval(f, a))
	}
	e.line = x.line
	return e.callDef(d, args)
}

func (e *ceval) body(d *cfuncDef) []*cst {
	if b, ok := d.bodies[e.ppSig]; ok {
		if msg := d.berrs[e.ppSig]; msg != "" {
			panic(&cerr{kind: "unsupported", msg: d.name + ": " + msg})
		}
		for k := range d.ppDirectives() {
			e.ppSeen[k] = true
		}
		return b
	}
	fail := func(msg string) {
		d.bodies[e.ppSig] = nil
		d.berrs[e.ppSig] = msg
		panic(&cerr{kind: "unsupported", msg: d.name + ": " + msg})
	}
	if d.perr != "" {
		fail(d.perr)
	}
	if d.nDefs != 1 {
		fail(fmt.Sprintf("%d definitions of the function in the base files (conditional definitions are not modelled)", d.nDefs))
	}
	toks, err := cPPResolve(d.cf.Body, e.pp, e.ppSeen)
	if err != nil {
		fail(err.Error())
	}
	stmts, err := core.CParseBody(toks)
	if err != nil {
		fail(err.Error())
	}
	b, err := cConvStmts(stmts)
	if err != nil {
		fail(err.Error())
	}
	d.bodies[e.ppSig] = b
	return b
}

func (d *cfuncDef) ppDirectives() map[string]bool {
	out := map[string]bool{}
	for _, t := range d.cf.Body {
		if t.Kind == '#' && strings.HasPrefix(t.Text, "#if") {
			out[t.Text] = true
		}
	}
	return out
}

func (e *ceval) callDef(d *cfuncDef, args []cval) cval {
	e.depth++
	if e.depth > 16 {
		e.bad("unsupported", "call depth")
	}
	defer func() { e.depth-- }()
	body := e.body(d)
	if len(args) != len(d.params) {
		e.bad("unsupported", "%s called with %d arguments, has %d parameters", d.name, len(args), len(d.params))
	}
	fr := &cframe{vars: map[string]*ccell{}, fn: d}
	for i, p := range d.params {
		t := e.m.typ(p.ty)
		fr.vars[p.name] = &ccell{ty: t, v: e.conv(args[i], t)}
	}
	ctl := e.exec(fr, body)
	rt := e.m.typ(d.ret)
	if rt.kind == ctVoid {
		return cval{ty: rt}
	}
	if ctl != cCtlReturn {
		e.bad("ub", "%s falls off its end without returning a value", d.name)
	}
	return fr.ret
}

const (
	cCtlNone = iota
	cCtlBreak
	cCtlContinue
	cCtlReturn
)

func (e *ceval) exec(f *cframe, list []*cst) int {
	for _, s := range list {
		e.line = s.line
		e.fuel--
		if e.fuel < 0 {
			e.bad("fuel", "evaluation does not finish within the step budget")
		}
		switch s.kind {
		case "empty":
		case "decl":
			t := e.m.typ(s.ty)
			c := &ccell{ty: t, v: e.zero(t, true)}
			if s.x != nil {
				c.v = e.conv(e.eval(f, s.x), t)
			}
			f.vars[s.name] = c
		case "expr":
			e.eval(f, s.x)
		case "block":
			if ctl := e.exec(f, s.body); ctl != cCtlNone {
				return ctl
			}
		case "if":
			var ctl int
			if e.truth(e.eval(f, s.x)) {
				ctl = e.exec(f, s.body)
			} else if s.els != nil {
				ctl = e.exec(f, s.els)
			}
			if ctl != cCtlNone {
				return ctl
			}
		case "while", "for":
			if s.kind == "for" && s.init != nil {
				if ctl := e.exec(f, []*cst{s.init}); ctl != cCtlNone {
					return ctl
				}
			}
			for {
				if s.x != nil && !e.truth(e.eval(f, s.x)) {
					break
				}
				ctl := e.exec(f, s.body)
				if ctl == cCtlBreak {
					break
				}
				if ctl == cCtlReturn {
					return ctl
				}
				if s.post != nil {
					e.eval(f, s.post)
				}
				e.fuel--
				if e.fuel < 0 {
					e.bad("fuel", "loop does not finish within the step budget")
				}
			}
		case "return":
			if s.x != nil {
				v := e.eval(f, s.x)
				e.line = s.line
				f.ret = e.conv(v, e.m.typ(f.fn.ret))
			}
			return cCtlReturn
		case "break":
			return cCtlBreak
		case "continue":
			return cCtlContinue
		default:
			e.bad("unsupported", "statement kind %s", s.kind)
		}
	}
	return cCtlNone
}

// run evaluates one call of a library function and converts panics of the
// evaluator into an error value.
func (e *ceval) run(name string, args ...cval) (ret cval, err *cerr) {
	defer func() {
		if r := recover(); r != nil {
			if ce, ok := r.(*cerr); ok {
				err = ce
				return
			}
			panic(r)
		}
	}()
	e.fuel = 20000
	e.depth = 0
	d := e.lib.funcs[e.lib.resolve(name)]
	if d == nil {
		return cval{}, &cerr{kind: "unsupported", msg: "function " + name + " not found in " + strings.Join(e.lib.files, ", ")}
	}
	return e.callDef(d, args), nil
}
