package main

import (
	"fmt"
	"go/ast"
	"go/token"
	"go/types"
	"strings"

	"wv/core"
)

func init() {
	register("C12", core.Spec{
		Decides:     "a narrow 'nothing dropped, nothing invented' clause for both formatters, on every control-flow path. lang/render.Render: every token of a line has its text (tm.ByID, or appendNum for numerals) appended to the line buffer before the next token is considered, including the name tokens in front of an aligned colon; the token list of a line is only ever shortened by trailing semicolons or by the already-emitted name prefix; the only things appended to the buffer are token text, single spaces/newlines, indentation and comments; and every non-empty line buffer is written to the output (error checked) before it is reset. lib/dumbindent.FormatBytes: every byte appended to the output is a sub-slice of the input line being processed, an indentation/newline constant, or comes from handleRaw copying the input through; every non-blank line is appended followed by a newline before the next line is taken. D3.* — dumbindent's cursors (src, line, lineLength and the output cursor) stay in step on every path, by a forward must-dataflow on go/cfg: every src[lineLength-len(rest):] denotes the byte where rest starts, handleRaw takes over exactly where the last append stopped and re-binds src/line/lineLength together, line is only advanced past bytes that were appended, handleRaw splits its argument at one index; R8–R11 — every index of comments below len(comments) is passed to appendComment and written (loop bounds, unit step, flush before each token line, the line's own comment, no success return before the trailing flush)",
		NotDecided:  "that spacing decisions keep tokens apart (tight-left/right tables), numeric literal re-grouping in appendNum, what appendComment does with a comment's text, idempotence, and — for dumbindent — termination as such, the lexing decisions (what counts as a comment, string or preprocessor line) and the indentation amounts. Token preservation and idempotence as such are functions of run-time text and remain undecided",
		Assumptions: []string{"go/types, go/cfg", "a token's text is exactly tm.ByID(tok.ID)", "source lines are numbered from 1 (lang/token.Tokenize), so comments[0] is empty", "positions in dumbindent are only computed from len(): a nil slice returned by skipCooked counts as the empty suffix at the end of the line"},
	}, runC12)
}

func runC12(c *core.Ctx) {
	k := newG(c, "./lang/render", "./lib/dumbindent", "./lang/token")
	runC12Render(k)
	runC12Comments(k)
	runC12Indent(k)
	runC12Cursor(k)
	runC12More(k)
	runC12Num(k)
	runC12Opts(k)
}

// appendTo: n is `dst = append(dst, X[...])` or `dst = f(dst, …)`; returns the call.
func assignOf(fl *core.Flow, n ast.Node, obj types.Object) (*ast.CallExpr, ast.Expr, bool) {
	as, ok := n.(*ast.AssignStmt)
	if !ok {
		return nil, nil, false
	}
	for i, l := range as.Lhs {
		if fl.Obj(l) == obj {
			if len(as.Rhs) == len(as.Lhs) {
				call, _ := ast.Unparen(as.Rhs[i]).(*ast.CallExpr)
				return call, as.Rhs[i], true
			}
			if len(as.Rhs) == 1 {
				call, _ := ast.Unparen(as.Rhs[0]).(*ast.CallExpr)
				return call, as.Rhs[0], true
			}
		}
	}
	return nil, nil, false
}

func isBuiltinCall(call *ast.CallExpr, name string) bool {
	if call == nil {
		return false
	}
	id, ok := ast.Unparen(call.Fun).(*ast.Ident)
	return ok && id.Name == name
}

func runC12Render(k *gctx) {
	c := k.c
	fl := k.flow("R", "lang/render", "", "Render")
	if fl == nil {
		return
	}
	info := fl.F.Info()
	name := fl.F.Name()
	// buf: the []byte local that is passed to w.Write
	w := fl.Param(0)
	var buf types.Object
	ast.Inspect(fl.F.Decl.Body, func(m ast.Node) bool {
		if call, ok := m.(*ast.CallExpr); ok && nameIs(fl, call, "Write") && fl.Is(w)(core.RecvOf(call)) && len(call.Args) == 1 {
			if o := fl.Obj(call.Args[0]); o != nil {
				if _, isLocal := o.(*types.Var); isLocal && o.Parent() != o.Pkg().Scope() {
					buf = o
				}
			}
		}
		return true
	})
	if buf == nil {
		c.Undecided("R", name, "the line buffer written to the output", "not found")
		return
	}
	byID := func(tokVar types.Object) core.ExprPred {
		return fl.Denotes(func(e ast.Expr) bool {
			call, ok := ast.Unparen(e).(*ast.CallExpr)
			if !ok || !nameIs(fl, call, "ByID") || len(call.Args) != 1 {
				return false
			}
			sel, ok := ast.Unparen(call.Args[0]).(*ast.SelectorExpr)
			return ok && sel.Sel.Name == "ID" && fl.Obj(sel.X) == tokVar
		})
	}
	emits := func(tokVar types.Object) func(ast.Node) bool {
		return func(n ast.Node) bool {
			call, _, ok := assignOf(fl, n, buf)
			if !ok || call == nil {
				return false
			}
			if isBuiltinCall(call, "append") && len(call.Args) == 2 && fl.Obj(call.Args[0]) == buf && call.Ellipsis.IsValid() && byID(tokVar)(call.Args[1]) {
				return true
			}
			return nameIs(fl, call, "appendNum") && len(call.Args) == 2 && fl.Obj(call.Args[0]) == buf && byID(tokVar)(call.Args[1])
		}
	}
	// token loops: ranges whose value variable is used as tok.ID
	var loops []*ast.RangeStmt
	ast.Inspect(fl.F.Decl.Body, func(m ast.Node) bool {
		if rs, ok := m.(*ast.RangeStmt); ok && rs.Value != nil {
			if tv := info.TypeOf(rs.Value); tv != nil && strings.HasSuffix(tv.String(), "token.Token") {
				loops = append(loops, rs)
			}
		}
		return true
	})
	c.Floor("R1", "loops over a line's tokens in Render", len(loops), 2)
	for _, rs := range loops {
		tokVar := fl.Obj(rs.Value)
		k.mustPass("R1.emit", name+"[range "+core.Src(k.g.Fset, rs.X)+"]", "every token of the line has its text appended to the line buffer before the next token is taken", fl, core.Query{
			Region: core.RegionOf(rs.Body), FallOut: true, Exit: fl.SuccessReturn,
			Events: []core.Event{{Node: emits(tokVar)}}})
	}
	// the token list of a line is only shortened by trailing semicolons or by the emitted prefix
	var lineToks types.Object
	for _, rs := range loops {
		if o := fl.Obj(rs.X); o != nil {
			lineToks = o
		}
	}
	if lineToks == nil {
		c.Undecided("R6", name, "the line's token list variable", "not found")
	} else {
		var bad []string
		n := 0
		ast.Inspect(fl.F.Decl.Body, func(m ast.Node) bool {
			as, ok := m.(*ast.AssignStmt)
			if !ok {
				return true
			}
			for i, l := range as.Lhs {
				if fl.Obj(l) != lineToks || i >= len(as.Rhs) {
					continue
				}
				n++
				se, ok := ast.Unparen(as.Rhs[i]).(*ast.SliceExpr)
				if !ok {
					bad = append(bad, k.g.Pos(as.Pos())+": reassigned to something other than a slice of tokens")
					continue
				}
				switch {
				case fl.Obj(se.X) != lineToks:
					// the initial `src[:i]`
				case se.Low == nil && se.High != nil:
					// [:len-1] must be under a test that the last token is a semicolon
					path := core.PathTo(fl.F.Decl.Body, as)
					ok := false
					for _, pn := range path {
						var cond ast.Expr
						switch x := pn.(type) {
						case *ast.ForStmt:
							cond = x.Cond
						case *ast.IfStmt:
							cond = x.Cond
						}
						if cond != nil && strings.Contains(core.SrcFull(k.g.Fset, cond), "IDSemicolon") {
							for _, p := range flattenAnd(cond) {
								if be, isb := ast.Unparen(p).(*ast.BinaryExpr); isb && be.Op == token.EQL {
									if sel, iss := ast.Unparen(be.X).(*ast.SelectorExpr); iss && sel.Sel.Name == "ID" && core.SameConst(info, be.Y, k.g.LookupObj("lang/token", "IDSemicolon")) {
										ok = true
									}
								}
							}
						}
					}
					if !ok {
						bad = append(bad, k.g.Pos(as.Pos())+": tokens are dropped from the end of the line without testing that they are semicolons")
					}
				case se.Low != nil && se.High == nil:
					// [colon:] — the dropped prefix must have been emitted by a preceding token loop over [:colon]
					ok := false
					for _, rs := range loops {
						if s2, isS := ast.Unparen(rs.X).(*ast.SliceExpr); isS && fl.Obj(s2.X) == lineToks && s2.Low == nil && s2.High != nil &&
							core.SrcFull(k.g.Fset, s2.High) == core.SrcFull(k.g.Fset, se.Low) && rs.End() < as.Pos() {
							ok = true
						}
					}
					if !ok {
						bad = append(bad, k.g.Pos(as.Pos())+": a prefix of the line's tokens is dropped without having been emitted")
					}
				default:
					bad = append(bad, k.g.Pos(as.Pos())+": unrecognised reslicing of the line's tokens")
				}
			}
			return true
		})
		c.Check(len(bad) == 0 && n >= 3, "R6.shrink", name, "a line's token list is only shortened by trailing semicolons or by a prefix that was just emitted", n, strings.Join(bad, "\n"))
	}
	// what may be appended to the buffer
	var bad []string
	nApp := 0
	ast.Inspect(fl.F.Decl.Body, func(m ast.Node) bool {
		call, rhs, ok := assignOf(fl, m, buf)
		if !ok {
			return true
		}
		nApp++
		pos := k.g.Pos(m.Pos())
		switch {
		case call == nil:
			if se, isS := ast.Unparen(rhs).(*ast.SliceExpr); isS && fl.Obj(se.X) == buf {
				return true // buf[:0]
			}
			bad = append(bad, pos+": buffer assigned from "+core.Src(k.g.Fset, rhs))
		case isBuiltinCall(call, "make"):
		case isBuiltinCall(call, "append") && len(call.Args) == 2 && fl.Obj(call.Args[0]) == buf:
			x := call.Args[1]
			if cv := core.ConstVal(info, x); cv != nil {
				s := cv.ExactString()
				if s == "32" || s == "10" || s == "' '" || s == `'\n'` {
					return true
				}
				if v, isI := core.ConstValInt(cv); isI && (v == ' ' || v == '\n') {
					return true
				}
			}
			if call.Ellipsis.IsValid() {
				// token text only
				okTxt := false
				for _, rs := range loops {
					if byID(fl.Obj(rs.Value))(x) {
						okTxt = true
					}
				}
				if okTxt {
					return true
				}
			}
			bad = append(bad, pos+": appends "+core.Src(k.g.Fset, x)+" which is neither a token's text nor a space/newline")
		case (nameIs(fl, call, "appendTabs") || nameIs(fl, call, "appendComment") || nameIs(fl, call, "appendNum")) && len(call.Args) >= 1 && fl.Obj(call.Args[0]) == buf:
		default:
			bad = append(bad, pos+": buffer assigned from "+core.Src(k.g.Fset, rhs))
		}
		return true
	})
	c.Check(len(bad) == 0 && nApp >= 10, "R4.provenance", name, "everything appended to the line buffer is token text, a single space or newline, indentation or a comment", nApp, strings.Join(bad, "\n"))
	// every buffer is written before it is reset / before success
	isReset := func(n ast.Node) bool {
		_, rhs, ok := assignOf(fl, n, buf)
		if !ok {
			return false
		}
		se, isS := ast.Unparen(rhs).(*ast.SliceExpr)
		return isS && fl.Obj(se.X) == buf
	}
	writes := func(call *ast.CallExpr) bool {
		return nameIs(fl, call, "Write") && fl.Is(w)(core.RecvOf(call)) && len(call.Args) == 1 && fl.Obj(call.Args[0]) == buf
	}
	for _, rs := range loops {
		if se, isS := ast.Unparen(rs.X).(*ast.SliceExpr); isS && se.High != nil {
			continue // the name-prefix loop feeds the same buffer as the main token loop
		}
		rs := rs
		k.passChecked("R7.written", name+"[after the token loop]", "once a line's tokens are in the buffer, the buffer is written to the output (and the write error returned) before it is reset or the function succeeds", fl,
			core.Query{Start: func(n ast.Node) bool { return n.Pos() >= rs.Pos() && n.End() <= rs.End() && emits(fl.Obj(rs.Value))(n) },
				Exit: func(n ast.Node) bool { return isReset(n) || fl.SuccessReturn(n) }, FuncEnd: true},
			writes)
	}
}

func runC12Indent(k *gctx) {
	c := k.c
	fl := k.flow("D", "lib/dumbindent", "", "FormatBytes")
	if fl == nil {
		return
	}
	info := fl.F.Info()
	name := fl.F.Name()
	dst := fl.Param(0)
	src := fl.Param(1)
	// `line`: the loop variable holding the current line (assigned from src / slices of itself / handleRaw)
	var line types.Object
	ast.Inspect(fl.F.Decl.Body, func(m ast.Node) bool {
		if fs, ok := m.(*ast.ForStmt); ok && line == nil {
			if as, ok := fs.Init.(*ast.AssignStmt); ok && len(as.Lhs) >= 1 {
				line = fl.Obj(as.Lhs[0])
			}
		}
		return true
	})
	if line == nil {
		c.Undecided("D", name, "the current-line variable", "not found")
		return
	}
	pkgVar := func(e ast.Expr, names ...string) bool {
		o := fl.Obj(e)
		if o == nil || o.Parent() != o.Pkg().Scope() {
			return false
		}
		for _, n := range names {
			if o.Name() == n {
				return true
			}
		}
		return false
	}
	indentVars := fl.VarsDenoting(func(e ast.Expr) bool { return pkgVar(e, "spaces", "tabs") })
	var bad []string
	nApp := 0
	ast.Inspect(fl.F.Decl.Body, func(m ast.Node) bool {
		call, rhs, ok := assignOf(fl, m, dst)
		if !ok {
			return true
		}
		nApp++
		pos := k.g.Pos(m.Pos())
		switch {
		case call == nil:
			bad = append(bad, pos+": output assigned from "+core.Src(k.g.Fset, rhs))
		case isBuiltinCall(call, "make"):
		case nameIs(fl, call, "handleRaw") && len(call.Args) == 3 && fl.Obj(call.Args[0]) == dst:
		case nameIs(fl, call, "appendRepeatedBytes") && len(call.Args) == 3 && fl.Obj(call.Args[0]) == dst:
			if !(pkgVar(call.Args[1], "newLines", "spaces", "tabs") || anyOf(fl, indentVars)(call.Args[1])) {
				bad = append(bad, pos+": repeats bytes other than the indentation / newline constants")
			}
		case isBuiltinCall(call, "append") && len(call.Args) == 2 && fl.Obj(call.Args[0]) == dst:
			x := ast.Unparen(call.Args[1])
			if cv := core.ConstVal(info, x); cv != nil {
				if v, isI := core.ConstValInt(cv); isI && v == '\n' {
					return true
				}
				if cv.ExactString() == `"\n"` {
					return true
				}
			}
			base := x
			if se, isS := x.(*ast.SliceExpr); isS {
				base = se.X
			}
			if call.Ellipsis.IsValid() && fl.Obj(base) == line {
				return true
			}
			bad = append(bad, pos+": appends "+core.Src(k.g.Fset, x)+" which is neither part of the current input line nor a newline")
		default:
			bad = append(bad, pos+": output assigned from "+core.Src(k.g.Fset, rhs))
		}
		return true
	})
	c.Check(len(bad) == 0 && nApp >= 8, "D1.provenance", name, "every byte appended to the output is part of the current input line, an indentation/newline constant, or copied through by handleRaw", nApp, strings.Join(bad, "\n"))
	// line is only ever derived from the input
	bad = nil
	nLine := 0
	ast.Inspect(fl.F.Decl.Body, func(m ast.Node) bool {
		as, ok := m.(*ast.AssignStmt)
		if !ok {
			return true
		}
		for i, l := range as.Lhs {
			if fl.Obj(l) != line {
				continue
			}
			nLine++
			var rhs ast.Expr
			if len(as.Rhs) == len(as.Lhs) {
				rhs = as.Rhs[i]
			} else if len(as.Rhs) == 1 {
				rhs = as.Rhs[0]
			}
			r := ast.Unparen(rhs)
			if se, isS := r.(*ast.SliceExpr); isS {
				r = ast.Unparen(se.X)
			}
			okSrc := fl.Obj(r) == line || fl.Obj(r) == src
			if call, isC := r.(*ast.CallExpr); isC {
				if nameIs(fl, call, "handleRaw") || ((nameIs(fl, call, "trimTrailingWhiteSpace") || nameIs(fl, call, "trimLeadingWhiteSpace") || nameIs(fl, call, "skipCooked")) && len(call.Args) >= 1) {
					okSrc = true
				}
			}
			if o := fl.Obj(r); o != nil && !okSrc {
				// a local that itself is a slice of line (e.g. suffix := skipCooked(line[i+1:], c))
				for _, d := range fl.Defs()[o] {
					if call, isC := ast.Unparen(d).(*ast.CallExpr); isC && nameIs(fl, call, "skipCooked") {
						okSrc = true
					}
				}
			}
			if !okSrc {
				bad = append(bad, k.g.Pos(as.Pos())+": the current line is assigned from "+core.Src(k.g.Fset, rhs))
			}
		}
		return true
	})
	c.Check(len(bad) == 0 && nLine >= 5, "D1.line", name, "the current line is only ever a sub-slice of the input (through trimming, skipCooked or handleRaw)", nLine, strings.Join(bad, "\n"))
	// helpers
	for _, h := range []struct{ fn, what string }{{"handleRaw", "restOfSrc"}, {"appendRepeatedBytes", "repeatedBytes"}} {
		hf := k.flow("D1.helper", "lib/dumbindent", "", h.fn)
		if hf == nil {
			continue
		}
		hd := hf.Param(0)
		hs := hf.Param(1)
		okAll, n := true, 0
		ast.Inspect(hf.F.Decl.Body, func(m ast.Node) bool {
			call, _, ok := assignOf(hf, m, hd)
			if !ok {
				return true
			}
			n++
			if !(isBuiltinCall(call, "append") && len(call.Args) == 2 && call.Ellipsis.IsValid()) {
				okAll = false
				return true
			}
			x := ast.Unparen(call.Args[1])
			if se, isS := x.(*ast.SliceExpr); isS {
				x = se.X
			}
			if hf.Obj(x) != hs {
				okAll = false
			}
			return true
		})
		c.Check(okAll && n >= 1, "D1.helper", hf.F.Name(), fmt.Sprintf("%s appends only a prefix of its %s argument", h.fn, h.what), n, "")
	}
	// every non-blank line is output, followed by a newline, before the next line is taken
	var loop *ast.ForStmt
	ast.Inspect(fl.F.Decl.Body, func(m ast.Node) bool {
		if fs, ok := m.(*ast.ForStmt); ok && loop == nil && fs.Init != nil {
			loop = fs
		}
		return true
	})
	if loop == nil {
		c.Undecided("D2", name, "the line loop", "not found")
		return
	}
	appendsLine := func(n ast.Node) bool {
		call, _, ok := assignOf(fl, n, dst)
		if !ok || !isBuiltinCall(call, "append") || len(call.Args) != 2 || !call.Ellipsis.IsValid() {
			return false
		}
		return fl.Obj(ast.Unparen(call.Args[1])) == line
	}
	appendsNL := func(n ast.Node) bool {
		call, _, ok := assignOf(fl, n, dst)
		if !ok || !isBuiltinCall(call, "append") || len(call.Args) != 2 {
			return false
		}
		cv := core.ConstVal(info, call.Args[1])
		if cv == nil {
			return false
		}
		if v, isI := core.ConstValInt(cv); isI && v == '\n' {
			return true
		}
		return cv.ExactString() == `"\n"`
	}
	blank := func(cond ast.Expr, ci *core.CondInfo, taken bool) bool {
		be, ok := ast.Unparen(cond).(*ast.BinaryExpr)
		if !ok || be.Op != token.EQL || !taken {
			return false
		}
		call, ok := ast.Unparen(be.X).(*ast.CallExpr)
		v, isk := core.ConstInt64(info, be.Y)
		return ok && isBuiltinCall(call, "len") && len(call.Args) == 1 && fl.Obj(call.Args[0]) == line && isk && v == 0
	}
	k.mustPass("D2.line", name+"[each line]", "every non-blank input line is appended to the output before the next line is taken", fl, core.Query{
		Region: core.RegionOf(loop.Body), FallOut: true, Exit: fl.SuccessReturn, Exempt: blank, Events: []core.Event{{Node: appendsLine}}})
	k.mustPass("D2.newline", name+"[each line]", "…and is followed by a newline", fl, core.Query{
		Region: core.RegionOf(loop.Body), Start: appendsLine, FallOut: true, Exit: fl.SuccessReturn, Events: []core.Event{{Node: appendsNL}}})
}
