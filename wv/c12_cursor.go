package main

// C12, rule family D3: lib/dumbindent keeps three cursors into the input in
// step — `src` (rest of the input, starting where the current physical line
// started), `line` (what is left of the current line) and `lineLength` (how far
// the current line's end is from src's start) — plus the output cursor (how far
// dst has been copied). The rules below are one forward must-dataflow analysis
// on go/cfg (no path enumeration, no execution) over these facts:
//
//   A        `line` starts where `src` starts                      (line is a prefix of src)
//   E(v)     int local v satisfies  start(src)+v == end(line)
//   S(x)     slice local x ends where `line` ends                   (x is a suffix of line)
//   SK(x)=K  … and x == line[K:] with line and K's variables unchanged since
//   CU(x)=K  slice local x == src[lineLength-len(line[K:]):], verified at its definition
//   J        none | pending(K): dst holds the input up to start(line) (+K)
//
// Positions are only ever computed from len(), so a nil slice returned by a
// "suffix" helper (skipCooked on an unterminated string) counts as the empty
// suffix located at line's end.

import (
	"fmt"
	"go/ast"
	"go/token"
	"go/types"
	"sort"
	"strings"

	"golang.org/x/tools/go/cfg"

	"wv/core"
)

// ---- linear forms over int locals and len(slice local) ----

type c12Term struct {
	obj   types.Object
	isLen bool
}

type c12Lin struct {
	coef map[c12Term]int64
	k    int64
}

func (l *c12Lin) add(m *c12Lin, sign int64) {
	for t, c := range m.coef {
		l.coef[t] += sign * c
		if l.coef[t] == 0 {
			delete(l.coef, t)
		}
	}
	l.k += sign * m.k
}

func (l *c12Lin) clone() *c12Lin {
	n := &c12Lin{coef: map[c12Term]int64{}, k: l.k}
	for t, c := range l.coef {
		n.coef[t] = c
	}
	return n
}

// c12Unverified marks a local defined as src[…:] whose position could not be
// verified (reported once, by D3.cursor, at the definition).
var c12Unverified = &c12Lin{coef: map[c12Term]int64{}}

func (l *c12Lin) equal(m *c12Lin) bool {
	if l == m && l != nil {
		return true
	}
	if l == c12Unverified || m == c12Unverified {
		return false
	}
	if l == nil || m == nil || l.k != m.k || len(l.coef) != len(m.coef) {
		return false
	}
	for t, c := range l.coef {
		if m.coef[t] != c {
			return false
		}
	}
	return true
}

func (l *c12Lin) mentions(o types.Object) bool {
	if l == nil {
		return false
	}
	for t := range l.coef {
		if t.obj == o {
			return true
		}
	}
	return false
}

func (l *c12Lin) String() string {
	if l == nil {
		return "?"
	}
	var parts []string
	for t, c := range l.coef {
		n := t.obj.Name()
		if t.isLen {
			n = "len(" + n + ")"
		}
		parts = append(parts, fmt.Sprintf("%+d*%s", c, n))
	}
	sort.Strings(parts)
	return strings.Join(parts, "") + fmt.Sprintf("%+d", l.k)
}

func c12IsInt(t types.Type) bool {
	b, ok := types.Unalias(t).Underlying().(*types.Basic)
	return ok && b.Info()&types.IsInteger != 0
}

func c12IsByteSlice(t types.Type) bool {
	s, ok := types.Unalias(t).Underlying().(*types.Slice)
	if !ok {
		return false
	}
	b, ok := types.Unalias(s.Elem()).Underlying().(*types.Basic)
	return ok && b.Kind() == types.Uint8
}

// c12Wide: an integer type of at least 32 bits (a conversion to it keeps line
// numbers and lengths).
func c12Wide(t types.Type) bool {
	b, ok := types.Unalias(t).Underlying().(*types.Basic)
	if !ok {
		return false
	}
	switch b.Kind() {
	case types.Int, types.Int32, types.Int64, types.Uint, types.Uint32, types.Uint64, types.Uintptr:
		return true
	}
	return false
}

func c12IsSlice(t types.Type) bool {
	switch u := types.Unalias(t).Underlying().(type) {
	case *types.Slice:
		return true
	case *types.Basic:
		return u.Info()&types.IsString != 0
	}
	return false
}

func c12LocalVar(o types.Object) bool {
	v, ok := o.(*types.Var)
	return ok && !v.IsField() && v.Pkg() != nil && v.Parent() != v.Pkg().Scope()
}

// c12LinOf normalises an int expression built from constants, int locals,
// len(x) of slice locals, len(x[k:]) (== len(x)-k: Go panics otherwise), + and -.
func c12LinOf(fl *core.Flow, e ast.Expr) (*c12Lin, bool) {
	info := fl.F.Info()
	e = ast.Unparen(e)
	if cv := core.ConstVal(info, e); cv != nil {
		if v, ok := core.ConstValInt(cv); ok {
			return &c12Lin{coef: map[c12Term]int64{}, k: v}, true
		}
		return nil, false
	}
	switch x := e.(type) {
	case *ast.Ident:
		o := fl.Obj(x)
		if o != nil && c12LocalVar(o) && c12IsInt(o.Type()) {
			return &c12Lin{coef: map[c12Term]int64{{o, false}: 1}}, true
		}
	case *ast.BinaryExpr:
		if x.Op != token.ADD && x.Op != token.SUB {
			return nil, false
		}
		if t := info.TypeOf(x); t == nil || !c12IsInt(t) {
			return nil, false
		} else if b, _ := types.Unalias(t).Underlying().(*types.Basic); x.Op == token.SUB && b != nil && b.Info()&types.IsUnsigned != 0 {
			return nil, false // wraps around instead of going negative
		}
		a, ok1 := c12LinOf(fl, x.X)
		b, ok2 := c12LinOf(fl, x.Y)
		if !ok1 || !ok2 {
			return nil, false
		}
		r := a.clone()
		if x.Op == token.ADD {
			r.add(b, 1)
		} else {
			r.add(b, -1)
		}
		return r, true
	case *ast.CallExpr:
		if tv, ok := info.Types[x.Fun]; ok && tv.IsType() && len(x.Args) == 1 && c12IsInt(tv.Type) {
			if at := info.TypeOf(x.Args[0]); at != nil && c12IsInt(at) && c12Wide(tv.Type) {
				return c12LinOf(fl, x.Args[0]) // integer conversion (values here are line numbers and lengths)
			}
			return nil, false
		}
		if !isBuiltinCall(x, "len") || len(x.Args) != 1 {
			return nil, false
		}
		if _, isB := info.Uses[ast.Unparen(x.Fun).(*ast.Ident)].(*types.Builtin); !isB {
			return nil, false
		}
		arg := ast.Unparen(x.Args[0])
		off := &c12Lin{coef: map[c12Term]int64{}}
		for {
			se, ok := arg.(*ast.SliceExpr)
			if !ok || se.High != nil || se.Max != nil {
				break
			}
			if se.Low != nil {
				lo, ok := c12LinOf(fl, se.Low)
				if !ok {
					return nil, false
				}
				off.add(lo, 1)
			}
			arg = ast.Unparen(se.X)
		}
		o := fl.Obj(arg)
		if _, isId := arg.(*ast.Ident); isId && o != nil && c12LocalVar(o) && c12IsSlice(o.Type()) {
			r := &c12Lin{coef: map[c12Term]int64{{o, true}: 1}}
			r.add(off, -1)
			return r, true
		}
	}
	return nil, false
}

// ---- helper summaries: f(s []byte, …) []byte returns a prefix / a suffix of s ----

// c12Summary: "prefix" (same start, end moved left), "suffix" (same end, start
// moved right; nil counts as the empty suffix) or "".
func c12Summary(f *core.Func) string {
	info := f.Info()
	ft := f.Decl.Type
	if ft.Params == nil || len(ft.Params.List) == 0 || len(ft.Params.List[0].Names) == 0 || ft.Results == nil || ft.Results.NumFields() != 1 {
		return ""
	}
	s := info.Defs[ft.Params.List[0].Names[0]]
	if s == nil || !c12IsByteSlice(s.Type()) {
		return ""
	}
	if rt := info.TypeOf(ft.Results.List[0].Type); rt == nil || !c12IsByteSlice(rt) {
		return ""
	}
	var named types.Object
	if len(ft.Results.List[0].Names) == 1 {
		named = info.Defs[ft.Results.List[0].Names[0]]
	}
	obj := func(e ast.Expr) types.Object {
		if id, ok := ast.Unparen(e).(*ast.Ident); ok {
			if o := info.Uses[id]; o != nil {
				return o
			}
			return info.Defs[id]
		}
		return nil
	}
	pre, suf, bad := false, false, false
	classify := func(e ast.Expr, allowNil bool) {
		e = ast.Unparen(e)
		if obj(e) == s {
			return
		}
		if core.IsNilIdent(info, e) && allowNil {
			suf = true
			return
		}
		se, ok := e.(*ast.SliceExpr)
		if !ok || obj(se.X) != s || se.Max != nil {
			bad = true
			return
		}
		lowZero := se.Low == nil
		if v, isk := core.ConstInt64(info, se.Low); se.Low != nil && isk && v == 0 {
			lowZero = true
		}
		switch {
		case lowZero && se.High == nil:
		case lowZero:
			pre = true
		case se.High == nil:
			suf = true
		default:
			bad = true
		}
	}
	ast.Inspect(f.Decl.Body, func(n ast.Node) bool {
		switch x := n.(type) {
		case *ast.FuncLit:
			bad = true
			return false
		case *ast.UnaryExpr:
			if x.Op == token.AND && (obj(x.X) == s || (named != nil && obj(x.X) == named)) {
				bad = true
			}
		case *ast.AssignStmt:
			for i, l := range x.Lhs {
				o := obj(l)
				if o == nil || (o != s && o != named) {
					continue
				}
				if o == named || x.Tok != token.ASSIGN || len(x.Lhs) != len(x.Rhs) {
					bad = true // the named result is assigned: not an accepted idiom
					continue
				}
				classify(x.Rhs[i], false)
			}
		case *ast.IncDecStmt:
		case *ast.RangeStmt:
			if (x.Key != nil && obj(x.Key) == s) || (x.Value != nil && obj(x.Value) == s) {
				bad = true
			}
		case *ast.ReturnStmt:
			if len(x.Results) != 1 {
				bad = true // bare return of a named result
				return true
			}
			classify(x.Results[0], true)
		}
		return true
	})
	switch {
	case bad || (pre && suf):
		return ""
	case pre:
		return "prefix"
	case suf:
		return "suffix"
	}
	return ""
}

// ---- the abstract state ----

const (
	c12JNone = iota
	c12JPending
	c12JBad
)

type c12St struct {
	top bool
	A   bool
	E   map[types.Object]bool
	S   map[types.Object]bool
	SK  map[types.Object]*c12Lin
	CU  map[types.Object]*c12Lin
	IV  map[types.Object]*c12Lin // int local == this form, the form's variables unchanged since
	AP  *c12Lin                  // helper mode: dst = append(dst, P[:AP]...) happened, AP's variables unchanged since
	RS  *c12Lin                  // helper mode: the returned rest-of-source is P[RS:], RS's variables unchanged since
	J   int
	JK  *c12Lin
}

func c12Top() *c12St { return &c12St{top: true} }

func c12Bottom() *c12St {
	return &c12St{E: map[types.Object]bool{}, S: map[types.Object]bool{}, SK: map[types.Object]*c12Lin{}, CU: map[types.Object]*c12Lin{}, IV: map[types.Object]*c12Lin{}}
}

func (s *c12St) clone() *c12St {
	if s.top {
		return c12Top()
	}
	n := c12Bottom()
	n.A, n.J, n.JK, n.AP, n.RS = s.A, s.J, s.JK, s.AP, s.RS
	for k, v := range s.E {
		n.E[k] = v
	}
	for k, v := range s.S {
		n.S[k] = v
	}
	for k, v := range s.SK {
		n.SK[k] = v
	}
	for k, v := range s.CU {
		n.CU[k] = v
	}
	for k, v := range s.IV {
		n.IV[k] = v
	}
	return n
}

// meet (must): facts that hold on both incoming edges.
func c12Meet(a, b *c12St) *c12St {
	if a.top {
		return b.clone()
	}
	if b.top {
		return a.clone()
	}
	n := c12Bottom()
	n.A = a.A && b.A
	for k := range a.E {
		if a.E[k] && b.E[k] {
			n.E[k] = true
		}
	}
	for k := range a.S {
		if a.S[k] && b.S[k] {
			n.S[k] = true
		}
	}
	for k, v := range a.SK {
		if v.equal(b.SK[k]) {
			n.SK[k] = v
		}
	}
	for k, v := range a.CU {
		if v.equal(b.CU[k]) {
			n.CU[k] = v
		}
	}
	for k, v := range a.IV {
		if v.equal(b.IV[k]) {
			n.IV[k] = v
		}
	}
	if a.AP.equal(b.AP) {
		n.AP = a.AP
	}
	if a.RS.equal(b.RS) {
		n.RS = a.RS
	}
	switch {
	case a.J == c12JNone && b.J == c12JNone:
		n.J = c12JNone
	case a.J == c12JPending && b.J == c12JPending && a.JK.equal(b.JK):
		n.J, n.JK = c12JPending, a.JK
	default:
		n.J = c12JBad
	}
	return n
}

func (s *c12St) same(t *c12St) bool {
	if s.top != t.top {
		return false
	}
	if s.top {
		return true
	}
	if s.A != t.A || s.J != t.J || (s.J == c12JPending && !s.JK.equal(t.JK)) {
		return false
	}
	if (s.AP == nil) != (t.AP == nil) || (s.AP != nil && !s.AP.equal(t.AP)) || (s.RS == nil) != (t.RS == nil) || (s.RS != nil && !s.RS.equal(t.RS)) {
		return false
	}
	cnt := func(m map[types.Object]bool) int {
		n := 0
		for _, v := range m {
			if v {
				n++
			}
		}
		return n
	}
	if cnt(s.E) != cnt(t.E) || cnt(s.S) != cnt(t.S) || len(s.SK) != len(t.SK) || len(s.CU) != len(t.CU) || len(s.IV) != len(t.IV) {
		return false
	}
	for k, v := range s.E {
		if v && !t.E[k] {
			return false
		}
	}
	for k, v := range s.S {
		if v && !t.S[k] {
			return false
		}
	}
	for k, v := range s.SK {
		if !v.equal(t.SK[k]) {
			return false
		}
	}
	for k, v := range s.CU {
		if !v.equal(t.CU[k]) {
			return false
		}
	}
	for k, v := range s.IV {
		if !v.equal(t.IV[k]) {
			return false
		}
	}
	return true
}

// killVar: variable o was assigned; every recorded form that mentions it is stale.
func (s *c12St) killVar(o types.Object) {
	for k, v := range s.SK {
		if v.mentions(o) {
			delete(s.SK, k)
		}
	}
	for k, v := range s.CU {
		if v.mentions(o) {
			delete(s.CU, k)
		}
	}
	for k, v := range s.IV {
		if v.mentions(o) {
			delete(s.IV, k)
		}
	}
	if s.AP.mentions(o) {
		s.AP = nil
	}
	if s.RS.mentions(o) {
		s.RS = nil
	}
	if s.J == c12JPending && s.JK.mentions(o) {
		s.J, s.JK = c12JBad, nil
	}
}

// lin normalises e and replaces int locals by their recorded definitions
// (except those that are known end-of-line offsets: they are looked for by name).
func (a *c12An) lin(e ast.Expr, st *c12St) (*c12Lin, bool) {
	l, ok := c12LinOf(a.fl, e)
	if !ok {
		return nil, false
	}
	for depth := 0; depth < 6; depth++ {
		changed := false
		for t, c := range l.coef {
			if t.isLen || st.E[t.obj] {
				continue
			}
			if d := st.IV[t.obj]; d != nil {
				n := l.clone()
				delete(n.coef, t)
				n.add(d, c)
				l = n
				changed = true
				break
			}
		}
		if !changed {
			break
		}
	}
	return l, true
}

// ---- the analysis ----

type c12Finding struct {
	rule, site, detail string
	ok                 bool
	undecided          bool
}

type c12An struct {
	k         *gctx
	fl        *core.Flow
	src, line types.Object
	dst       types.Object
	part      types.Object // helper mode: the parameter that is split into appended prefix and returned rest
	rawFn     *types.Func  // handleRaw (nil when analysing handleRaw itself)
	rawOK     bool         // handleRaw's returned line is a prefix of its returned src
	summaries map[*types.Func]string
	in        map[*cfg.Block]*c12St
	findings  []c12Finding
	record    bool
}

func (a *c12An) find(rule, site string, ok bool, detail string) {
	if a.record {
		a.findings = append(a.findings, c12Finding{rule: rule, site: site, ok: ok, detail: detail})
	}
}

func (a *c12An) und(rule, site, detail string) {
	if a.record {
		a.findings = append(a.findings, c12Finding{rule: rule, site: site, undecided: true, detail: detail})
	}
}

func (a *c12An) lowZero(se *ast.SliceExpr) bool {
	if se.Low == nil {
		return true
	}
	v, ok := core.ConstInt64(a.fl.F.Info(), se.Low)
	return ok && v == 0
}

func (a *c12An) summaryOf(call *ast.CallExpr) string {
	fn := core.Callee(a.fl.F.Info(), call)
	if fn == nil {
		return ""
	}
	return a.summaries[fn]
}

// sufOfLine: e certainly ends where `line` ends.
func (a *c12An) sufOfLine(e ast.Expr, st *c12St) bool {
	e = ast.Unparen(e)
	switch x := e.(type) {
	case *ast.Ident:
		o := a.fl.Obj(x)
		return o != nil && (o == a.line || st.S[o])
	case *ast.SliceExpr:
		return x.High == nil && x.Max == nil && a.sufOfLine(x.X, st)
	case *ast.CallExpr:
		return a.summaryOf(x) == "suffix" && len(x.Args) >= 1 && a.sufOfLine(x.Args[0], st)
	}
	return false
}

// prefixOfLine: e certainly starts where `line` starts.
func (a *c12An) prefixOfLine(e ast.Expr) bool {
	e = ast.Unparen(e)
	switch x := e.(type) {
	case *ast.Ident:
		return a.fl.Obj(x) == a.line
	case *ast.SliceExpr:
		return x.Max == nil && a.lowZero(x) && a.prefixOfLine(x.X)
	case *ast.CallExpr:
		return a.summaryOf(x) == "prefix" && len(x.Args) >= 1 && a.prefixOfLine(x.Args[0])
	}
	return false
}

// frontOffset: e == line[K:] for a computable K (line itself: K = 0; a suffix
// variable x: K = len(line)-len(x)).
func (a *c12An) frontOffset(e ast.Expr, st *c12St) *c12Lin {
	e = ast.Unparen(e)
	switch x := e.(type) {
	case *ast.Ident:
		o := a.fl.Obj(x)
		if o == a.line {
			return &c12Lin{coef: map[c12Term]int64{}}
		}
		if o != nil && st.S[o] {
			return &c12Lin{coef: map[c12Term]int64{{a.line, true}: 1, {o, true}: -1}}
		}
	case *ast.SliceExpr:
		if x.High != nil || x.Max != nil {
			return nil
		}
		base := a.frontOffset(x.X, st)
		if base == nil {
			return nil
		}
		if x.Low == nil {
			return base
		}
		lo, ok := a.lin(x.Low, st)
		if !ok {
			return nil
		}
		// x.X == line[base:], so x == line[base+lo:]; but when x.X is a suffix
		// variable its own offset is symbolic in len(): keep it only for `line`.
		r := base.clone()
		r.add(lo, 1)
		return r
	}
	return nil
}

// cursorOf: e is src[Low:] with start(src)+Low == start(line)+K, verified in
// state st. Returns K (nil,false when e is not such an expression; K may be nil
// when the position is right but no K can be named).
func (a *c12An) cursorOf(e ast.Expr, st *c12St) (k *c12Lin, isUse bool, ok bool, why string) {
	se, isS := ast.Unparen(e).(*ast.SliceExpr)
	if !isS || a.fl.Obj(se.X) != a.src || se.Low == nil {
		return nil, false, false, ""
	}
	if _, isId := ast.Unparen(se.X).(*ast.Ident); !isId {
		return nil, false, false, ""
	}
	if se.High != nil || se.Max != nil {
		return nil, true, false, "the slice of the source has an upper bound"
	}
	lin, okL := a.lin(se.Low, st)
	if !okL {
		return nil, true, false, "offset is not a sum of int locals, len() of slice locals and constants"
	}
	// exactly one int local with coefficient +1 that is a known end-of-line offset
	var endVar types.Object
	for t, c := range lin.coef {
		if !t.isLen && c == 1 && st.E[t.obj] {
			if endVar != nil {
				return nil, true, false, "two end-of-line offsets in one expression"
			}
			endVar = t.obj
		}
	}
	if endVar == nil {
		var names []string
		for t := range lin.coef {
			if !t.isLen {
				names = append(names, t.obj.Name())
			}
		}
		sort.Strings(names)
		return nil, true, false, fmt.Sprintf("on some path to this point no variable of the offset (%s) is known to be len(line) taken while line still started at src's start and after src and line were last (re)bound together", strings.Join(names, ", "))
	}
	rest := lin.clone()
	delete(rest.coef, c12Term{endVar, false})
	// rest must be  -len(R) [+ K']  with R ending where line ends
	var lenObj types.Object
	for t, c := range rest.coef {
		if t.isLen && c == -1 && (t.obj == a.line || st.S[t.obj]) {
			if lenObj != nil {
				return nil, true, false, "two suffix lengths in one expression"
			}
			lenObj = t.obj
		}
	}
	if lenObj == nil {
		return nil, true, false, "the subtracted length is not the length of a slice that ends where line ends (line itself, line[k:], or a local defined as such with line's end unchanged since)"
	}
	delete(rest.coef, c12Term{lenObj, true})
	if lenObj == a.line {
		return rest, true, true, "" // start(line)+rest
	}
	// start(R)+rest; R == line[SK(R):]
	if sk := st.SK[lenObj]; sk != nil {
		r := sk.clone()
		r.add(rest, 1)
		return r, true, true, ""
	}
	if len(rest.coef) == 0 && rest.k == 0 {
		return nil, true, true, ""
	}
	return nil, true, true, ""
}

type c12Tgt struct {
	obj  types.Object
	rhs  ast.Expr      // nil for a tuple call result or a kill
	call *ast.CallExpr // tuple call
	idx  int
}

func (a *c12An) isRaw(call *ast.CallExpr) bool {
	return call != nil && a.rawFn != nil && core.IsCallTo(a.fl.F.Info(), call, a.rawFn)
}

func (a *c12An) site(n ast.Node) string {
	return "`" + core.Src(a.k.g.Fset, n) + "`"
}

// transferAssign applies a (possibly parallel) assignment.
func (a *c12An) transferAssign(n ast.Node, tgts []c12Tgt, st *c12St) {
	fl := a.fl
	pre := st.clone()
	pos := a.k.g.Pos(n.Pos())
	var lineT, srcT, dstT *c12Tgt
	var rawCall *ast.CallExpr
	for i := range tgts {
		t := &tgts[i]
		switch t.obj {
		case a.line:
			lineT = t
		case a.src:
			srcT = t
		case a.dst:
			dstT = t
		}
		if a.isRaw(t.call) {
			rawCall = t.call
		}
		if t.rhs != nil {
			if c, ok := ast.Unparen(t.rhs).(*ast.CallExpr); ok && a.isRaw(c) {
				rawCall = c
			}
		}
	}
	// 0. helper mode: appended prefix / returned rest of the split parameter
	if a.rawFn == nil && a.part != nil {
		if dstT != nil && dstT.rhs != nil {
			if call, ok := ast.Unparen(dstT.rhs).(*ast.CallExpr); ok && isBuiltinCall(call, "append") && len(call.Args) == 2 {
				if se, isS := ast.Unparen(call.Args[1]).(*ast.SliceExpr); isS && fl.Obj(se.X) == a.part && isIdent(se.X) && a.lowZero(se) && se.High != nil && se.Max == nil {
					st.AP, _ = a.lin(se.High, pre)
				}
			}
		}
		if srcT != nil && srcT.rhs != nil {
			if se, isS := ast.Unparen(srcT.rhs).(*ast.SliceExpr); isS && fl.Obj(se.X) == a.part && isIdent(se.X) && se.Low != nil && se.High == nil && se.Max == nil {
				defer func(l *c12Lin, ok bool) {
					if ok {
						st.RS = l
					}
				}(a.lin(se.Low, pre))
			}
		}
	}
	// 1. output cursor: appends of (parts of) the current line
	if dstT != nil && dstT.rhs != nil && a.rawFn != nil {
		if call, ok := ast.Unparen(dstT.rhs).(*ast.CallExpr); ok && isBuiltinCall(call, "append") && len(call.Args) == 2 && call.Ellipsis.IsValid() && fl.Obj(call.Args[0]) == a.dst {
			x := ast.Unparen(call.Args[1])
			switch {
			case fl.Obj(x) == a.line:
				if _, isId := x.(*ast.Ident); isId {
					a.find("D3.pending", a.site(n), pre.J == c12JNone, pos+": the whole of what is left of the line is appended while "+c12JText(pre)+" — those bytes would be output twice")
					st.J, st.JK = c12JNone, nil
				}
			default:
				if se, isS := x.(*ast.SliceExpr); isS && fl.Obj(se.X) == a.line && se.Max == nil {
					if _, isId := ast.Unparen(se.X).(*ast.Ident); isId {
						if a.lowZero(se) && se.High != nil {
							kk, ok := a.lin(se.High, pre)
							a.find("D3.pending", a.site(n), pre.J == c12JNone, pos+": a prefix of the line is appended while "+c12JText(pre)+" — those bytes would be output twice")
							if ok && pre.J == c12JNone {
								st.J, st.JK = c12JPending, kk
							} else {
								if !ok {
									a.und("D3.pending", a.site(n), pos+": the length of the appended prefix is not a sum of int locals, len() and constants")
								}
								st.J, st.JK = c12JBad, nil
							}
						} else {
							// a middle part of the line: not an accepted idiom
							a.find("D3.pending", a.site(n), false, pos+": a part of the line that does not start at its front is appended")
							st.J, st.JK = c12JBad, nil
						}
					}
				}
			}
		}
	}
	// 2. gens for int and slice locals, evaluated in the pre-state
	type gen struct {
		obj        types.Object
		e, s       bool
		sk, cu, iv *c12Lin
	}
	var gens []gen
	for i := range tgts {
		t := &tgts[i]
		if t.obj == nil || t.obj == a.line || t.obj == a.src || t.obj == a.dst || !c12LocalVar(t.obj) {
			continue
		}
		g := gen{obj: t.obj}
		if t.rhs != nil {
			switch {
			case c12IsInt(t.obj.Type()):
				if lin, ok := a.lin(t.rhs, pre); ok {
					g.iv = lin
				}
				if lin, ok := c12LinOf(fl, t.rhs); ok && lin.k == 0 && len(lin.coef) == 1 {
					for tm, c := range lin.coef {
						if c == 1 && tm.isLen && tm.obj == a.line && pre.A {
							g.e = true
						}
						if c == 1 && !tm.isLen && pre.E[tm.obj] {
							g.e = true
						}
					}
				}
			case c12IsByteSlice(t.obj.Type()):
				if a.sufOfLine(t.rhs, pre) {
					g.s = true
					if se, isS := ast.Unparen(t.rhs).(*ast.SliceExpr); isS && fl.Obj(se.X) == a.line {
						g.sk = a.frontOffset(t.rhs, pre)
					} else if fl.Obj(t.rhs) == a.line {
						g.sk = &c12Lin{coef: map[c12Term]int64{}}
					}
				}
				if kk, isUse, ok, _ := a.cursorOf(t.rhs, pre); isUse && ok && kk != nil {
					g.cu = kk
				} else if isUse && !ok {
					g.cu = c12Unverified
				}
			}
		}
		gens = append(gens, g)
	}
	for _, g := range gens {
		st.killVar(g.obj)
		delete(st.E, g.obj)
		delete(st.S, g.obj)
		delete(st.SK, g.obj)
		delete(st.CU, g.obj)
		delete(st.IV, g.obj)
		if g.iv != nil && !g.iv.mentions(g.obj) {
			st.IV[g.obj] = g.iv
		}
		if g.e {
			st.E[g.obj] = true
		}
		if g.s {
			st.S[g.obj] = true
		}
		if g.sk != nil && !g.sk.mentions(g.obj) {
			st.SK[g.obj] = g.sk
		}
		if g.cu != nil && !g.cu.mentions(g.obj) {
			st.CU[g.obj] = g.cu
		}
	}
	clearAll := func() {
		if lineT != nil {
			st.killVar(a.line)
		}
		if srcT != nil {
			st.killVar(a.src)
		}
		st.E = map[types.Object]bool{}
		st.S = map[types.Object]bool{}
		st.SK = map[types.Object]*c12Lin{}
		st.CU = map[types.Object]*c12Lin{}
	}
	// 3. handleRaw: copies the input from its second argument on and re-bases line
	if rawCall != nil {
		anchor := "handleRaw(…)"
		if len(rawCall.Args) == 3 {
			anchor = "handleRaw(…, " + core.Src(a.k.g.Fset, rawCall.Args[2]) + ")"
		}
		var kk *c12Lin
		argOK := false
		why := "handleRaw is not called with three arguments"
		if len(rawCall.Args) == 3 {
			arg := rawCall.Args[1]
			if o := fl.Obj(arg); o != nil && pre.CU[o] != nil {
				if _, isId := ast.Unparen(arg).(*ast.Ident); isId {
					kk, argOK = pre.CU[o], true
				}
			}
			if !argOK {
				var isUse bool
				kk, isUse, argOK, why = a.cursorOf(arg, pre)
				switch {
				case !isUse:
					why = "is neither src[lineLength-len(rest):] nor a local last defined as that with src, line and the offset's variables unchanged since"
				case !argOK:
					kk, argOK = c12Unverified, true // reported by D3.cursor
				case kk == nil:
					argOK, why = false, "denotes the start of a rest of the line that cannot be named (rest is not line[k:])"
				}
			}
		}
		a.find("D3.arg", anchor, argOK, pos+": the rest-of-source argument "+why)
		if kk == c12Unverified {
			a.find("D3.handoff.unverified", anchor, true, "")
		} else if argOK {
			a.find("D3.handoff", anchor, pre.J == c12JPending && pre.JK.equal(kk),
				fmt.Sprintf("%s: handleRaw starts copying at line[%s:] but %s — the bytes in between are dropped or duplicated", pos, kk, c12JText(pre)))
		}
		st.J, st.JK = c12JNone, nil
		okBind := dstT != nil && dstT.call == rawCall && dstT.idx == 0 &&
			srcT != nil && srcT.call == rawCall && srcT.idx == 1 &&
			lineT != nil && lineT.call == rawCall && lineT.idx == 2 && a.rawOK
		why = "src, line (and dst) are not all re-bound from handleRaw's results 1, 2 (and 0)"
		if !a.rawOK {
			why = "handleRaw's returned line is not known to start where its returned rest-of-source starts (see D3.aligned)"
		}
		a.find("D3.rebind", anchor, okBind, pos+": "+why+"; src keeps describing the physical line on which the raw string or comment started")
		clearAll()
		st.A = okBind
		return
	}
	// 4. line
	if lineT != nil {
		kind := "other"
		var kk *c12Lin
		if lineT.rhs != nil {
			e := ast.Unparen(lineT.rhs)
			switch {
			case fl.Obj(e) == a.line && isIdent(e):
				kind = "same"
			case fl.Obj(e) == a.src && isIdent(e) && srcT == nil:
				kind = "aligned"
			case a.isSrcPrefix(e) && srcT == nil:
				kind = "aligned"
			case a.prefixOfLine(e):
				kind = "endtrim"
			case a.sufOfLine(e, pre):
				kind = "suffix"
				kk = a.frontOffset(e, pre)
			}
		}
		switch kind {
		case "same":
		case "aligned":
			if a.rawFn != nil {
				a.find("D3.pending", a.site(n), pre.J == c12JNone, pos+": the next line is taken while "+c12JText(pre))
			}
			clearAll()
			st.A, st.J, st.JK = true, c12JNone, nil
		case "endtrim":
			clearAll()
			st.killVar(a.line)
		case "suffix":
			if a.rawFn != nil {
				switch {
				case kk == nil:
					a.find("D3.advance", a.site(n), false, pos+": line is advanced by an amount that cannot be named (not line[k:] with k a sum of int locals, len() and constants, nor a local that is a suffix of line), so it cannot be matched with what was appended")
				default:
					a.find("D3.advance", a.site(n), pre.J == c12JPending && pre.JK.equal(kk),
						fmt.Sprintf("%s: line is advanced past line[:%s] but %s — the skipped bytes are dropped (or were output and are output again)", pos, kk, c12JText(pre)))
				}
			}
			st.J, st.JK = c12JNone, nil
			zero := kk != nil && len(kk.coef) == 0 && kk.k == 0
			if !zero {
				st.A = false
			}
			st.SK = map[types.Object]*c12Lin{}
			st.CU = map[types.Object]*c12Lin{}
			st.killVar(a.line)
		default:
			if a.rawFn != nil {
				a.find("D3.pending", a.site(n), pre.J == c12JNone, pos+": line is re-bound while "+c12JText(pre))
			}
			clearAll()
			st.A, st.J, st.JK = false, c12JNone, nil
		}
	}
	// 5. src
	if srcT != nil {
		st.killVar(a.src)
		st.A = false
		st.E = map[types.Object]bool{}
		st.CU = map[types.Object]*c12Lin{}
	}
}

func isIdent(e ast.Expr) bool {
	_, ok := ast.Unparen(e).(*ast.Ident)
	return ok
}

func (a *c12An) isSrcPrefix(e ast.Expr) bool {
	se, ok := ast.Unparen(e).(*ast.SliceExpr)
	return ok && se.Max == nil && a.lowZero(se) && isIdent(se.X) && a.fl.Obj(se.X) == a.src
}

func c12JText(st *c12St) string {
	switch st.J {
	case c12JNone:
		return "nothing of the line has been appended since it was last advanced"
	case c12JPending:
		return "line[:" + st.JK.String() + "] has been appended and line not yet advanced past it"
	}
	return "what has been appended of the line differs between the paths reaching this point"
}

func (a *c12An) transfer(n ast.Node, st *c12St) {
	fl := a.fl
	switch x := n.(type) {
	case *ast.AssignStmt:
		if x.Tok != token.ASSIGN && x.Tok != token.DEFINE {
			for _, l := range x.Lhs {
				if o := fl.Obj(l); o != nil {
					a.transferAssign(n, []c12Tgt{{obj: o}}, st)
				}
			}
			return
		}
		var tgts []c12Tgt
		for i, l := range x.Lhs {
			o := fl.Obj(l)
			if o == nil {
				continue
			}
			if _, isId := ast.Unparen(l).(*ast.Ident); !isId {
				continue
			}
			switch {
			case len(x.Rhs) == len(x.Lhs):
				tgts = append(tgts, c12Tgt{obj: o, rhs: x.Rhs[i]})
			case len(x.Rhs) == 1:
				call, _ := ast.Unparen(x.Rhs[0]).(*ast.CallExpr)
				tgts = append(tgts, c12Tgt{obj: o, call: call, idx: i})
			}
		}
		if len(tgts) > 0 {
			a.transferAssign(n, tgts, st)
		}
	case *ast.IncDecStmt:
		if o := fl.Obj(x.X); o != nil && isIdent(x.X) {
			a.transferAssign(n, []c12Tgt{{obj: o}}, st)
		}
	case *ast.DeclStmt:
		gd, ok := x.Decl.(*ast.GenDecl)
		if !ok {
			return
		}
		for _, sp := range gd.Specs {
			vs, ok := sp.(*ast.ValueSpec)
			if !ok {
				continue
			}
			var tgts []c12Tgt
			for i, id := range vs.Names {
				o := fl.F.Info().Defs[id]
				if o == nil {
					continue
				}
				if len(vs.Values) == len(vs.Names) {
					tgts = append(tgts, c12Tgt{obj: o, rhs: vs.Values[i]})
				} else {
					tgts = append(tgts, c12Tgt{obj: o})
				}
			}
			if len(tgts) > 0 {
				a.transferAssign(n, tgts, st)
			}
		}
	case *ast.ValueSpec:
		var tgts []c12Tgt
		for i, id := range x.Names {
			if o := fl.F.Info().Defs[id]; o != nil {
				if len(x.Values) == len(x.Names) {
					tgts = append(tgts, c12Tgt{obj: o, rhs: x.Values[i]})
				} else {
					tgts = append(tgts, c12Tgt{obj: o})
				}
			}
		}
		if len(tgts) > 0 {
			a.transferAssign(n, tgts, st)
		}
	}
}

// uses: every src[Low:] inside node n, checked in the state before n.
func (a *c12An) checkUses(n ast.Node, st *c12St) {
	if !a.record || a.rawFn == nil {
		return
	}
	ast.Inspect(n, func(m ast.Node) bool {
		if _, ok := m.(*ast.FuncLit); ok {
			return false
		}
		e, ok := m.(ast.Expr)
		if !ok {
			return true
		}
		_, isUse, okc, why := a.cursorOf(e, st)
		if isUse {
			a.find("D3.cursor", a.caseOf(e)+a.site(e), okc, a.k.g.Pos(e.Pos())+": "+why)
		}
		return true
	})
}

// caseOf names the innermost case clause around a node by its first constant.
func (a *c12An) caseOf(n ast.Node) string {
	path := core.PathTo(a.fl.F.Decl.Body, n)
	for i := len(path) - 1; i >= 0; i-- {
		if cc, ok := path[i].(*ast.CaseClause); ok && len(cc.List) > 0 {
			return "case " + core.Src(a.k.g.Fset, cc.List[0]) + ": "
		}
	}
	return ""
}

func (a *c12An) run() {
	g := a.fl.G
	a.in = map[*cfg.Block]*c12St{}
	for _, b := range g.Blocks {
		a.in[b] = c12Top()
	}
	if len(g.Blocks) == 0 {
		return
	}
	a.in[g.Blocks[0]] = c12Bottom()
	flow := func(b *cfg.Block, record bool) *c12St {
		a.record = record
		st := a.in[b].clone()
		if st.top {
			return st
		}
		if b.Kind == cfg.KindRangeBody {
			if rs, ok := b.Stmt.(*ast.RangeStmt); ok {
				for _, e := range []ast.Expr{rs.Key, rs.Value} {
					if e == nil {
						continue
					}
					if o := a.fl.Obj(e); o != nil {
						st.killVar(o)
						delete(st.E, o)
						delete(st.S, o)
						delete(st.SK, o)
						delete(st.CU, o)
						delete(st.IV, o)
					}
				}
			}
		}
		for _, n := range b.Nodes {
			a.checkUses(n, st)
			if record {
				if r, ok := n.(*ast.ReturnStmt); ok {
					a.atReturn(r, st)
				}
			}
			a.transfer(n, st)
		}
		return st
	}
	work := []*cfg.Block{g.Blocks[0]}
	inWork := map[*cfg.Block]bool{g.Blocks[0]: true}
	for iter := 0; len(work) > 0 && iter < 100000; iter++ {
		b := work[0]
		work = work[1:]
		inWork[b] = false
		out := flow(b, false)
		if out.top {
			continue
		}
		for _, s := range b.Succs {
			m := c12Meet(a.in[s], out)
			if !m.same(a.in[s]) {
				a.in[s] = m
				if !inWork[s] {
					inWork[s] = true
					work = append(work, s)
				}
			}
		}
	}
	a.findings = nil
	for _, b := range g.Blocks {
		if b.Live {
			flow(b, true)
		}
	}
	a.record = false
}

func (a *c12An) atReturn(r *ast.ReturnStmt, st *c12St) {
	if a.rawFn != nil {
		a.find("D3.pending", a.site(r), st.J == c12JNone, a.k.g.Pos(r.Pos())+": the function returns while "+c12JText(st))
		return
	}
	a.find("D3.aligned", a.site(r), st.A, a.k.g.Pos(r.Pos())+": on some path to this return the returned line does not start where the returned rest-of-source starts")
	if a.part != nil {
		a.find("D3.partition", a.site(r), st.AP != nil && st.AP.equal(st.RS),
			fmt.Sprintf("%s: on some path to this return restOfSrc[:%s] was appended but the returned rest of the source is restOfSrc[%s:] (? = not of that form, or its index was changed in between)", a.k.g.Pos(r.Pos()), st.AP, st.RS))
	}
}

// c12Escaping: a tracked variable has its address taken, is captured by a
// function literal or is a range key/value: the dataflow would not see its writes.
func c12Escaping(fl *core.Flow, objs ...types.Object) string {
	is := func(e ast.Expr) bool {
		o := fl.Obj(e)
		if o == nil || !isIdent(e) {
			return false
		}
		for _, x := range objs {
			if x == o {
				return true
			}
		}
		return false
	}
	why := ""
	ast.Inspect(fl.F.Decl.Body, func(n ast.Node) bool {
		switch x := n.(type) {
		case *ast.FuncLit:
			ast.Inspect(x.Body, func(m ast.Node) bool {
				if id, ok := m.(*ast.Ident); ok && is(id) {
					why = id.Name + " is used inside a function literal"
				}
				return true
			})
			return false
		case *ast.UnaryExpr:
			if x.Op == token.AND && is(x.X) {
				why = "the address of " + core.Src(fl.F.Prog.Fset, x.X) + " is taken"
			}
		case *ast.RangeStmt:
			if (x.Key != nil && is(x.Key)) || (x.Value != nil && is(x.Value)) {
				why = "a cursor variable is a range key/value"
			}
		}
		return true
	})
	return why
}

// ---- entry point ----

func runC12Cursor(k *gctx) {
	c := k.c
	fl := k.flow("D3", "lib/dumbindent", "", "FormatBytes")
	hf := k.flow("D3", "lib/dumbindent", "", "handleRaw")
	if fl == nil || hf == nil {
		return
	}
	name := fl.F.Name()
	hname := hf.F.Name()
	summaries := map[*types.Func]string{}
	nsum := 0
	if p := k.g.Pkg("lib/dumbindent"); p != nil {
		for _, f := range k.g.AllFuncs(p) {
			if f.Obj != nil {
				if s := c12Summary(f); s != "" {
					summaries[f.Obj] = s
					nsum++
				}
			}
		}
	}
	c.Floor("D3.summary", "dumbindent helpers recognised as returning a prefix or a suffix of their argument (trimTrailingWhiteSpace, trimLeadingWhiteSpace*, skipCooked)", nsum, 3)

	// --- handleRaw: returned line is a prefix of returned rest-of-source; the
	// appended bytes and the returned rest partition the argument.
	rawOK := false
	func() {
		claimA := "handleRaw returns (…, retSrc, line, …) with line starting where retSrc starts; FormatBytes re-binds src and line from them and then takes lineLength = len(line), so a returned line that starts elsewhere makes the next src[lineLength-len(rest):] point at the wrong byte (bytes duplicated or dropped, or no progress: the hang repaired by f047af5)"
		ft := hf.F.Decl.Type
		if ft.Results == nil || ft.Results.NumFields() != 4 {
			c.Fail("D3.aligned", hname, claimA, 1, k.g.Pos(hf.F.Decl.Pos())+": handleRaw does not return four values (dst, rest of source, line, remaining): the caller cannot re-bind src after a multi-line comment or raw string")
			return
		}
		var named []types.Object
		for _, f := range ft.Results.List {
			for _, id := range f.Names {
				named = append(named, hf.F.Info().Defs[id])
			}
		}
		var srcR, lineR types.Object
		okRoles := true
		nret := 0
		ast.Inspect(hf.F.Decl.Body, func(n ast.Node) bool {
			if _, isLit := n.(*ast.FuncLit); isLit {
				return false
			}
			r, ok := n.(*ast.ReturnStmt)
			if !ok {
				return true
			}
			nret++
			var s, l types.Object
			switch {
			case len(r.Results) == 4 && isIdent(r.Results[1]) && isIdent(r.Results[2]):
				s, l = hf.Obj(r.Results[1]), hf.Obj(r.Results[2])
			case len(r.Results) == 0 && len(named) == 4:
				s, l = named[1], named[2]
			}
			if s == nil || l == nil || (srcR != nil && (s != srcR || l != lineR)) {
				okRoles = false
				return true
			}
			srcR, lineR = s, l
			return true
		})
		if !okRoles || srcR == nil || nret == 0 {
			c.Undecided("D3.aligned", hname, claimA, "the returned rest-of-source and line are not the same two local variables at every return")
			return
		}
		if why := c12Escaping(hf, srcR, lineR); why != "" {
			c.Undecided("D3.aligned", hname, claimA, why)
			return
		}
		an := &c12An{k: k, fl: hf, src: srcR, line: lineR, dst: hf.Param(0), part: hf.Param(1), summaries: summaries}
		an.run()
		ok, n := true, 0
		var det []string
		for _, f := range an.findings {
			if f.rule != "D3.aligned" {
				continue
			}
			n++
			if !f.ok {
				ok = false
				det = append(det, f.detail)
			}
		}
		rawOK = ok && n > 0
		c.Check(rawOK, "D3.aligned", hname, claimA, n, strings.Join(det, "\n"))

		// partition
		claimP := "handleRaw appends restOfSrc[:end] and returns restOfSrc[end:] for the same end: a different index drops or duplicates input bytes around the end of every comment and raw string"
		ok, n = true, 0
		det = nil
		for _, f := range an.findings {
			if f.rule != "D3.partition" {
				continue
			}
			n++
			if !f.ok {
				ok = false
				det = append(det, f.detail)
			}
		}
		c.Check(ok && n > 0, "D3.partition", hname, claimP, n, strings.Join(det, "\n"))
	}()

	// --- FormatBytes
	claim := "every src[lineLength-len(rest):] in FormatBytes is evaluated with lineLength == len(line as it was when src and line were last bound together, before any byte was taken off line's front) and rest ending where line ends, so that it denotes the byte at which rest starts; a stale lineLength or src (after handleRaw re-based line, or after leading '}'s were taken off) makes handleRaw re-copy or skip input bytes, or loop forever"
	src := fl.Param(1)
	dst := fl.Param(0)
	var line types.Object
	ast.Inspect(fl.F.Decl.Body, func(m ast.Node) bool {
		if fs, ok := m.(*ast.ForStmt); ok && line == nil {
			if as, ok := fs.Init.(*ast.AssignStmt); ok && len(as.Lhs) >= 1 {
				line = fl.Obj(as.Lhs[0])
			}
		}
		return true
	})
	if line == nil || src == nil || dst == nil || !c12IsByteSlice(line.Type()) {
		c.Undecided("D3.cursor", name, claim, "the current-line variable (first variable of the line loop's init statement) was not found")
		return
	}
	if why := c12Escaping(fl, src, line, dst); why != "" {
		c.Undecided("D3.cursor", name, claim, why)
		return
	}
	an := &c12An{k: k, fl: fl, src: src, line: line, dst: dst, rawFn: hf.F.Obj, rawOK: rawOK, summaries: summaries}
	an.run()
	claims := map[string]string{
		"D3.cursor":  claim,
		"D3.arg":     "the rest-of-source argument of every handleRaw call is src[lineLength-len(line[K:]):] (checked by D3.cursor), i.e. the position line[K:] in the input; any other slice makes handleRaw copy from the wrong byte",
		"D3.handoff": "when handleRaw takes over at line[K:], exactly line[:K] has been appended to dst since line was last advanced: otherwise the bytes between the last append and K are dropped, or appended twice",
		"D3.rebind":  "after handleRaw, dst, src and line are re-bound together from its results (src from the returned rest of the source): otherwise src still describes the physical line on which the comment or raw string started and the next src[lineLength-…] is stale (f047af5)",
		"D3.advance": "line is only advanced from the front (line = line[K:], line = suffix) by exactly the K bytes that were appended to dst just before: otherwise input bytes are dropped or output twice",
		"D3.pending": "a partial append of the line (dst = append(dst, line[:K]...)) is always followed by advancing line by K before anything else of the line is appended, the line is re-bound, or the function returns: otherwise line[:K] is output twice",
	}
	type agg struct {
		ok  bool
		n   int
		det []string
		und bool
	}
	byKey := map[string]*agg{}
	var keys []string
	count := map[string]int{}
	for _, f := range an.findings {
		key := f.rule + "\x00" + f.site
		g := byKey[key]
		if g == nil {
			g = &agg{ok: true}
			byKey[key] = g
			keys = append(keys, key)
			count[f.rule]++
		}
		g.n++
		if f.undecided {
			g.und = true
			g.det = append(g.det, f.detail)
		} else if !f.ok {
			g.ok = false
			g.det = append(g.det, f.detail)
		}
	}
	sort.Strings(keys)
	for _, key := range keys {
		parts := strings.SplitN(key, "\x00", 2)
		g := byKey[key]
		if parts[0] == "D3.handoff.unverified" {
			continue
		}
		anchor := name + "[" + parts[1] + "]"
		switch {
		case g.und:
			c.Undecided(parts[0], anchor, claims[parts[0]], strings.Join(g.det, "\n"))
		default:
			c.Check(g.ok, parts[0], anchor, claims[parts[0]], g.n, strings.Join(g.det, "\n"))
		}
	}
	c.Floor("D3.cursor", "uses of src[lineLength-len(rest):] in FormatBytes", count["D3.cursor"], 2)
	c.Floor("D3.arg", "handleRaw calls in FormatBytes", count["D3.arg"], 2)
	c.Floor("D3.handoff", "handleRaw calls whose hand-over point was compared with the last append (or whose position is reported by D3.cursor)", count["D3.handoff"]+count["D3.handoff.unverified"], 2)
	c.Floor("D3.rebind", "handleRaw calls whose results re-bind dst, src, line", count["D3.rebind"], 2)
	c.Floor("D3.advance", "front advances of line in FormatBytes (leading '}'s, cooked strings)", count["D3.advance"], 2)
	c.Floor("D3.pending", "points where no partial append may be pending (partial/whole appends, re-bindings of line, returns)", count["D3.pending"], 6)
}
