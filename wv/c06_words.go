package main

// C06 fresh.words — the origin analysis (c06_fresh.go) tracks *big.Int
// pointers. Two results with different pointers can still share their digits:
// a big.Int is a struct whose unexported field `abs` is a slice, so a shallow
// copy of the struct (`z := *i; return &z`) yields a new pointer over the
// operand's words, and the documented word-level accessors Bits / SetBits
// hand the backing array out or adopt a foreign one. math/big's own methods
// (Set, Add, …) never alias the words of a distinct operand with those of the
// result they write; so inside lib/interval the pointer-level analysis is
// complete exactly when neither of those two things happens. This rule
// decides that: in every function of the package (the SSA form, so that it
// holds whatever the syntax), no instruction loads, stores, copies or passes a
// value whose type holds a math/big.Int BY VALUE, no (*big.Int).SetBits adopts
// a word slice that was not made in the calling function, and the slice that
// (*big.Int).Bits returns is only read (indexed, measured), never stored,
// passed on or re-sliced.

import (
	"fmt"
	"go/token"
	"go/types"
	"sort"
	"strings"

	"golang.org/x/tools/go/ssa"
)

// holdsBigIntByValue: t is big.Int, or a struct / array embedding one directly
// (not behind a pointer, slice, map, chan or interface).
func holdsBigIntByValue(t types.Type, bigInt *types.Named, seen map[types.Type]bool) bool {
	if t == nil {
		return false
	}
	t = types.Unalias(t)
	if n, ok := t.(*types.Named); ok && n.Obj() == bigInt.Obj() {
		return true
	}
	if seen[t] {
		return false
	}
	seen[t] = true
	switch u := t.Underlying().(type) {
	case *types.Struct:
		for i := 0; i < u.NumFields(); i++ {
			if holdsBigIntByValue(u.Field(i).Type(), bigInt, seen) {
				return true
			}
		}
	case *types.Array:
		return holdsBigIntByValue(u.Elem(), bigInt, seen)
	case *types.Tuple:
		for i := 0; i < u.Len(); i++ {
			if holdsBigIntByValue(u.At(i).Type(), bigInt, seen) {
				return true
			}
		}
	}
	return false
}

func runC06Words(k *gctx, prog *ssa.Program) {
	c, g := k.c, k.g
	bo, _ := g.LookupObj("math/big", "Int").(*types.TypeName)
	pkg := g.Pkg(relInterval)
	if bo == nil || pkg == nil {
		c.Undecided("fresh.words", relInterval, "math/big.Int resolves", "type not found")
		return
	}
	bigInt, _ := bo.Type().(*types.Named)
	sp := prog.Package(pkg.Types)
	if sp == nil {
		c.Undecided("fresh.words", relInterval, "the package has an SSA form", "no SSA package")
		return
	}
	byVal := func(t types.Type) bool { return holdsBigIntByValue(t, bigInt, map[types.Type]bool{}) }
	// every function of the package: members, methods, and their closures
	var fns []*ssa.Function
	seen := map[*ssa.Function]bool{}
	var addFn func(f *ssa.Function)
	addFn = func(f *ssa.Function) {
		if f == nil || seen[f] || len(f.Blocks) == 0 {
			return
		}
		seen[f] = true
		fns = append(fns, f)
		for _, an := range f.AnonFuncs {
			addFn(an)
		}
	}
	for _, m := range sp.Members {
		switch m := m.(type) {
		case *ssa.Function:
			addFn(m)
		case *ssa.Type:
			for _, t := range []types.Type{m.Type(), types.NewPointer(m.Type())} {
				ms := prog.MethodSets.MethodSet(t)
				for i := 0; i < ms.Len(); i++ {
					if f := prog.MethodValue(ms.At(i)); f != nil && f.Pkg == sp && f.Synthetic == "" {
						addFn(f)
					}
				}
			}
		}
	}
	sort.Slice(fns, func(i, j int) bool { return fns[i].Pos() < fns[j].Pos() })
	var bad []string
	ninstr, ncalls := 0, 0
	for _, f := range fns {
		if f.Synthetic != "" && f.Name() != "init" {
			continue
		}
		report := func(pos token.Pos, what string) {
			if pos == token.NoPos {
				pos = f.Pos()
			}
			bad = append(bad, fmt.Sprintf("%s: %s: %s", g.Pos(pos), ssaShortName(f), what))
		}
		for _, p := range f.Params {
			if byVal(p.Type()) {
				report(p.Pos(), "parameter "+p.Name()+" is a big.Int passed by value (a shallow copy sharing the caller's words)")
			}
		}
		if byVal(f.Signature.Results()) {
			report(f.Pos(), "returns a big.Int by value")
		}
		for _, b := range f.Blocks {
			for _, ins := range b.Instrs {
				ninstr++
				switch x := ins.(type) {
				case *ssa.Alloc:
					continue // the storage itself; zero until written
				case *ssa.Store:
					if byVal(x.Val.Type()) {
						if cst, ok := x.Val.(*ssa.Const); ok && cst.Value == nil {
							continue // zeroing
						}
						report(x.Pos(), "stores a big.Int by value (`*p = v`): the destination shares the source's words")
					}
					continue
				}
				if cc, ok := ins.(ssa.CallInstruction); ok {
					ncalls++
					if callee := cc.Common().StaticCallee(); callee != nil {
						if o, _ := callee.Object().(*types.Func); o != nil && o.Pkg() != nil && o.Pkg().Path() == "math/big" && (o.Name() == "Bits" || o.Name() == "SetBits") {
							if sig, _ := o.Type().(*types.Signature); sig != nil && sig.Recv() != nil {
								switch o.Name() {
								case "SetBits":
									// adopting a slice made here is not sharing; adopting anything else may be
									if args := cc.Common().Args; len(args) == 2 && !wordsFresh(args[1], map[ssa.Value]bool{}) {
										report(ins.Pos(), "calls (*big.Int).SetBits with a word slice that was not made in this function: the receiver adopts that backing array")
									}
								case "Bits":
									// reading the words is harmless; letting the slice go anywhere else is not
									if v, ok := ins.(ssa.Value); ok && !wordsOnlyRead(v) {
										report(ins.Pos(), "the word slice returned by (*big.Int).Bits is stored, passed on or re-sliced: it aliases the receiver's digits")
									}
								}
							}
						}
					}
				}
				if v, ok := ins.(ssa.Value); ok && byVal(v.Type()) {
					if cst, ok := v.(*ssa.Const); ok && cst.Value == nil {
						continue
					}
					report(ins.Pos(), fmt.Sprintf("`%s` produces a big.Int by value (a shallow copy: new address, same words)", strings.TrimSpace(ins.String())))
				}
			}
		}
	}
	claim := "no function of lib/interval copies a math/big.Int by value, hands a foreign word slice to SetBits, or lets the slice returned by Bits escape; together with math/big's own contract this makes distinct *big.Int pointers (what fresh.result tracks) own distinct digits"
	if len(bad) > 0 {
		c.Fail("fresh.words", relInterval, claim, ninstr, strings.Join(bad, "\n"))
	} else {
		c.Pass("fresh.words", relInterval, claim, ninstr, fmt.Sprintf("%d functions, %d SSA instructions, %d calls examined", len(fns), ninstr, ncalls))
	}
	c.Floor("fresh.words", "functions of lib/interval examined instruction by instruction", len(fns), 45)
}

// wordsFresh: v is a []big.Word made in this function (make, a slice of a
// local array, nil, or a phi / re-slice / append of such).
func wordsFresh(v ssa.Value, seen map[ssa.Value]bool) bool {
	if seen[v] {
		return true
	}
	seen[v] = true
	switch x := v.(type) {
	case *ssa.MakeSlice:
		return true
	case *ssa.Const:
		return x.Value == nil
	case *ssa.Slice:
		if a, ok := x.X.(*ssa.Alloc); ok {
			_ = a
			return true
		}
		return wordsFresh(x.X, seen)
	case *ssa.Phi:
		for _, e := range x.Edges {
			if !wordsFresh(e, seen) {
				return false
			}
		}
		return true
	case *ssa.Call:
		if b, ok := x.Call.Value.(*ssa.Builtin); ok && b.Name() == "append" && len(x.Call.Args) > 0 {
			return wordsFresh(x.Call.Args[0], seen)
		}
	case *ssa.ChangeType:
		return wordsFresh(x.X, seen)
	}
	return false
}

// wordsOnlyRead: every use of the slice v reads an element or its length.
func wordsOnlyRead(v ssa.Value) bool {
	refs := v.Referrers()
	if refs == nil {
		return false
	}
	for _, r := range *refs {
		switch x := r.(type) {
		case *ssa.IndexAddr:
			if ir := x.Referrers(); ir != nil {
				for _, u := range *ir {
					if un, ok := u.(*ssa.UnOp); !ok || un.Op != token.MUL {
						return false
					}
				}
			}
		case *ssa.Call:
			if b, ok := x.Call.Value.(*ssa.Builtin); !ok || (b.Name() != "len" && b.Name() != "cap") {
				return false
			}
		case *ssa.Range, *ssa.DebugRef:
		default:
			return false
		}
	}
	return true
}
