package main

import (
	"fmt"
	"os"
	"sort"
	"strings"

	"wv/core"

	a "github.com/google/wuffs/lang/ast"
	t "github.com/google/wuffs/lang/token"
)

func init() {
	register("C05", core.Spec{
		Decides:    "for every coroutine of std/ and of the liveness corpus, on the C the working tree's compiler generates: (1) liveness adequacy — every local variable that is live across some suspension point and may have been assigned before it (textbook backward may-liveness and forward may-assignment on a control-flow model of the Wuffs AST, computed by this checker independently of cgen's none/weak/strong analysis) is a field of the function's saved-state struct s_<func>; (2) every saved field is restored in the resume block and stored in the suspend block, with matching array copies, and nothing leaves the suspend block before the stores; (3) suspension-point labels inside the coroutine switch are exactly 1..n without duplicates, the resume index p_<func> is cleared on ok: and recorded on suspend:, and the switch is entered at point 0; (4) the scratch word of partially completed I/O built-ins (multi-byte reads, skip, write_u8): code resumed at a suspension-point label never overwrites the scratch word before reading it when the stretch up to the next suspension records partial progress there (S1), every label after which the scratch word is read is entered right after its initialisation (S2), and cgen emits the scratch store before the suspension point in each lowering that uses it (S3)",
		NotDecided: "the bit arithmetic of the scratch-word accumulation loop (that the value assembled from the partial reads is the right one), locals that hold pointers (slices, tables, I/O tokens — cgen does not save them; whether each such use is safe is a value-level argument, listed as INFO only), re-evaluation purity of nested call arguments, and the actual equality of outputs under every split",
		Assumptions: []string{"the suspension-point model: `yield?` suspends after evaluating its value; a `?` call on an I/O token suspends after its arguments are evaluated (the built-in keeps partial state itself); any other `?` call is re-entered at the call statement and re-evaluates its arguments; `=?` is not a suspension point",
			"local variables are re-zeroed on every entry, so a variable never assigned before a suspension point needs no save",
			"the Wuffs front end (lang/token, parse, check) as parser/type annotator of std/*.wuffs"},
		Exhaustive: true,
	}, runC05)
}

type vset map[t.ID]bool

func (s vset) clone() vset {
	o := vset{}
	for k := range s {
		o[k] = true
	}
	return o
}
func (s vset) addAll(o vset) bool {
	ch := false
	for k := range o {
		if !s[k] {
			s[k] = true
			ch = true
		}
	}
	return ch
}

// wlive is the per-function analysis state.
type wlive struct {
	p       *WPkg
	vars    map[t.ID]*a.Var
	liveAt  map[*a.Node]vset // suspension statement -> live across it
	asgAt   map[*a.Node]vset // suspension statement -> may-assigned before it
	loopBrk map[a.Loop]vset
	loopCnt map[a.Loop]vset
	fBrk    map[a.Loop]vset // forward: accumulated state at breaks
	fCnt    map[a.Loop]vset
	nCSP    int
	err     string
}

// uses collects local variables read in an expression tree.
func (w *wlive) uses(n *a.Expr, into vset) {
	if n == nil {
		return
	}
	for _, o := range n.AsNode().AsRaw().SubNodes() {
		if o != nil && o.Kind() == a.KExpr {
			w.uses(o.AsExpr(), into)
		}
	}
	for _, o := range n.Args() {
		switch o.Kind() {
		case a.KArg:
			w.uses(o.AsArg().Value(), into)
		case a.KExpr:
			w.uses(o.AsExpr(), into)
		}
	}
	if n.Operator() == 0 {
		if _, ok := w.vars[n.Ident()]; ok {
			into[n.Ident()] = true
		}
	}
}

func lhsRoot(n *a.Expr) *a.Expr {
	for n != nil && n.Operator() != 0 {
		n = n.LHS().AsExpr()
	}
	return n
}

func isCoroCall(rhs *a.Expr) bool {
	return rhs != nil && rhs.Operator() == a.ExprOperatorCall && rhs.Effect().Coroutine()
}

func ioRecv(rhs *a.Expr) bool {
	recv := rhs.LHS().AsExpr().LHS().AsExpr()
	return recv != nil && recv.MType() != nil && recv.MType().IsIOTokenType()
}

func (w *wlive) record(m map[*a.Node]vset, n *a.Node, s vset) {
	if m[n] == nil {
		m[n] = vset{}
	}
	m[n].addAll(s)
}

// back computes live-in of a statement list given live-out (backward may-liveness).
func (w *wlive) back(list []*a.Node, out vset) vset {
	live := out.clone()
	for i := len(list) - 1; i >= 0; i-- {
		o := list[i]
		switch o.Kind() {
		case a.KAssign:
			n := o.AsAssign()
			lhs, rhs, op := n.LHS(), n.RHS(), n.Operator()
			after := live // live after the statement
			cur := after.clone()
			lhsUses := vset{}
			if lhs != nil {
				if lhs.Operator() == 0 {
					if op == t.IDEq || op == t.IDEqQuestion {
						delete(cur, lhs.Ident())
					} else if _, ok := w.vars[lhs.Ident()]; ok {
						lhsUses[lhs.Ident()] = true
					}
				} else {
					w.uses(lhs, lhsUses)
				}
			}
			cur.addAll(lhsUses)
			if isCoroCall(rhs) && op != t.IDEqQuestion {
				w.nCSP++
				if ioRecv(rhs) {
					// arguments evaluated, then the suspension point, then the assignment
					w.record(w.liveAt, o, cur)
					w.uses(rhs, cur)
				} else {
					// re-entered at the statement: arguments are evaluated after each resumption
					w.uses(rhs, cur)
					w.record(w.liveAt, o, cur)
				}
			} else {
				w.uses(rhs, cur)
			}
			live = cur
		case a.KExpr:
			w.uses(o.AsExpr(), live)
		case a.KVar:
			// `var x T` is an implicit x = 0 executed on every entry
			delete(live, o.AsVar().Name())
		case a.KIf:
			live = w.backIf(o.AsIf(), live)
		case a.KWhile:
			live = w.backWhile(o.AsWhile(), live)
		case a.KIOManip:
			n := o.AsIOManip()
			in := w.back(n.Body(), live)
			w.uses(n.IO(), in)
			w.uses(n.Arg1(), in)
			w.uses(n.HistoryPosition(), in)
			live = in
		case a.KJump:
			n := o.AsJump()
			var tgt vset
			if n.Keyword() == t.IDBreak {
				tgt = w.loopBrk[n.JumpTarget()]
			} else {
				tgt = w.loopCnt[n.JumpTarget()]
			}
			live = tgt.clone()
		case a.KRet:
			n := o.AsRet()
			if n.Keyword() == t.IDYield {
				w.nCSP++
				w.record(w.liveAt, o, live)
				w.uses(n.Value(), live)
			} else {
				live = vset{}
				w.uses(n.Value(), live)
			}
		case a.KIterate:
			w.err = "iterate inside a coroutine"
		case a.KAssert, a.KChoose:
			// no run-time effect on locals
		}
	}
	return live
}

func (w *wlive) backIf(n *a.If, out vset) vset {
	in := w.back(n.BodyIfTrue(), out)
	if ei := n.ElseIf(); ei != nil {
		in.addAll(w.backIf(ei, out))
	} else {
		in.addAll(w.back(n.BodyIfFalse(), out))
	}
	w.uses(n.Condition(), in)
	return in
}

func (w *wlive) backWhile(n *a.While, out vset) vset {
	w.loopBrk[n] = out.clone()
	head := vset{}
	if !n.IsWhileTrue() {
		head.addAll(out)
	}
	w.uses(n.Condition(), head)
	for {
		w.loopCnt[n] = head.clone()
		bodyIn := w.back(n.Body(), head)
		if !head.addAll(bodyIn) {
			break
		}
	}
	return head
}

// assignedIn: variables a statement's own expressions may assign.
func (w *wlive) markAssigned(lhs *a.Expr, rhs *a.Expr, s vset) {
	if lhs != nil {
		if r := lhsRoot(lhs); r != nil {
			if _, ok := w.vars[r.Ident()]; ok {
				s[r.Ident()] = true
			}
		}
	}
	// a non-numeric local (array, slice) mentioned in a call may be written through
	var walk func(n *a.Expr, inCall bool)
	walk = func(n *a.Expr, inCall bool) {
		if n == nil {
			return
		}
		call := inCall || n.Operator() == a.ExprOperatorCall
		for _, o := range n.AsNode().AsRaw().SubNodes() {
			if o != nil && o.Kind() == a.KExpr {
				walk(o.AsExpr(), call)
			}
		}
		for _, o := range n.Args() {
			switch o.Kind() {
			case a.KArg:
				walk(o.AsArg().Value(), call)
			case a.KExpr:
				walk(o.AsExpr(), call)
			}
		}
		if n.Operator() == 0 && inCall {
			if v, ok := w.vars[n.Ident()]; ok {
				if ty := v.XType(); !(ty.IsNumType() || ty.IsBool() || ty.IsStatus()) {
					s[n.Ident()] = true
				}
			}
		}
	}
	walk(rhs, false)
	if lhs != nil {
		walk(lhs, false)
	}
}

// fwd computes the may-assigned set after a statement list; falls=false when
// control never reaches the end.
func (w *wlive) fwd(list []*a.Node, in vset) (vset, bool) {
	cur := in.clone()
	for _, o := range list {
		switch o.Kind() {
		case a.KAssign:
			n := o.AsAssign()
			if isCoroCall(n.RHS()) && n.Operator() != t.IDEqQuestion {
				before := cur.clone()
				// arguments may write through array locals before the point either way
				w.markAssigned(nil, n.RHS(), before)
				w.record(w.asgAt, o, before)
			}
			w.markAssigned(n.LHS(), n.RHS(), cur)
		case a.KExpr:
			w.markAssigned(nil, o.AsExpr(), cur)
		case a.KIf:
			cur = w.fwdIf(o.AsIf(), cur)
			if cur == nil {
				return vset{}, false
			}
		case a.KWhile:
			var falls bool
			cur, falls = w.fwdWhile(o.AsWhile(), cur)
			if !falls {
				return vset{}, false
			}
		case a.KIOManip:
			var falls bool
			cur, falls = w.fwd(o.AsIOManip().Body(), cur)
			if !falls {
				return vset{}, false
			}
		case a.KJump:
			n := o.AsJump()
			if n.Keyword() == t.IDBreak {
				w.fBrk[n.JumpTarget()].addAll(cur)
				w.fBrk[n.JumpTarget()][0] = true // marker: some break reaches the loop exit
			} else {
				w.fCnt[n.JumpTarget()].addAll(cur)
			}
			return vset{}, false
		case a.KRet:
			n := o.AsRet()
			if n.Keyword() == t.IDYield {
				w.record(w.asgAt, o, cur)
			} else {
				return vset{}, false
			}
		}
	}
	return cur, true
}

func (w *wlive) fwdIf(n *a.If, in vset) vset {
	var out vset
	merge := func(s vset, falls bool) {
		if !falls {
			return
		}
		if out == nil {
			out = vset{}
		}
		out.addAll(s)
	}
	merge(w.fwd(n.BodyIfTrue(), in))
	if ei := n.ElseIf(); ei != nil {
		if r := w.fwdIf(ei, in); r != nil {
			merge(r, true)
		}
	} else {
		merge(w.fwd(n.BodyIfFalse(), in))
	}
	return out
}

func (w *wlive) fwdWhile(n *a.While, in vset) (vset, bool) {
	w.fBrk[n] = vset{}
	w.fCnt[n] = vset{}
	head := in.clone()
	for {
		bodyOut, falls := w.fwd(n.Body(), head)
		ch := false
		if falls {
			ch = head.addAll(bodyOut) || ch
		}
		ch = head.addAll(w.fCnt[n]) || ch
		if !ch {
			break
		}
	}
	out := vset{}
	reach := false
	if !n.IsWhileTrue() {
		out.addAll(head)
		reach = true
	}
	if w.fBrk[n][0] {
		delete(w.fBrk[n], 0)
		out.addAll(w.fBrk[n])
		reach = true
	}
	delete(out, 0)
	return out, reach
}

func names(p *WPkg, s vset) []string {
	var out []string
	for k := range s {
		out = append(out, p.str(k))
	}
	sort.Strings(out)
	return out
}

// analyse returns the must-save set M and the weaker "live at some CSP" set M0.
func analyseCoroutine(p *WPkg, f *a.Func) (m, m0 vset, nCSP int, ptrLive []string, err string) {
	w := &wlive{p: p, vars: map[t.ID]*a.Var{}, liveAt: map[*a.Node]vset{}, asgAt: map[*a.Node]vset{},
		loopBrk: map[a.Loop]vset{}, loopCnt: map[a.Loop]vset{}, fBrk: map[a.Loop]vset{}, fCnt: map[a.Loop]vset{}}
	for _, n := range f.Body() {
		if n.Kind() != a.KVar {
			break
		}
		w.vars[n.AsVar().Name()] = n.AsVar()
	}
	w.back(f.Body(), vset{})
	nCSP = w.nCSP
	w.fwd(f.Body(), vset{})
	m, m0 = vset{}, vset{}
	for stmt, live := range w.liveAt {
		asg := w.asgAt[stmt]
		for v := range live {
			m0[v] = true
			if asg != nil && asg[v] {
				m[v] = true
			}
		}
	}
	for v := range m {
		if w.vars[v].XType().HasPointers() {
			ptrLive = append(ptrLive, p.str(v))
		}
	}
	sort.Strings(ptrLive)
	return m, m0, nCSP, ptrLive, w.err
}

// savedFields parses `struct { … } s_<func>;` inside the struct definition of
// the generated C and returns the v_* field names, with "[]" appended for arrays.
func savedFields(cf *core.CFile, structName, funcName string) (map[string]bool, bool) {
	toks := cf.Toks
	// find: struct <structName>__struct {
	start := -1
	for i := 0; i+2 < len(toks); i++ {
		if toks[i].Is("struct") && toks[i+1].Is(structName+"__struct") && toks[i+2].Is("{") {
			start = i + 2
			break
		}
	}
	if start < 0 {
		return nil, false
	}
	end := matchBrace(toks, start)
	if end < 0 {
		return nil, false
	}
	// find `} s_<func> ;` inside and walk back to its opening brace
	for i := start; i < end; i++ {
		if toks[i].Is("}") && i+2 < end && toks[i+1].Is("s_"+funcName) && toks[i+2].Is(";") {
			// matching open
			depth := 0
			open := -1
			for j := i; j >= start; j-- {
				if toks[j].Is("}") {
					depth++
				} else if toks[j].Is("{") {
					depth--
					if depth == 0 {
						open = j
						break
					}
				}
			}
			if open < 0 {
				return nil, false
			}
			fields := map[string]bool{}
			declStart := open + 1
			for j := open + 1; j < i; j++ {
				if toks[j].Is(";") {
					decl := toks[declStart:j]
					declStart = j + 1
					name := ""
					arr := false
					for _, d := range decl {
						if d.Is("[") {
							arr = true
							break
						}
						if d.Kind == 'i' {
							name = d.Text
						}
					}
					if strings.HasPrefix(name, "v_") {
						if arr {
							fields[name+"[]"] = true
						} else {
							fields[name] = true
						}
					}
				}
			}
			return fields, true
		}
	}
	return map[string]bool{}, true // no saved-state struct: nothing is saved
}

func matchBrace(toks []core.CTok, i int) int {
	depth := 0
	for j := i; j < len(toks); j++ {
		if toks[j].Kind == '#' {
			continue
		}
		if toks[j].Is("{") {
			depth++
		} else if toks[j].Is("}") {
			depth--
			if depth == 0 {
				return j
			}
		}
	}
	return -1
}

func runC05(c *core.Ctx) {
	cb := c.BuildC()
	if cb == nil {
		return
	}
	pkgs := loadStd(c, cb)
	pkgs = append(pkgs, loadCorpus(c, cb, "liveness")...)
	runStaleIndex(c, pkgs)
	nCoro, sumM, sumM0, sumG, nCSPs, nWithSaved := 0, 0, 0, 0, 0, 0
	sumMC, nCSPC := 0, 0
	sst := &scratchStats{}
	for _, p := range pkgs {
		src, err := os.ReadFile(p.CPath)
		if err != nil {
			c.Infra("%v", err)
		}
		cf := core.CParseFile(p.CPath, string(src))
		for _, f := range p.Funcs {
			if !f.Effect().Coroutine() || len(f.Body()) == 0 {
				continue
			}
			nCoro++
			cname := p.funcCName(f)
			fname := p.str(f.FuncName())
			anchor := "coroutine " + p.Name + "." + p.str(f.Receiver()[1]) + "." + fname
			m, m0, ncsp, ptrLive, aerr := analyseCoroutine(p, f)
			if aerr != "" {
				c.Undecided("L1.liveness", anchor, "the Wuffs AST of this coroutine is within the analysed subset", aerr)
				continue
			}
			nCSPs += ncsp
			g, ok := savedFields(cf, p.structCName(p.structOf(f)), fname)
			if !ok {
				c.Undecided("L1.liveness", anchor, "the struct definition is found in the generated C", "struct "+p.structCName(p.structOf(f))+"__struct not found")
				continue
			}
			sumM += len(m)
			sumM0 += len(m0)
			sumG += len(g)
			if len(g) > 0 {
				nWithSaved++
			}
			var missing []string
			for v := range m {
				if w := p.str(v); !g["v_"+w] && !g["v_"+w+"[]"] {
					// pointer-bearing locals are never saved by cgen; reported as information only
					isPtr := false
					for _, pl := range ptrLive {
						if pl == w {
							isPtr = true
						}
					}
					if !isPtr {
						missing = append(missing, w)
					}
				}
			}
			sort.Strings(missing)
			var gl []string
			for k := range g {
				gl = append(gl, k)
			}
			sort.Strings(gl)
			c.Check(len(missing) == 0, "L1.liveness", anchor,
				"every local that is live across a suspension point and may have been assigned before it is in the saved-state struct (G ⊇ M)", ncsp+len(m),
				fmt.Sprintf("%s:%d: must-save M=%v, saved G=%v; not saved: %v — after a suspension at a point where it is live, the variable would resume as zero", f.Filename(), f.Line(), names(p, m), gl, missing))
			for _, pl := range ptrLive {
				c.Info("L1.pointer", anchor, fmt.Sprintf("pointer-bearing local %q is live across a suspension point and is not saved by cgen (safety is a value-level argument; not decided)", pl))
			}
			// (2)+(3) on the generated C.
			cfn := cf.ByNam[cname]
			if cfn == nil {
				c.Undecided("L2.pairing", anchor, "C definition found", cname+" not found")
				continue
			}
			stmts, perr := core.CParseBody(cfn.Body)
			if perr != nil {
				c.Undecided("L2.pairing", anchor, "C body parses", perr.Error())
				continue
			}
			checkResumeSuspend(c, anchor, fname, g, stmts, cfn)
			// (1b) liveness on the generated C itself.
			liveC, asgC, ctype, ncspC := cLiveAcross(stmts)
			var missC, ptrC []string
			nLiveC := 0
			for v, at := range liveC {
				if !asgC[v] {
					continue
				}
				nLiveC++
				if g[v] || g[v+"[]"] {
					continue
				}
				if pointerBearingCType(ctype[v]) {
					ptrC = append(ptrC, v)
					continue
				}
				missC = append(missC, fmt.Sprintf("%s (%s) live after suspension point(s) %s", v, ctype[v], strings.Join(at, ",")))
			}
			sort.Strings(missC)
			sumMC += nLiveC
			nCSPC += ncspC
			if ncspC > 0 {
				c.Check(len(missC) == 0, "L1c.cliveness", anchor,
					"in the generated C, every local (v_*, t_*) that is read after a suspension-point label before being reassigned, and that is assigned somewhere, is restored from the saved-state struct", ncspC+nLiveC,
					fmt.Sprintf("generated function %s: not saved: %v — a resumed call would read the re-zeroed local", cname, missC))
			}
			// (4) the scratch word of partially completed I/O built-ins (c05_scratch.go).
			checkScratchC(c, anchor, fname, cname, stmts, sst)
		}
	}
	c.Analysed("coroutines", nCoro)
	c.Analysed("coroutines_with_saved_state", nWithSaved)
	c.Analysed("suspension_points_in_wuffs_source", nCSPs)
	c.Analysed("sum_must_save_M", sumM)
	c.Analysed("sum_live_at_some_point_M0", sumM0)
	c.Analysed("sum_saved_G", sumG)
	c.Analysed("sum_live_in_generated_C", sumMC)
	c.Analysed("suspension_point_labels_in_generated_C", nCSPC)
	c.Floor("L1", "coroutines analysed", nCoro, 190)
	c.Floor("L1.saved", "coroutines with at least one saved local", nWithSaved, 50)
	c.Analysed("scratch_statements_in_generated_C", sst.touching)
	c.Analysed("scratch_labels_resumed_with_partial_progress", sst.accum)
	c.Analysed("scratch_labels_followed_by_a_scratch_read", sst.carrying)
	c.Floor("S1", "suspension-point labels whose resumed code stores partial progress in the scratch word (multi-byte read loops, skip)", sst.accum, 190)
	c.Floor("S2", "suspension-point labels after which the scratch word is read", sst.carrying, 200)
	checkScratchCgen(c)
}

func checkResumeSuspend(c *core.Ctx, anchor, fname string, g map[string]bool, st []*core.CStmt, cfn *core.CFunc) {
	var bad []string
	pfx := "self -> private_data . s_" + fname + " . "
	// resume block: top-level `if (coro_susp_point) { … }`
	restored := map[string]bool{}
	stored := map[string]bool{}
	suspendAt, okAt, switchAt := -1, -1, -1
	for i, s := range st {
		if s.Kind == "if" && core.CText(s.Toks) == "coro_susp_point" {
			for _, x := range s.Body {
				tx := core.CText(x.Toks)
				for f := range g {
					if strings.HasSuffix(f, "[]") {
						v := strings.TrimSuffix(f, "[]")
						if tx == "memcpy ( "+v+" , "+pfx+v+" , sizeof ( "+v+" ) )" {
							restored[f] = true
						}
					} else if tx == f+" = "+pfx+f {
						restored[f] = true
					}
				}
			}
		}
		if s.Kind == "label" && s.Label == "suspend" {
			suspendAt = i
		}
		if s.Kind == "switch" && core.CText(s.Toks) == "coro_susp_point" {
			switchAt = i
		}
	}
	if suspendAt >= 0 {
		for _, x := range st[suspendAt+1:] {
			if x.Kind == "label" || x.Kind == "goto" || x.Kind == "return" {
				break
			}
			tx := core.CText(x.Toks)
			for f := range g {
				if strings.HasSuffix(f, "[]") {
					v := strings.TrimSuffix(f, "[]")
					if tx == "memcpy ( "+pfx+v+" , "+v+" , sizeof ( "+v+" ) )" {
						stored[f] = true
					}
				} else if tx == pfx+f+" = "+f {
					stored[f] = true
				}
			}
		}
	}
	for f := range g {
		if !restored[f] {
			bad = append(bad, "saved field "+f+" is not restored in the `if (coro_susp_point)` resume block")
		}
		if !stored[f] {
			bad = append(bad, "saved field "+f+" is not stored right after `suspend:` (before any goto/return)")
		}
	}
	if len(g) > 0 {
		c.Check(len(bad) == 0, "L2.pairing", anchor, "each saved local is restored on resume and stored on suspend (arrays by memcpy of the whole array)", len(g), strings.Join(bad, "\n"))
	}
	// (3) suspension-point bookkeeping
	bad = nil
	var points []string
	all := cfn.Body
	for i := 0; i+3 < len(all); i++ {
		if (all[i].Is("WUFFS_BASE__COROUTINE_SUSPENSION_POINT") || all[i].Is("WUFFS_BASE__COROUTINE_SUSPENSION_POINT_MAYBE_SUSPEND")) && all[i+1].Is("(") {
			points = append(points, all[i+2].Text)
		}
	}
	if len(points) == 0 {
		return // no suspension point in C: nothing to resume
	}
	seen := map[string]bool{}
	for _, k := range points {
		if seen[k] {
			bad = append(bad, "suspension point label "+k+" is used twice: resuming would jump to the wrong place")
		}
		seen[k] = true
	}
	for i := 1; i <= len(points); i++ {
		if !seen[fmt.Sprint(i)] {
			bad = append(bad, fmt.Sprintf("suspension point labels are not 1..%d (missing %d)", len(points), i))
			break
		}
	}
	if switchAt < 0 {
		bad = append(bad, "no `switch (coro_susp_point)`")
	} else {
		sw := st[switchAt]
		if len(sw.Body) == 0 || core.CText(sw.Body[0].Toks) != "WUFFS_BASE__COROUTINE_SUSPENSION_POINT_0" {
			bad = append(bad, "the coroutine switch does not start with WUFFS_BASE__COROUTINE_SUSPENSION_POINT_0")
		}
		// ok: inside the switch clears p_<f>
		for i, x := range sw.Body {
			if x.Kind == "label" && x.Label == "ok" {
				okAt = i
				if i+1 >= len(sw.Body) || core.CText(sw.Body[i+1].Toks) != "self -> private_impl . p_"+fname+" = 0" {
					bad = append(bad, "`ok:` does not clear self->private_impl.p_"+fname)
				}
			}
		}
		if okAt < 0 {
			bad = append(bad, "no `ok:` label inside the coroutine switch")
		}
		// coro_susp_point is loaded from p_<f> before the switch
		loaded := false
		for _, x := range st[:switchAt] {
			if strings.HasSuffix(core.CText(x.Toks), "coro_susp_point = self -> private_impl . p_"+fname) {
				loaded = true
			}
		}
		if !loaded {
			bad = append(bad, "coro_susp_point is not loaded from self->private_impl.p_"+fname+" before the switch")
		}
	}
	if suspendAt < 0 {
		bad = append(bad, "no `suspend:` label")
	} else {
		want := "self -> private_impl . p_" + fname + " = wuffs_base__status__is_suspension ( & status ) ? coro_susp_point : 0"
		found := false
		for _, x := range st[suspendAt+1:] {
			if x.Kind == "label" || x.Kind == "goto" || x.Kind == "return" {
				break
			}
			if core.CText(x.Toks) == want {
				found = true
			}
		}
		if !found {
			bad = append(bad, "`suspend:` does not record p_"+fname+" = is_suspension(&status) ? coro_susp_point : 0")
		}
	}
	c.Check(len(bad) == 0, "L3.points", anchor, "suspension points are numbered 1..n uniquely, the resume index is loaded before the switch, cleared at ok: and recorded at suspend:", len(points), strings.Join(bad, "\n"))
}
