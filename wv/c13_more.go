package main

// Two structural necessary conditions of C13's round trip that were added
// after independently seeded changes showed the gap (DESIGN §11.5):
//   Z.strip  — trailing-zero elision of the two-slice pending buffer strips the
//              first slice only when the second is (already) empty;
//   D.stash  — racdict.Saver.Compress copies a winning candidate out of the
//              codec's reused output buffer before `compress` is called again.

import (
	"go/ast"
	"go/token"
	"go/types"

	"wv/core"
)

func runC13More(c *core.Ctx) {
	k := newG(c, "./lib/rac", "./lib/internal/racdict")
	runC13Pad(k)
	runC13GatherStale(k)
	// ---- Z.strip ----
	for _, fname := range []string{"writeDChunks"} {
		fl := k.flow("Z.strip", "lib/rac", "Writer", fname)
		if fl == nil {
			continue
		}
		strip := k.fn("Z.strip", "lib/rac", "", "stripTrailingZeroes")
		// the two peeked slices, in order
		var peek []types.Object
		ast.Inspect(fl.F.Decl.Body, func(m ast.Node) bool {
			as, ok := m.(*ast.AssignStmt)
			if ok && len(as.Lhs) == 2 && len(as.Rhs) == 1 && peek == nil {
				if call, ok := ast.Unparen(as.Rhs[0]).(*ast.CallExpr); ok && nameIs(fl, call, "peek") {
					peek = []types.Object{fl.Obj(as.Lhs[0]), fl.Obj(as.Lhs[1])}
				}
			}
			return true
		})
		if len(peek) != 2 || peek[0] == nil || peek[1] == nil {
			k.c.Undecided("Z.strip", fl.F.Name(), "the two-slice peek of the pending buffer", "not found")
			continue
		}
		stripOf := func(n ast.Node, o types.Object) bool {
			as, ok := n.(*ast.AssignStmt)
			if !ok {
				return false
			}
			for i, l := range as.Lhs {
				if fl.Obj(l) == o && i < len(as.Rhs) {
					if call, ok := ast.Unparen(as.Rhs[i]).(*ast.CallExpr); ok && fl.Call(strip, fl.Is(o))(call) {
						return true
					}
				}
			}
			return false
		}
		env := newC13Env(fl)
		// the edge implies len(o) <= 0: `len(o) == 0`, `0 == len(o)`, `len(o) < 1`, `!(len(o) > 0)`, `o == nil`, …
		lenIsZero := func(cond ast.Expr, o types.Object, taken bool) bool {
			T := affA(c13Atom{kind: 'l', obj: o})
			return env.edgeImplies(cond, taken, cond, func(f c13Aff, op token.Token) bool {
				r, ok := c13BoundsOn(f, op, T)
				return ok && r.atMost(0)
			})
		}
		k.mustPass("Z.strip.order", fl.F.Name(), "the chunk is peek0 ++ peek1: trailing zeroes of peek0 may be elided only after peek1 has been stripped…", fl, core.Query{
			Exit:   func(n ast.Node) bool { return stripOf(n, peek[0]) },
			Events: []core.Event{{Node: func(n ast.Node) bool { return stripOf(n, peek[1]) && !stripOf(n, peek[0]) }}}})
		k.mustPass("Z.strip.guard", fl.F.Name(), "…and only when nothing of peek1 is left (otherwise zero bytes in the middle of the chunk would be dropped)", fl, core.Query{
			Exit: func(n ast.Node) bool { return stripOf(n, peek[0]) },
			Events: []core.Event{{Edge: func(cond ast.Expr, ci *core.CondInfo, taken bool) bool {
				return lenIsZero(cond, peek[1], taken)
			}}}})
	}
	// ---- D.stash ----
	if fl := k.flow("D.stash", "lib/internal/racdict", "Saver", "Compress"); fl != nil {
		// the callback parameter `compress`
		var cb types.Object
		for i := 0; ; i++ {
			p := fl.Param(i)
			if p == nil {
				break
			}
			if _, ok := p.Type().Underlying().(*types.Signature); ok && p.Name() != "" && cb == nil {
				if sig := p.Type().Underlying().(*types.Signature); sig.Results().Len() == 2 {
					cb = p
				}
			}
		}
		if cb == nil {
			k.c.Undecided("D.stash", fl.F.Name(), "the compress callback parameter", "not found")
			return
		}
		isCB := func(call *ast.CallExpr) bool {
			id, ok := ast.Unparen(call.Fun).(*ast.Ident)
			return ok && fl.Obj(id) == cb
		}
		// variables holding a buffer returned by the callback
		raw := fl.VarsDenoting(func(e ast.Expr) bool {
			call, ok := ast.Unparen(e).(*ast.CallExpr)
			return ok && isCB(call)
		})
		var rawSlices []types.Object
		for _, v := range raw {
			if _, ok := v.Type().Underlying().(*types.Slice); ok {
				rawSlices = append(rawSlices, v)
			}
		}
		rawP := anyOf(fl, rawSlices)
		// the named result that is returned
		var result types.Object
		if fl.F.Decl.Type.Results != nil {
			for _, f := range fl.F.Decl.Type.Results.List {
				for _, id := range f.Names {
					if o := fl.F.Info().Defs[id]; o != nil {
						if _, ok := o.Type().Underlying().(*types.Slice); ok && result == nil {
							result = o
						}
					}
				}
			}
		}
		if result == nil || len(rawSlices) == 0 {
			k.c.Undecided("D.stash", fl.F.Name(), "the result slice and the callback's buffers", "not found")
			return
		}
		aliasAssign := func(n ast.Node) bool {
			as, ok := n.(*ast.AssignStmt)
			if !ok {
				return false
			}
			for i, l := range as.Lhs {
				if fl.Obj(l) == result && i < len(as.Rhs) && rawP(as.Rhs[i]) {
					return true
				}
			}
			return false
		}
		// the alias is harmless in the last iteration of the candidates loop: the assignment is
		// reached only across an edge implying key >= len(ranged)-1 (`i == len(resourcesData)-1`,
		// `i+1 == len(…)`, `i == last` with `last := len(…)-1`, `i >= len(…)-1`), asked from entry
		// and from every write to the key.
		env := newC13Env(fl)
		lastIter := func(n ast.Node) bool {
			path := core.PathTo(fl.F.Decl.Body, n)
			var rng *ast.RangeStmt
			for _, p := range path {
				if r, ok := p.(*ast.RangeStmt); ok {
					rng = r
				}
			}
			if rng == nil || rng.Key == nil {
				return false
			}
			key, ok1 := fl.Obj(rng.Key).(*types.Var)
			ranged, ok2 := env.lenOf(rng.X, rng.Key, 0)
			if !ok1 || !ok2 {
				return false
			}
			T := ranged.plus(affA(c13Atom{kind: 'v', obj: key}), -1) // len(ranged) - key
			edge := func(cond ast.Expr, ci *core.CondInfo, taken bool) bool {
				return env.edgeImplies(cond, taken, cond, func(f c13Aff, op token.Token) bool {
					r, ok := c13BoundsOn(f, op, T)
					return ok && r.atMost(1)
				})
			}
			at := env.nodeOf(n)
			if at == nil {
				return false
			}
			deps := map[types.Object]bool{types.Object(key): true}
			for x := range ranged.t {
				if x.obj != nil {
					deps[x.obj] = true
				}
			}
			esc, _ := c13FromEntryAndEach(fl, env.killsOf(deps), core.Query{Exit: func(m ast.Node) bool { return m == at }, Events: []core.Event{{Edge: edge}}})
			return len(esc) == 0
		}
		aliasAll := aliasAssign
		aliasAssign = func(n ast.Node) bool { return aliasAll(n) && !lastIter(n) }
		nAll, nOpen := 0, 0
		ast.Inspect(fl.F.Decl.Body, func(m ast.Node) bool {
			if aliasAll(m) {
				nAll++
				if aliasAssign(m) {
					nOpen++
				}
			}
			return true
		})
		claim := "a buffer returned by the codec's compress callback is reused by the next call: once the result aliases it, compress is not called again (copy to the stash first, or be the last candidate)"
		if nOpen == 0 {
			k.c.Pass("D.stash", fl.F.Name(), claim, nAll, "every aliasing assignment is in the last iteration of the candidates loop")
		} else {
			k.mustPass("D.stash", fl.F.Name(), claim, fl, core.Query{
				Start: aliasAssign,
				Exit: func(n ast.Node) bool {
					return core.Guaranteed(n, isCB) || core.AnyCall(n, isCB)
				}})
		}
		n := nAll
		k.c.Floor("D.stash", "places where the result aliases the callback's buffer", n, 1)
	}
}
