package main

// C12, rule family R8–R11: lang/render.Render re-attaches comments by line
// number. `comments[i]` is the comment of source line i; a cursor
// (`commentLine`) walks that slice. Invariant behind the rules: every index
// below the cursor has been passed to appendComment and, when that produced
// text, written; the function only succeeds once the cursor has reached
// len(comments).

import (
	"fmt"
	"go/ast"
	"go/token"
	"go/types"

	"wv/core"
)

// c12Positive normalises a loop/if condition to "0 < d" (d a linear form).
func c12Positive(fl *core.Flow, cond ast.Expr) (*c12Lin, bool) {
	be, ok := ast.Unparen(cond).(*ast.BinaryExpr)
	if !ok {
		return nil, false
	}
	l, ok1 := c12LinOf(fl, be.X)
	r, ok2 := c12LinOf(fl, be.Y)
	if !ok1 || !ok2 {
		return nil, false
	}
	var d *c12Lin
	switch be.Op {
	case token.LSS:
		d = r.clone()
		d.add(l, -1)
	case token.LEQ:
		d = r.clone()
		d.add(l, -1)
		d.k++
	case token.GTR:
		d = l.clone()
		d.add(r, -1)
	case token.GEQ:
		d = l.clone()
		d.add(r, -1)
		d.k++
	default:
		return nil, false
	}
	return d, true
}

// c12KnownEmpty: taking this edge of cond implies len(x) == 0.
func c12KnownEmpty(fl *core.Flow, cond ast.Expr, taken bool, x types.Object) bool {
	be, ok := ast.Unparen(cond).(*ast.BinaryExpr)
	if !ok {
		return false
	}
	isLenX := func(l *c12Lin, sign int64) bool {
		return l != nil && len(l.coef) == 1 && l.coef[c12Term{x, true}] == sign
	}
	switch be.Op {
	case token.EQL, token.NEQ:
		l, ok1 := c12LinOf(fl, be.X)
		r, ok2 := c12LinOf(fl, be.Y)
		if !ok1 || !ok2 {
			return false
		}
		d := l.clone()
		d.add(r, -1)
		if !(d.k == 0 && (isLenX(d, 1) || isLenX(d, -1))) {
			return false
		}
		return taken == (be.Op == token.EQL)
	}
	d, ok := c12Positive(fl, cond)
	if !ok {
		return false
	}
	if isLenX(d, 1) && d.k == 0 { // 0 < len(x)
		return !taken
	}
	if isLenX(d, -1) && d.k == 1 { // 0 < 1-len(x)
		return taken
	}
	return false
}

// c12IsStep: n is cur++ / cur += 1 / cur = cur + 1.
func c12IsStep(fl *core.Flow, n ast.Node, cur types.Object) bool {
	switch x := n.(type) {
	case *ast.IncDecStmt:
		return x.Tok == token.INC && isIdent(x.X) && fl.Obj(x.X) == cur
	case *ast.AssignStmt:
		if len(x.Lhs) != 1 || len(x.Rhs) != 1 || !isIdent(x.Lhs[0]) || fl.Obj(x.Lhs[0]) != cur {
			return false
		}
		switch x.Tok {
		case token.ADD_ASSIGN:
			v, ok := core.ConstInt64(fl.F.Info(), x.Rhs[0])
			return ok && v == 1
		case token.ASSIGN:
			l, ok := c12LinOf(fl, x.Rhs[0])
			return ok && l.k == 1 && len(l.coef) == 1 && l.coef[c12Term{cur, false}] == 1
		}
	}
	return false
}

func c12AssignsObj(fl *core.Flow, n ast.Node, o types.Object) bool {
	switch x := n.(type) {
	case *ast.AssignStmt:
		for _, l := range x.Lhs {
			if isIdent(l) && fl.Obj(l) == o {
				return true
			}
		}
	case *ast.IncDecStmt:
		return isIdent(x.X) && fl.Obj(x.X) == o
	case *ast.RangeStmt:
		return (x.Key != nil && fl.Obj(x.Key) == o) || (x.Value != nil && fl.Obj(x.Value) == o)
	case *ast.UnaryExpr:
		return x.Op == token.AND && isIdent(x.X) && fl.Obj(x.X) == o
	}
	return false
}

func runC12Comments(k *gctx) {
	c := k.c
	fl := k.flow("R8", "lang/render", "", "Render")
	acFn := k.fn("R8", "lang/render", "", "appendComment")
	if fl == nil || acFn == nil {
		return
	}
	info := fl.F.Info()
	name := fl.F.Name()
	w := fl.Param(0)
	toks := fl.Param(2)
	comments := fl.Param(3)
	var buf types.Object
	ast.Inspect(fl.F.Decl.Body, func(m ast.Node) bool {
		if call, ok := m.(*ast.CallExpr); ok && nameIs(fl, call, "Write") && fl.Is(w)(core.RecvOf(call)) && len(call.Args) == 1 {
			if o := fl.Obj(call.Args[0]); o != nil && c12LocalVar(o) {
				buf = o
			}
		}
		return true
	})
	if buf == nil || comments == nil || toks == nil || !c12IsSlice(comments.Type()) {
		c.Undecided("R8", name, "the line buffer and the comments parameter of Render", "not found")
		return
	}
	// comments (and its length) is never changed
	commentsFixed := true
	ast.Inspect(fl.F.Decl.Body, func(m ast.Node) bool {
		if m != nil && c12AssignsObj(fl, m, comments) {
			commentsFixed = false
		}
		return true
	})
	if !commentsFixed {
		c.Undecided("R8", name, "the comments parameter is not re-assigned in Render", "comments is assigned or its address is taken: len(comments) is not a fixed bound")
		return
	}
	// emit(pred): `buf = appendComment(buf, comments, X, …)` with X satisfying pred
	emitIdx := func(n ast.Node) ast.Expr {
		call, _, ok := assignOf(fl, n, buf)
		if !ok || call == nil || !core.IsCallTo(info, call, acFn) || len(call.Args) < 3 {
			return nil
		}
		if fl.Obj(call.Args[0]) != buf || fl.Obj(call.Args[1]) != comments || !isIdent(call.Args[1]) {
			return nil
		}
		return call.Args[2]
	}
	emits := func(o types.Object) func(ast.Node) bool {
		return func(n ast.Node) bool {
			x := emitIdx(n)
			return x != nil && isIdent(x) && fl.Obj(x) == o
		}
	}
	writes := func(call *ast.CallExpr) bool {
		return nameIs(fl, call, "Write") && fl.Is(w)(core.RecvOf(call)) && len(call.Args) == 1 && fl.Obj(call.Args[0]) == buf
	}
	isReset := func(n ast.Node) bool {
		_, rhs, ok := assignOf(fl, n, buf)
		if !ok {
			return false
		}
		se, isS := ast.Unparen(rhs).(*ast.SliceExpr)
		if !isS || fl.Obj(se.X) != buf || se.High == nil {
			return false
		}
		v, isk := core.ConstInt64(info, se.High)
		return isk && v == 0 && (se.Low == nil)
	}
	appendsNL := func(n ast.Node) bool {
		call, _, ok := assignOf(fl, n, buf)
		if !ok || !isBuiltinCall(call, "append") || len(call.Args) != 2 || fl.Obj(call.Args[0]) != buf {
			return false
		}
		cv := core.ConstVal(info, call.Args[1])
		if cv == nil {
			return false
		}
		if v, isI := core.ConstValInt(cv); isI && v == '\n' {
			return true
		}
		return cv.ExactString() == `"\n"`
	}
	// every appendComment call in Render has the recognised shape
	nCalls, nShaped := 0, 0
	idxVars := map[types.Object]bool{}
	ast.Inspect(fl.F.Decl.Body, func(m ast.Node) bool {
		if call, ok := m.(*ast.CallExpr); ok && core.IsCallTo(info, call, acFn) {
			nCalls++
		}
		if as, ok := m.(*ast.AssignStmt); ok {
			if x := emitIdx(as); x != nil {
				nShaped++
				if o := fl.Obj(x); o != nil && isIdent(x) && c12LocalVar(o) {
					idxVars[o] = true
				}
			}
		}
		return true
	})
	if nCalls != nShaped {
		c.Undecided("R8", name, "every appendComment call in Render is `buf = appendComment(buf, comments, <line>, …)`", fmt.Sprintf("%d of %d calls have another shape", nCalls-nShaped, nCalls))
		return
	}
	// the cursor: an index variable of appendComment that some for statement steps
	var cur types.Object
	var loops []*ast.ForStmt
	ast.Inspect(fl.F.Decl.Body, func(m ast.Node) bool {
		fs, ok := m.(*ast.ForStmt)
		if !ok || fs.Post == nil {
			return true
		}
		for o := range idxVars {
			if c12IsStep(fl, fs.Post, o) {
				if cur != nil && cur != o {
					cur = nil
					return false
				}
				cur = o
				loops = append(loops, fs)
			}
		}
		return true
	})
	c.Floor("R8", "loops in Render that walk the comments by a cursor (the flush before each token line, the trailing flush)", len(loops), 2)
	if cur == nil {
		c.Undecided("R8", name, "one cursor variable walks the comments", "no single local is both the line argument of appendComment and stepped by a for statement")
		return
	}
	// address / closures
	if why := c12Escaping(fl, cur, buf); why != "" {
		c.Undecided("R8", name, "the comment cursor and the line buffer are plain locals", why)
		return
	}
	// expand single-definition locals whose definition is built from len(comments) and constants
	expand := func(l *c12Lin) *c12Lin {
		for depth := 0; depth < 4; depth++ {
			changed := false
			for t, cf := range l.coef {
				if t.isLen || t.obj == cur {
					continue
				}
				defs := fl.Defs()[t.obj]
				if len(defs) != 1 {
					continue
				}
				multi := false
				ast.Inspect(fl.F.Decl.Body, func(m ast.Node) bool {
					if x, ok := m.(*ast.IncDecStmt); ok && fl.Obj(x.X) == t.obj {
						multi = true
					}
					if x, ok := m.(*ast.AssignStmt); ok && x.Tok != token.ASSIGN && x.Tok != token.DEFINE {
						for _, lh := range x.Lhs {
							if fl.Obj(lh) == t.obj {
								multi = true
							}
						}
					}
					return true
				})
				if multi {
					continue
				}
				d, ok := c12LinOf(fl, defs[0])
				if !ok {
					continue
				}
				pure := true
				for dt := range d.coef {
					if !(dt.isLen && dt.obj == comments) {
						pure = false
					}
				}
				if !pure {
					continue
				}
				n := l.clone()
				delete(n.coef, t)
				n.add(d, cf)
				l = n
				changed = true
				break
			}
			if !changed {
				break
			}
		}
		return l
	}

	lenComments := c12Term{comments, true}
	var finals []*ast.ForStmt
	flushBound := map[types.Object]*ast.ForStmt{}
	for _, fs := range loops {
		kind, boundName := "", ""
		anchor := name + "[comment loop]"
		claimB := "a loop that walks the comments by the cursor continues while cursor < bound, where bound is len(comments) (trailing flush) or the line of the tokens about to be rendered (flush before a token line): stopping earlier drops the comment of the last line(s) before the bound"
		if fs.Cond == nil {
			c.Undecided("R8.bound", anchor, claimB, k.g.Pos(fs.Pos())+": the loop has no condition")
			continue
		}
		d, ok := c12Positive(fl, fs.Cond)
		if ok {
			d = expand(d)
		}
		var bt c12Term
		nOther := 0
		if ok {
			for t, cf := range d.coef {
				if t == (c12Term{cur, false}) {
					continue
				}
				if cf == 1 {
					bt = t
				}
				nOther++
			}
		}
		switch {
		case !ok || d.coef[c12Term{cur, false}] != -1 || nOther != 1 || bt.obj == nil:
			c.Undecided("R8.bound", anchor, claimB, k.g.Pos(fs.Pos())+": condition `"+core.Src(k.g.Fset, fs.Cond)+"` is not a comparison of the cursor with one bound (accepted: <, <=, >, >= in either order, integer conversions to ≥32-bit types, ± constants in signed arithmetic, a local defined once from len(comments))")
			continue
		case bt == lenComments:
			kind, boundName = "final", "len(comments)"
		case !bt.isLen && c12LocalVar(bt.obj) && bt.obj != comments:
			kind, boundName = "flush", bt.obj.Name()
		default:
			c.Undecided("R8.bound", anchor, claimB, k.g.Pos(fs.Pos())+": the bound of `"+core.Src(k.g.Fset, fs.Cond)+"` is neither len(comments) nor a local line number")
			continue
		}
		anchor = name + "[comment loop up to " + boundName + "]"
		if d.k != 0 {
			what := fmt.Sprintf("the loop stops %d short of %s: the comment(s) on the last %d line(s) before it are never visited", -d.k, boundName, -d.k)
			if d.k > 0 {
				what = fmt.Sprintf("the loop runs %d past %s", d.k, boundName)
			}
			c.Fail("R8.bound", anchor, claimB, 1, k.g.Pos(fs.Pos())+": `"+core.Src(k.g.Fset, fs.Cond)+"`: "+what)
		} else {
			c.Pass("R8.bound", anchor, claimB, 1, "cursor < "+boundName)
		}
		if kind == "final" {
			finals = append(finals, fs)
		} else {
			flushBound[bt.obj] = fs
		}
		body := core.RegionOf(fs.Body)
		// step: only the post statement changes the cursor
		extra := ""
		ast.Inspect(fs.Body, func(m ast.Node) bool {
			if m != nil && c12AssignsObj(fl, m, cur) {
				extra = k.g.Pos(m.Pos()) + ": the cursor is also assigned inside the loop body"
			}
			return true
		})
		if fs.Init != nil && c12AssignsObj(fl, fs.Init, cur) {
			extra = k.g.Pos(fs.Init.Pos()) + ": the loop's init statement re-positions the cursor"
		}
		c.Check(extra == "", "R8.step", anchor, "the cursor advances by exactly one per iteration (post statement cursor++, no other assignment in the loop): a larger step skips comment lines", 1, extra)
		noComment := func(cond ast.Expr, ci *core.CondInfo, taken bool) bool {
			// comments[cursor] == "" (nothing to emit for this line)
			be, ok := ast.Unparen(cond).(*ast.BinaryExpr)
			if !ok || (be.Op != token.EQL && be.Op != token.NEQ) || taken != (be.Op == token.EQL) {
				return false
			}
			isAt := func(e ast.Expr) bool {
				ix, ok := ast.Unparen(e).(*ast.IndexExpr)
				return ok && isIdent(ix.X) && fl.Obj(ix.X) == comments && isIdent(ix.Index) && fl.Obj(ix.Index) == cur
			}
			isEmptyStr := func(e ast.Expr) bool {
				cv := core.ConstVal(info, e)
				return cv != nil && cv.ExactString() == `""`
			}
			return (isAt(be.X) && isEmptyStr(be.Y)) || (isAt(be.Y) && isEmptyStr(be.X))
		}
		k.mustPass("R8.emit", anchor, "every iteration passes the cursor's line to appendComment before the cursor moves on (unless comments[cursor] is the empty string)", fl, core.Query{
			Region: body, FallOut: true, Exit: fl.SuccessReturn, Exempt: noComment, Events: []core.Event{{Node: emits(cur)}}})
		k.mustPass("R8.reset", anchor, "the line buffer is emptied before the comment is appended (otherwise the previous line's text is written again)", fl, core.Query{
			Region: body, Exit: emits(cur), Events: []core.Event{{Node: isReset}}})
		empty := func(cond ast.Expr, ci *core.CondInfo, taken bool) bool { return c12KnownEmpty(fl, cond, taken, buf) }
		k.passChecked("R8.written", anchor, "once a line's comment is in the buffer (non-empty buffer), the buffer is written to the output before the iteration ends", fl,
			core.Query{Region: body, Start: emits(cur), FallOut: true, Exempt: empty,
				Exit: func(n ast.Node) bool { return isReset(n) || emits(cur)(n) || fl.SuccessReturn(n) }},
			writes)
		k.mustPass("R8.newline", anchor, "a comment written on its own line is followed by a newline (a `//` comment without one swallows the next line's tokens)", fl, core.Query{
			Region: body, Start: emits(cur), Exempt: empty,
			Exit:   func(n ast.Node) bool { return core.Guaranteed(n, writes) },
			Events: []core.Event{{Node: appendsNL}}})
	}
	c.Floor("R8.final", "comment loops bounded by len(comments)", len(finals), 1)
	c.Floor("R8.flush", "comment loops bounded by the line of the tokens about to be rendered", len(flushBound), 1)

	// R9/R10: the token line's own comment, and the cursor jump past it
	var mainLoop *ast.ForStmt
	for _, fs := range flushBound {
		path := core.PathTo(fl.F.Decl.Body, fs)
		for i := len(path) - 2; i >= 0; i-- {
			if outer, ok := path[i].(*ast.ForStmt); ok {
				mainLoop = outer
				break
			}
		}
	}
	nJump := 0
	cursorInitOK, nInit := true, 0
	ast.Inspect(fl.F.Decl.Body, func(m ast.Node) bool {
		as, ok := m.(*ast.AssignStmt)
		if !ok || !c12AssignsObj(fl, as, cur) || c12IsStep(fl, as, cur) {
			return true
		}
		claimJ := "the cursor is only moved past a line B (cursor = B+1) after the comments below B were flushed by the loop bounded by B and B's own comment was appended to the token line: otherwise the comments of the skipped lines are dropped"
		var rhs ast.Expr
		for i, l := range as.Lhs {
			if fl.Obj(l) == cur && len(as.Rhs) == len(as.Lhs) {
				rhs = as.Rhs[i]
			}
		}
		if rhs == nil {
			c.Undecided("R10.jump", name, claimJ, k.g.Pos(as.Pos())+": the cursor is assigned from a multi-value expression")
			return true
		}
		l, okL := c12LinOf(fl, rhs)
		if as.Tok == token.DEFINE {
			nInit++
			if !(okL && len(l.coef) == 0 && (l.k == 0 || l.k == 1)) {
				cursorInitOK = false
			}
			return true
		}
		var B types.Object
		if okL && l.k == 1 && len(l.coef) == 1 {
			for t, cf := range l.coef {
				if cf == 1 && !t.isLen {
					B = t.obj
				}
			}
		}
		anchor := name + "[" + core.Src(k.g.Fset, as) + "]"
		if B == nil || flushBound[B] == nil || mainLoop == nil {
			c.Fail("R10.jump", anchor, claimJ, 1, k.g.Pos(as.Pos())+": the cursor is set to something other than B+1 for the bound B of a flush loop")
			return true
		}
		nJump++
		fs := flushBound[B]
		region := core.RegionOf(mainLoop.Body)
		isJump := func(n ast.Node) bool { return n == ast.Node(as) }
		k.mustPass("R10.jump.flushed", anchor, claimJ, fl, core.Query{Region: region, Exit: isJump,
			Events: []core.Event{{Edge: func(cond ast.Expr, ci *core.CondInfo, taken bool) bool { return cond == fs.Cond && !taken }}}})
		k.mustPass("R10.jump.own", anchor, claimJ, fl, core.Query{Region: region, Exit: isJump, Events: []core.Event{{Node: emits(B)}}})
		// B is not changed between the flush loop and the jump
		bad := ""
		ast.Inspect(mainLoop.Body, func(x ast.Node) bool {
			if x != nil && x.Pos() > fs.Pos() && c12AssignsObj(fl, x, B) {
				bad = k.g.Pos(x.Pos()) + ": " + B.Name() + " is re-assigned after the flush loop"
			}
			return true
		})
		c.Check(bad == "", "R10.jump.bound", anchor, "the line number B is not changed between the flush loop and the cursor jump", 1, bad)
		// R9: B's own comment, once appended to the token line, is followed by a newline and written
		k.passChecked("R9.written", anchor, "after the token line's own comment is appended, the buffer is written to the output before it is reset", fl,
			core.Query{Region: region, Start: emits(B), FallOut: true,
				Exit: func(n ast.Node) bool { return isReset(n) || fl.SuccessReturn(n) }},
			writes)
		k.mustPass("R9.newline", anchor, "the token line's own comment is followed by a newline before the line is written (a `//` comment without one swallows the next line's tokens)", fl, core.Query{
			Region: region, Start: emits(B),
			Exit:   func(n ast.Node) bool { return core.Guaranteed(n, writes) },
			Events: []core.Event{{Node: appendsNL}}})
		return true
	})
	c.Check(cursorInitOK && nInit == 1, "R10.init", name, "the cursor is defined once, as the constant 0 or 1 (source lines are numbered from 1, comments[0] is always empty): a later start skips the comments above it", nInit, "")
	c.Floor("R10.jump", "cursor jumps (cursor = B+1) in Render", nJump, 1)

	// R11: success only after the trailing flush ran to len(comments)
	if len(finals) > 0 {
		finalConds := map[ast.Expr]bool{}
		for _, fs := range finals {
			finalConds[fs.Cond] = true
		}
		exempt := func(cond ast.Expr, ci *core.CondInfo, taken bool) bool {
			// no comments at all: nothing to flush
			return ci != nil && ci.Kind == "if" && c12KnownEmpty(fl, cond, taken, comments)
		}
		k.mustPass("R11.final", name+"[success]", "Render only returns success after the trailing flush loop has run until cursor >= len(comments): an earlier success return drops every comment after the last rendered token line", fl, core.Query{
			Exit: fl.SuccessReturn, FuncEnd: true, Exempt: exempt,
			Events: []core.Event{{Edge: func(cond ast.Expr, ci *core.CondInfo, taken bool) bool {
				if finalConds[cond] && !taken {
					return true
				}
				// any other test that establishes cursor >= len(comments)
				d, ok := c12Positive(fl, cond)
				if !ok {
					return false
				}
				d = expand(d)
				if len(d.coef) != 2 {
					return false
				}
				lc, cc := d.coef[lenComments], d.coef[c12Term{cur, false}]
				return (lc == 1 && cc == -1 && d.k == 0 && !taken) || (lc == -1 && cc == 1 && d.k == 1 && taken)
			}}}})
	}
}
