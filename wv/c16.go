package main

// C16 — cutting DEFLATE/zlib (lib/flatecut, lib/zlibcut): structural
// necessary conditions only. Rule families:
//   S  sentinel discipline on go/ssa                    (c16_sentinel.go)
//   T  RFC 1951 constant tables and block headers       (c16_tables.go)
//   G  entry guards of flatecut.Cut and zlibcut.Cut     (this file)
//   Z  zlib Adler-32 trailer                            (this file)

import (
	"fmt"
	"go/ast"
	"go/token"
	"go/types"
	"sort"
	"strings"
	"time"

	"wv/core"
)

func init() {
	register("C16", core.Spec{
		Decides: "four structural necessary conditions of lib/flatecut and lib/zlibcut. (S) sentinel discipline: every result of bitstream.take / huffman.decode / huffman.slowDecode (which return mostNegativeInt32 on exhausted or invalid input), also after a constant or an RFC table entry has been added to it, is sign-tested on every path before it is used as an index, slice/make/loop bound, conversion or arithmetic operand; the negative branch returns a non-nil error; table+result cannot wrap. " +
			"(T) the constant tables equal what RFC 1951 prescribes, computed independently: codeOrder, lBases/lExtras, dBases/dExtras (base[k+1]=base[k]+2^extra[k], anchors 3..258 and 1..24577, sentinel in unused slots), the fixed-Huffman code length runs, the HLIT/HDIST/HCLEN field widths, offsets and the 286/30/19 limits, the repeat codes 16/17/18, cutSingleBlock's stored-block header (0x01, LEN, ~LEN little-endian, 0xFFFF cap) and the empty fixed block 0x03 0x00. " +
			"(G) flatecut.Cut establishes maxEncodedLen <= len(encoded) and maxEncodedLen >= SmallestValidMaxEncodedLen after the last assignment to maxEncodedLen and before the cutter is constructed, and those two values are what every cutSingleBlock call receives (pre-condition of its panic and of its unconditional writes); zlibcut.Cut establishes the header and trailer length guards before indexing/slicing and passes encoded[payloadStart:len-4] and maxEncodedLen-payloadStart-4 to flatecut.Cut. " +
			"(Z) on zlibcut.Cut's success path the 4 bytes at payloadStart+encodedLen are hasher.Sum32() big-endian, the hasher is adler32.New() and received everything written (directly or through io.MultiWriter), flatecut's error is tested, and the returned length is payloadStart+encodedLen+4 (L.budget) in every block handler of the cutter that consumes bits through calls, each `return nil` (block consumed; its end may become the encoded length) is reached only past a comparison of the position with maxEncodedLen, taken in the direction 'fits', after the last bit-consuming call; (L.budget.stored) a plain store that advances the bit reader's index by a sum with a data-dependent term (doStored) is reached only after that term was compared with a maxEncodedLen-derived value and fits, or was itself assigned from one",
		NotDecided: "the substance of the property: that the cut point leaves room for the end-of-block code, the bit patching of the final-block flag, stored-block shortening, the Huffman construction and end-code computation, that encoded[:encodedLen] decodes to a prefix of the original, that encodedLen <= maxEncodedLen, and absence of run-time panics from indexes that are not sentinel results (bit-level arithmetic: declined). The FDICT `len(encoded) < 6` test of zlibcut.Cut is not required separately because the trailer guard (len >= payloadStart+4) subsumes it",
		Assumptions: []string{
			"go/types, go/cfg and go/ssa (x/tools v0.29.0) model Go faithfully; two's-complement int32 arithmetic",
			"RFC 1951 §3.2.5–3.2.7 and RFC 1950 §2.2 as transcribed in c16_tables.go (tables generated from the RFC's rule, not copied from the code)",
			"values returned by sentinel functions other than the sentinel are < 2^30 (take(n) with n <= 30, Huffman symbols < 288)",
			"an obligation whose anchor or idiom is not recognised fails as undecided",
		},
	}, runC16)
}

const (
	c16RelFlate = "lib/flatecut"
	c16RelZlib  = "lib/zlibcut"
)

func runC16(c *core.Ctx) {
	t0 := time.Now()
	k := newG(c, "./lib/flatecut", "./lib/zlibcut")
	c.Analysed("load_s", time.Since(t0).Seconds())
	defer func() { c.Analysed("total_s", time.Since(t0).Seconds()) }()
	if k.g.Pkg(c16RelFlate) == nil || k.g.Pkg(c16RelZlib) == nil {
		c.Undecided("anchors", c16RelFlate, "packages lib/flatecut and lib/zlibcut load", "package missing")
		return
	}
	if xOnly(c) {
		c16Index(c, k.g)
		return
	}
	// The sentinel rule builds go/ssa for lib/flatecut; it must run before any
	// core.Flow of that package exists, because Flow.markBranches inserts
	// untyped marker statements into the shared syntax trees.
	t := runC16Tables(k)
	if t != nil {
		t1 := time.Now()
		runC16Sentinel(k, c16RelFlate, t.sentinel, t.tables)
		c.Analysed("ssa_and_sentinel_s", time.Since(t1).Seconds())
	}
	runC16Dynamic(k)
	runC16Single(k)
	runC16FlateGuards(k)
	runC16Zlib(k)
	runC16Align(k)
	runC16Budget(k)
	c16Index(c, k.g)
}

// ---------------------------------------------------------------------
// Linear integer forms over local variables and len(v).

type c16LinKey struct {
	obj   types.Object
	isLen bool
}

type c16Lin struct {
	t map[c16LinKey]int64
	c int64
}

func c16LinConst(c int64) c16Lin { return c16Lin{t: map[c16LinKey]int64{}, c: c} }

func c16LinVar(k c16LinKey) c16Lin { return c16Lin{t: map[c16LinKey]int64{k: 1}} }

func (a c16Lin) plus(b c16Lin, sign int64) c16Lin {
	out := c16Lin{t: map[c16LinKey]int64{}, c: a.c + sign*b.c}
	for k, v := range a.t {
		out.t[k] += v
	}
	for k, v := range b.t {
		out.t[k] += sign * v
	}
	for k, v := range out.t {
		if v == 0 {
			delete(out.t, k)
		}
	}
	return out
}

func (a c16Lin) sameTerms(b c16Lin) bool {
	if len(a.t) != len(b.t) {
		return false
	}
	for k, v := range a.t {
		if b.t[k] != v {
			return false
		}
	}
	return true
}

func (a c16Lin) equal(b c16Lin) bool { return a.sameTerms(b) && a.c == b.c }

func (a c16Lin) isConst() bool { return len(a.t) == 0 }

func (a c16Lin) String() string {
	var parts []string
	for k, v := range a.t {
		n := k.obj.Name()
		if k.isLen {
			n = "len(" + n + ")"
		}
		switch v {
		case 1:
			parts = append(parts, "+"+n)
		case -1:
			parts = append(parts, "-"+n)
		default:
			parts = append(parts, fmt.Sprintf("%+d*%s", v, n))
		}
	}
	sort.Strings(parts)
	if a.c != 0 || len(parts) == 0 {
		parts = append(parts, fmt.Sprintf("%+d", a.c))
	}
	return strings.TrimPrefix(strings.Join(parts, ""), "+")
}

func (a c16Lin) mentions(obj types.Object) bool {
	for k := range a.t {
		if k.obj == obj {
			return true
		}
	}
	return false
}

func c16ObjOf(info *types.Info, e ast.Expr) types.Object {
	if id, ok := ast.Unparen(e).(*ast.Ident); ok {
		if o := info.Uses[id]; o != nil {
			return o
		}
		return info.Defs[id]
	}
	return nil
}

// c16LinExpr: e as a linear form; ok=false when e is not linear in variables,
// len(variable) and constants (signed integer arithmetic only).
func c16LinExpr(info *types.Info, e ast.Expr) (c16Lin, bool) {
	e = ast.Unparen(e)
	if v, ok := core.ConstInt64(info, e); ok {
		return c16LinConst(v), true
	}
	switch x := e.(type) {
	case *ast.Ident:
		if v, ok := c16ObjOf(info, x).(*types.Var); ok && c16IsSignedInt(v.Type()) {
			return c16LinVar(c16LinKey{obj: v}), true
		}
	case *ast.CallExpr:
		if id, ok := ast.Unparen(x.Fun).(*ast.Ident); ok && len(x.Args) == 1 {
			if b, ok := info.Uses[id].(*types.Builtin); ok && b.Name() == "len" {
				if v, ok := c16ObjOf(info, x.Args[0]).(*types.Var); ok {
					return c16LinVar(c16LinKey{obj: v, isLen: true}), true
				}
			}
		}
		// conversion to a signed integer type of at least int's width
		if tv, ok := info.Types[x.Fun]; ok && tv.IsType() && len(x.Args) == 1 {
			if b, ok := tv.Type.Underlying().(*types.Basic); ok && (b.Kind() == types.Int || b.Kind() == types.Int64) {
				if at, ok := info.Types[x.Args[0]]; ok && c16IsSignedInt(at.Type) {
					return c16LinExpr(info, x.Args[0])
				}
			}
		}
	case *ast.BinaryExpr:
		if x.Op == token.ADD || x.Op == token.SUB {
			a, ok1 := c16LinExpr(info, x.X)
			b, ok2 := c16LinExpr(info, x.Y)
			if ok1 && ok2 {
				if x.Op == token.ADD {
					return a.plus(b, 1), true
				}
				return a.plus(b, -1), true
			}
		}
	case *ast.UnaryExpr:
		if x.Op == token.SUB {
			if a, ok := c16LinExpr(info, x.X); ok {
				return c16LinConst(0).plus(a, -1), true
			}
		}
	}
	return c16Lin{}, false
}

// c16CondFacts: linear facts `L >= 0` that hold when cond evaluates to taken.
func c16CondFacts(info *types.Info, cond ast.Expr, taken bool) []c16Lin {
	cond = ast.Unparen(cond)
	switch x := cond.(type) {
	case *ast.UnaryExpr:
		if x.Op == token.NOT {
			return c16CondFacts(info, x.X, !taken)
		}
	case *ast.BinaryExpr:
		switch x.Op {
		case token.LOR:
			if !taken {
				return append(c16CondFacts(info, x.X, false), c16CondFacts(info, x.Y, false)...)
			}
			return nil
		case token.LAND:
			if taken {
				return append(c16CondFacts(info, x.X, true), c16CondFacts(info, x.Y, true)...)
			}
			return nil
		case token.LSS, token.LEQ, token.GTR, token.GEQ, token.EQL, token.NEQ:
			a, ok1 := c16LinExpr(info, x.X)
			b, ok2 := c16LinExpr(info, x.Y)
			if !ok1 || !ok2 {
				return nil
			}
			op := x.Op
			if !taken {
				switch op {
				case token.LSS:
					op = token.GEQ
				case token.LEQ:
					op = token.GTR
				case token.GTR:
					op = token.LEQ
				case token.GEQ:
					op = token.LSS
				case token.EQL:
					op = token.NEQ
				case token.NEQ:
					op = token.EQL
				}
			}
			ab := a.plus(b, -1) // a-b
			ba := b.plus(a, -1)
			switch op {
			case token.GEQ:
				return []c16Lin{ab}
			case token.GTR:
				return []c16Lin{ab.plus(c16LinConst(1), -1)}
			case token.LEQ:
				return []c16Lin{ba}
			case token.LSS:
				return []c16Lin{ba.plus(c16LinConst(1), -1)}
			case token.EQL:
				return []c16Lin{ab, ba}
			}
		}
	}
	return nil
}

// c16Implies: (L >= 0) entails (R >= 0).
func c16Implies(l, r c16Lin) bool { return l.sameTerms(r) && r.c >= l.c }

func c16SingleAssign(info *types.Info, n ast.Node) (types.Object, ast.Expr) {
	switch s := n.(type) {
	case *ast.AssignStmt:
		if len(s.Lhs) == 1 && len(s.Rhs) == 1 && (s.Tok == token.ASSIGN || s.Tok == token.DEFINE) {
			if o := c16ObjOf(info, s.Lhs[0]); o != nil {
				return o, s.Rhs[0]
			}
		}
	case *ast.DeclStmt:
		if gd, ok := s.Decl.(*ast.GenDecl); ok && len(gd.Specs) == 1 {
			if vs, ok := gd.Specs[0].(*ast.ValueSpec); ok && len(vs.Names) == 1 && len(vs.Values) == 1 {
				return info.Defs[vs.Names[0]], vs.Values[0]
			}
		}
	}
	return nil, nil
}

func c16AssignFacts(info *types.Info, n ast.Node) []c16Lin {
	o, rhs := c16SingleAssign(info, n)
	v, ok := o.(*types.Var)
	if !ok || !c16IsSignedInt(v.Type()) {
		return nil
	}
	e, ok := c16LinExpr(info, rhs)
	if !ok || e.mentions(v) {
		return nil
	}
	x := c16LinVar(c16LinKey{obj: v})
	return []c16Lin{x.plus(e, -1), e.plus(x, -1)}
}

// c16AssignsAny: node n (re)defines one of the objects.
func c16AssignsAny(info *types.Info, n ast.Node, objs map[types.Object]bool) bool {
	switch s := n.(type) {
	case *ast.AssignStmt:
		for _, l := range s.Lhs {
			if o := c16ObjOf(info, l); o != nil && objs[o] {
				return true
			}
		}
	case *ast.IncDecStmt:
		if o := c16ObjOf(info, s.X); o != nil && objs[o] {
			return true
		}
	case *ast.DeclStmt:
		found := false
		ast.Inspect(s, func(m ast.Node) bool {
			if id, ok := m.(*ast.Ident); ok && objs[info.Defs[id]] && info.Defs[id] != nil {
				found = true
			}
			return !found
		})
		return found
	}
	return false
}

func c16CfgNodes(fl *core.Flow, pred func(ast.Node) bool) int {
	n := 0
	for _, b := range fl.G.Blocks {
		if !b.Live {
			continue
		}
		for _, x := range b.Nodes {
			if pred(x) {
				n++
			}
		}
	}
	return n
}

func c16NodeHas(n ast.Node, pred func(ast.Node) bool) bool {
	found := false
	ast.Inspect(n, func(m ast.Node) bool {
		if m == nil || found {
			return false
		}
		if _, ok := m.(*ast.FuncLit); ok {
			return false
		}
		if pred(m) {
			found = true
		}
		return !found
	})
	return found
}

// c16MustEstablish: on every path to a node satisfying exit, the linear fact
// R >= 0 has been established — by the false/true edge of a guard that
// entails it or by an assignment that makes it true — after the last
// assignment to any variable R mentions.
func (k *gctx) c16MustEstablish(rule, anchor, claim string, fl *core.Flow, r c16Lin, exit func(ast.Node) bool) bool {
	info := fl.F.Info()
	if c16CfgNodes(fl, exit) == 0 {
		k.c.Undecided(rule, anchor, claim, fmt.Sprintf("%s: the guarded construct was not found in %s", k.g.Pos(fl.F.Decl.Pos()), fl.F.Name()))
		return false
	}
	vars := map[types.Object]bool{}
	for key := range r.t {
		vars[key.obj] = true
	}
	estNode := func(n ast.Node) bool {
		for _, f := range c16AssignFacts(info, n) {
			if c16Implies(f, r) {
				return true
			}
		}
		return false
	}
	ev := []core.Event{{
		Edge: func(cond ast.Expr, ci *core.CondInfo, taken bool) bool {
			if ci == nil || (ci.Kind != "if" && ci.Kind != "for" && ci.Kind != "switch") {
				return false
			}
			for _, f := range c16CondFacts(info, cond, taken) {
				if c16Implies(f, r) {
					return true
				}
			}
			return false
		},
		Node: estNode,
	}}
	esc, sites := fl.Escapes(core.Query{Events: ev, Exit: exit})
	kill := func(n ast.Node) bool {
		return c16AssignsAny(info, n, vars) && !estNode(n) && !c16MonotoneFor(fl, n, r)
	}
	var lines []string
	for _, e := range esc {
		lines = append(lines, e.String())
	}
	for _, b := range fl.G.Blocks {
		if !b.Live {
			continue
		}
		for _, kn := range b.Nodes {
			if !kill(kn) {
				continue
			}
			kn := kn
			e2, s2 := fl.Escapes(core.Query{Events: ev, Exit: exit, Start: func(n ast.Node) bool { return n == kn }})
			sites += s2
			for _, e := range e2 {
				lines = append(lines, fmt.Sprintf("after the assignment %s `%s`: %s", k.g.Pos(kn.Pos()), core.Src(k.g.Fset, kn), e.String()))
			}
		}
	}
	want := r.String() + " >= 0"
	if len(lines) == 0 {
		k.c.Pass(rule, anchor, claim, sites, fmt.Sprintf("%s: `%s` is established on every path", k.g.Pos(fl.F.Decl.Pos()), want))
		return true
	}
	k.c.Fail(rule, anchor, claim, sites, fmt.Sprintf("in %s (%s): `%s` is not established on:\n%s", fl.F.Name(), k.g.Pos(fl.F.Decl.Pos()), want, strings.Join(lines, "\n")))
	return false
}

// c16MonotoneFor: node n is `x = E` inside `if cond {…}` where cond entails
// x >= E (the assignment can only decrease x) and R bounds x from above
// (negative coefficient), or symmetrically increases x under a lower bound:
// such a clamp preserves R >= 0 and is not a kill.
func c16MonotoneFor(fl *core.Flow, n ast.Node, r c16Lin) bool {
	info := fl.F.Info()
	o, rhs := c16SingleAssign(info, n)
	v, ok := o.(*types.Var)
	if !ok || rhs == nil {
		return false
	}
	e, ok := c16LinExpr(info, rhs)
	if !ok || e.mentions(v) {
		return false
	}
	for key := range e.t {
		if r.mentions(key.obj) {
			return false
		}
	}
	coef := r.t[c16LinKey{obj: v}]
	if coef == 0 || r.t[c16LinKey{obj: v, isLen: true}] != 0 {
		return false
	}
	x := c16LinVar(c16LinKey{obj: v})
	need := x.plus(e, -1) // x - E >= 0: decreasing
	if coef > 0 {
		need = e.plus(x, -1)
	}
	path := core.PathTo(fl.F.Decl.Body, n)
	for i := len(path) - 1; i >= 1; i-- {
		is, isIf := path[i-1].(*ast.IfStmt)
		if !isIf || path[i] != ast.Node(is.Body) {
			continue
		}
		// only the innermost if, and only when nothing between its condition and n reassigns x
		if len(is.Body.List) > 0 && is.Body.List[0] == n {
			for _, f := range c16CondFacts(info, is.Cond, true) {
				if c16Implies(f, need) {
					return true
				}
			}
		}
		return false
	}
	return false
}

// c16LinResolve substitutes locals that are defined exactly once by a linear
// expression (e.g. `end := payloadStart + encodedLen`).
func c16LinResolve(fl *core.Flow, a c16Lin, depth int) c16Lin {
	if depth > 3 {
		return a
	}
	info := fl.F.Info()
	out := c16LinConst(a.c)
	changed := false
	for key, coef := range a.t {
		term := c16Lin{t: map[c16LinKey]int64{key: 1}}
		if !key.isLen {
			if ds := fl.Defs()[key.obj]; len(ds) == 1 {
				if e, ok := c16LinExpr(info, ds[0]); ok && !e.mentions(key.obj) {
					term = e
					changed = true
				}
			}
		}
		for i := int64(0); i < c16Abs64(coef); i++ {
			if coef > 0 {
				out = out.plus(term, 1)
			} else {
				out = out.plus(term, -1)
			}
		}
	}
	if changed {
		return c16LinResolve(fl, out, depth+1)
	}
	return out
}

func c16Abs64(x int64) int64 {
	if x < 0 {
		return -x
	}
	return x
}

func c16NamedIs(t types.Type, obj types.Object) bool {
	if obj == nil || t == nil {
		return false
	}
	if p, ok := t.(*types.Pointer); ok {
		t = p.Elem()
	}
	return types.Identical(t, obj.Type())
}

// ---------------------------------------------------------------------
// G1: flatecut.Cut entry guards and the cutSingleBlock pre-condition chain.

// c16SingleBlockPrecondition extracts from cutSingleBlock's `if max < P { panic }`
// the fact over its parameter that avoids the panic (max - P >= 0).
func c16SingleBlockPrecondition(k *gctx) (p int64, ok bool) {
	fl := k.flow("G1.pre", c16RelFlate, "", "cutSingleBlock")
	if fl == nil {
		return 0, false
	}
	info := fl.F.Info()
	max := fl.Param(1)
	var res []int64
	ast.Inspect(fl.F.Decl.Body, func(n ast.Node) bool {
		is, ok := n.(*ast.IfStmt)
		if !ok {
			return true
		}
		panics := false
		for _, st := range is.Body.List {
			if es, ok := st.(*ast.ExprStmt); ok {
				if call, ok := es.X.(*ast.CallExpr); ok {
					if id, ok := call.Fun.(*ast.Ident); ok {
						if b, ok := info.Uses[id].(*types.Builtin); ok && b.Name() == "panic" {
							panics = true
						}
					}
				}
			}
		}
		if !panics {
			return true
		}
		for _, f := range c16CondFacts(info, is.Cond, false) {
			if len(f.t) == 1 && f.t[c16LinKey{obj: max}] == 1 {
				res = append(res, -f.c)
			}
		}
		return true
	})
	if len(res) != 1 {
		k.c.Undecided("G1.pre", fl.F.Name(), "cutSingleBlock states its pre-condition as `if maxEncodedLen < P { panic(…) }`", fmt.Sprintf("%s: found %d such guards", k.g.Pos(fl.F.Decl.Pos()), len(res)))
		return 0, false
	}
	return res[0], true
}

func runC16FlateGuards(k *gctx) {
	c := k.c
	g := k.g
	fl := k.flow("G1", c16RelFlate, "", "Cut")
	if fl == nil {
		return
	}
	info := fl.F.Info()
	enc, max := fl.Param(1), fl.Param(2)
	cutterObj := k.obj("G1", c16RelFlate, "cutter")
	bitstreamObj := k.obj("G1", c16RelFlate, "bitstream")
	if enc == nil || max == nil || cutterObj == nil || bitstreamObj == nil {
		c.Undecided("G1", fl.F.Name(), "Cut(w, encoded, maxEncodedLen) and type cutter exist", "signature not recognised")
		return
	}
	fMax := core.LookupField(cutterObj, "maxEncodedLen")
	fBits := core.LookupField(cutterObj, "bits")
	fBytes := core.LookupField(bitstreamObj, "bytes")
	if fMax == nil || fBits == nil || fBytes == nil {
		c.Undecided("G1", c16RelFlate+".cutter", "fields cutter.maxEncodedLen, cutter.bits, bitstream.bytes exist", "field not found")
		return
	}
	p, okp := c16SingleBlockPrecondition(k)

	// The cutter literal.
	var lit *ast.CompositeLit
	nlit := 0
	for _, f := range g.AllFuncs(g.Pkg(c16RelFlate)) {
		ast.Inspect(f.Decl.Body, func(n ast.Node) bool {
			if cl, ok := n.(*ast.CompositeLit); ok && c16NamedIs(f.Info().Types[cl].Type, cutterObj) {
				nlit++
				if f.Decl == fl.F.Decl {
					lit = cl
				}
			}
			return true
		})
	}
	anchor := fl.F.Name()
	if lit == nil || nlit != 1 {
		c.Undecided("G1.lit", anchor, "the only cutter{…} literal of the package is built in Cut", fmt.Sprintf("%s: %d cutter literals in the package, %v in Cut", g.Pos(fl.F.Decl.Pos()), nlit, lit != nil))
		return
	}
	fieldVal := func(cl *ast.CompositeLit, f *types.Var) ast.Expr {
		for _, e := range cl.Elts {
			if kv, ok := e.(*ast.KeyValueExpr); ok {
				if id, ok := kv.Key.(*ast.Ident); ok && info.Uses[id] == f {
					return kv.Value
				}
			}
		}
		return nil
	}
	okLit := false
	detail := g.Pos(lit.Pos()) + ": "
	if mv := fieldVal(lit, fMax); mv == nil || !fl.Is(max)(mv) {
		detail += "field maxEncodedLen is not initialised from the (clamped) maxEncodedLen parameter"
	} else if bv, ok := ast.Unparen(c16OrBad(fieldVal(lit, fBits))).(*ast.CompositeLit); !ok {
		detail += "field bits is not a bitstream{…} literal"
	} else if by := fieldVal(bv, fBytes); by == nil || !fl.Is(enc)(by) {
		detail += "bits.bytes is not the encoded parameter"
	} else {
		okLit = true
	}
	c.Check(okLit, "G1.lit", anchor+"[cutter{…}]", "the cutter is built with maxEncodedLen = the guarded parameter and bits.bytes = encoded, so the guards below are facts about c.maxEncodedLen and len(c.bits.bytes)", 2, detail)

	exit := func(n ast.Node) bool { return c16NodeHas(n, func(m ast.Node) bool { return m == ast.Node(lit) }) }
	lenEnc := c16LinVar(c16LinKey{obj: enc, isLen: true})
	maxV := c16LinVar(c16LinKey{obj: max})
	k.c16MustEstablish("G1.clamp", anchor+"[before cutter{…}]",
		"maxEncodedLen <= len(encoded) when the cutter is constructed (clamp): cutSingleBlock writes encoded[0..4] and encoded[5:] relying on it", fl, lenEnc.plus(maxV, -1), exit)
	if okp {
		k.c16MustEstablish("G1.min", anchor+"[before cutter{…}]",
			fmt.Sprintf("maxEncodedLen >= %d (cutSingleBlock's panic threshold) holds after the clamp, when the cutter is constructed: this is the pre-condition of cutSingleBlock's panic(\"unreachable\") and of its unconditional writes to encoded[0], encoded[1]", p),
			fl, maxV.plus(c16LinConst(p), -1), exit)
		small := k.obj("G1.min", c16RelFlate, "SmallestValidMaxEncodedLen")
		if cv := constOf(small); cv != nil {
			sv, _ := core.ConstValInt(cv)
			c.Check(sv >= p && sv >= 2, "G1.small", c16RelFlate+".SmallestValidMaxEncodedLen", "the documented minimum is at least cutSingleBlock's threshold and at least the 2 bytes of the smallest DEFLATE stream (empty fixed block)", 1,
				fmt.Sprintf("SmallestValidMaxEncodedLen = %d, cutSingleBlock panics below %d", sv, p))
		}
	}

	// Chain: fields never reassigned; cutSingleBlock called with (c.bits.bytes, c.maxEncodedLen).
	single := k.fn("G1.chain", c16RelFlate, "", "cutSingleBlock")
	nCalls := 0
	var bad []string
	for _, f := range g.AllFuncs(g.Pkg(c16RelFlate)) {
		finfo := f.Info()
		ast.Inspect(f.Decl.Body, func(n ast.Node) bool {
			switch x := n.(type) {
			case *ast.AssignStmt:
				for _, l := range x.Lhs {
					if sel, ok := ast.Unparen(l).(*ast.SelectorExpr); ok {
						if o := finfo.Uses[sel.Sel]; o == types.Object(fMax) || o == types.Object(fBytes) {
							bad = append(bad, fmt.Sprintf("%s: field %s is reassigned after construction", g.Pos(x.Pos()), o.Name()))
						}
					}
				}
			case *ast.IncDecStmt:
				if sel, ok := ast.Unparen(x.X).(*ast.SelectorExpr); ok && finfo.Uses[sel.Sel] == types.Object(fMax) {
					bad = append(bad, fmt.Sprintf("%s: field maxEncodedLen is modified", g.Pos(x.Pos())))
				}
			case *ast.UnaryExpr:
				if x.Op == token.AND {
					if sel, ok := ast.Unparen(x.X).(*ast.SelectorExpr); ok && finfo.Uses[sel.Sel] == types.Object(fMax) {
						bad = append(bad, fmt.Sprintf("%s: address of maxEncodedLen taken", g.Pos(x.Pos())))
					}
				}
			case *ast.CallExpr:
				if single == nil || !core.IsCallTo(finfo, x, single) || len(x.Args) != 2 {
					return true
				}
				nCalls++
				// args: X.bits.bytes, X.maxEncodedLen
				a0, ok0 := ast.Unparen(x.Args[0]).(*ast.SelectorExpr)
				a1, ok1 := ast.Unparen(x.Args[1]).(*ast.SelectorExpr)
				good := false
				if ok0 && ok1 && finfo.Uses[a0.Sel] == types.Object(fBytes) && finfo.Uses[a1.Sel] == types.Object(fMax) {
					if b, ok := ast.Unparen(a0.X).(*ast.SelectorExpr); ok && finfo.Uses[b.Sel] == types.Object(fBits) {
						r0, r1 := c16ObjOf(finfo, b.X), c16ObjOf(finfo, a1.X)
						good = r0 != nil && r0 == r1
					}
				}
				if !good {
					bad = append(bad, fmt.Sprintf("%s: cutSingleBlock is not called with (c.bits.bytes, c.maxEncodedLen) of one cutter: the guards of Cut say nothing about these arguments", g.Pos(x.Pos())))
				}
			}
			return true
		})
	}
	c.Check(len(bad) == 0, "G1.chain", c16RelFlate+".cutSingleBlock[call sites]", "every cutSingleBlock call receives the cutter's bits.bytes and maxEncodedLen, which are assigned only in Cut's guarded literal", nCalls, strings.Join(bad, "\n"))
	c.Floor("G1.chain", "calls of cutSingleBlock", nCalls, 2)
}

func c16OrBad(e ast.Expr) ast.Expr {
	if e == nil {
		return &ast.BadExpr{}
	}
	return e
}

// ---------------------------------------------------------------------
// G2 / Z: zlibcut.Cut.

func runC16Zlib(k *gctx) {
	c := k.c
	g := k.g
	fl := k.flow("G2", c16RelZlib, "", "Cut")
	flateCut := k.fn("G2", c16RelFlate, "", "Cut")
	if fl == nil || flateCut == nil {
		return
	}
	info := fl.F.Info()
	anchor := fl.F.Name()
	wObj, enc, max := fl.Param(0), fl.Param(1), fl.Param(2)
	if wObj == nil || enc == nil || max == nil {
		c.Undecided("G2", anchor, "Cut(w, encoded, maxEncodedLen)", "signature not recognised")
		return
	}
	var call *ast.CallExpr
	ncall := 0
	ast.Inspect(fl.F.Decl.Body, func(n ast.Node) bool {
		if ce, ok := n.(*ast.CallExpr); ok && core.IsCallTo(info, ce, flateCut) {
			call = ce
			ncall++
		}
		return true
	})
	if call == nil || ncall != 1 || len(call.Args) != 3 {
		c.Undecided("G2", anchor, "exactly one call of flatecut.Cut", fmt.Sprintf("%d calls found", ncall))
		return
	}
	isCall := func(ce *ast.CallExpr) bool { return ce == call }
	atCall := func(n ast.Node) bool { return c16NodeHas(n, func(m ast.Node) bool { return m == ast.Node(call) }) }
	lenEnc := c16LinVar(c16LinKey{obj: enc, isLen: true})

	// --- header indexes
	idxs := map[int64]bool{}
	stores := map[ast.Expr]bool{}
	ast.Inspect(fl.F.Decl.Body, func(n ast.Node) bool {
		if as, ok := n.(*ast.AssignStmt); ok {
			for _, l := range as.Lhs {
				stores[ast.Unparen(l)] = true
			}
		}
		return true
	})
	ast.Inspect(fl.F.Decl.Body, func(n ast.Node) bool {
		if ix, ok := n.(*ast.IndexExpr); ok && fl.Is(enc)(ix.X) && !stores[ix] {
			if v, ok := core.ConstInt64(info, ix.Index); ok {
				idxs[v] = true
			} else {
				c.Undecided("G2.hdr", anchor, "header bytes are read at constant indexes", g.Pos(ix.Pos())+": non-constant index into encoded")
			}
		}
		return true
	})
	var ks []int64
	for v := range idxs {
		ks = append(ks, v)
	}
	sort.Slice(ks, func(i, j int) bool { return ks[i] < ks[j] })
	for _, kx := range ks {
		kx := kx
		k.c16MustEstablish("G2.hdr", fmt.Sprintf("%s[encoded[%d]]", anchor, kx),
			fmt.Sprintf("len(encoded) > %d is established before encoded[%d] is read (no index panic on short input)", kx, kx), fl,
			lenEnc.plus(c16LinConst(kx+1), -1),
			func(n ast.Node) bool {
				return c16NodeHas(n, func(m ast.Node) bool {
					ix, ok := m.(*ast.IndexExpr)
					if !ok || !fl.Is(enc)(ix.X) {
						return false
					}
					v, ok := core.ConstInt64(info, ix.Index)
					return ok && v == kx
				})
			})
	}
	c.Floor("G2.hdr", "constant header indexes into encoded (CMF, FLG)", len(ks), 2)

	// --- payload slice and length argument
	sl, ok := ast.Unparen(call.Args[1]).(*ast.SliceExpr)
	if !ok || !fl.Is(enc)(sl.X) || sl.Low == nil || sl.High == nil || sl.Slice3 {
		c.Undecided("G2.slice", anchor+"[flatecut.Cut]", "the payload passed to flatecut.Cut is encoded[lo:hi]", g.Pos(call.Pos())+": second argument is not a two-index slice of encoded")
		return
	}
	lo, ok1 := c16LinExpr(info, sl.Low)
	hi, ok2 := c16LinExpr(info, sl.High)
	arg2, ok3 := c16LinExpr(info, call.Args[2])
	if !ok1 || !ok2 || !ok3 {
		c.Undecided("G2.slice", anchor+"[flatecut.Cut]", "slice bounds and length argument are linear in payloadStart, len(encoded), maxEncodedLen", g.Pos(call.Pos())+": not linear")
		return
	}
	trailer := lenEnc.plus(hi, -1)
	adlerSize := int64(4)
	if o := g.LookupObj("hash/adler32", "Size"); o != nil {
		if cv := constOf(o); cv != nil {
			adlerSize, _ = core.ConstValInt(cv)
		}
	}
	c.Check(trailer.isConst() && trailer.c == adlerSize, "G2.slice", anchor+"[flatecut.Cut payload hi]",
		fmt.Sprintf("the payload ends exactly adler32.Size (%d) bytes before the end of encoded: room for the trailer that Cut rewrites", adlerSize), 1,
		fmt.Sprintf("%s: len(encoded) - hi = %s", g.Pos(sl.High.Pos()), trailer))
	T := trailer.c
	// lo is a single local (payloadStart) whose definitions are non-negative constants.
	var ps types.Object
	if len(lo.t) == 1 && lo.c == 0 {
		for key, v := range lo.t {
			if v == 1 && !key.isLen {
				ps = key.obj
			}
		}
	}
	if ps == nil {
		c.Undecided("G2.slice", anchor+"[flatecut.Cut payload lo]", "the payload starts at a local variable (payloadStart)", g.Pos(sl.Low.Pos())+": lo = "+lo.String())
		return
	}
	var psVals []int64
	psOK := true
	for _, d := range fl.Defs()[ps] {
		v, ok := core.ConstInt64(info, d)
		if !ok || v < 0 {
			psOK = false
		}
		psVals = append(psVals, v)
	}
	sort.Slice(psVals, func(i, j int) bool { return psVals[i] < psVals[j] })
	c.Check(psOK && len(psVals) > 0, "G2.slice", anchor+"[payloadStart >= 0]", "payloadStart only takes non-negative constant values", len(psVals), fmt.Sprintf("definitions: %v", psVals))
	k.c16MustEstablish("G2.trailer", anchor+"[encoded[payloadStart:len(encoded)-4]]",
		"len(encoded) >= payloadStart + 4 is established after the last assignment to payloadStart and before encoded is sliced: header, optional FDICT id and the Adler-32 trailer are present (no slice-bounds panic)", fl,
		hi.plus(lo, -1), atCall)
	want := c16LinVar(c16LinKey{obj: max}).plus(lo, -1).plus(c16LinConst(T), -1)
	c.Check(arg2.equal(want), "G2.arg", anchor+"[flatecut.Cut maxEncodedLen]",
		"flatecut.Cut is given maxEncodedLen - payloadStart - 4: the header and the trailer count against the caller's limit", 1,
		fmt.Sprintf("%s: third argument is %s, expected %s", g.Pos(call.Args[2].Pos()), arg2, want))

	// --- RFC 1950 header layout: 2 bytes, +4 when FLG.FDICT (0x20) is set.
	runC16ZlibHeader(k, fl, enc, ps)

	// --- Z: hasher wiring
	adlerNew := func(e ast.Expr) bool {
		ce, ok := ast.Unparen(e).(*ast.CallExpr)
		if !ok {
			return false
		}
		fn := core.Callee(info, ce)
		return fn != nil && fn.FullName() == "hash/adler32.New"
	}
	hashers := fl.VarsDenoting(adlerNew)
	if len(hashers) != 1 {
		c.Undecided("Z.hasher", anchor, "one local is initialised with adler32.New()", fmt.Sprintf("%d found", len(hashers)))
		return
	}
	hasher := hashers[0]
	nh := 0
	for _, d := range fl.Defs()[hasher] {
		if !adlerNew(d) {
			nh++
		}
	}
	c.Check(nh == 0, "Z.hasher", anchor+"[hasher]", "the checksum object is hash/adler32.New() (zlib's trailer is Adler-32, RFC 1950) and is not replaced", len(fl.Defs()[hasher]), "hasher is reassigned to something else")
	wVar, _ := c16ObjOf(info, call.Args[0]).(*types.Var)
	if wVar == nil {
		c.Undecided("Z.wired", anchor+"[flatecut.Cut writer]", "flatecut.Cut's writer argument is a local variable", g.Pos(call.Args[0].Pos()))
		return
	}
	wires := func(n ast.Node) bool {
		o, rhs := c16SingleAssign(info, n)
		if o != types.Object(wVar) || rhs == nil {
			return false
		}
		if fl.Is(hasher)(rhs) {
			return true
		}
		ce, ok := ast.Unparen(rhs).(*ast.CallExpr)
		if !ok {
			return false
		}
		fn := core.Callee(info, ce)
		if fn == nil || fn.FullName() != "io.MultiWriter" {
			return false
		}
		for _, a := range ce.Args {
			if fl.Is(hasher)(a) {
				return true
			}
		}
		return false
	}
	if wVar == wObj {
		// `w = hasher` replaces the user's writer: allowed only when w == nil.
		var bad []string
		for _, b := range fl.G.Blocks {
			for _, n := range b.Nodes {
				o, rhs := c16SingleAssign(info, n)
				if o == types.Object(wVar) && rhs != nil && fl.Is(hasher)(rhs) {
					path := core.PathTo(fl.F.Decl.Body, n)
					guarded := false
					for i := len(path) - 1; i >= 1; i-- {
						if is, ok := path[i-1].(*ast.IfStmt); ok {
							if (path[i] == ast.Node(is.Body) && nilTest(fl, is.Cond, fl.Is(wObj), true)) ||
								(is.Else != nil && path[i] == ast.Node(is.Else) && nilTest(fl, is.Cond, fl.Is(wObj), false)) {
								guarded = true
							}
						}
					}
					if !guarded {
						bad = append(bad, g.Pos(n.Pos())+": `w = hasher` drops the caller's writer outside a `w == nil` branch")
					}
				}
			}
		}
		c.Check(len(bad) == 0, "Z.wired.user", anchor+"[w = hasher]", "the caller's writer is replaced by the hasher only when it is nil; otherwise both receive the output (io.MultiWriter)", 1, strings.Join(bad, "\n"))
	}
	{
		q := core.Query{Exit: atCall, Events: []core.Event{{Node: wires}}}
		k.mustPass("Z.wired", anchor+"[before flatecut.Cut]", "on every path to flatecut.Cut the writer handed to it is the hasher or io.MultiWriter(…, hasher): the hasher receives exactly the decoded prefix", fl, q)
		others := func(n ast.Node) bool {
			return c16AssignsAny(info, n, map[types.Object]bool{wVar: true, hasher: true}) && !wires(n) && !c16NodeHas(n, func(m ast.Node) bool { e, ok := m.(ast.Expr); return ok && adlerNew(e) })
		}
		if c16CfgNodes(fl, others) > 0 {
			q.Start = others
			k.mustPass("Z.wired", anchor+"[after reassignment of w]", "a later assignment to the writer is followed by re-wiring the hasher", fl, q)
		}
	}

	// --- Z: error tested, Sum32 after the cut, four big-endian bytes, return value.
	succ := core.Query{Exit: fl.SuccessReturn, FuncEnd: true}
	k.passChecked("Z.cut", anchor, "every success return follows the flatecut.Cut call", fl, succ, isCall)
	afterCall := func(n ast.Node) bool { return core.Guaranteed(n, isCall) }
	sum32 := func(ce *ast.CallExpr) bool {
		fn := core.Callee(info, ce)
		return fn != nil && fn.Name() == "Sum32" && len(ce.Args) == 0 && fl.Is(hasher)(core.RecvOf(ce))
	}
	k.mustPass("Z.sum", anchor+"[after flatecut.Cut]", "hasher.Sum32() is taken after flatecut.Cut returned (after all output was hashed), on every success path", fl,
		core.Query{Start: afterCall, Exit: fl.SuccessReturn, FuncEnd: true, Events: []core.Event{core.CallEvent(sum32)}})
	hashVal := fl.Denotes(func(e ast.Expr) bool {
		ce, ok := ast.Unparen(e).(*ast.CallExpr)
		return ok && sum32(ce)
	})
	// results of flatecut.Cut
	var elObj, dlObj types.Object
	for _, b := range fl.G.Blocks {
		for _, n := range b.Nodes {
			if as, ok := n.(*ast.AssignStmt); ok && len(as.Rhs) == 1 && ast.Unparen(as.Rhs[0]) == ast.Expr(call) && len(as.Lhs) == 3 {
				elObj, dlObj = c16ObjOf(info, as.Lhs[0]), c16ObjOf(info, as.Lhs[1])
			}
		}
	}
	if elObj == nil || dlObj == nil {
		c.Undecided("Z.bytes", anchor, "encodedLen, decodedLen, err := flatecut.Cut(…)", g.Pos(call.Pos())+": results are not assigned to three variables")
		return
	}
	base := lo.plus(c16LinVar(c16LinKey{obj: elObj}), 1) // payloadStart + encodedLen
	// byteTarget: the absolute offset into encoded that an lvalue denotes.
	byteTarget := func(l ast.Expr) (c16Lin, bool) {
		ix, ok := ast.Unparen(l).(*ast.IndexExpr)
		if !ok {
			return c16Lin{}, false
		}
		off, ok := c16LinExpr(info, ix.Index)
		if !ok {
			return c16Lin{}, false
		}
		if fl.Is(enc)(ix.X) {
			return c16LinResolve(fl, off, 0), true
		}
		v := fl.Obj(ix.X)
		if v == nil {
			return c16Lin{}, false
		}
		ds := fl.Defs()[v]
		if len(ds) != 1 {
			return c16Lin{}, false
		}
		s, ok := ast.Unparen(ds[0]).(*ast.SliceExpr)
		if !ok || !fl.Is(enc)(s.X) || s.Low == nil {
			return c16Lin{}, false
		}
		l0, ok := c16LinExpr(info, s.Low)
		if !ok {
			return c16Lin{}, false
		}
		if s.High != nil {
			h0, ok := c16LinExpr(info, s.High)
			if !ok || !h0.plus(l0, -1).isConst() || !off.isConst() || off.c < 0 || off.c >= h0.plus(l0, -1).c {
				return c16Lin{}, false
			}
		}
		return c16LinResolve(fl, l0.plus(off, 1), 0), true
	}
	// byteOf: e is uint8(hash >> s) (or byte(...), or uint8(hash) for s = 0).
	byteOf := func(e ast.Expr) (int64, bool) {
		ce, ok := ast.Unparen(e).(*ast.CallExpr)
		if !ok || len(ce.Args) != 1 {
			return 0, false
		}
		tv, ok := info.Types[ce.Fun]
		if !ok || !tv.IsType() {
			return 0, false
		}
		if b, ok := tv.Type.Underlying().(*types.Basic); !ok || b.Kind() != types.Uint8 {
			return 0, false
		}
		x := ast.Unparen(ce.Args[0])
		if hashVal(x) {
			return 0, true
		}
		if be, ok := x.(*ast.BinaryExpr); ok && be.Op == token.SHR && hashVal(be.X) {
			if s, ok := core.ConstInt64(info, be.Y); ok {
				return s, true
			}
		}
		return 0, false
	}
	for i := int64(0); i < T; i++ {
		i := i
		wantShift := 8 * (T - 1 - i)
		target := base.plus(c16LinConst(i), 1)
		wrote := func(n ast.Node) bool {
			as, ok := n.(*ast.AssignStmt)
			if !ok || as.Tok != token.ASSIGN || len(as.Lhs) != len(as.Rhs) {
				return false
			}
			for j := range as.Lhs {
				t, ok := byteTarget(as.Lhs[j])
				if !ok || !t.equal(target) {
					continue
				}
				if s, ok := byteOf(as.Rhs[j]); ok && s == wantShift {
					return true
				}
			}
			return false
		}
		k.mustPass("Z.bytes", fmt.Sprintf("%s[trailer byte %d]", anchor, i),
			fmt.Sprintf("on every success path encoded[payloadStart+encodedLen+%d] = uint8(hasher.Sum32() >> %d): Adler-32 big-endian directly after the cut payload (RFC 1950)", i, wantShift), fl,
			core.Query{Start: afterCall, Exit: fl.SuccessReturn, FuncEnd: true, Events: []core.Event{{Node: wrote}}})
		// no other store to that byte after the right one would be visible only by order; require a single writer.
		nw := c16CfgNodes(fl, func(n ast.Node) bool {
			as, ok := n.(*ast.AssignStmt)
			if !ok {
				return false
			}
			for _, l := range as.Lhs {
				if t, ok := byteTarget(l); ok && t.equal(target) {
					return true
				}
			}
			return false
		})
		c.Check(nw == 1, "Z.bytes.once", fmt.Sprintf("%s[trailer byte %d]", anchor, i), "the trailer byte has exactly one store", nw, "")
	}
	// success returns after the call: (payloadStart+encodedLen+4, decodedLen, nil)
	nret := 0
	var bad []string
	retWant := base.plus(c16LinConst(T), 1)
	esc, _ := fl.Escapes(core.Query{Start: afterCall, Exit: func(n ast.Node) bool {
		r, ok := n.(*ast.ReturnStmt)
		if !ok || !fl.SuccessReturn(n) {
			return false
		}
		nret++
		if len(r.Results) != 3 {
			bad = append(bad, g.Pos(r.Pos())+": bare return")
			return false
		}
		l0, ok := c16LinExpr(info, r.Results[0])
		if !ok || !c16LinResolve(fl, l0, 0).equal(retWant) {
			bad = append(bad, fmt.Sprintf("%s: returns encodedLen = %s, expected %s", g.Pos(r.Pos()), core.Src(g.Fset, r.Results[0]), retWant))
		}
		if !fl.Is(dlObj)(r.Results[1]) {
			bad = append(bad, fmt.Sprintf("%s: decodedLen is not flatecut's decodedLen", g.Pos(r.Pos())))
		}
		return false
	}})
	_ = esc
	c.Check(len(bad) == 0 && nret > 0, "Z.ret", anchor+"[success return]", "the success return reports payloadStart + encodedLen + 4 (header + cut payload + trailer) and flatecut's decodedLen", nret, strings.Join(bad, "\n"))
}

// runC16ZlibHeader: RFC 1950 §2.2 — CMF, FLG; DICTID (4 bytes) follows iff
// FLG bit 5 (0x20, FDICT) is set.
func runC16ZlibHeader(k *gctx, fl *core.Flow, enc, ps types.Object) {
	c := k.c
	g := k.g
	info := fl.F.Info()
	anchor := fl.F.Name() + "[payloadStart]"
	type def struct {
		val  int64
		node ast.Node
	}
	var defs []def
	for _, b := range fl.G.Blocks {
		for _, n := range b.Nodes {
			o, rhs := c16SingleAssign(info, n)
			if o == ps && rhs != nil {
				v, _ := core.ConstInt64(info, rhs)
				defs = append(defs, def{v, n})
			}
		}
	}
	sort.Slice(defs, func(i, j int) bool { return defs[i].node.Pos() < defs[j].node.Pos() })
	if len(defs) != 2 {
		c.Undecided("Z.hdr", anchor, "payloadStart is 2, or 6 when FDICT is set", fmt.Sprintf("%d definitions of payloadStart", len(defs)))
		return
	}
	ok := defs[0].val == 2 && defs[1].val == 6
	detail := fmt.Sprintf("%s: payloadStart definitions are %d and %d, expected 2 (CMF, FLG) and 6 (CMF, FLG, DICTID)", g.Pos(defs[0].node.Pos()), defs[0].val, defs[1].val)
	// The second definition sits in the then-branch of `if (encoded[1] & 0x20) != 0`.
	fdict := func(e ast.Expr) bool {
		be, ok := ast.Unparen(e).(*ast.BinaryExpr)
		if !ok {
			return false
		}
		and, ok := ast.Unparen(be.X).(*ast.BinaryExpr)
		rhs := be.Y
		if !ok || and.Op != token.AND {
			and, ok = ast.Unparen(be.Y).(*ast.BinaryExpr)
			rhs = be.X
			if !ok || and.Op != token.AND {
				return false
			}
		}
		isFlg := func(x ast.Expr) bool {
			x = ast.Unparen(x)
			if ce, ok := x.(*ast.CallExpr); ok && len(ce.Args) == 1 {
				if tv, ok := info.Types[ce.Fun]; ok && tv.IsType() {
					x = ast.Unparen(ce.Args[0])
				}
			}
			ix, ok := x.(*ast.IndexExpr)
			if !ok || !fl.Is(enc)(ix.X) {
				return false
			}
			v, ok := core.ConstInt64(info, ix.Index)
			return ok && v == 1
		}
		var mask int64
		switch {
		case isFlg(and.X):
			mask, ok = core.ConstInt64(info, and.Y)
		case isFlg(and.Y):
			mask, ok = core.ConstInt64(info, and.X)
		default:
			return false
		}
		if !ok || mask != 0x20 {
			return false
		}
		r, ok := core.ConstInt64(info, rhs)
		return ok && ((be.Op == token.NEQ && r == 0) || (be.Op == token.EQL && r == 0x20))
	}
	path := core.PathTo(fl.F.Decl.Body, defs[1].node)
	inFdict := false
	for i := len(path) - 1; i >= 1; i-- {
		if is, isIf := path[i-1].(*ast.IfStmt); isIf && path[i] == ast.Node(is.Body) {
			if fl.Denotes(fdict)(is.Cond) {
				inFdict = true
			}
		}
	}
	if !inFdict {
		ok = false
		detail = g.Pos(defs[1].node.Pos()) + ": payloadStart = 6 is not guarded by `(encoded[1] & 0x20) != 0` (FLG.FDICT, RFC 1950 §2.2)"
	}
	c.Check(ok, "Z.hdr", anchor, "the DEFLATE payload starts after the 2-byte zlib header, or after the additional 4-byte DICTID exactly when FLG bit 0x20 (FDICT) is set", 2, detail)
}
