package main

// C08, rule family Q: the image decoders' `call_sequence` typestate.
//
// Every struct of std/ that `implements base.image_decoder` keeps a private
// `call_sequence : base.u8`. doc/std/image-decoders-call-sequence.md describes
// the machine: 0x00 initial, 0x20 after the image config, 0x40 after a frame
// config, 0x60 at the end, the 0x08 bit after restart_frame, the 0x10 bit
// while metadata is being reported; out-of-sequence calls are rejected with
// "#bad call sequence".
//
// For each decoder the engine of wflow_q.go computes, for every protocol
// method and every entry value of the field, the set of (status class, exit
// value) pairs a call can end with. That summary is then compared, at the
// documented states, with a frozen reference table (one table per decoder
// family, a reason per row), and the decoders that share the plain
// still-image machine are compared with each other (sibling cross-check).
// The comparison is on behaviour, not on syntax: if/else-if chain versus
// early returns, `a < b` versus `b > a`, De Morgan, renamed locals, reordered
// independent statements, extracted helper methods all give the same summary.

import (
	"fmt"
	"os"
	"sort"
	"strconv"
	"strings"

	"wv/core"

	a "github.com/google/wuffs/lang/ast"
	t "github.com/google/wuffs/lang/token"
)

type qDecoder struct {
	p      *WPkg
	s      *a.Struct
	an     *wqAn
	family string
	states []int
}

// qFile renders a source position relative to the repository (the front end sees the scratch copy's absolute path).
func qFile(f *a.Func) string {
	fn := f.Filename()
	if i := strings.LastIndex(fn, "/std/"); i >= 0 {
		fn = fn[i+1:]
	}
	return fmt.Sprintf("%s:%d", fn, f.Line())
}

func (d *qDecoder) name() string { return d.p.Name + "." + d.p.str(d.s.QID()[1]) }
func (d *qDecoder) anchor(m string) string {
	return "wuffs std/" + d.p.Name + " " + d.p.str(d.s.QID()[1]) + "." + m
}

// ---------------------------------------------------------------------------
// The frozen reference.
//
// Row syntax (space separated):
//   ok>XX    the call can succeed and then leaves the field at XX   (exact)
//   bcs      the call is rejected with "#bad call sequence", field unchanged, before any I/O (exact)
//   eod>XX   the call can end with "@end of data", field XX          (exact)
//   val:N    a value-returning method returns N (val:? = not a constant), field unchanged (exact)
//   mid>XX   the call may end early (suspension, or a note passed through from a callee) with the field at XX (allowed)
//   meta>XX  the call may end with "@metadata reported", field XX    (allowed)
//   redir>XX the call may end with "@I/O redirect", field XX         (allowed)
// XX is two hex digits or `=` (the entry value). "exact" classes must be equal
// as sets; "allowed" classes must be subsets. Errors are not listed: an error
// from a coroutine disables the object (rule G4), so the field is never read
// again; an error from a non-coroutine method must leave the field unchanged
// (checked for every row).

type qRow struct {
	state int
	spec  string
	why   string
}

type qTable map[string][]qRow // logical method -> rows

const (
	qDIC  = "decode_image_config"
	qDFC  = "decode_frame_config"
	qDF   = "decode_frame"
	qTMM  = "tell_me_more"
	qRF   = "restart_frame"
	qNDFC = "num_decoded_frame_configs"
	qNDF  = "num_decoded_frames"
)

var qLogical = []string{qDIC, qDFC, qDF, qTMM, qRF, qNDFC, qNDF}

// halves: the methods that implement a logical protocol method (public wrapper and private half).
func qHalves(logical string) []string {
	switch logical {
	case qDIC, qDFC, qDF, qTMM:
		return []string{logical, "do_" + logical}
	}
	return []string{logical}
}

const docCS = "doc/std/image-decoders-call-sequence.md"

func qStillTable() qTable {
	return qTable{
		qDIC: {
			{0x00, "ok>20 mid>=", docCS + ": 'The DIC call moves to state 0x20'; a suspended call has not moved yet"},
			{0x20, "bcs", docCS + ": 'a DIC call is illegal after a DIC, DFC or DF call'"},
			{0x28, "bcs", "same; restart_frame does not re-open the image config"},
			{0x40, "bcs", "same"},
			{0x60, "bcs", "same"},
		},
		qDFC: {
			{0x00, "ok>40 mid>= mid>20", docCS + " 'Implicit Calls': DFC on a fresh decoder implicitly calls DIC (0x00→0x20) and then moves to 0x40"},
			{0x20, "ok>40 mid>=", "DFC after DIC moves 0x20→0x40"},
			{0x28, "ok>40 mid>=", "DFC after restart_frame (0x28, the 0x08 bit) checks the I/O position and moves to 0x40"},
			{0x40, "eod>60", "a still image has one frame: a second DFC implicitly skips the frame and reports '@end of data', final state 0x60"},
			{0x60, "eod>=", "after the end every DFC reports '@end of data' and stays"},
		},
		qDF: {
			{0x00, "ok>60 mid>= mid>20 mid>40", docCS + " 'Implicit Calls': DF on a fresh decoder implicitly calls DIC and DFC; the only frame then ends the image (0x60)"},
			{0x20, "ok>60 mid>= mid>40", "DF after DIC implicitly calls DFC (0x40) and decodes the only frame (0x60)"},
			{0x28, "ok>60 mid>= mid>40", "same, after restart_frame"},
			{0x40, "ok>60 mid>=", "DF after DFC decodes the only frame: 0x40→0x60; the state moves only on success"},
			{0x60, "eod>=", "DF after the end reports '@end of data'"},
		},
		qTMM: {
			{0x00, "", "no metadata support: tell_me_more never succeeds and never moves the state"},
			{0x20, "", "same"}, {0x28, "", "same"}, {0x40, "", "same"}, {0x60, "", "same"},
		},
		qRF: {
			{0x00, "bcs", docCS + ": 'The RF method can only be called when the image configuration has already been decoded. Equivalently, only when the call_sequence is at least 0x20'"},
			{0x20, "ok>28", "restart_frame sets the 0x08 bit: 0x28"},
			{0x28, "ok>28", "same"}, {0x40, "ok>28", "same"}, {0x60, "ok>28", "same (rewinding after the end is the main use)"},
		},
		qNDFC: {
			{0x00, "val:0", "no frame config decoded before 0x40"},
			{0x20, "val:0", "same"},
			{0x28, "val:1", "as implemented by all still-image decoders (`call_sequence > 0x20`); NB the animated decoders report args.index here"},
			{0x40, "val:1", "the only frame config has been decoded"},
			{0x60, "val:1", "same"},
		},
		qNDF: {
			{0x00, "val:0", "no frame decoded before 0x60"},
			{0x20, "val:0", "same"}, {0x28, "val:0", "same"}, {0x40, "val:0", "same"},
			{0x60, "val:1", "the only frame has been decoded (or skipped)"},
		},
	}
}

// patch returns a copy of tb with the rows of m replaced/extended.
func (tb qTable) patch(m string, state int, spec, why string) qTable {
	out := qTable{}
	for k, rows := range tb {
		out[k] = append([]qRow{}, rows...)
	}
	found := false
	for i, r := range out[m] {
		if r.state == state {
			out[m][i] = qRow{state, spec, why}
			found = true
		}
	}
	if !found {
		out[m] = append(out[m], qRow{state, spec, why})
		sort.Slice(out[m], func(i, j int) bool { return out[m][i].state < out[m][j].state })
	}
	return out
}

func qBmpTable() qTable {
	tb := qStillTable()
	why := "bmp only: a BMP that wraps another format reports '@I/O redirect' from state 0x00, and once that redirect has been consumed (io_redirect_fourcc == 1) every further decode call is rejected"
	tb = tb.patch(qDIC, 0x00, "ok>20 bcs mid>= redir>=", why)
	tb = tb.patch(qDFC, 0x00, "ok>40 bcs mid>= mid>20 redir>=", why)
	tb = tb.patch(qDF, 0x00, "ok>60 bcs mid>= mid>20 mid>40 redir>=", why)
	for _, st := range []int{0x00, 0x20, 0x28, 0x40, 0x60} {
		tb = tb.patch(qTMM, st, "ok>=", "bmp only: tell_me_more reports the I/O redirect; it is driven by io_redirect_fourcc and never moves call_sequence")
	}
	return tb
}

func qWebpTable() qTable {
	tb := qStillTable()
	why := "webp only: for a lossy file the method is delegated to the embedded vp8 decoder (itself checked as a still-image decoder), whose result is returned with webp's own field unchanged"
	tb = tb.patch(qRF, 0x00, "bcs ok>= mid>=", why)
	for _, st := range []int{0x20, 0x28, 0x40, 0x60} {
		tb = tb.patch(qRF, st, "ok>28 ok>= mid>=", why)
	}
	// The public decode_frame_config / decode_frame wrappers have rows of their own ("pub:" tables): they first run
	// the implicit decode_image_config to completion while call_sequence < 0x20 (that call decides is_vp8_lossy),
	// and only then choose between the embedded vp8 decoder and the private VP8L half.
	lossy := "; for a lossy file the call is delegated to the embedded vp8 decoder (checked as a still-image decoder itself) and webp's own field stays where the implicit decode_image_config left it (ok>=)"
	tb["pub:"+qDFC] = []qRow{
		{0x00, "ok>40 ok>20 mid>= mid>20", "the wrapper runs the implicit DIC first (0x00→0x20; a suspension stays at 0x00 and resumes through the same arm), then VP8L: 0x20→0x40" + lossy},
		{0x20, "ok>40 ok>= mid>=", "VP8L: DFC after DIC moves 0x20→0x40" + lossy},
		{0x28, "ok>40 ok>= mid>=", "VP8L: DFC after restart_frame moves to 0x40" + lossy},
		{0x40, "eod>60 ok>= mid>=", "VP8L: a second DFC reports '@end of data', final state 0x60" + lossy},
		{0x60, "eod>= ok>= mid>=", "VP8L: '@end of data' and stays" + lossy},
	}
	tb["pub:"+qDF] = []qRow{
		{0x00, "ok>60 ok>20 mid>= mid>20 mid>40", "the wrapper runs the implicit DIC first (0x00→0x20), then VP8L: implicit DFC (0x40) and the only frame (0x60)" + lossy},
		{0x20, "ok>60 ok>= mid>= mid>40", "VP8L: implicit DFC (0x40), then the only frame (0x60)" + lossy},
		{0x28, "ok>60 ok>= mid>= mid>40", "same, after restart_frame" + lossy},
		{0x40, "ok>60 ok>= mid>=", "VP8L: 0x40→0x60 on success only" + lossy},
		{0x60, "eod>= ok>= mid>=", "VP8L: '@end of data'" + lossy},
	}
	for _, r := range qStillTable()[qNDFC] {
		tb = tb.patch(qNDFC, r.state, r.spec+" val:?", why)
	}
	for _, r := range qStillTable()[qNDF] {
		tb = tb.patch(qNDF, r.state, r.spec+" val:?", why)
	}
	return tb
}

func qNieTable() qTable {
	tb := qStillTable()
	an := "nie/nia: an animation (NIA) bounces between 0x20 and 0x40 (" + docCS + ": 'Subsequent DFC and DF calls bounce between states 0x40 and 0x20 until the last DFC moves the final state 0x60'); a still NIE ends after its only frame"
	tb = tb.patch(qDFC, 0x00, "ok>40 eod>60 mid>= mid>20", an)
	tb = tb.patch(qDFC, 0x20, "ok>40 eod>60 mid>=", an)
	tb = tb.patch(qDFC, 0x28, "ok>40 eod>60 mid>=", an)
	tb = tb.patch(qDFC, 0x40, "ok>40 eod>60 mid>= mid>20", an+"; DFC at 0x40 implicitly skips the frame (→0x20, or →0x60 with '@end of data' for a still image) and decodes the next frame config (→0x40)")
	tb = tb.patch(qDF, 0x00, "ok>20 ok>60 eod>60 mid>= mid>20 mid>40", an)
	tb = tb.patch(qDF, 0x20, "ok>20 ok>60 eod>60 mid>= mid>40", an)
	tb = tb.patch(qDF, 0x28, "ok>20 ok>60 eod>60 mid>= mid>40", an)
	tb = tb.patch(qDF, 0x40, "ok>20 ok>60 mid>=", an+"; every success exit of DF moves the state (animated: back to 0x20, still: 0x60)")
	for _, st := range []int{0x00, 0x20, 0x28, 0x40, 0x60} {
		tb = tb.patch(qNDFC, st, "val:?", "animated: a counter field, reset by restart_frame")
		tb = tb.patch(qNDF, st, "val:?", "animated: a counter field, reset by restart_frame")
	}
	return tb
}

func qGifTable() qTable {
	side := docCS + ": in a side-track state (0x10 bit set) only tell_me_more is legal"
	meta := "ICCP/XMP application extensions are reported with '@metadata reported' and side-track to 0x10 only before the image config (call_sequence < 0x20); the meta>XX entries without the 0x10 bit are the re-report path guarded by metadata_fourcc <> 0 (a field this analysis does not track)"
	anim := "animated: DFC/DF bounce between 0x40 and 0x20; the trailer moves to 0x60"
	return qTable{
		qDIC: {
			{0x00, "ok>20 ok>60 mid>= meta>10 meta>=", "success moves to 0x20, or straight to 0x60 when the trailer is met before any image descriptor (no frames); " + meta},
			{0x10, "bcs", side}, {0x20, "bcs", "DIC is illegal after DIC"}, {0x28, "bcs", "same"}, {0x40, "bcs", "same"}, {0x60, "bcs", "same"},
		},
		qDFC: {
			{0x00, "ok>40 eod>60 mid>= mid>20 meta>10 meta>20 meta>=", "implicit DIC, then the first frame config; when the implicit DIC has met the trailer (0x60, no frames) the call ends there with '@end of data': no work and no metadata report at 0x60; " + meta},
			{0x10, "bcs", side},
			{0x20, "ok>40 eod>60 mid>= meta>=", anim},
			{0x28, "ok>40 eod>60 mid>= meta>=", anim + "; after restart_frame"},
			{0x40, "ok>40 eod>60 mid>= mid>20 meta>20", anim + "; DFC at 0x40 implicitly skips the frame (→0x20) first"},
			{0x60, "eod>=", "after the end"},
		},
		qDF: {
			{0x00, "ok>20 eod>60 mid>= mid>20 mid>40 meta>10 meta>20 meta>=", "implicit DIC and DFC (which ends with '@end of data' at 0x60 when there are no frames); " + anim + "; " + meta},
			{0x10, "bcs", side},
			{0x20, "ok>20 eod>60 mid>= mid>40 meta>=", anim},
			{0x28, "ok>20 eod>60 mid>= mid>40 meta>=", anim},
			{0x40, "ok>20 mid>=", "DF after DFC: every success exit moves back to 0x20"},
			{0x60, "eod>=", "after the end"},
		},
		qTMM: {
			{0x00, "bcs", docCS + ": 'a TMM (tell_me_more) call is illegal unless the decoder is in a right hand column state'"},
			{0x10, "ok>00 mid>=", "finishing the metadata clears the 0x10 bit: back to 0x00"},
			{0x20, "bcs", "same as 0x00"}, {0x28, "bcs", "same"}, {0x40, "bcs", "same"}, {0x60, "bcs", "same"},
		},
		qRF: {
			{0x00, "bcs", "RF needs the image config (call_sequence >= 0x20)"}, {0x10, "bcs", "same: 0x10 < 0x20"},
			{0x20, "ok>28", "sets the 0x08 bit"}, {0x28, "ok>28", "same"}, {0x40, "ok>28", "same"}, {0x60, "ok>28", "same"},
		},
		qNDFC: {{0x00, "val:?", "counter field"}, {0x10, "val:?", ""}, {0x20, "val:?", ""}, {0x28, "val:?", ""}, {0x40, "val:?", ""}, {0x60, "val:?", ""}},
		qNDF:  {{0x00, "val:?", "counter field"}, {0x10, "val:?", ""}, {0x20, "val:?", ""}, {0x28, "val:?", ""}, {0x40, "val:?", ""}, {0x60, "val:?", ""}},
	}
}

func qPngTable() qTable {
	side := docCS + ": in a side-track state (0x10 bit set) only tell_me_more (and, from 0x30, restart_frame) is legal"
	meta := "metadata chunks are reported with '@metadata reported': before the image config they side-track to 0x10, after it to 0x30 (base state | 0x10)"
	anim := "APNG: DFC/DF bounce between 0x40 and 0x20; running out of frames moves to 0x60"
	return qTable{
		qDIC: {
			{0x00, "ok>20 mid>= meta>10", "success moves to 0x20; " + meta},
			{0x10, "bcs", side}, {0x20, "bcs", "DIC is illegal after DIC"}, {0x28, "bcs", "same"}, {0x30, "bcs", side}, {0x40, "bcs", "same"}, {0x60, "bcs", "same"},
		},
		qDFC: {
			{0x00, "ok>40 eod>60 mid>= mid>20 meta>10 meta>30", "implicit DIC, then the first frame config; " + meta},
			{0x10, "bcs", side},
			{0x20, "ok>40 eod>60 mid>= meta>30", anim + "; " + meta},
			{0x28, "ok>40 eod>60 mid>= meta>30", anim + "; after restart_frame"},
			{0x30, "bcs", side},
			{0x40, "ok>40 eod>60 mid>= mid>20 meta>30", anim + "; DFC at 0x40 implicitly skips the frame (→0x20) first"},
			{0x60, "eod>=", "after the end"},
		},
		qDF: {
			{0x00, "ok>20 eod>60 mid>= mid>20 mid>40 meta>10 meta>30", "implicit DIC and DFC; " + anim},
			{0x10, "bcs", side},
			{0x20, "ok>20 eod>60 mid>= mid>40 meta>30", anim},
			{0x28, "ok>20 eod>60 mid>= mid>40 meta>30", anim},
			{0x30, "bcs", side},
			{0x40, "ok>20 mid>=", "DF after DFC: every success exit moves back to 0x20"},
			{0x60, "eod>=", "after the end"},
		},
		qTMM: {
			{0x00, "bcs", docCS + ": 'a TMM (tell_me_more) call is illegal unless the decoder is in a right hand column state'"},
			{0x10, "ok>00 mid>=", "finishing the metadata clears the 0x10 bit: back to 0x00"},
			{0x20, "bcs", "same as 0x00"}, {0x28, "bcs", "same"},
			{0x30, "ok>20 mid>=", "finishing the metadata clears the 0x10 bit: back to 0x20"},
			{0x40, "bcs", "same"}, {0x60, "bcs", "same"},
		},
		qRF: {
			{0x00, "bcs", "RF needs the image config (call_sequence >= 0x20)"}, {0x10, "bcs", "same: 0x10 < 0x20"},
			{0x20, "ok>28", "sets the 0x08 bit"}, {0x28, "ok>28", "same"}, {0x30, "ok>28", "same (0x30 >= 0x20: a restart abandons the metadata side track)"}, {0x40, "ok>28", "same"}, {0x60, "ok>28", "same"},
		},
		qNDFC: {{0x00, "val:?", "counter field"}, {0x10, "val:?", ""}, {0x20, "val:?", ""}, {0x28, "val:?", ""}, {0x30, "val:?", ""}, {0x40, "val:?", ""}, {0x60, "val:?", ""}},
		qNDF:  {{0x00, "val:?", "counter field"}, {0x10, "val:?", ""}, {0x20, "val:?", ""}, {0x28, "val:?", ""}, {0x30, "val:?", ""}, {0x40, "val:?", ""}, {0x60, "val:?", ""}},
	}
}

var qFamilies = map[string]struct {
	table  func() qTable
	states []int
	why    string
}{
	"still": {qStillTable, []int{0x00, 0x20, 0x28, 0x40, 0x60}, "plain still-image machine"},
	"bmp":   {qBmpTable, []int{0x00, 0x20, 0x28, 0x40, 0x60}, "still-image machine plus the I/O-redirect side track"},
	"webp":  {qWebpTable, []int{0x00, 0x20, 0x28, 0x40, 0x60}, "still-image machine; lossy files are delegated to the embedded vp8 decoder"},
	"nie":   {qNieTable, []int{0x00, 0x20, 0x28, 0x40, 0x60}, "animated refinement (NIA) of the same five states"},
	"gif":   {qGifTable, []int{0x00, 0x10, 0x20, 0x28, 0x40, 0x60}, "animated refinement plus the metadata side track 0x10"},
	"png":   {qPngTable, []int{0x00, 0x10, 0x20, 0x28, 0x30, 0x40, 0x60}, "animated (APNG) refinement plus the metadata side tracks 0x10 and 0x30"},
}

// qFamilyOf: decoders not named here must follow the plain still-image machine.
var qFamilyOf = map[string]string{"bmp": "bmp", "webp": "webp", "nie": "nie", "gif": "gif", "png": "png"}

// ---------------------------------------------------------------------------

type qObs struct {
	exact map[string]bool // "ok>20", "bcs", "eod>60", "val:0"
	mid   map[string]bool // "mid>XX", "meta>XX", "redir>XX"
	bad   []string        // violations that do not depend on the table
	bcsIO bool
}

func qExit(entry, exit int) string {
	if exit == entry {
		return "="
	}
	return fmt.Sprintf("%02X", exit)
}

// qObserve classifies the outcomes of one (method, entry) pair.
func qObserve(entry int, coroutine bool, m map[wqOut]bool) qObs {
	o := qObs{exact: map[string]bool{}, mid: map[string]bool{}}
	for out := range m {
		ex := qExit(entry, out.exit)
		switch {
		case out.class == "ok":
			o.exact["ok>"+ex] = true
		case out.class == "bcs":
			if out.exit != entry {
				o.bad = append(o.bad, fmt.Sprintf("\"#bad call sequence\" is returned with the field changed to 0x%02X", out.exit))
			}
			if out.io {
				o.bcsIO = true
			}
			o.exact["bcs"] = true
		case out.class == "eod":
			o.exact["eod>"+ex] = true
		case strings.HasPrefix(out.class, "val:"):
			if out.exit != entry {
				o.bad = append(o.bad, fmt.Sprintf("a value-returning method changes the field to 0x%02X", out.exit))
			}
			o.exact[out.class] = true
		case out.class == "err":
			if !coroutine && out.exit != entry {
				o.bad = append(o.bad, fmt.Sprintf("a non-coroutine method returns an error (which does not disable the object) with the field changed to 0x%02X", out.exit))
			}
		case out.class == "susp" || out.class == "note:?":
			o.mid["mid>"+ex] = true
		case out.class == "note:base.@metadata reported":
			o.mid["meta>"+ex] = true
		case out.class == "note:base.@I/O redirect":
			o.mid["redir>"+ex] = true
		default:
			o.mid["mid>"+ex] = true
		}
	}
	return o
}

func qKeys(m map[string]bool) []string {
	var out []string
	for k := range m {
		out = append(out, k)
	}
	sort.Strings(out)
	return out
}

// qNormTok rewrites an absolute exit equal to the entry as "=" so that rows can be written either way.
func qNormTok(tok string, entry int) string {
	i := strings.Index(tok, ">")
	if i < 0 {
		return tok
	}
	if v, err := strconv.ParseInt(tok[i+1:], 16, 32); err == nil && int(v) == entry {
		return tok[:i+1] + "="
	}
	return tok
}

// qCompare returns the differences between an observation and a row.
func qCompare(o qObs, row qRow) []string {
	want, allowed := map[string]bool{}, map[string]bool{}
	for _, tok := range strings.Fields(row.spec) {
		tok = qNormTok(tok, row.state)
		if strings.HasPrefix(tok, "mid>") || strings.HasPrefix(tok, "meta>") || strings.HasPrefix(tok, "redir>") {
			allowed[tok] = true
		} else {
			want[tok] = true
		}
	}
	var diff []string
	for k := range want {
		if !o.exact[k] {
			diff = append(diff, "missing "+k)
		}
	}
	for k := range o.exact {
		if !want[k] {
			diff = append(diff, "unexpected "+k)
		}
	}
	for k := range o.mid {
		if !allowed[k] {
			diff = append(diff, "unexpected "+k)
		}
	}
	sort.Strings(diff)
	return diff
}

func qExplain(tok string) string {
	switch {
	case strings.HasPrefix(tok, "missing ok>"):
		return "the call can no longer succeed into that state"
	case strings.HasPrefix(tok, "unexpected ok>="):
		return "a success exit does not move the state (a repeated call is not rejected / does not advance)"
	case strings.HasPrefix(tok, "unexpected ok>"):
		return "a success exit moves to a state the machine does not have here"
	case tok == "missing bcs":
		return "an out-of-order call is not rejected with \"#bad call sequence\""
	case tok == "unexpected bcs":
		return "a call the interface allows here is rejected"
	case strings.HasPrefix(tok, "unexpected mid>"):
		return "the state is moved before the fallible work has succeeded (or work happens in a state where the call must be rejected)"
	}
	return ""
}

// ---------------------------------------------------------------------------

func runC08CallSeq(c *core.Ctx, std []*WPkg) {
	var decs []*qDecoder
	for _, p := range std {
		if p.Corpus {
			continue
		}
		for _, s := range p.Structs {
			for _, o := range s.Implements() {
				q := o.AsTypeExpr().QID()
				if p.str(q[0]) == "base" && p.str(q[1]) == "image_decoder" {
					decs = append(decs, &qDecoder{p: p, s: s})
				}
			}
		}
	}
	dump := os.Getenv("WV_Q_DUMP") != ""
	nCovered, nMethods, nRows, nGuards, nUpdates, nStill := 0, 0, 0, 0, 0, 0
	sib := map[string]map[string][]string{} // method -> rendered exact summary -> decoders
	for _, d := range decs {
		d.family = qFamilyOf[d.p.Name]
		if d.family == "" {
			d.family = "still"
		}
		// Q0: the field
		var fld *a.Field
		for _, o := range d.s.Fields() {
			if d.p.str(o.AsField().Name()) == "call_sequence" {
				fld = o.AsField()
			}
		}
		claim0 := "an image decoder tracks its protocol state in a private `call_sequence : base.u8` field (all 256 values are enumerated by the analysis)"
		if fld == nil || fld.XType().QID()[1] != t.IDU8 || fld.XType().IsRefined() || fld.XType().Decorator() != 0 {
			c.Undecided("Q0.field", d.anchor("call_sequence"), claim0, "field missing or not a plain base.u8")
			continue
		}
		d.an = newWqAn(d.p, d.s.QID()[1], "call_sequence")
		fam, ok := qFamilies[d.family]
		if !ok {
			// gif, png: see notes/C08.md — reported, not armed.
			qNotCovered(c, d)
			continue
		}
		tb := fam.table()
		d.states = fam.states
		nCovered++
		if d.family == "still" {
			nStill++
		}

		// Q1: reachable states = the frozen set.
		reach := qReach(d)
		var rs, fs []string
		for _, v := range reach {
			rs = append(rs, fmt.Sprintf("0x%02X", v))
		}
		for _, v := range fam.states {
			fs = append(fs, fmt.Sprintf("0x%02X", v))
		}
		c.Check(strings.Join(rs, " ") == strings.Join(fs, " "), "Q1.states", d.anchor("call_sequence"),
			"the values call_sequence can take, starting from 0x00 and following every way a public method can end without disabling the object, are exactly the documented states of the "+d.family+" machine ("+fam.why+"); an extra or missing state means some method moves to a state its siblings and the document do not know",
			len(reach), fmt.Sprintf("reachable {%s}, reference {%s}", strings.Join(rs, " "), strings.Join(fs, " ")))

		// Q2/Q4: per method, per state.
		for _, logical := range qLogical {
			for _, mname := range qHalves(logical) {
				id := d.p.TM.ByName(mname)
				f := d.an.funcs[id]
				if f == nil {
					if mname == logical {
						c.Undecided("Q2."+logical, d.anchor(mname), "the interface method is declared", "not found")
					}
					continue
				}
				var diffs, bcsIO []string
				rows := tb[logical]
				if r, ok := tb["pub:"+logical]; ok && mname == logical {
					rows = r // the public wrapper has rows of its own
				}
				for _, row := range rows {
					o := qObserve(row.state, f.Effect().Coroutine(), d.an.outcomes(id, row.state))
					for _, x := range o.bad {
						diffs = append(diffs, fmt.Sprintf("state 0x%02X: %s", row.state, x))
					}
					if o.bcsIO {
						bcsIO = append(bcsIO, fmt.Sprintf("state 0x%02X", row.state))
					}
					for _, x := range qCompare(o, row) {
						msg := fmt.Sprintf("state 0x%02X: %s", row.state, x)
						if e := qExplain(x); e != "" {
							msg += " — " + e
						}
						msg += fmt.Sprintf(" [reference row `%s`: %s; computed exact {%s} early-exit {%s}]", row.spec, row.why, strings.Join(qKeys(o.exact), " "), strings.Join(qKeys(o.mid), " "))
						diffs = append(diffs, msg)
					}
					nRows++
				}
				und := d.an.undecBy[id]
				anchor := d.anchor(mname)
				if len(und) > 0 {
					c.Undecided("Q2."+logical, anchor, "the method body is within the analysed subset of Wuffs", fmt.Sprintf("%s: %s", qFile(f), strings.Join(und, "; ")))
					continue
				}
				nMethods++
				c.Check(len(diffs) == 0, "Q2."+logical, anchor,
					"at every documented state the method ends exactly as the "+d.family+" call-sequence machine says: rejected with \"#bad call sequence\" where the interface forbids the call, success moves to the documented next state on every success exit and only there, \"@end of data\" where the image has ended; otherwise out-of-order calls are accepted or in-order calls rejected",
					len(rows), fmt.Sprintf("%s %s\n%s", qFile(f), mname, strings.Join(diffs, "\n")))
				hasBcs := false
				for _, row := range rows {
					if strings.Contains(" "+row.spec+" ", " bcs ") {
						hasBcs = true
					}
				}
				if hasBcs {
					c.Check(len(bcsIO) == 0, "Q4.guardfirst", anchor,
						"a rejected call returns \"#bad call sequence\" before any read, skip or sub-decoder call on args.src: the guard on call_sequence comes first, otherwise an out-of-order call would consume input or suspend instead of being rejected",
						len(rows), fmt.Sprintf("%s: \"#bad call sequence\" is reached after I/O in %s", qFile(f), strings.Join(bcsIO, ", ")))
				}
				if d.family == "still" {
					key := qSiblingKey(d, id, f)
					if sib[mname] == nil {
						sib[mname] = map[string][]string{}
					}
					sib[mname][key] = append(sib[mname][key], d.p.Name)
				}
			}
		}
		// Q2.other: the remaining public methods never move the state.
		for id, f := range d.an.funcs {
			n := d.p.str(id)
			isProto := false
			for _, l := range qLogical {
				if n == l {
					isProto = true
				}
			}
			if !f.Public() || isProto {
				continue
			}
			var moved []string
			for _, st := range fam.states {
				for o := range d.an.outcomes(id, st) {
					if o.exit != st {
						moved = append(moved, fmt.Sprintf("0x%02X→0x%02X (%s)", st, o.exit, o.class))
					}
				}
			}
			sort.Strings(moved)
			if und := d.an.undecBy[id]; len(und) > 0 {
				c.Undecided("Q2.other", d.anchor(n), "the method body is within the analysed subset of Wuffs", strings.Join(und, "; "))
				continue
			}
			c.Check(len(moved) == 0, "Q2.other", d.anchor(n),
				"only decode_image_config, decode_frame_config, decode_frame, restart_frame and tell_me_more move call_sequence; a getter or option setter that moved it would make later in-order calls fail or out-of-order calls pass",
				len(fam.states), fmt.Sprintf("%s: %s", qFile(f), strings.Join(moved, ", ")))
		}
		// Q5: 0x60 is final.
		var away []string
		for tr, fs := range d.an.trans {
			if tr[0] != 0x60 || tr[1] == 0x60 {
				continue
			}
			for id := range fs {
				if n := d.p.str(id); n != qRF {
					away = append(away, fmt.Sprintf("%s moves 0x60→0x%02X", n, tr[1]))
				}
			}
		}
		sort.Strings(away)
		claim5 := "0x60 (the image has ended, \"@end of data\") is final: on no analysed path does an assignment inside a decode call move call_sequence from 0x60 to another state; only restart_frame leaves it. Otherwise a call that has just met the end of the image goes on to report a frame that does not exist"
		c.Check(len(away) == 0, "Q5.final", d.anchor("call_sequence"), claim5, len(d.an.trans), strings.Join(away, "; "))
		if dump {
			qDump(d) // after Q5: the dump also queries private helpers at entry values they are never called with
		}
		nGuards += len(d.an.guards)
		nUpdates += len(d.an.updates)
		c.Floor("Q.guards", "conditions on call_sequence in "+d.name(), len(d.an.guards), 6)
		c.Floor("Q.updates", "assignments to call_sequence in "+d.name(), len(d.an.updates), 4)
	}

	// Q3: sibling agreement among the plain still-image decoders.
	var mnames []string
	for m := range sib {
		mnames = append(mnames, m)
	}
	sort.Strings(mnames)
	for _, m := range mnames {
		best, bestN := "", 0
		var keys []string
		for k := range sib[m] {
			keys = append(keys, k)
		}
		sort.Strings(keys)
		for _, k := range keys {
			if n := len(sib[m][k]); n > bestN {
				best, bestN = k, n
			}
		}
		var dev []string
		total := 0
		for _, k := range keys {
			total += len(sib[m][k])
			if k != best {
				dev = append(dev, fmt.Sprintf("%v: %s", sib[m][k], qDiffKeys(best, k)))
			}
		}
		c.Check(len(dev) == 0, "Q3.sibling", "wuffs std/* decoder."+m,
			"the still-image decoders implement the same interface with the same state constants, so their call-sequence summaries (accept / reject / next state at each documented state) are equal; a decoder that differs from the majority accepts or rejects a call its siblings do not",
			total, fmt.Sprintf("majority (%d of %d decoders): %s\ndeviating: %s", bestN, total, best, strings.Join(dev, "\n")))
	}

	c.Analysed("Q_image_decoders", len(decs))
	c.Analysed("Q_image_decoders_covered", nCovered)
	c.Analysed("Q_methods_checked", nMethods)
	c.Analysed("Q_reference_rows_checked", nRows)
	c.Analysed("Q_guards", nGuards)
	c.Analysed("Q_updates", nUpdates)
	c.Floor("Q0", "structs implementing base.image_decoder", len(decs), 14)
	c.Floor("Q0.covered", "image decoders compared with a frozen machine", nCovered, 14)
	c.Floor("Q3", "plain still-image decoders in the sibling comparison", nStill, 9)
	// 7 interface protocol methods x 14 decoders, minus the two webp wrappers that are not armed; private halves come on top.
	c.Floor("Q2", "protocol methods checked (public wrappers and private halves)", nMethods, 96)
	c.Floor("Q2.rows", "reference rows compared", nRows, 480)
	c.Floor("Q.guards.total", "conditions on call_sequence", nGuards, 120)
	c.Floor("Q.updates.total", "assignments to call_sequence", nUpdates, 70)
}

// qSiblingKey renders the exact classes of a method at the documented states.
func qSiblingKey(d *qDecoder, id t.ID, f *a.Func) string {
	var parts []string
	for _, st := range d.states {
		o := qObserve(st, f.Effect().Coroutine(), d.an.outcomes(id, st))
		parts = append(parts, fmt.Sprintf("0x%02X:{%s}", st, strings.Join(qKeys(o.exact), " ")))
	}
	return strings.Join(parts, " ")
}

func qDiffKeys(a0, b0 string) string {
	x, y := strings.Split(a0, "} "), strings.Split(b0, "} ")
	var out []string
	for i := range x {
		if i < len(y) && x[i] != y[i] {
			out = append(out, strings.TrimSuffix(y[i], "}")+"} instead of "+strings.TrimSuffix(x[i], "}")+"}")
		}
	}
	return strings.Join(out, "; ")
}

// qReach: closure of {0x00} under every way a public method can end without disabling the object.
func qReach(d *qDecoder) []int {
	seen := map[int]bool{0: true}
	work := []int{0}
	var pubs []t.ID
	for id, f := range d.an.funcs {
		if f.Public() {
			pubs = append(pubs, id)
		}
	}
	sort.Slice(pubs, func(i, j int) bool { return pubs[i] < pubs[j] })
	for len(work) > 0 {
		v := work[0]
		work = work[1:]
		for _, id := range pubs {
			f := d.an.funcs[id]
			for o := range d.an.outcomes(id, v) {
				if f.Effect().Coroutine() && (o.class == "err" || o.class == "bcs") {
					continue // disables the object
				}
				if !seen[o.exit] {
					seen[o.exit] = true
					work = append(work, o.exit)
				}
			}
		}
	}
	var out []int
	for v := range seen {
		out = append(out, v)
	}
	sort.Ints(out)
	return out
}

func qNotCovered(c *core.Ctx, d *qDecoder) {
	reach := qReach(d)
	var rs []string
	for _, v := range reach {
		rs = append(rs, fmt.Sprintf("0x%02X", v))
	}
	c.Info("Q1.states", d.anchor("call_sequence"), "NOT ARMED: "+d.name()+" is not compared with a frozen machine (see notes/C08.md); reachable states {"+strings.Join(rs, " ")+"}")
}

// qDump prints the summaries (development aid: WV_Q_DUMP=1).
func qDump(d *qDecoder) {
	var ids []string
	byName := map[string]t.ID{}
	for id, f := range d.an.funcs {
		if f.Public() || d.an.relevant[id] {
			ids = append(ids, d.p.str(id))
			byName[d.p.str(id)] = id
		}
	}
	sort.Strings(ids)
	reach := qReach(d)
	fmt.Printf("#### %s reachable %x\n", d.name(), reach)
	for _, n := range ids {
		id := byName[n]
		f := d.an.funcs[id]
		fmt.Printf("== %s.%s (relevant=%v)\n", d.name(), n, d.an.relevant[id])
		for _, v := range reach {
			o := qObserve(v, f.Effect().Coroutine(), d.an.outcomes(id, v))
			fmt.Printf("   {0x%02X, \"%s\"},  %v\n", v, strings.Join(append(qKeys(o.exact), qKeys(o.mid)...), " "), o.bad)
		}
	}
	for _, u := range d.an.undecidedList() {
		fmt.Println("   UNDECIDED:", u)
	}
	fmt.Printf("   guards=%d updates=%d steps=%d\n", len(d.an.guards), len(d.an.updates), d.an.steps)
}
