package main

import (
	"fmt"
	"go/ast"
	"go/token"
	"go/types"
	"sort"
	"strings"

	"wv/core"
)

// ---------------------------------------------------------------------------
// M4: encodeRaw ≅ decodeRaw — context selection, probability tables, priming.

type rawModel struct {
	fl                *core.Flow
	x                 *symx
	bitCall, byteCall *ast.CallExpr
	loop              ast.Stmt // the for / range loop holding both calls
	loopBody          *ast.BlockStmt
	bitSlot, byteSlot string
	posArr, litArr    *types.Var
	curr              types.Object
	posObj, prevObj   types.Object
}

func constOfObj(g *core.GoProg, name string) (int64, bool) {
	return core.ConstValInt(constOf(g.LookupObj(relLzma, name)))
}

func (r *c17) extractRaw(rule string, dec bool) *rawModel {
	name, bitName, byteName := "encodeRaw", "encodeBit", "encodeByte"
	if dec {
		name, bitName, byteName = "decodeRaw", "decodeBit", "decodeByte"
	}
	fl := r.k.flow(rule, relLzma, "", name)
	if fl == nil {
		return nil
	}
	g := r.k.g
	anchor := fl.F.Name()
	und := func(pos token.Pos, why string) *rawModel {
		r.c.Undecided(rule, anchor, "shape: loop { posProbs[ctx]."+bitName+"(…); litProbs[ctx]."+byteName+"(…); pos++; prev = curr }", g.Pos(pos)+": "+why)
		return nil
	}
	info := fl.F.Info()
	body := fl.F.Decl.Body
	bitFn, byteFn := g.LookupMethod(relLzma, "prob", bitName), g.LookupMethod(relLzma, "byteProbs", byteName)
	if bitFn == nil || byteFn == nil {
		return und(body.Pos(), "bit/byte coder methods not found")
	}
	bc, yc := callsTo(info, body, bitFn), callsTo(info, body, byteFn)
	if len(bc) != 1 || len(yc) != 1 {
		return und(body.Pos(), fmt.Sprintf("%d %s calls and %d %s calls (want 1 and 1)", len(bc), bitName, len(yc), byteName))
	}
	m := &rawModel{fl: fl, x: newSymx(info), bitCall: bc[0], byteCall: yc[0]}
	x := m.x
	x.singleDefs(body)
	// innermost common loop
	for _, n := range core.PathTo(body, m.byteCall) {
		switch v := n.(type) {
		case *ast.ForStmt:
			if inNode(v, m.bitCall) {
				m.loop, m.loopBody = v, v.Body
			}
		case *ast.RangeStmt:
			if inNode(v, m.bitCall) {
				m.loop, m.loopBody = v, v.Body
			}
		}
	}
	if m.loop == nil {
		return und(m.byteCall.Pos(), "bit and byte coder calls are not in a common loop")
	}
	// curr: the literal byte
	if dec {
		for _, n := range core.PathTo(body, m.byteCall) {
			if as, ok := n.(*ast.AssignStmt); ok && len(as.Rhs) == 1 && ast.Unparen(as.Rhs[0]) == ast.Expr(m.byteCall) && len(as.Lhs) == 2 {
				if id, ok := as.Lhs[0].(*ast.Ident); ok {
					m.curr = fl.Obj(id)
				}
			}
		}
	} else if len(m.byteCall.Args) == 2 {
		if id, ok := ast.Unparen(m.byteCall.Args[1]).(*ast.Ident); ok {
			m.curr = fl.Obj(id)
		}
	}
	if m.curr == nil {
		return und(m.byteCall.Pos(), "the literal byte variable was not identified")
	}
	delete(x.inline, m.curr)
	x.names[m.curr] = "CURR"
	// slots
	slot := func(call *ast.CallExpr) (*types.Var, ast.Expr) {
		ix, ok := ast.Unparen(core.RecvOf(call)).(*ast.IndexExpr)
		if !ok {
			return nil, nil
		}
		v, _ := fl.Obj(ix.X).(*types.Var)
		return v, ix.Index
	}
	var bi, yi ast.Expr
	m.posArr, bi = slot(m.bitCall)
	m.litArr, yi = slot(m.byteCall)
	if m.posArr == nil || m.litArr == nil {
		return und(m.bitCall.Pos(), "coder receivers are not elements of local probability arrays")
	}
	// classify leaf variables of the two context expressions by their update signature
	leaves := map[types.Object]bool{}
	var collect func(e ast.Expr, depth int)
	collect = func(e ast.Expr, depth int) {
		ast.Inspect(e, func(n ast.Node) bool {
			id, ok := n.(*ast.Ident)
			if !ok {
				return true
			}
			o, ok := x.obj(id).(*types.Var)
			if !ok || o.IsField() || o == m.curr {
				return true
			}
			if d, ok := x.inline[o]; ok && depth < 8 {
				collect(d, depth+1)
			} else if o.Parent() != o.Pkg().Scope() {
				leaves[o] = true
			}
			return true
		})
	}
	collect(bi, 0)
	collect(yi, 0)
	for o := range leaves {
		x.names[o] = "SELF"
		vals, _ := x.assignmentsTo(body, o)
		delete(x.names, o)
		sort.Strings(vals)
		switch strings.Join(vals, ";") {
		case "#0;" + mk("add", "SELF", "#1"):
			if m.posObj != nil {
				return und(o.Pos(), "two position counters")
			}
			m.posObj = o
		case "#0;CURR":
			if m.prevObj != nil {
				return und(o.Pos(), "two previous-byte variables")
			}
			m.prevObj = o
		default:
			return und(o.Pos(), "context variable "+o.Name()+" has unrecognised updates ["+strings.Join(vals, ";")+"] (want {0, self+1} or {0, curr})")
		}
	}
	if m.posObj == nil || m.prevObj == nil {
		return und(bi.Pos(), "position counter or previous-byte variable not found in the context expressions")
	}
	x.names[m.posObj], x.names[m.prevObj] = "POS", "PREV"
	m.bitSlot, m.byteSlot = x.eval(bi, nil), x.eval(yi, nil)
	return m
}

func (r *c17) rawTwins() {
	c, g := r.c, r.k.g
	enc := r.extractRaw("M4", false)
	dec := r.extractRaw("M4", true)
	if enc == nil || dec == nil {
		return
	}
	ea, da := enc.fl.F.Name(), dec.fl.F.Name()
	both := ea + " ~ " + da
	lc, ok1 := constOfObj(g, "lc")
	lp, ok2 := constOfObj(g, "lp")
	pb, ok3 := constOfObj(g, "pb")
	if !ok1 || !ok2 || !ok3 {
		c.Undecided("M4", relLzma+".lc/lp/pb", "the LZMA parameter constants exist", "lc, lp or pb not found as integer constants")
		return
	}
	wantBit := mk("and", "POS", fmt.Sprintf("#%d", (1<<pb)-1))
	wantByte := mk("or", mk("shl", mk("and", "POS", fmt.Sprintf("#%d", (1<<lp)-1)), fmt.Sprintf("#%d", lc)),
		mk("shr", "conv:uint32(PREV)", fmt.Sprintf("#%d", 8-lc)))
	c.Check(enc.bitSlot == dec.bitSlot && enc.bitSlot == wantBit, "M4.ctx.pos", both,
		"the is-match bit is coded with posProbs[pos & ((1<<pb)-1)] on both sides", 2,
		fmt.Sprintf("%s: encoder %s; %s: decoder %s; from pb=%d: %s", g.Pos(enc.bitCall.Pos()), enc.bitSlot, g.Pos(dec.bitCall.Pos()), dec.bitSlot, pb, wantBit))
	c.Check(enc.byteSlot == dec.byteSlot && enc.byteSlot == wantByte, "M4.ctx.lit", both,
		"the literal is coded with litProbs[((pos & ((1<<lp)-1)) << lc) | (prev >> (8-lc))] on both sides", 2,
		fmt.Sprintf("%s: encoder %s; %s: decoder %s; from lc=%d lp=%d: %s", g.Pos(enc.byteCall.Pos()), enc.byteSlot, g.Pos(dec.byteCall.Pos()), dec.byteSlot, lc, lp, wantByte))

	// Encoder always codes is-match = 0; decoder rejects is-match != 0 before decoding a literal.
	bv, okb := int64(-1), false
	if len(enc.bitCall.Args) == 2 {
		bv, okb = core.ConstInt64(enc.fl.F.Info(), enc.bitCall.Args[1])
	}
	c.Check(okb && bv == 0, "M4.enc.literal", ea, "the encoder codes the constant bit 0 (literal, never a match) before each byte", 1,
		fmt.Sprintf("%s: bit argument constant=%v value=%d", g.Pos(enc.bitCall.Pos()), okb, bv))
	{
		fl := dec.fl
		var bitVar types.Object
		for _, n := range core.PathTo(fl.F.Decl.Body, dec.bitCall) {
			if as, ok := n.(*ast.AssignStmt); ok && len(as.Rhs) == 1 && ast.Unparen(as.Rhs[0]) == ast.Expr(dec.bitCall) && len(as.Lhs) == 2 {
				if id, ok := as.Lhs[0].(*ast.Ident); ok {
					bitVar = fl.Obj(id)
				}
			}
		}
		if bitVar == nil {
			c.Undecided("M4.dec.literal", da, "the decoded is-match bit is bound to a variable", g.Pos(dec.bitCall.Pos())+": not of the form bit, err := …decodeBit(…)")
		} else {
			isBit := func(e ast.Expr) bool { return fl.Obj(e) == bitVar }
			zero := func(e ast.Expr) bool { v, ok := core.ConstInt64(fl.F.Info(), e); return ok && v == 0 }
			r.k.mustPass("M4.dec.literal", da+"[loop body]", "a literal is decoded only on the path where the is-match bit was tested equal to 0 (anything else is reported unsupported, matching an encoder that only emits 0)", fl,
				core.Query{Region: core.RegionOf(dec.loopBody),
					Start: func(n ast.Node) bool {
						return core.Guaranteed(n, func(call *ast.CallExpr) bool { return call == dec.bitCall })
					},
					Exit: func(n ast.Node) bool {
						return core.Guaranteed(n, func(call *ast.CallExpr) bool { return call == dec.byteCall })
					},
					Events: []core.Event{{Edge: func(cond ast.Expr, ci *core.CondInfo, taken bool) bool {
						return (!taken && eqTest(fl, cond, isBit, zero, false)) || (taken && eqTest(fl, cond, isBit, zero, true))
					}}}})
		}
	}
	// Per-iteration state updates after the literal.
	for _, m := range []*rawModel{enc, dec} {
		fl := m.fl
		for _, u := range []struct {
			id   string
			obj  types.Object
			want string
			what string
		}{{"pos", m.posObj, mk("add", "POS", "#1"), "pos++"}, {"prev", m.prevObj, "CURR", "prev = curr"}} {
			obj, want := u.obj, u.want
			ev := core.Event{Node: func(n ast.Node) bool {
				s, ok := n.(ast.Stmt)
				if !ok {
					return false
				}
				vals, _ := m.x.assignmentsTo(s, obj)
				return len(vals) == 1 && vals[0] == want
			}}
			r.k.mustPass("M4.update."+u.id, fl.F.Name()+"[loop body]", "after each literal every continuing path performs "+u.what+" (the context of the next literal)", fl,
				core.Query{Region: core.RegionOf(m.loopBody), FallOut: true,
					Start: func(n ast.Node) bool {
						return core.Guaranteed(n, func(call *ast.CallExpr) bool { return call == m.byteCall })
					},
					Events: []core.Event{ev}})
		}
	}
	// decoder appends exactly the decoded literal
	{
		fl := dec.fl
		dst := fl.Param(0)
		r.k.mustPass("M4.dec.emit", da+"[loop body]", "every continuing path after a literal is decoded appends that literal to dst", fl,
			core.Query{Region: core.RegionOf(dec.loopBody), FallOut: true,
				Start: func(n ast.Node) bool {
					return core.Guaranteed(n, func(call *ast.CallExpr) bool { return call == dec.byteCall })
				},
				Events: []core.Event{{Node: func(n ast.Node) bool {
					as, ok := n.(*ast.AssignStmt)
					if !ok || len(as.Lhs) != 1 || len(as.Rhs) != 1 || fl.Obj(as.Lhs[0]) != dst {
						return false
					}
					call, ok := ast.Unparen(as.Rhs[0]).(*ast.CallExpr)
					if !ok || len(call.Args) != 2 || call.Ellipsis.IsValid() {
						return false
					}
					id, ok := ast.Unparen(call.Fun).(*ast.Ident)
					if !ok {
						return false
					}
					b, ok := fl.F.Info().Uses[id].(*types.Builtin)
					return ok && b.Name() == "append" && fl.Obj(call.Args[0]) == dst && fl.Obj(call.Args[1]) == dec.curr
				}}}})
	}

	// Probability tables: sizes and initialisation.
	r.probTables(enc, dec, lc, lp, pb)
	// Priming / flushing and initial width.
	r.primeFlush(enc, dec)
}

// probTables: array lengths 1<<pb and 1<<(lc+lp); each initialised in full by
// setProbsToOneHalf; setProbsToOneHalf stores the constant 1024 everywhere.
func (r *c17) probTables(enc, dec *rawModel, lc, lp, pb int64) {
	c, g := r.c, r.k.g
	both := enc.fl.F.Name() + " ~ " + dec.fl.F.Name()
	alen := func(v *types.Var) int64 {
		if a, ok := v.Type().Underlying().(*types.Array); ok {
			return a.Len()
		}
		return -1
	}
	c.Check(alen(enc.posArr) == 1<<pb && alen(dec.posArr) == 1<<pb && alen(enc.litArr) == 1<<(lc+lp) && alen(dec.litArr) == 1<<(lc+lp), "M4.tables.size", both,
		"both sides size the is-match table 1<<pb and the literal table 1<<(lc+lp), so every masked context index is in range and the models have the same shape", 4,
		fmt.Sprintf("%s / %s: encoder %d,%d decoder %d,%d; from the constants %d,%d", g.Pos(enc.posArr.Pos()), g.Pos(dec.posArr.Pos()), alen(enc.posArr), alen(enc.litArr), alen(dec.posArr), alen(dec.litArr), 1<<pb, 1<<(lc+lp)))
	setHalf := r.k.fn("M4.tables.init", relLzma, "", "setProbsToOneHalf")
	if setHalf == nil {
		return
	}
	n := 0
	for _, m := range []*rawModel{enc, dec} {
		fl := m.fl
		info := fl.F.Info()
		// whole-array slice of arr, or of arr[key] inside `for key := range arr`
		fullSliceOf := func(e ast.Expr) ast.Expr {
			se, ok := ast.Unparen(e).(*ast.SliceExpr)
			if !ok || se.Low != nil || se.High != nil || se.Max != nil {
				return nil
			}
			return ast.Unparen(se.X)
		}
		okPos, okLit := false, false
		var where token.Pos = fl.F.Decl.Pos()
		ast.Inspect(fl.F.Decl.Body, func(nd ast.Node) bool {
			switch v := nd.(type) {
			case *ast.ExprStmt:
				call, ok := v.X.(*ast.CallExpr)
				if ok && core.IsCallTo(info, call, setHalf) && len(call.Args) == 1 {
					if b := fullSliceOf(call.Args[0]); b != nil && fl.Obj(b) == types.Object(m.posArr) {
						// must be at top level of the function body (unconditional, before the loop)
						for _, s := range fl.F.Decl.Body.List {
							if s == ast.Stmt(v) && v.End() <= m.loop.Pos() {
								okPos = true
							}
						}
					}
				}
			case *ast.RangeStmt:
				if fl.Obj(v.X) != types.Object(m.litArr) || v.Key == nil || v.Tok != token.DEFINE || len(v.Body.List) != 1 {
					return true
				}
				top := false
				for _, s := range fl.F.Decl.Body.List {
					if s == ast.Stmt(v) && v.End() <= m.loop.Pos() {
						top = true
					}
				}
				es, ok := v.Body.List[0].(*ast.ExprStmt)
				if !ok || !top {
					return true
				}
				call, ok := es.X.(*ast.CallExpr)
				if !ok || !core.IsCallTo(info, call, setHalf) || len(call.Args) != 1 {
					return true
				}
				if b := fullSliceOf(call.Args[0]); b != nil {
					if ix, ok := b.(*ast.IndexExpr); ok && fl.Obj(ix.X) == types.Object(m.litArr) && fl.Obj(ix.Index) == fl.Obj(v.Key) {
						okLit = true
					}
				}
			}
			return true
		})
		if okPos {
			n++
		}
		if okLit {
			n++
		}
		c.Check(okPos && okLit, "M4.tables.init", fl.F.Name(), "before the coding loop, the whole is-match table and every row of the literal table are set by setProbsToOneHalf", 2,
			fmt.Sprintf("%s: is-match table initialised=%v, literal table initialised=%v", g.Pos(where), okPos, okLit))
	}
	c.Floor("M4.tables.init", "probability tables initialised by setProbsToOneHalf", n, 4)
	// setProbsToOneHalf itself
	if fl := r.k.flow("K1.initprob", relLzma, "", "setProbsToOneHalf"); fl != nil {
		p := fl.Param(0)
		val, okv := int64(-1), false
		body := fl.F.Decl.Body.List
		if len(body) == 1 {
			if rs, ok := body[0].(*ast.RangeStmt); ok && fl.Obj(rs.X) == p && rs.Key != nil && rs.Value == nil && len(rs.Body.List) == 1 {
				if as, ok := rs.Body.List[0].(*ast.AssignStmt); ok && as.Tok == token.ASSIGN && len(as.Lhs) == 1 && len(as.Rhs) == 1 {
					if ix, ok := ast.Unparen(as.Lhs[0]).(*ast.IndexExpr); ok && fl.Obj(ix.X) == p && fl.Obj(ix.Index) == fl.Obj(rs.Key) {
						val, okv = core.ConstInt64(fl.F.Info(), as.Rhs[0])
					}
				}
			}
		}
		if !okv {
			c.Undecided("K1.initprob", fl.F.Name(), "shape: for i := range p { p[i] = CONST }", g.Pos(fl.F.Decl.Pos())+": not recognised")
		} else {
			c.Check(val == 1024, "K1.initprob", fl.F.Name(), "every probability starts at 1024 = (1<<11)/2, the LZMA initial value", 1,
				fmt.Sprintf("%s: stores %d", g.Pos(fl.F.Decl.Pos()), val))
		}
	}
}

// primeFlush: initial width 0xFFFFFFFF on both sides; the encoder flushes with
// 5 shiftLow calls and the decoder primes from 5 bytes (first must be 0, next
// four big-endian into bits, rest is the range decoder's source).
func (r *c17) primeFlush(enc, dec *rawModel) {
	c, g := r.c, r.k.g
	both := enc.fl.F.Name() + " ~ " + dec.fl.F.Name()
	lit := func(m *rawModel, typ string) (*ast.CompositeLit, map[string]ast.Expr) {
		tobj := g.LookupObj(relLzma, typ)
		var found *ast.CompositeLit
		fields := map[string]ast.Expr{}
		n := 0
		ast.Inspect(m.fl.F.Decl.Body, func(nd ast.Node) bool {
			cl, ok := nd.(*ast.CompositeLit)
			if !ok || tobj == nil {
				return true
			}
			if tv, ok := m.fl.F.Info().Types[cl]; ok && types.Identical(tv.Type, tobj.Type()) {
				n++
				found = cl
				for _, e := range cl.Elts {
					if kv, ok := e.(*ast.KeyValueExpr); ok {
						if id, ok := kv.Key.(*ast.Ident); ok {
							if f, ok := m.fl.F.Info().Uses[id].(*types.Var); ok {
								fields[f.Name()] = kv.Value
							}
						}
					}
				}
			}
			return true
		})
		if n != 1 {
			return nil, nil
		}
		return found, fields
	}
	el, ef := lit(enc, "rangeEncoder")
	dl, df := lit(dec, "rangeDecoder")
	if el == nil || dl == nil || ef["width"] == nil || df["width"] == nil {
		c.Undecided("M4.width0", both, "each side builds its range coder state with one keyed composite literal that sets width", "composite literal of rangeEncoder / rangeDecoder with a width field not found")
		return
	}
	ew, ok1 := core.ConstInt64(enc.fl.F.Info(), ef["width"])
	dw, ok2 := core.ConstInt64(dec.fl.F.Info(), df["width"])
	c.Check(ok1 && ok2 && ew == dw && ew == 0xFFFFFFFF, "M4.width0", both, "both range coders start with width = 0xFFFFFFFF", 2,
		fmt.Sprintf("%s: encoder %#x; %s: decoder %#x", g.Pos(el.Pos()), ew, g.Pos(dl.Pos()), dw))
	// encoder: low/pending fields must start at zero (absent or constant 0)
	zeroOK := true
	for _, f := range []string{"low", "pendingHead", "pendingExtra"} {
		if e := ef[f]; e != nil {
			if v, ok := core.ConstInt64(enc.fl.F.Info(), e); !ok || v != 0 {
				zeroOK = false
			}
		}
	}
	c.Check(zeroOK, "M4.enc.low0", enc.fl.F.Name(), "the encoder starts with low = 0 and an empty pending run (pendingHead = 0 is the leading 0x00 byte the decoder demands)", 1, g.Pos(el.Pos())+": non-zero initial low/pending field")
	// encoder flush count
	shiftLow := g.LookupMethod(relLzma, "rangeEncoder", "shiftLow")
	flush := -1
	var fpos token.Pos = enc.fl.F.Decl.Pos()
	for _, s := range enc.fl.F.Decl.Body.List {
		fs, ok := s.(*ast.ForStmt)
		if !ok || fs.Pos() < enc.loop.End() || len(fs.Body.List) != 1 {
			continue
		}
		es, ok := fs.Body.List[0].(*ast.ExprStmt)
		if !ok {
			continue
		}
		if call, ok := es.X.(*ast.CallExpr); ok && core.IsCallTo(enc.fl.F.Info(), call, shiftLow) {
			if _, vals, ok := tripCount(enc.fl.F.Info(), fs); ok {
				flush, fpos = len(vals), fs.Pos()
			}
		}
	}
	// decoder priming: symbolic evaluation of the literal's fields over parameter src
	x := newSymx(dec.fl.F.Info())
	src := dec.fl.Param(1)
	if src == nil || df["bits"] == nil || df["src"] == nil {
		c.Undecided("M4.prime", dec.fl.F.Name(), "the decoder literal sets bits and src from the src parameter", g.Pos(dl.Pos())+": fields not found")
		return
	}
	x.names[src] = "SRC"
	bits := x.eval(df["bits"], nil)
	rest := x.eval(df["src"], nil)
	b := func(i int) string { return fmt.Sprintf("conv:uint32(idx(SRC,#%d))", i) }
	wantBits := mk("or", mk("or", mk("or", mk("shl", b(1), "#24"), mk("shl", b(2), "#16")), mk("shl", b(3), "#8")), b(4))
	// first-byte test: an `if` at top level before the literal whose disjuncts include src[0] != 0 and returns an error
	firstOK := false
	for _, s := range dec.fl.F.Decl.Body.List {
		is, ok := s.(*ast.IfStmt)
		if !ok || is.Pos() > dl.Pos() || len(is.Body.List) == 0 {
			continue
		}
		rs, ok := is.Body.List[len(is.Body.List)-1].(*ast.ReturnStmt)
		if !ok || len(rs.Results) == 0 {
			continue
		}
		for _, d := range flattenOr(is.Cond) {
			if x.eval(d, nil) == mk("ne", "#0", "idx(SRC,#0)") {
				firstOK = true
			}
		}
	}
	c.Check(flush == 5 && bits == wantBits && rest == "slice(SRC,#5,)" && firstOK, "M4.prime", both,
		"the encoder flushes with exactly 5 shiftLow calls; the decoder primes from exactly 5 bytes: src[0] must be 0x00, src[1..4] big-endian into bits, src[5:] is the coded stream", 5,
		fmt.Sprintf("%s: encoder flush iterations %d; %s: decoder bits=%s src=%s first-byte-zero test=%v", g.Pos(fpos), flush, g.Pos(dl.Pos()), bits, rest, firstOK))
}
