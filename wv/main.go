// Command wv decides the given properties of google/wuffs by static analysis
// of /repo's working tree. See /verif/DESIGN.md.
package main

import (
	"fmt"
	"os"
	"runtime/debug"
	"sort"

	"wv/core"
)

type checker struct {
	run  func(c *core.Ctx)
	spec core.Spec
}

var registry = map[string]checker{}

func register(id string, spec core.Spec, run func(c *core.Ctx)) {
	registry[id] = checker{run, spec}
}

func usage() {
	ids := []string{}
	for id := range registry {
		ids = append(ids, id)
	}
	sort.Strings(ids)
	fmt.Fprintf(os.Stderr, "usage: wv check <id> [--tier quick|thorough]\n  ids: %v\n", ids)
	os.Exit(core.ExitInfra)
}

func main() {
	if len(os.Args) < 3 || os.Args[1] != "check" {
		usage()
	}
	id := os.Args[2]
	tier := "quick"
	for i := 3; i < len(os.Args); i++ {
		switch os.Args[i] {
		case "--tier":
			if i+1 < len(os.Args) {
				tier = os.Args[i+1]
				i++
			}
		case "quick", "thorough":
			tier = os.Args[i]
		}
	}
	if t := os.Getenv("VERIF_TIER"); t == "quick" || t == "thorough" {
		if len(os.Args) == 3 {
			tier = t
		}
	}
	ck, ok := registry[id]
	if !ok {
		usage()
	}
	ctx := core.NewCtx(id, tier)
	code := func() (code int) {
		defer func() {
			if r := recover(); r != nil {
				fmt.Fprintf(os.Stderr, "wv: checker panic: %v\n%s\n", r, debug.Stack())
				ctx.RunCleanups()
				code = core.ExitInfra
			}
		}()
		ck.run(ctx)
		return ctx.Finish(ck.spec)
	}()
	os.Exit(code)
}
