package main

import (
	"fmt"
	"go/ast"
	"go/token"
	"go/types"
	"os"
	"sort"
	"strings"
	"time"

	"golang.org/x/tools/go/ssa"

	"wv/core"
)

func init() {
	register("C11", core.Spec{
		Decides: "five structural clauses of \"the toolchain never crashes\": " +
			"(E7) every recursion of the Go toolchain packages (lang/token, lang/parse, lang/ast, lang/check, lang/render, lang/generate, lang/builtin, internal/cgen, lib/dumbindent, lib/interval, cmd/wuffsfmt, cmd/wuffs-c; VTA call graph over a CHA seed, higher-order helpers resolved per call site) is either cut by a verified depth guard (a counter compared with a constant <= 65536 — a.MaxExprDepth / a.MaxTypeExprDepth / a.MaxBodyDepth — whose exceeded branch returns an ordinary error, which dominates every recursive call, and whose counter is incremented before every recursive call, never reset, and threaded unchanged through same-kind calls), or is listed in a frozen table as a walk over an already built AST (bounded by the parser's guards), a declaration-graph walk, or a walk over embedded templates; in lang/parse every cycle of the call graph must pass through a verified guard and every loop that re-wraps a loop-carried AST node must be guarded, so that both the parser's stack and the depth of the AST it returns are bounded; a new recursive function is reported; " +
			"(P) the explicit panic(...) sites, and the os.Exit / log.Fatal* / log.Panic* / runtime.Goexit calls, that are reachable in the call graph from token.Tokenize, parse.Parse, parse.ParseExpr, check.Check, render.Render, generate.Do, cgen.Do and dumbindent.FormatBytes are exactly the frozen ones, each with its stated pre-condition, and the callers establish the pre-conditions that are structural (makeSliceLengthEqEq's argument is an arbitrary-precision decimal; andBothNonNeg / orBothNonNeg / andOneNegOneNonNeg receive split2Ways components only under their has-flag; bitMask receives BitLen() results); " +
			"(L) lang/token compares against maxLine, maxTokenSize and maxID before the corresponding growth (line++, the token text handed to Map.Insert, the insertion of a new ID); " +
			"(L.index) every index / slice expression on a local slice or string variable (the input src and its sub-strings) in token.Tokenize and the lang/token functions it calls (Unescape, hasPrefix, ID.IsIdent, ID.IsLiteral) whose index has the form v, v+c, v-c, len(s)-c or a constant is in range by a difference-constraint (zone) argument over go/cfg: the length tests, loop conditions, short-circuit operands and assignments passed on every path imply 0 <= index < len (0 <= lo <= hi <= len for slices); " +
			"(N) the accessors of lang/ast that can return nil for a node the parser builds are derived from the constructor calls of lang/parse and lang/ast and must be covered by an explicit table (Assign.LHS, Expr.LHS/MHS/RHS, TypeExpr.ArrayLength/Receiver/Min/Max/Inner, If.ElseIf, Iterate.ElseIterate, IOManip.Arg1/HistoryPosition, Func.Out); in lang/parse every dereferencing method call on such a result is dominated by a nil test of that value, or by a discriminator test whose implication (TypeExpr.Decorator() != 0 ⇒ Inner() != nil) is verified from the same constructor calls; " +
			"(CC) for a systematic construct corpus (corpus/ccompile + wv/c11_cc_gen.go: every operator of cgen's cOpNames x numeric type x operand position, conversions between all pairs, type shapes to depth 3 x declaration position, method kinds, statement forms, one call of every built-in of lang/builtin's tables that has a C lowering) the working tree's compiler accepts each program and gcc, clang and g++ accept the C it emits (-fsyntax-only; nothing is executed), and the corpus, measured on its type-checked syntax trees, reaches every case of the cgen tables it targets",
		NotDecided: "implicit panics other than the two clauses above: nil dereferences in lang/check, lang/render, lang/generate and internal/cgen (their uses of the may-be-nil accessors rest on operator tests whose implications were not verified, so N.lhs covers lang/parse only; `Bounds()` returns both bounds in an array and is not tracked; a may-be-nil value passed as an argument, stored in a field or returned is not followed), index expressions on arrays, maps, struct fields and with non-linear indices (listed as L.index.other), indexing outside lang/token, failed type assertions, integer division by zero, out-of-memory; slicing is judged against len, not cap; machine-integer overflow of index arithmetic is not modelled; termination of loops (infinite loops, e.g. in lib/dumbindent or fixed-point iterations in cgen's liveness); the value-level pre-conditions of the frozen panic sites in lib/interval (operand bit lengths <= 0xFFFF / 1<<30, livenesses of equal length); stack consumption per recursion level (a guard bounds the depth, not the bytes; the declaration-graph walk ast.tssVisit is bounded only by maxID = 2^20 distinct names); recursion that passes through standard-library callbacks; that the C emitted for accepted programs is accepted by the C compiler (clause 3 of DESIGN §4 C11 is implemented separately)",
		Assumptions: []string{
			"go/types, go/cfg, go/ssa and go/callgraph/{cha,vta} (x/tools v0.29.0) are sound for this code: no reflection or unsafe is used to call functions",
			"error-return idioms enumerated in core.IsErrorReturn",
			"the frozen tables (derived walkers, declaration-graph walks, panic pre-conditions) were each confirmed by reading the function; they are listed with their reason in every run's INFO lines",
			"a Go stack of 1 GB accommodates 65536 nested frames of any function of the toolchain",
			"N: As*() casts are applied according to Node.Kind (a write through an (*Iterate) view changes an Iterate); elements of node lists are never nil; a parse function's pointer result is used only after its error result was tested (summaries consider non-error returns)",
			"(CC) gcc 12, clang 14 and g++ 12 with -fsyntax-only report the constraint violations a full compilation would; the corpus programs are the ones the unchanged tree accepts (a rejected corpus program is undecided, never skipped)",
		},
	}, runC11)
}

// c11Scope: packages whose recursion is examined.
var c11Scope = map[string]bool{
	"lang/token": true, "lang/parse": true, "lang/ast": true, "lang/check": true, "lang/render": true,
	"lang/generate": true, "lang/builtin": true, "lang/wuffsroot": true, "internal/cgen": true,
	"lib/dumbindent": true, "lib/interval": true, "cmd/wuffsfmt": true, "cmd/wuffs-c": true,
}

const c11MaxLimit = 65536

// Frozen guard rows: functions that carry a depth guard today. Removing or
// disabling one is reported even though the parser's guard would still bound
// the tree they walk.
var c11GuardRows = []struct{ fn, limit, why string }{
	{"lang/check.(*checker).bcheckExpr", "lang/ast.MaxExprDepth", "bounds-checks an expression tree"},
	{"lang/check.(*checker).tcheckExpr", "lang/ast.MaxExprDepth", "type-checks an expression tree"},
	{"lang/check.(*checker).tcheckTypeExpr", "lang/ast.MaxTypeExprDepth", "type-checks a type expression"},
	{"lang/ast.(*Expr).appendStr", "lang/ast.MaxExprDepth", "prints an expression (used in every error message)"},
	{"lang/ast.(*TypeExpr).appendStr", "lang/ast.MaxTypeExprDepth", "prints a type expression"},
	{"internal/cgen.(*gen).writeStatement", "lang/ast.MaxBodyDepth", "emits C for nested statements"},
	{"internal/cgen.(*gen).writeExpr", "lang/ast.MaxExprDepth", "emits C for an expression tree"},
	{"internal/cgen.(*livenessHelper).doBlock", "lang/ast.MaxBodyDepth", "liveness over nested blocks"},
	{"internal/cgen.(*livenessHelper).doExpr1", "lang/ast.MaxBodyDepth", "liveness over an expression tree"},
	{"cmd/wuffs-c.(*genReleaseHelper).gen", "1024", "follows #include chains of the embedded base files"},
}

// Frozen classification of the recursive functions that remain once the
// verified guard functions are removed from the call graph. Each was read.
//
//	derived  — walks an AST that the parser already built; depth <= the depth of that AST
//	decl1    — walks the declaration graph, one frame of one function per level; depth <= number of distinct names <= maxID
//	decl     — walks the declaration graph through several functions per level: must carry its own guard
//	template — walks the embedded base-file templates; independent of the input
var c11Residual = map[string][2]string{
	// lang/ast
	"lang/ast.(*Node).Walk":              {"derived", "generic pre-order walk over Node.SubNodes/SubLists"},
	"lang/ast.(*Expr).Eq":                {"derived", "structural equality of two expression trees"},
	"lang/ast.(*TypeExpr).Eq":            {"derived", "structural equality of two type expressions (array lengths are expressions)"},
	"lang/ast.(*TypeExpr).eq":            {"derived", "structural equality of two type expressions"},
	"lang/ast.(*Expr).Mentions":          {"derived", "sub-expression search"},
	"lang/ast.(*TypeExpr).Str":           {"derived", "mutual recursion with Expr.appendStr through array lengths; both appendStr carry guards"},
	"lang/ast.(*TypeExpr).CloneReadOnly": {"derived", "copies the decorator chain of a type expression"},
	"lang/ast.Terminates":                {"derived", "last statement of nested blocks"},
	"lang/ast.tssVisit":                  {"decl1", "topological sort of structs by field type: one tssVisit frame per struct in a dependency chain"},
	// lang/check
	"lang/check.(*Checker).checkNoRecursiveFuncs1": {"decl", "depth-first search of the Wuffs call graph: one level per function in a call chain, each level costing checkNoRecursiveFuncs1 + a stack of ast.Walk frames + the closure"},
	"lang/check.(*Checker).checkConstElement":      {"derived", "nested const lists; nLists is bounded by the roarray nesting counted against a.MaxTypeExprDepth in checkConst"},
	"lang/check.(*facts).appendFact":               {"derived", "splits a conjunction into its conjuncts"},
	"lang/check.bcheckExprConstValue":              {"derived", "sets bounds on a constant expression tree"},
	"lang/check.invert":                            {"derived", "negates a boolean expression tree (De Morgan)"},
	"lang/check.simplify":                          {"derived", "simplifies x - y style expressions"},
	"lang/check.(*checker).bcheckBlock":            {"derived", "nested statement blocks"},
	"lang/check.(*checker).bcheckIf":               {"derived", "nested statement blocks"},
	"lang/check.(*checker).bcheckStatement":        {"derived", "nested statement blocks"},
	"lang/check.(*checker).bcheckWhile":            {"derived", "nested statement blocks"},
	"lang/check.(*checker).tcheckLoop":             {"derived", "nested statement blocks"},
	"lang/check.(*checker).tcheckStatement":        {"derived", "nested statement blocks"},
	"lang/check.(*checker).bcheckTypeExpr":         {"derived", "bounds of a type expression: recursion on the inner type"},
	"lang/check.(*checker).bcheckTypeExpr1":        {"derived", "bounds of a type expression: recursion on the inner type"},
	// internal/cgen
	"internal/cgen.(*gen).writeConstList": {"derived", "nested const lists"},
	"internal/cgen.expandBangInsert":      {"template", "expands `// ¡ INSERT` lines of the embedded base/*.h files through a map of closures"},
	"internal/cgen.insertBaseAllPublicH":  {"template", "caller of expandBangInsert; the cycle exists only in the context-insensitive graph"},
}

func runC11(c *core.Ctx) {
	k := newG(c, "./lang/...", "./internal/cgen", "./lib/dumbindent", "./cmd/wuffsfmt", "./cmd/wuffs-c")
	if only := os.Getenv("C11_ONLY"); only != "" {
		// development aid: run the syntax-level clauses alone. Never a verdict.
		c.Undecided("dev", "C11_ONLY="+only, "the whole property is evaluated", "C11_ONLY is set: the call-graph clauses were skipped, so this run cannot pass")
		if strings.Contains(only, "index") {
			c11IndexGuards(k)
		}
		if strings.Contains(only, "nil") {
			c11NilResults(k)
		}
		if strings.Contains(only, "control") {
			c11Control(c)
		}
		return
	}
	runErrDrop(k, "lang/token", "lang/parse", "lang/ast", "lang/builtin", "lang/render", "lang/generate", "internal/cgen")
	c11X(c, k)
	t0 := time.Now()
	G := buildC11Graph(k.g)
	c11T("graph", t0)
	c.Analysed("callgraph", fmt.Sprintf("cha+vta: %d functions in the program, %d source-level functions of the module, %d module-to-module edges", G.nAll, len(G.nodes), G.nEdge))
	var hofs []string
	for f := range G.hof {
		hofs = append(hofs, G.nm(f))
	}
	sort.Strings(hofs)
	c.Analysed("higher_order_helpers_resolved_per_call_site", hofs)
	if os.Getenv("C11_DUMP") != "" {
		c11Dump(G)
	}
	t0 = time.Now()
	c11Recursion(k, G)
	c11T("recursion", t0)
	t0 = time.Now()
	c11Panics(k, G)
	c11T("panics", t0)
	t0 = time.Now()
	c11TokenLimits(k)
	c11T("token", t0)
	t0 = time.Now()
	c11IndexGuards(k)
	c11T("index", t0)
	t0 = time.Now()
	c11NilResults(k)
	c11T("nil", t0)
	t0 = time.Now()
	c11Control(c)
	c11T("control", t0)
	c11CC(c, k) // last clause of C11: the emitted C is accepted by the C compiler (c11_cc.go)
}

func c11T(what string, t0 time.Time) {
	if os.Getenv("C11_TIME") != "" {
		fmt.Fprintf(os.Stderr, "c11: %-10s %.2fs\n", what, time.Since(t0).Seconds())
	}
}

func c11Dump(G *c11Graph) {
	fmt.Printf("functions: %d module / %d all; edges %d\n", len(G.nodes), G.nAll, G.nEdge)
	for _, comp := range G.sccs(func(*ssa.Function) bool { return true }, nil) {
		var names []string
		for _, f := range comp {
			names = append(names, G.nm(f))
		}
		fmt.Printf("SCC[%d] %s\n", len(comp), strings.Join(names, "\n       "))
	}
}

// nm is the stable display name of a function: pkg.(Recv).Name for
// declarations, the SSA name (parent$N) for function literals.
func (G *c11Graph) nm(f *ssa.Function) string {
	if d := G.declOf(f); d != nil {
		return d.Name()
	}
	if p := f.Parent(); p != nil {
		return G.nm(p) + strings.TrimPrefix(f.Name(), p.Name())
	}
	return G.name[f]
}

// ---------------------------------------------------------------------------
// Depth guards
// ---------------------------------------------------------------------------

// c11Counter identifies the depth counter of a guard.
type c11Counter struct {
	kind string       // "param": integer parameter; "field": integer field of a parameter/receiver; "len": len(slice parameter); "local": local variable (loops only)
	obj  types.Object // the parameter / field / local
}

func (ct c11Counter) String() string {
	switch ct.kind {
	case "len":
		return "len(" + ct.obj.Name() + ")"
	case "field":
		return "field " + ct.obj.Name()
	}
	return ct.kind + " " + ct.obj.Name()
}

type c11Guard struct {
	fl        *core.Flow
	ifs       *ast.IfStmt
	atom      ast.Expr
	ctr       c11Counter
	limit     int64
	limitName string
	problems  []string
	sites     int
}

func c11IsParam(fl *core.Flow, o types.Object) bool {
	if o == nil {
		return false
	}
	if fl.Recv() == o {
		return true
	}
	for i := 0; ; i++ {
		p := fl.Param(i)
		if p == nil {
			return false
		}
		if p == o {
			return true
		}
	}
}

func c11IsInteger(t types.Type) bool {
	b, ok := t.Underlying().(*types.Basic)
	return ok && b.Info()&types.IsInteger != 0
}

// c11CounterOf recognises the counter forms.
func c11CounterOf(fl *core.Flow, e ast.Expr) (c11Counter, bool) {
	info := fl.F.Info()
	e = ast.Unparen(e)
	if tv, ok := info.Types[e]; !ok || tv.Value != nil || !c11IsInteger(tv.Type) {
		return c11Counter{}, false
	}
	switch x := e.(type) {
	case *ast.Ident:
		v, ok := info.Uses[x].(*types.Var)
		if !ok || v.IsField() || v.Parent() == nil || v.Pkg() == nil || v.Parent() == v.Pkg().Scope() {
			return c11Counter{}, false
		}
		if c11IsParam(fl, v) {
			return c11Counter{"param", v}, true
		}
		return c11Counter{"local", v}, true
	case *ast.SelectorExpr:
		v, ok := info.Uses[x.Sel].(*types.Var)
		if !ok || !v.IsField() {
			return c11Counter{}, false
		}
		if id, ok := ast.Unparen(x.X).(*ast.Ident); ok && c11IsParam(fl, info.Uses[id]) {
			return c11Counter{"field", v}, true
		}
	case *ast.CallExpr:
		if id, ok := x.Fun.(*ast.Ident); ok && len(x.Args) == 1 {
			if b, ok := info.Uses[id].(*types.Builtin); ok && b.Name() == "len" {
				if a, ok := ast.Unparen(x.Args[0]).(*ast.Ident); ok && c11IsParam(fl, info.Uses[a]) {
					return c11Counter{"len", info.Uses[a]}, true
				}
			}
		}
	}
	return c11Counter{}, false
}

func c11SameCounter(fl *core.Flow, e ast.Expr, ct c11Counter) bool {
	got, ok := c11CounterOf(fl, e)
	return ok && got.obj == ct.obj && got.kind == ct.kind
}

// c11Refers: e denotes the counter's storage (the variable or the field),
// regardless of integer-ness of the surrounding expression.
func c11Refers(fl *core.Flow, e ast.Expr, ct c11Counter) bool {
	info := fl.F.Info()
	switch x := ast.Unparen(e).(type) {
	case *ast.Ident:
		return info.Uses[x] == ct.obj || info.Defs[x] == ct.obj
	case *ast.SelectorExpr:
		return info.Uses[x.Sel] == ct.obj
	}
	return false
}

// c11IsIncrement: executing statement n certainly increases the counter.
func c11IsIncrement(fl *core.Flow, n ast.Node, ct c11Counter) bool {
	info := fl.F.Info()
	posConst := func(e ast.Expr) bool {
		v, ok := core.ConstInt64(info, e)
		return ok && v > 0
	}
	plusConst := func(e ast.Expr) bool {
		b, ok := ast.Unparen(e).(*ast.BinaryExpr)
		if !ok || b.Op != token.ADD {
			return false
		}
		return (c11Refers(fl, b.X, ct) && posConst(b.Y)) || (c11Refers(fl, b.Y, ct) && posConst(b.X))
	}
	switch s := n.(type) {
	case *ast.IncDecStmt:
		return ct.kind != "len" && s.Tok == token.INC && c11Refers(fl, s.X, ct)
	case *ast.AssignStmt:
		if len(s.Lhs) != len(s.Rhs) {
			return false
		}
		for i, l := range s.Lhs {
			if !c11Refers(fl, l, ct) {
				continue
			}
			if ct.kind == "len" {
				// X = append(X, v…)
				call, ok := ast.Unparen(s.Rhs[i]).(*ast.CallExpr)
				if !ok || len(call.Args) < 2 || call.Ellipsis.IsValid() {
					return false
				}
				id, ok := call.Fun.(*ast.Ident)
				if !ok {
					return false
				}
				b, ok := info.Uses[id].(*types.Builtin)
				return ok && b.Name() == "append" && s.Tok == token.ASSIGN && c11Refers(fl, call.Args[0], ct)
			}
			switch s.Tok {
			case token.ADD_ASSIGN:
				return posConst(s.Rhs[i])
			case token.ASSIGN:
				return plusConst(s.Rhs[i])
			}
		}
	}
	return false
}

// c11OtherWrite: statement n writes the counter in a way that is not an increment.
func c11OtherWrite(fl *core.Flow, n ast.Node, ct c11Counter) bool {
	switch s := n.(type) {
	case *ast.IncDecStmt:
		return c11Refers(fl, s.X, ct) && !c11IsIncrement(fl, n, ct)
	case *ast.AssignStmt:
		for _, l := range s.Lhs {
			if c11Refers(fl, l, ct) && !c11IsIncrement(fl, n, ct) {
				return true
			}
		}
	case *ast.UnaryExpr:
		return s.Op == token.AND && c11Refers(fl, s.X, ct)
	}
	return false
}

func c11HasErrorResult(fl *core.Flow) bool {
	sig, ok := fl.F.Obj.Type().(*types.Signature)
	if !ok || sig.Results().Len() == 0 {
		return false
	}
	last := sig.Results().At(sig.Results().Len() - 1).Type()
	return types.Identical(last, types.Universe.Lookup("error").Type())
}

func c11IsPanicStmt(info *types.Info, n ast.Node) bool {
	es, ok := n.(*ast.ExprStmt)
	if !ok {
		return false
	}
	call, ok := es.X.(*ast.CallExpr)
	if !ok {
		return false
	}
	id, ok := call.Fun.(*ast.Ident)
	if !ok {
		return false
	}
	b, ok := info.Uses[id].(*types.Builtin)
	return ok && b.Name() == "panic"
}

// c11Implied calls f for every atom whose truth value is implied by leaving
// cond along the given edge: !(A || B) gives !A and !B; (A && B) gives A and
// B; negations flip. (go/cfg keeps a compound condition as one node.)
func c11Implied(cond ast.Expr, taken bool, f func(atom ast.Expr, val bool) bool) bool {
	e := ast.Unparen(cond)
	switch x := e.(type) {
	case *ast.UnaryExpr:
		if x.Op == token.NOT {
			return c11Implied(x.X, !taken, f)
		}
	case *ast.BinaryExpr:
		if (x.Op == token.LOR && !taken) || (x.Op == token.LAND && taken) {
			return c11Implied(x.X, taken, f) || c11Implied(x.Y, taken, f)
		}
		if x.Op == token.LOR || x.Op == token.LAND {
			return false
		}
	}
	return f(e, taken)
}

type c11Atom struct {
	ifs   *ast.IfStmt
	atom  ast.Expr
	d     ast.Expr
	k     ast.Expr
	limit int64
}

// c11GuardAtoms lists the `if … D REL K …` conditions of the body (function
// literals excluded) in which K is an integer constant, REL makes the branch
// taken when D is large (>, >=, ==; operand order normalised) and the atom is
// a disjunct of the condition. `==` is accepted for loop counters only.
func c11GuardAtoms(fl *core.Flow, root ast.Node, allowEq bool) []c11Atom {
	info := fl.F.Info()
	var out []c11Atom
	ast.Inspect(root, func(n ast.Node) bool {
		switch x := n.(type) {
		case *ast.FuncLit:
			return false
		case *ast.IfStmt:
			for _, at := range flattenOr(x.Cond) {
				b, ok := ast.Unparen(at).(*ast.BinaryExpr)
				if !ok {
					continue
				}
				d, kx, op := b.X, b.Y, b.Op
				if _, isK := core.ConstInt64(info, kx); !isK {
					d, kx, op = b.Y, b.X, mirror(b.Op)
				}
				kv, isK := core.ConstInt64(info, kx)
				if !isK {
					continue
				}
				if _, dConst := core.ConstInt64(info, d); dConst {
					continue
				}
				if op != token.GTR && op != token.GEQ && !(allowEq && op == token.EQL) {
					continue
				}
				out = append(out, c11Atom{x, at, d, kx, kv})
			}
		}
		return true
	})
	return out
}

func c11LimitName(info *types.Info, e ast.Expr, v int64) string {
	var o types.Object
	switch x := ast.Unparen(e).(type) {
	case *ast.Ident:
		o = info.Uses[x]
	case *ast.SelectorExpr:
		o = info.Uses[x.Sel]
	}
	if cst, ok := o.(*types.Const); ok && cst.Pkg() != nil {
		return strings.TrimPrefix(cst.Pkg().Path(), core.Mod+"/") + "." + cst.Name()
	}
	return fmt.Sprint(v)
}

// c11VerifyGuard checks one candidate guard of function fl against the set
// of recursive call sites (Lparen positions of calls that stay inside the
// function's SCC).
//
//	g1  the exceeded branch neither recurses, nor panics, nor falls out, nor returns success
//	g2  every path from the entry to a recursive call leaves the guard on its not-exceeded edge
//	g3  every path from the entry to a recursive call increments the counter (or passes counter+c)
//	g4  the function does not write the counter in any other way
func c11VerifyGuard(fl *core.Flow, at c11Atom, sites map[token.Pos]bool, wantKinds string) *c11Guard {
	info := fl.F.Info()
	ct, ok := c11CounterOf(fl, at.d)
	if !ok || !strings.Contains(wantKinds, ct.kind) {
		return nil
	}
	g := &c11Guard{fl: fl, ifs: at.ifs, atom: at.atom, ctr: ct, limit: at.limit, limitName: c11LimitName(info, at.k, at.limit)}
	if at.limit < 1 || at.limit > c11MaxLimit {
		g.problems = append(g.problems, fmt.Sprintf("limit %s = %d is outside [1, %d]", g.limitName, at.limit, c11MaxLimit))
	}
	isRec := func(n ast.Node) bool { return len(c11CallsAt(n, sites)) > 0 }
	threaded := func(n ast.Node) bool {
		calls := c11CallsAt(n, sites)
		for _, call := range calls {
			okc := false
			for _, a := range call.Args {
				if b, isb := ast.Unparen(a).(*ast.BinaryExpr); isb && b.Op == token.ADD {
					if v, isk := core.ConstInt64(info, b.Y); isk && v > 0 && c11SameCounter(fl, b.X, ct) {
						okc = true
					}
					if v, isk := core.ConstInt64(info, b.X); isk && v > 0 && c11SameCounter(fl, b.Y, ct) {
						okc = true
					}
				}
			}
			if !okc {
				return false
			}
		}
		return len(calls) > 0
	}
	hasErr := c11HasErrorResult(fl)
	// g1
	esc, n1 := fl.Escapes(core.Query{Region: core.RegionOf(at.ifs.Body), FallOut: true, Exit: func(n ast.Node) bool {
		if isRec(n) || c11IsPanicStmt(info, n) {
			return true
		}
		if r, ok := n.(*ast.ReturnStmt); ok && hasErr {
			return !fl.IsErrorReturn(r)
		}
		return false
	}})
	for _, e := range esc {
		g.problems = append(g.problems, "the branch taken when the limit is exceeded does not end in an ordinary error return: "+e.String())
	}
	if n1 == 0 {
		g.problems = append(g.problems, "the branch taken when the limit is exceeded is empty")
	}
	// g2
	esc, n2 := fl.Escapes(core.Query{Exit: isRec, Events: []core.Event{{Edge: func(cond ast.Expr, ci *core.CondInfo, taken bool) bool {
		return c11Implied(cond, taken, func(a ast.Expr, v bool) bool { return !v && a == ast.Unparen(at.atom) })
	}}}})
	for _, e := range esc {
		g.problems = append(g.problems, "a recursive call is reachable without passing the guard: "+e.String())
	}
	// g3
	esc, _ = fl.Escapes(core.Query{Exit: func(n ast.Node) bool { return isRec(n) && !threaded(n) },
		Events: []core.Event{{Node: func(n ast.Node) bool { return c11IsIncrement(fl, n, ct) }}}})
	for _, e := range esc {
		g.problems = append(g.problems, fmt.Sprintf("a recursive call is reachable without incrementing %s: %s", ct, e.String()))
	}
	// g4
	if ct.kind != "field" { // field counters: every write in the package is examined by E7.counter
		ast.Inspect(fl.F.Decl.Body, func(n ast.Node) bool {
			if n != nil && c11OtherWrite(fl, n, ct) {
				g.problems = append(g.problems, fmt.Sprintf("%s: %s is written by something other than an increment: `%s`", fl.F.Prog.Pos(n.Pos()), ct, core.Src(fl.F.Prog.Fset, n)))
			}
			return true
		})
	}
	g.sites = n1 + n2
	return g
}

// recSites: positions of the calls in f whose callee lies in the same
// recursive component.
func (G *c11Graph) recSites(f *ssa.Function, comp map[*ssa.Function]bool) map[token.Pos]bool {
	out := map[token.Pos]bool{}
	for _, e := range G.succ[f] {
		if comp[e.To] && e.Site.IsValid() {
			out[e.Site] = true
		}
	}
	return out
}

// bestGuard returns the verified guard of f (nil problems), or the candidate
// with the fewest problems, or nil when the function has no candidate.
func (G *c11Graph) bestGuard(f *ssa.Function, comp map[*ssa.Function]bool, flows map[*ssa.Function]*core.Flow) *c11Guard {
	d := G.declOf(f)
	if d == nil {
		return nil
	}
	fl := flows[f]
	if fl == nil {
		fl = core.NewFlow(d)
		flows[f] = fl
	}
	sites := G.recSites(f, comp)
	if len(sites) == 0 {
		return nil
	}
	var best *c11Guard
	for _, at := range c11GuardAtoms(fl, d.Decl.Body, false) {
		g := c11VerifyGuard(fl, at, sites, "param field len")
		if g == nil {
			continue
		}
		if best == nil || len(g.problems) < len(best.problems) {
			best = g
		}
	}
	return best
}

// ---------------------------------------------------------------------------
// E7: recursion
// ---------------------------------------------------------------------------

// c11Rec is the recursion analysis of one program: the recursive components
// in scope, the best guard candidate of each recursive function, the verified
// guard functions, and the components that remain recursive without them.
type c11Rec struct {
	comps    [][]*ssa.Function
	compOf   map[*ssa.Function]map[*ssa.Function]bool
	flows    map[*ssa.Function]*core.Flow
	guards   map[*ssa.Function]*c11Guard
	verified map[*ssa.Function]bool
	residual [][]*ssa.Function
	nrec     int
}

func c11Analyse(G *c11Graph, inScope func(*ssa.Function) bool) *c11Rec {
	R := &c11Rec{compOf: map[*ssa.Function]map[*ssa.Function]bool{}, flows: map[*ssa.Function]*core.Flow{},
		guards: map[*ssa.Function]*c11Guard{}, verified: map[*ssa.Function]bool{}}
	R.comps = G.sccs(inScope, nil)
	for _, comp := range R.comps {
		m := map[*ssa.Function]bool{}
		for _, f := range comp {
			m[f] = true
			R.compOf[f] = m
			R.nrec++
		}
	}
	for _, comp := range R.comps {
		for _, f := range comp {
			if gd := G.bestGuard(f, R.compOf[f], R.flows); gd != nil {
				R.guards[f] = gd
				if len(gd.problems) == 0 {
					R.verified[f] = true
				}
			}
		}
	}
	R.residual = G.sccs(inScope, R.verified)
	return R
}

func c11Recursion(k *gctx, G *c11Graph) {
	c := k.c
	g := k.g
	inScope := func(f *ssa.Function) bool { return c11Scope[G.pkgRel(f)] }
	R := c11Analyse(G, inScope)
	comps, compOf, flows, guards, verified := R.comps, R.compOf, R.flows, R.guards, R.verified
	c.Analysed("recursive_components", len(comps))
	c.Analysed("recursive_functions", R.nrec)
	byName := map[string]*ssa.Function{}
	for _, f := range G.nodes {
		byName[G.nm(f)] = f
	}
	nResidualParse := 0

	// --- E7.guard: the frozen guard rows -----------------------------------
	{
		for _, row := range c11GuardRows {
			claim := fmt.Sprintf("%s (%s) compares a depth counter with %s before recursing, returns an ordinary error beyond it, and increments the counter before every recursive call", row.fn, row.why, row.limit)
			f := byName[row.fn]
			if f == nil {
				c.Undecided("E7.guard", row.fn, claim, "anchor function not found in the call graph")
				continue
			}
			if compOf[f] == nil {
				c.Pass("E7.guard", row.fn, claim, 1, "the function is no longer recursive: the row is moot")
				continue
			}
			gd := guards[f]
			switch {
			case gd == nil:
				c.Fail("E7.guard", row.fn, claim, len(G.recSites(f, compOf[f])),
					fmt.Sprintf("%s: no `if counter > constant { return error }` guard found in %s (recursive calls: %s)", g.Pos(G.declOf(f).Decl.Pos()), row.fn, G.recCallList(f, compOf[f])))
			case len(gd.problems) > 0:
				c.Fail("E7.guard", row.fn, claim, gd.sites, fmt.Sprintf("%s: guard `%s` found but:\n%s", g.Pos(gd.ifs.Pos()), core.Src(g.Fset, gd.atom), strings.Join(gd.problems, "\n")))
			default:
				c.Pass("E7.guard", row.fn, claim, gd.sites, fmt.Sprintf("%s: `%s` (counter: %s, limit %s = %d) dominates %d recursive call sites", g.Pos(gd.ifs.Pos()), core.Src(g.Fset, gd.atom), gd.ctr, gd.limitName, gd.limit, len(G.recSites(f, compOf[f]))))
			}
		}
		c.Floor("E7.guard", "frozen depth-guard rows", len(c11GuardRows), 10)
	}

	// --- residual recursion once the verified guard functions are cut ------
	residual := R.residual
	nOther := 0
	var parserComps [][]*ssa.Function
	for _, comp := range residual {
		isParse := false
		for _, f := range comp {
			if G.pkgRel(f) == "lang/parse" {
				isParse = true
			}
		}
		if isParse {
			parserComps = append(parserComps, comp)
			continue
		}
		nOther++
		// Outside the parser: every member must be in the frozen table.
		kinds := map[string]bool{}
		var unknown []string
		for _, f := range comp {
			row, ok := c11ResidualRow(G, f)
			if !ok {
				unknown = append(unknown, G.nm(f))
				continue
			}
			kinds[row[0]] = true
		}
		anchor := G.nm(G.head(comp))
		for _, f := range comp {
			if c11Residual[G.nm(f)][0] == "decl" && G.declOf(f) != nil {
				anchor = G.nm(f)
			}
		}
		names := G.names(comp)
		cyc := G.names(G.cycleThrough(comp, verified, byName[anchor]))
		if len(unknown) > 0 {
			var why []string
			for _, f := range comp {
				if gd := guards[f]; gd != nil && len(gd.problems) > 0 {
					why = append(why, fmt.Sprintf("%s has a guard `%s` that does not verify: %s", G.nm(f), core.Src(g.Fset, gd.atom), strings.Join(gd.problems, "; ")))
				}
			}
			c.Fail("E7.new", anchor, "every recursive function outside lang/parse is cut by a verified depth guard or is listed, with its reason, in the frozen table of AST / declaration-graph / template walkers",
				len(comp), fmt.Sprintf("%s: recursive component {%s} is not cut by a verified guard and contains functions that are not in the frozen table: %s\ncycle: %s\n%s\ntriage: is the depth driven by the input? then add a guard; otherwise add a row with the reason",
					G.posOf(byName[unknown[0]]), strings.Join(names, ", "), strings.Join(unknown, ", "), strings.Join(cyc, " -> "), strings.Join(why, "\n")))
			continue
		}
		switch {
		case kinds["decl"]:
			c.Fail("E7.decl", anchor, "a recursion over the declaration graph that spends several frames per level carries its own depth guard (the only other bound is the number of distinct names, maxID = 2^20 levels)",
				len(comp), fmt.Sprintf("%s: {%s} recurses once per declaration in a chain, through the cycle %s -> %s, with no verified depth guard: %s",
					G.posOf(byName[anchor]), strings.Join(names, ", "), strings.Join(cyc, " -> "), anchor, c11Residual[anchor][1]))
		default:
			var reasons []string
			for _, f := range comp {
				row, _ := c11ResidualRow(G, f)
				reasons = append(reasons, G.nm(f)+": "+row[1])
			}
			kind := "derived"
			for kd := range kinds {
				if kd != "derived" {
					kind = kd
				}
			}
			c.Pass("E7."+kind, anchor, c11KindClaim(kind), len(comp), strings.Join(reasons, "; "))
			c.Info("E7."+kind, anchor, fmt.Sprintf("unguarded recursion accepted as %s: {%s}", kind, strings.Join(names, ", ")))
		}
	}
	{
		c.Floor("E7.derived", "residual recursive components outside lang/parse classified against the frozen table", nOther, 15)
		// Guards that were discovered outside the frozen rows are informational.
		var extra []string
		frozen := map[string]bool{}
		for _, r := range c11GuardRows {
			frozen[r.fn] = true
		}
		for f := range verified {
			if !frozen[G.nm(f)] {
				extra = append(extra, fmt.Sprintf("%s (%s vs %s)", G.nm(f), guards[f].ctr, guards[f].limitName))
			}
		}
		sort.Strings(extra)
		if len(extra) > 0 {
			c.Info("E7.guard", "discovered", "verified guards outside the frozen rows: "+strings.Join(extra, ", "))
		}
	}

	// --- E7.parse: in the parser every cycle must pass through a guard -----
	nParseRec := 0
	for _, comp := range comps {
		isParse := false
		for _, f := range comp {
			if G.pkgRel(f) == "lang/parse" {
				isParse = true
			}
		}
		if !isParse {
			continue
		}
		nParseRec++
		anchor := G.nm(G.head(comp))
		claim := "every cycle of this recursive component of the parser passes through a function with a verified depth guard (nesting in the source text drives this recursion, so an unguarded cycle overflows the stack on deeply nested input)"
		var left [][]*ssa.Function
		for _, rc := range parserComps {
			if compOf[comp[0]][rc[0]] {
				left = append(left, rc)
			}
		}
		var gnames []string
		for _, f := range comp {
			if verified[f] {
				gnames = append(gnames, fmt.Sprintf("%s [%s > %s]", G.nm(f), guards[f].ctr, guards[f].limitName))
			}
		}
		if len(left) == 0 {
			c.Pass("E7.parse", anchor, claim, len(comp), fmt.Sprintf("{%s}: acyclic once the guarded functions are removed: %s", strings.Join(G.names(comp), ", "), strings.Join(gnames, ", ")))
			continue
		}
		nResidualParse += len(left)
		var lines []string
		for _, rc := range left {
			cyc := G.cycleIn(rc, verified)
			lines = append(lines, fmt.Sprintf("%s: unguarded cycle %s -> %s   (component: %s)", G.posOf(cyc[0]), strings.Join(G.names(cyc), " -> "), G.nm(cyc[0]), strings.Join(G.names(rc), ", ")))
			for _, f := range rc {
				if gd := guards[f]; gd != nil && len(gd.problems) > 0 {
					lines = append(lines, fmt.Sprintf("  %s has a guard `%s` (%s) that does not verify:\n    %s", G.nm(f), core.Src(g.Fset, gd.atom), g.Pos(gd.ifs.Pos()), strings.Join(gd.problems, "\n    ")))
				}
			}
		}
		if len(gnames) > 0 {
			lines = append(lines, "verified guards in this component: "+strings.Join(gnames, ", "))
		} else {
			lines = append(lines, "no function of this component compares a depth counter with a.MaxExprDepth / a.MaxTypeExprDepth / a.MaxBodyDepth")
		}
		c.Fail("E7.parse", anchor, claim, len(comp), strings.Join(lines, "\n"))
	}
	{
		c.Floor("E7.parse", "recursive components in lang/parse (expressions/types, statements/blocks, const lists)", nParseRec, 3)
		c11Build(k, flows)
		c11CounterWrites(k, guards, verified, G)
		c11Threading(k, G, comps, compOf, guards, verified)
	}
	_ = nResidualParse
}

// c11ResidualRow looks a function up in the frozen table; a function literal
// is classified by its enclosing declaration (literal ordinals are not stable).
func c11ResidualRow(G *c11Graph, f *ssa.Function) ([2]string, bool) {
	for f.Parent() != nil {
		f = f.Parent()
	}
	row, ok := c11Residual[G.nm(f)]
	return row, ok
}

func c11KindClaim(kind string) string {
	switch kind {
	case "decl1":
		return "this unguarded recursion walks the declaration graph with one frame per level; its depth is bounded by the number of distinct names (L.id: maxID)"
	case "template":
		return "this unguarded recursion walks the embedded templates and does not depend on the input"
	}
	return "this unguarded recursion walks an AST that the parser already built, so its depth is bounded by the parser's guards (E7.parse, E7.build)"
}

// head is the member of comp with the most call sites from outside comp
// (the natural entry point); ties are broken by name.
func (G *c11Graph) head(comp []*ssa.Function) *ssa.Function {
	in := map[*ssa.Function]bool{}
	for _, f := range comp {
		in[f] = true
	}
	ext := map[*ssa.Function]int{}
	for _, f := range G.nodes {
		if in[f] {
			continue
		}
		for _, e := range G.succ[f] {
			if in[e.To] {
				ext[e.To]++
			}
		}
	}
	best := comp[0]
	for _, f := range comp {
		if G.declOf(f) == nil {
			continue
		}
		if G.declOf(best) == nil || ext[f] > ext[best] {
			best = f
		}
	}
	return best
}

func (G *c11Graph) names(fs []*ssa.Function) []string {
	var out []string
	for _, f := range fs {
		out = append(out, G.nm(f))
	}
	return out
}

func (G *c11Graph) posOf(f *ssa.Function) string {
	if f == nil {
		return "?"
	}
	return G.g.Pos(f.Pos())
}

func (G *c11Graph) recCallList(f *ssa.Function, comp map[*ssa.Function]bool) string {
	var out []string
	for _, e := range G.succ[f] {
		if comp[e.To] {
			out = append(out, fmt.Sprintf("%s at %s", G.nm(e.To), G.g.Pos(e.Site)))
		}
	}
	return strings.Join(out, ", ")
}

// --- E7.build: loops of the parser that deepen the AST without recursing ---

// A loop "re-wraps" v when its body assigns v = New…(… v …): every iteration
// adds one level to the tree under construction (x.y.z, x[i][j], f()()).
func c11Build(k *gctx, flows map[*ssa.Function]*core.Flow) {
	c := k.c
	g := k.g
	p := g.Pkg("lang/parse")
	if p == nil {
		c.Undecided("E7.build", "lang/parse", "package loaded", "lang/parse not loaded")
		return
	}
	n := 0
	for _, f := range g.AllFuncs(p) {
		info := f.Info()
		var fl *core.Flow
		ast.Inspect(f.Decl.Body, func(m ast.Node) bool {
			var body *ast.BlockStmt
			switch x := m.(type) {
			case *ast.ForStmt:
				body = x.Body
			case *ast.RangeStmt:
				body = x.Body
			default:
				return true
			}
			// wrap assignments directly in this loop (not in a nested loop or literal)
			var wraps []*ast.AssignStmt
			var wrapped types.Object
			ast.Inspect(body, func(q ast.Node) bool {
				switch y := q.(type) {
				case *ast.FuncLit, *ast.ForStmt, *ast.RangeStmt:
					return q == ast.Node(body)
				case *ast.AssignStmt:
					if y.Tok != token.ASSIGN || len(y.Lhs) != len(y.Rhs) {
						return true
					}
					for i, l := range y.Lhs {
						id, ok := l.(*ast.Ident)
						if !ok {
							continue
						}
						v, ok := info.Uses[id].(*types.Var)
						if !ok || (v.Pos() >= body.Pos() && v.Pos() < body.End()) {
							continue // declared inside the loop: not loop-carried
						}
						call, ok := ast.Unparen(y.Rhs[i]).(*ast.CallExpr)
						if !ok {
							continue
						}
						fn := core.Callee(info, call)
						if fn == nil || fn.Pkg() == nil || !strings.HasSuffix(fn.Pkg().Path(), "/lang/ast") || !strings.HasPrefix(fn.Name(), "New") {
							continue
						}
						for _, a := range call.Args {
							if core.Mentions(info, a, v) {
								wraps = append(wraps, y)
								wrapped = v
								break
							}
						}
					}
				}
				return true
			})
			if len(wraps) == 0 {
				return true
			}
			n++
			if fl == nil {
				fl = core.NewFlow(f)
			}
			anchor := fmt.Sprintf("%s[loop re-wrapping %s]", f.Name(), wrapped.Name())
			claim := "a loop that wraps the node built so far into a new ast node on every iteration (selector / index / call suffixes) compares a depth counter with a constant <= 65536, returns an ordinary error beyond it, and increments the counter, before each wrap: otherwise `x.a.a.a…` yields an arbitrarily deep AST without any parser recursion and the unguarded AST walkers (ast.Walk, Eq, …) overflow the stack"
			isWrap := func(q ast.Node) bool {
				for _, w := range wraps {
					if q == ast.Node(w) {
						return true
					}
				}
				return false
			}
			var best []string
			okAny := false
			sites := 0
			for _, at := range c11GuardAtoms(fl, body, true) {
				ct, ok := c11CounterOf(fl, at.d)
				if !ok {
					continue
				}
				if ct.kind == "local" && ct.obj.Pos() >= body.Pos() && ct.obj.Pos() < body.End() {
					continue // reset on every iteration
				}
				var probs []string
				if at.limit < 1 || at.limit > c11MaxLimit {
					probs = append(probs, fmt.Sprintf("limit %d outside [1, %d]", at.limit, c11MaxLimit))
				}
				hasErr := c11HasErrorResult(fl)
				esc, n1 := fl.Escapes(core.Query{Region: core.RegionOf(at.ifs.Body), FallOut: true, Exit: func(q ast.Node) bool {
					if isWrap(q) || c11IsPanicStmt(info, q) {
						return true
					}
					if r, ok := q.(*ast.ReturnStmt); ok && hasErr {
						return !fl.IsErrorReturn(r)
					}
					return false
				}})
				for _, e := range esc {
					probs = append(probs, "exceeded branch does not end in an error return: "+e.String())
				}
				esc, n2 := fl.Escapes(core.Query{Region: core.RegionOf(body), Exit: isWrap, Events: []core.Event{{Edge: func(cond ast.Expr, ci *core.CondInfo, taken bool) bool {
					return c11Implied(cond, taken, func(a ast.Expr, v bool) bool { return !v && a == ast.Unparen(at.atom) })
				}}}})
				for _, e := range esc {
					probs = append(probs, "a wrap is reachable in an iteration without passing the guard: "+e.String())
				}
				esc, n3 := fl.Escapes(core.Query{Region: core.RegionOf(body), Exit: isWrap, Events: []core.Event{{Node: func(q ast.Node) bool { return c11IsIncrement(fl, q, ct) }}}})
				for _, e := range esc {
					probs = append(probs, fmt.Sprintf("a wrap is reachable in an iteration without incrementing %s: %s", ct, e.String()))
				}
				if len(probs) == 0 && n1 > 0 && n2 > 0 && n3 > 0 {
					okAny = true
					sites = n1 + n2 + n3
					c.Pass("E7.build", anchor, claim, sites, fmt.Sprintf("%s: `%s` (counter %s, limit %s) precedes %d wrap assignments", g.Pos(at.ifs.Pos()), core.Src(g.Fset, at.atom), ct, c11LimitName(info, at.k, at.limit), len(wraps)))
					break
				}
				best = append(best, fmt.Sprintf("candidate `%s` at %s: %s", core.Src(g.Fset, at.atom), g.Pos(at.ifs.Pos()), strings.Join(probs, "; ")))
			}
			if !okAny {
				var ws []string
				for _, w := range wraps {
					ws = append(ws, fmt.Sprintf("%s `%s`", g.Pos(w.Pos()), core.Src(g.Fset, w)))
				}
				d := "no depth guard in the loop body"
				if len(best) > 0 {
					d = strings.Join(best, "\n")
				}
				c.Fail("E7.build", anchor, claim, len(wraps), fmt.Sprintf("%s: loop re-wraps %s at:\n%s\n%s", g.Pos(m.Pos()), wrapped.Name(), strings.Join(ws, "\n"), d))
			}
			return true
		})
	}
	c.Floor("E7.build", "parser loops that re-wrap a loop-carried ast node (parseOperand's suffix loop)", n, 1)
}

// --- E7.counter: every write of a field-kind depth counter -----------------

func c11CounterWrites(k *gctx, guards map[*ssa.Function]*c11Guard, verified map[*ssa.Function]bool, G *c11Graph) {
	c := k.c
	g := k.g
	fields := map[types.Object][]string{}
	for f, gd := range guards {
		if verified[f] && gd.ctr.kind == "field" {
			fields[gd.ctr.obj] = append(fields[gd.ctr.obj], G.nm(f))
		}
	}
	if len(fields) == 0 {
		c.Info("E7.counter", "lang/parse", "no struct-field depth counter is in use by a verified guard (nothing to examine)")
		return
	}
	var objs []types.Object
	for o := range fields {
		objs = append(objs, o)
	}
	sort.Slice(objs, func(i, j int) bool { return objs[i].Pos() < objs[j].Pos() })
	for _, fo := range objs {
		ct := c11Counter{"field", fo}
		pkg := g.ByPth[fo.Pkg().Path()]
		anchor := strings.TrimPrefix(fo.Pkg().Path(), core.Mod+"/") + "." + fo.Name()
		claim := "a struct-field depth counter is only ever incremented, decremented by one in a single deferred closure registered after an increment, or restored by a deferred closure to a value saved from the field itself; any other write (a reset, a stray decrement) would let the guard be passed at unbounded depth"
		var bad []string
		nw := 0
		for _, f := range g.AllFuncs(pkg) {
			fl := core.NewFlow(f)
			info := f.Info()
			// defer statements whose function literal touches the counter
			type dlit struct {
				ds  *ast.DeferStmt
				lit *ast.FuncLit
			}
			var dlits []dlit
			ast.Inspect(f.Decl.Body, func(n ast.Node) bool {
				if ds, ok := n.(*ast.DeferStmt); ok {
					if lit, ok := ds.Call.Fun.(*ast.FuncLit); ok {
						dlits = append(dlits, dlit{ds, lit})
					}
				}
				return true
			})
			inDefer := func(n ast.Node) *dlit {
				for i := range dlits {
					if n.Pos() >= dlits[i].lit.Pos() && n.End() <= dlits[i].lit.End() {
						return &dlits[i]
					}
				}
				return nil
			}
			nDeferredDec := 0
			afterInc := func(target ast.Node) bool {
				esc, n := fl.Escapes(core.Query{Exit: func(q ast.Node) bool { return q == target },
					Events: []core.Event{{Node: func(q ast.Node) bool { return c11IsIncrement(fl, q, ct) }}}})
				return len(esc) == 0 && n > 0
			}
			ast.Inspect(f.Decl.Body, func(n ast.Node) bool {
				if n == nil {
					return true
				}
				if c11IsIncrement(fl, n, ct) {
					nw++
					if inDefer(n) != nil {
						bad = append(bad, fmt.Sprintf("%s: increment inside a deferred closure `%s`", g.Pos(n.Pos()), core.Src(g.Fset, n)))
					}
					return true
				}
				if !c11OtherWrite(fl, n, ct) {
					return true
				}
				nw++
				switch s := n.(type) {
				case *ast.IncDecStmt: // decrement
					if d := inDefer(n); d != nil {
						nDeferredDec++
						if !afterInc(d.ds) {
							bad = append(bad, fmt.Sprintf("%s: deferred decrement `%s` is registered on a path that has not incremented the counter", g.Pos(n.Pos()), core.Src(g.Fset, n)))
						}
						if nDeferredDec > 1 {
							bad = append(bad, fmt.Sprintf("%s: second deferred decrement `%s` in one function", g.Pos(n.Pos()), core.Src(g.Fset, n)))
						}
					} else {
						bad = append(bad, fmt.Sprintf("%s: decrement `%s` outside a deferred closure (only `defer func() { counter-- }()` after an increment, or a deferred restore of a saved value, is recognised as balanced)", g.Pos(n.Pos()), core.Src(g.Fset, n)))
					}
				case *ast.AssignStmt:
					ok := false
					if d := inDefer(n); d != nil && s.Tok == token.ASSIGN && len(s.Lhs) == 1 && len(s.Rhs) == 1 {
						// p.f = d, d the literal's parameter bound to p.f at the defer statement
						if id, isID := ast.Unparen(s.Rhs[0]).(*ast.Ident); isID {
							pi := -1
							idx := 0
							for _, fld := range d.lit.Type.Params.List {
								for _, nm := range fld.Names {
									if info.Defs[nm] == info.Uses[id] {
										pi = idx
									}
									idx++
								}
							}
							if pi >= 0 && pi < len(d.ds.Call.Args) && c11Refers(fl, d.ds.Call.Args[pi], ct) {
								ok = true
							}
						}
					}
					if s.Tok == token.SUB_ASSIGN && len(s.Rhs) == 1 {
						if v, isk := core.ConstInt64(info, s.Rhs[0]); isk && v == 1 {
							if d := inDefer(n); d != nil {
								nDeferredDec++
								ok = afterInc(d.ds) && nDeferredDec == 1
							}
						}
					}
					if !ok {
						bad = append(bad, fmt.Sprintf("%s: `%s` writes the counter (not an increment, a balanced decrement, or a deferred restore of a saved value)", g.Pos(n.Pos()), core.Src(g.Fset, n)))
					}
				default:
					bad = append(bad, fmt.Sprintf("%s: `%s` takes the counter's address", g.Pos(n.Pos()), core.Src(g.Fset, n)))
				}
				return true
			})
		}
		sort.Strings(fields[fo])
		c.Check(len(bad) == 0 && nw > 0, "E7.counter", anchor, claim, nw,
			fmt.Sprintf("%d writes examined in %s; guards using it: %s\n%s", nw, pkg.PkgPath, strings.Join(fields[fo], ", "), strings.Join(bad, "\n")))
	}
}

// --- E7.thread: the counter is handed on, not reset -------------------------

// Within a recursive component, a function whose parameter is (transitively)
// handed to a guard's counter parameter of limit L must hand that parameter
// (or parameter+c) to every callee parameter that also feeds a guard of limit
// L: passing a constant there restarts the count inside the recursion.
func c11Threading(k *gctx, G *c11Graph, comps [][]*ssa.Function, compOf map[*ssa.Function]map[*ssa.Function]bool, guards map[*ssa.Function]*c11Guard, verified map[*ssa.Function]bool) {
	c := k.c
	g := k.g
	type dpKey struct {
		fn  *types.Func
		idx int
	}
	nCalls, nThreaded, nEntry := 0, 0, 0
	var bad []string
	for _, comp := range comps {
		// depth parameters: seeds are verified param-kind guards
		dp := map[dpKey]map[string]bool{} // (func, param index) -> limit names it feeds
		paramIdx := func(d *core.Func, o types.Object) int {
			idx := 0
			for _, fld := range d.Decl.Type.Params.List {
				for _, nm := range fld.Names {
					if d.Info().Defs[nm] == o {
						return idx
					}
					idx++
				}
			}
			return -1
		}
		members := map[*types.Func]*ssa.Function{}
		for _, f := range comp {
			if d := G.declOf(f); d != nil && d.Obj != nil {
				members[d.Obj] = f
			}
			if gd := guards[f]; gd != nil && verified[f] && gd.ctr.kind == "param" {
				d := G.declOf(f)
				if i := paramIdx(d, gd.ctr.obj); i >= 0 {
					dp[dpKey{d.Obj, i}] = map[string]bool{gd.limitName: true}
				}
			}
		}
		if len(dp) == 0 {
			continue
		}
		type callRec struct {
			from   *core.Func
			call   *ast.CallExpr
			callee *types.Func
		}
		var calls []callRec
		for _, f := range comp {
			d := G.declOf(f)
			if d == nil {
				continue
			}
			ast.Inspect(d.Decl.Body, func(n ast.Node) bool {
				if call, ok := n.(*ast.CallExpr); ok {
					if fn := core.Callee(d.Info(), call); fn != nil && members[fn.Origin()] != nil {
						calls = append(calls, callRec{d, call, fn.Origin()})
					}
				}
				return true
			})
		}
		// backward propagation to pass-through parameters
		for changed := true; changed; {
			changed = false
			for _, cr := range calls {
				for i, a := range cr.call.Args {
					lim := dp[dpKey{cr.callee, i}]
					if lim == nil {
						continue
					}
					id, ok := ast.Unparen(a).(*ast.Ident)
					if !ok {
						if b, isb := ast.Unparen(a).(*ast.BinaryExpr); isb && b.Op == token.ADD {
							id, ok = ast.Unparen(b.X).(*ast.Ident)
						}
						if !ok {
							continue
						}
					}
					pi := paramIdx(cr.from, cr.from.Info().Uses[id])
					if pi < 0 {
						continue
					}
					kk := dpKey{cr.from.Obj, pi}
					if dp[kk] == nil {
						dp[kk] = map[string]bool{}
					}
					for l := range lim {
						if !dp[kk][l] {
							dp[kk][l] = true
							changed = true
						}
					}
				}
			}
		}
		// check
		for _, cr := range calls {
			for i, a := range cr.call.Args {
				lim := dp[dpKey{cr.callee, i}]
				if lim == nil {
					continue
				}
				// the caller's depth parameters of an intersecting kind
				var mine []types.Object
				idx := 0
				for _, fld := range cr.from.Decl.Type.Params.List {
					for _, nm := range fld.Names {
						if l2 := dp[dpKey{cr.from.Obj, idx}]; l2 != nil {
							for l := range l2 {
								if lim[l] {
									mine = append(mine, cr.from.Info().Defs[nm])
									break
								}
							}
						}
						idx++
					}
				}
				if len(mine) == 0 {
					nEntry++
					continue // entry into this kind of counting
				}
				nCalls++
				okc := false
				e := ast.Unparen(a)
				if b, isb := e.(*ast.BinaryExpr); isb && b.Op == token.ADD {
					if v, isk := core.ConstInt64(cr.from.Info(), b.Y); isk && v > 0 {
						e = ast.Unparen(b.X)
					}
				}
				if id, isID := e.(*ast.Ident); isID {
					for _, m := range mine {
						if cr.from.Info().Uses[id] == m {
							okc = true
						}
					}
				}
				if okc {
					nThreaded++
				} else {
					var ls []string
					for l := range lim {
						ls = append(ls, l)
					}
					sort.Strings(ls)
					bad = append(bad, fmt.Sprintf("%s: %s calls %s with `%s` as its depth (limit %s) instead of its own depth parameter %s", g.Pos(cr.call.Pos()), cr.from.Name(), core.FuncFullName(cr.callee), core.Src(g.Fset, a), strings.Join(ls, "/"), mine[0].Name()))
				}
			}
		}
	}
	c.Check(len(bad) == 0, "E7.thread", "depth parameters", "inside a recursive component a function that received a depth hands the same depth (or depth+c) to every callee counting against the same limit; a constant there restarts the count in the middle of the recursion", nCalls,
		fmt.Sprintf("%d same-limit calls examined, %d threaded, %d entry calls (caller has no depth of that kind)\n%s", nCalls, nThreaded, nEntry, strings.Join(bad, "\n")))
	c.Floor("E7.thread", "same-limit depth hand-overs inside recursive components (lang/check, lang/ast, internal/cgen)", nCalls, 150)
}
